import L21.Model.LefWrite
import L21.Props.C05
/-
Round trip of the LEF writer and reader models at token level: `parse ∘ write = id`.
-/
namespace L21.Lef
open L21.LefLex L21.LefEnum L21.Gen

/-! ### keywords and enumerated values -/
def isVariant (table : String) (v : String) : Bool := (toStr (enumTable table) v).isSome

/-- every entry of every regenerated table: the printed string is read back as the variant -/
theorem table_roundtrip : lefEnums.all (fun t => t.2.all fun p =>
    LefEnum.parse t.2 ((toStr t.2 p.1).getD "").toList == some p.1) = true := by decide +kernel

theorem tables_nodup_names : (lefEnums.map (·.1)).Nodup := by decide +kernel

theorem lookup_mem {β : Type} : ∀ (l : List (String × β)) (k : String) (t : β), l.lookup k = some t → (k, t) ∈ l := by
  intro l
  induction l with
  | nil => intro k t h; simp [List.lookup] at h
  | cons x xs ih =>
    intro k t h
    obtain ⟨k', v⟩ := x
    simp only [List.lookup] at h
    split at h
    · rename_i heq
      simp only [beq_iff_eq] at heq
      subst heq; cases h; simp
    · exact List.mem_cons_of_mem _ (ih k t h)

theorem enumTable_mem (table : String) (h : (lefEnums.lookup table).isSome = true) : (table, enumTable table) ∈ lefEnums := by
  unfold enumTable
  cases hl : lefEnums.lookup table with
  | none => simp [hl] at h
  | some t => simpa using lookup_mem lefEnums table t hl

theorem toStr_mem (tbl : Table) (v s : String) (h : toStr tbl v = some s) : (v, s) ∈ tbl := by
  unfold toStr at h
  cases hf : tbl.find? (fun x => x.1 == v) with
  | none => simp [hf] at h
  | some p =>
    simp [hf] at h
    have h1 := List.find?_some hf
    have h2 := List.mem_of_find?_eq_some hf
    obtain ⟨a, b⟩ := p
    simp at h1 h
    subst h1; subst h
    exact h2

/-- a printed keyword / enum value is read back as its variant -/
theorem parse_kwText (table v : String) (ht : (lefEnums.lookup table).isSome = true) (hv : isVariant table v = true) :
    LefEnum.parse (enumTable table) (kwText table v) = some v := by
  have hmem := enumTable_mem table ht
  have hall := List.all_eq_true.1 table_roundtrip _ hmem
  unfold isVariant at hv
  cases hs : toStr (enumTable table) v with
  | none => simp [hs] at hv
  | some s =>
    have := List.all_eq_true.1 hall (v, s) (toStr_mem _ _ _ hs)
    simp only [hs, Option.getD_some, beq_iff_eq] at this
    simp only [kwText, hs, Option.getD_some]
    exact this

theorem lookup_LefKey : (lefEnums.lookup "LefKey").isSome = true := by decide +kernel

theorem keyTable_eq : keyTable = enumTable "LefKey" := rfl

def isKey (v : String) : Bool := isVariant "LefKey" v

theorem peekKey_kw (v : String) (r : List Tok) (h : isKey v = true) : peekKey (kw v :: r) = some v := by
  simp only [peekKey, kw, keyTable_eq]
  exact parse_kwText "LefKey" v lookup_LefKey h

theorem getKey_kw (v : String) (r : List Tok) (h : isKey v = true) : getKey (kw v :: r) = some (v, r) := by
  simp only [getKey, getName, expectTT, kw, keyTable_eq, beq_self_eq_true, if_true]
  rw [parse_kwText "LefKey" v lookup_LefKey h]
  rfl

theorem expectKey_kw (v : String) (r : List Tok) (h : isKey v = true) : expectKey v (kw v :: r) = some ((), r) := by
  simp [expectKey, getKey_kw v r h]

theorem parseEnum_en (table v : String) (r : List Tok) (ht : (lefEnums.lookup table).isSome = true) (hv : isVariant table v = true) :
    parseEnum table (en table v :: r) = some (v, r) := by
  simp only [parseEnum, getName, expectTT, en, beq_self_eq_true, if_true]
  rw [parse_kwText table v ht hv]
  rfl

/-! ### plain tokens -/
theorem getName_ident (s : Str) (r : List Tok) : getName (ident s :: r) = some (s, r) := by
  simp [getName, expectTT, ident]
theorem semi_semiTok (r : List Tok) : semi (semiTok :: r) = some ((), r) := by
  simp [semi, expectTT, semiTok]
theorem matches_semi (r : List Tok) : matchesTT .semi (semiTok :: r) = true := by simp [matchesTT, semiTok]
theorem not_matches_semi_kw (v : String) (r : List Tok) : matchesTT .semi (kw v :: r) = false := by simp [matchesTT, kw]

/-- decimals that survive printing and reading (a decidable condition; see `decOk_of_bounds`) -/
def decOk (d : Dec) : Bool := parseDecText (decText d) == some d

theorem number_num (d : Dec) (r : List Tok) (h : decOk d = true) : number (num d :: r) = some (d, r) := by
  simp only [decOk, beq_iff_eq] at h
  simp [number, expectTT, num, h]

theorem matches_number_num (d : Dec) (r : List Tok) : matchesTT .number (num d :: r) = true := by simp [matchesTT, num]

def ptOk (p : Pt) : Bool := decOk p.x && decOk p.y

theorem point_wPt (p : Pt) (r : List Tok) (h : ptOk p = true) : point (wPt p ++ r) = some (p, r) := by
  simp only [ptOk, Bool.and_eq_true] at h
  simp [point, wPt, number_num, h.1, h.2]

/-! ### geometries -/
theorem k_Mask : isKey "Mask" = true := by decide +kernel
theorem k_Iterate : isKey "Iterate" = true := by decide +kernel
theorem k_Rect : isKey "Rect" = true := by decide +kernel
theorem k_Polygon : isKey "Polygon" = true := by decide +kernel
theorem k_Path : isKey "Path" = true := by decide +kernel
theorem k_Do : isKey "Do" = true := by decide +kernel
theorem k_By : isKey "By" = true := by decide +kernel
theorem k_Step : isKey "Step" = true := by decide +kernel

theorem pointList_w : ∀ (ps : List Pt) (rest : List Tok) (f : Nat), ps.length + 1 ≤ f → ps.all ptOk = true →
    matchesTT .number rest = false → pointList f (ps.flatMap wPt ++ rest) = some (ps, rest) := by
  intro ps
  induction ps with
  | nil =>
    intro rest f hf _ hr
    obtain ⟨g, rfl⟩ : ∃ g, f = g + 1 := ⟨f - 1, by simp at hf; omega⟩
    simp [pointList, hr]
  | cons p r ih =>
    intro rest f hf hok hr
    obtain ⟨g, rfl⟩ : ∃ g, f = g + 1 := ⟨f - 1, by simp at hf; omega⟩
    simp only [List.all_cons, Bool.and_eq_true] at hok
    simp only [List.flatMap_cons, List.append_assoc, pointList]
    have hm : matchesTT .number (wPt p ++ (r.flatMap wPt ++ rest)) = true := by simp [wPt, matches_number_num]
    rw [hm, if_pos rfl, point_wPt p _ hok.1]
    simp only []
    rw [ih rest g (by simp at hf; omega) hok.2 hr]
    rfl

def maskOk (m : Option Dec) : Bool := match m with | some d => decOk d | none => true

/-- MASK clause followed by a token that is either the ITERATE keyword or a number -/
theorem geomMask_w (m : Option Dec) (t : Tok) (r : List Tok) (hm : maskOk m = true)
    (ht : t = kw "Iterate" ∨ t.tt = .number) : geomMask (wMask m ++ t :: r) = some (m, t :: r) := by
  cases m with
  | none =>
    simp only [wMask, opt, List.nil_append, geomMask]
    rcases ht with rfl | ht
    · have : matchesTT .name (kw "Iterate" :: r) = true := by simp [matchesTT, kw]
      simp [this, peekKey_kw "Iterate" r k_Iterate]
    · have : matchesTT .name (t :: r) = false := by simp [matchesTT, ht]
      simp [this]
  | some d =>
    simp only [maskOk] at hm
    simp only [wMask, opt, List.cons_append, List.nil_append, geomMask]
    have : matchesTT .name (kw "Mask" :: num d :: t :: r) = true := by simp [matchesTT, kw]
    simp [this, peekKey_kw "Mask" _ k_Mask, number_num d _ hm]

theorem geomIterate_w (it : Bool) (t : Tok) (r : List Tok) (ht : t.tt = .number) :
    geomIterate ((if it then [kw "Iterate"] else []) ++ t :: r) = some (it, t :: r) := by
  cases it with
  | true =>
    have : matchesTT .name (kw "Iterate" :: t :: r) = true := by simp [matchesTT, kw]
    simp [geomIterate, this, peekKey_kw "Iterate" _ k_Iterate]
  | false =>
    have : matchesTT .name (t :: r) = false := by simp [matchesTT, ht]
    simp [geomIterate, this]

def stepOk (p : Step) : Bool := decOk p.numx && decOk p.numy && decOk p.spacex && decOk p.spacey

theorem stepPattern_w (p : Step) (r : List Tok) (h : stepOk p = true) :
    stepPattern (kw "Do" :: num p.numx :: kw "By" :: num p.numy :: kw "Step" :: num p.spacex :: num p.spacey :: r) = some (p, r) := by
  simp only [stepOk, Bool.and_eq_true] at h
  obtain ⟨⟨⟨h1, h2⟩, h3⟩, h4⟩ := h
  simp [stepPattern, expectKey_kw, k_Do, k_By, k_Step, number_num, h1, h2, h3, h4]

def shapeOk : Shape → Bool
  | .rect m a b => maskOk m && ptOk a && ptOk b
  | .polygon m ps => maskOk m && ps.all ptOk && decide (3 ≤ ps.length)
  | .path m ps => maskOk m && ps.all ptOk && decide (2 ≤ ps.length)

def geomOk : Geometry → Bool
  | .shape s => shapeOk s
  | .iterate s p => shapeOk s && stepOk p

theorem num_tt (d : Dec) : (num d).tt = .number := rfl
theorem flatMap_wPt_cons (p : Pt) (ps : List Pt) (rest : List Tok) :
    (p :: ps).flatMap wPt ++ rest = num p.x :: num p.y :: (ps.flatMap wPt ++ rest) := by simp [wPt]

theorem flatMap_wPt_length (ps : List Pt) : (ps.flatMap wPt).length = 2 * ps.length := by
  induction ps with
  | nil => rfl
  | cons p r ih => simp only [List.flatMap_cons, List.length_append, wPt, List.length_cons, List.length_nil, ih]; omega

/-- the tail after the points: `;` or `DO … ;` -/
def wTail (it : Option Step) : List Tok :=
  match it with
  | none => [semiTok]
  | some p => [kw "Do", num p.numx, kw "By", num p.numy, kw "Step", num p.spacex, num p.spacey, semiTok]

theorem geomTail_w (s : Shape) (it : Option Step) (r : List Tok) (h : (match it with | some p => stepOk p | none => true) = true) :
    geomTail it.isSome s (wTail it ++ r) = some (match it with | some p => .iterate s p | none => .shape s, r) := by
  cases it with
  | none => simp [geomTail, wTail, semi_semiTok]
  | some p => simp [geomTail, wTail, stepPattern_w p _ h, semi_semiTok]

theorem wTail_not_number (it : Option Step) (r : List Tok) : matchesTT .number (wTail it ++ r) = false := by
  cases it <;> simp [wTail, matchesTT, semiTok, kw]

theorem matches_name_kw (v : String) (r : List Tok) : matchesTT .name (kw v :: r) = true := by simp [matchesTT, kw]
theorem matches_name_num (d : Dec) (r : List Tok) : matchesTT .name (num d :: r) = false := by simp [matchesTT, num]
theorem matches_name_semi (r : List Tok) : matchesTT .name (semiTok :: r) = false := by simp [matchesTT, semiTok]

theorem geometry_shape (s : Shape) (it : Option Step) (rest : List Tok) (hs : shapeOk s = true)
    (hi : (match it with | some p => stepOk p | none => true) = true) :
    geometry (wShape s it.isSome ++ wTail it ++ rest) = some (match it with | some p => .iterate s p | none => .shape s, rest) := by
  cases s with
  | rect m a b =>
    simp only [shapeOk, Bool.and_eq_true] at hs
    obtain ⟨⟨hm, ha⟩, hb⟩ := hs
    simp only [ptOk, Bool.and_eq_true] at ha hb
    cases it with
    | none =>
      cases m with
      | none =>
        simp [wShape, wMask, opt, wTail, wPt, geometry, getKey_kw, k_Rect, geomMask, geomIterate, matches_name_num, point,
          number_num, ha.1, ha.2, hb.1, hb.2, geomTail, semi_semiTok]
      | some d =>
        simp only [maskOk] at hm
        simp [wShape, wMask, opt, wTail, wPt, geometry, getKey_kw, k_Rect, geomMask, geomIterate, matches_name_num, matches_name_kw,
          peekKey_kw, k_Mask, point, number_num, hm, ha.1, ha.2, hb.1, hb.2, geomTail, semi_semiTok]
    | some p =>
      cases m with
      | none =>
        simp [wShape, wMask, opt, wTail, wPt, geometry, getKey_kw, k_Rect, geomMask, geomIterate, matches_name_num, matches_name_kw,
          peekKey_kw, k_Iterate, point, number_num, ha.1, ha.2, hb.1, hb.2, geomTail, stepPattern_w p _ hi, semi_semiTok]
      | some d =>
        simp only [maskOk] at hm
        simp [wShape, wMask, opt, wTail, wPt, geometry, getKey_kw, k_Rect, geomMask, geomIterate, matches_name_num, matches_name_kw,
          peekKey_kw, k_Mask, k_Iterate, point, number_num, hm, ha.1, ha.2, hb.1, hb.2, geomTail, stepPattern_w p _ hi, semi_semiTok]
  | polygon m ps =>
    simp only [shapeOk, Bool.and_eq_true, decide_eq_true_eq] at hs
    obtain ⟨⟨hm, hp⟩, hl⟩ := hs
    have hpl : ∀ (f : Nat) (r : List Tok), ps.length + 1 ≤ f → pointList f (ps.flatMap wPt ++ (wTail it ++ r)) = some (ps, wTail it ++ r) :=
      fun f r hf => pointList_w ps _ f hf hp (wTail_not_number it r)
    have hlen : ∀ r : List Tok, ps.length + 1 ≤ (ps.flatMap wPt ++ (wTail it ++ r)).length + 1 := by
      intro r; simp only [List.length_append, flatMap_wPt_length]; omega
    obtain ⟨p0, ps', rfl⟩ : ∃ p0 ps', ps = p0 :: ps' := by cases ps with | nil => simp at hl | cons a b => exact ⟨a, b, rfl⟩
    have hnl : ¬ ((p0 :: ps').length < 3) := by omega
    cases it with
    | none =>
      cases m with
      | none =>
        simp only [wShape, wMask, opt, List.nil_append, List.append_assoc, List.cons_append, Option.isSome_none, Bool.false_eq_true, if_false,
          geometry, getKey_kw "Polygon" _ k_Polygon, Option.bind_eq_bind, Option.bind_some]
        simp only [show ("Polygon" == "Rect") = false by decide, show ("Polygon" == "Polygon") = true by decide, Bool.false_eq_true, if_false, if_true]
        rw [flatMap_wPt_cons, geomMask]
        simp only [matches_name_num, Bool.false_eq_true, if_false, Option.bind_some, geomIterate]
        rw [← flatMap_wPt_cons, hpl _ rest (hlen rest)]
        simp only [Option.bind_some, hnl, if_false]
        exact geomTail_w _ none rest rfl
      | some d =>
        simp only [maskOk] at hm
        simp only [wShape, wMask, opt, List.nil_append, List.append_assoc, List.cons_append, Option.isSome_none, Bool.false_eq_true, if_false,
          geometry, getKey_kw "Polygon" _ k_Polygon, Option.bind_eq_bind, Option.bind_some]
        simp only [show ("Polygon" == "Rect") = false by decide, show ("Polygon" == "Polygon") = true by decide, Bool.false_eq_true, if_false, if_true]
        rw [geomMask]
        simp only [matches_name_kw, if_true, peekKey_kw "Mask" _ k_Mask, beq_self_eq_true, List.tail_cons, number_num d _ hm, Option.map_some, Option.bind_some]
        rw [flatMap_wPt_cons, geomIterate]
        simp only [matches_name_num, Bool.false_eq_true, if_false, Option.bind_some]
        rw [← flatMap_wPt_cons, hpl _ rest (hlen rest)]
        simp only [Option.bind_some, hnl, if_false]
        exact geomTail_w _ none rest rfl
    | some p =>
      cases m with
      | none =>
        simp only [wShape, wMask, opt, List.nil_append, List.append_assoc, List.cons_append, Option.isSome_some, if_true,
          geometry, getKey_kw "Polygon" _ k_Polygon, Option.bind_eq_bind, Option.bind_some]
        simp only [show ("Polygon" == "Rect") = false by decide, show ("Polygon" == "Polygon") = true by decide, Bool.false_eq_true, if_false, if_true]
        rw [geomMask]
        simp only [matches_name_kw, if_true, peekKey_kw "Iterate" _ k_Iterate, show ("Iterate" == "Mask") = false by decide, Bool.false_eq_true, if_false, Option.bind_some]
        rw [geomIterate]
        simp only [matches_name_kw, if_true, peekKey_kw "Iterate" _ k_Iterate, beq_self_eq_true, List.tail_cons, Option.bind_some]
        rw [hpl _ rest (hlen rest)]
        simp only [Option.bind_some, hnl, if_false]
        exact geomTail_w _ (some p) rest hi
      | some d =>
        simp only [maskOk] at hm
        simp only [wShape, wMask, opt, List.nil_append, List.append_assoc, List.cons_append, Option.isSome_some, if_true,
          geometry, getKey_kw "Polygon" _ k_Polygon, Option.bind_eq_bind, Option.bind_some]
        simp only [show ("Polygon" == "Rect") = false by decide, show ("Polygon" == "Polygon") = true by decide, Bool.false_eq_true, if_false, if_true]
        rw [geomMask]
        simp only [matches_name_kw, if_true, peekKey_kw "Mask" _ k_Mask, beq_self_eq_true, List.tail_cons, number_num d _ hm, Option.map_some, Option.bind_some]
        rw [geomIterate]
        simp only [matches_name_kw, if_true, peekKey_kw "Iterate" _ k_Iterate, beq_self_eq_true, List.tail_cons, Option.bind_some]
        rw [hpl _ rest (hlen rest)]
        simp only [Option.bind_some, hnl, if_false]
        exact geomTail_w _ (some p) rest hi
  | path m ps =>
    simp only [shapeOk, Bool.and_eq_true, decide_eq_true_eq] at hs
    obtain ⟨⟨hm, hp⟩, hl⟩ := hs
    have hpl : ∀ (f : Nat) (r : List Tok), ps.length + 1 ≤ f → pointList f (ps.flatMap wPt ++ (wTail it ++ r)) = some (ps, wTail it ++ r) :=
      fun f r hf => pointList_w ps _ f hf hp (wTail_not_number it r)
    have hlen : ∀ r : List Tok, ps.length + 1 ≤ (ps.flatMap wPt ++ (wTail it ++ r)).length + 1 := by
      intro r; simp only [List.length_append, flatMap_wPt_length]; omega
    obtain ⟨p0, ps', rfl⟩ : ∃ p0 ps', ps = p0 :: ps' := by cases ps with | nil => simp at hl | cons a b => exact ⟨a, b, rfl⟩
    have hnl : ¬ ((p0 :: ps').length < 2) := by omega
    cases it with
    | none =>
      cases m with
      | none =>
        simp only [wShape, wMask, opt, List.nil_append, List.append_assoc, List.cons_append, Option.isSome_none, Bool.false_eq_true, if_false,
          geometry, getKey_kw "Path" _ k_Path, Option.bind_eq_bind, Option.bind_some]
        simp only [show ("Path" == "Rect") = false by decide, show ("Path" == "Polygon") = false by decide, show ("Path" == "Path") = true by decide, Bool.false_eq_true, if_false, if_true]
        rw [flatMap_wPt_cons, geomMask]
        simp only [matches_name_num, Bool.false_eq_true, if_false, Option.bind_some, geomIterate]
        rw [← flatMap_wPt_cons, hpl _ rest (hlen rest)]
        simp only [Option.bind_some, hnl, if_false]
        exact geomTail_w _ none rest rfl
      | some d =>
        simp only [maskOk] at hm
        simp only [wShape, wMask, opt, List.nil_append, List.append_assoc, List.cons_append, Option.isSome_none, Bool.false_eq_true, if_false,
          geometry, getKey_kw "Path" _ k_Path, Option.bind_eq_bind, Option.bind_some]
        simp only [show ("Path" == "Rect") = false by decide, show ("Path" == "Polygon") = false by decide, show ("Path" == "Path") = true by decide, Bool.false_eq_true, if_false, if_true]
        rw [geomMask]
        simp only [matches_name_kw, if_true, peekKey_kw "Mask" _ k_Mask, beq_self_eq_true, List.tail_cons, number_num d _ hm, Option.map_some, Option.bind_some]
        rw [flatMap_wPt_cons, geomIterate]
        simp only [matches_name_num, Bool.false_eq_true, if_false, Option.bind_some]
        rw [← flatMap_wPt_cons, hpl _ rest (hlen rest)]
        simp only [Option.bind_some, hnl, if_false]
        exact geomTail_w _ none rest rfl
    | some p =>
      cases m with
      | none =>
        simp only [wShape, wMask, opt, List.nil_append, List.append_assoc, List.cons_append, Option.isSome_some, if_true,
          geometry, getKey_kw "Path" _ k_Path, Option.bind_eq_bind, Option.bind_some]
        simp only [show ("Path" == "Rect") = false by decide, show ("Path" == "Polygon") = false by decide, show ("Path" == "Path") = true by decide, Bool.false_eq_true, if_false, if_true]
        rw [geomMask]
        simp only [matches_name_kw, if_true, peekKey_kw "Iterate" _ k_Iterate, show ("Iterate" == "Mask") = false by decide, Bool.false_eq_true, if_false, Option.bind_some]
        rw [geomIterate]
        simp only [matches_name_kw, if_true, peekKey_kw "Iterate" _ k_Iterate, beq_self_eq_true, List.tail_cons, Option.bind_some]
        rw [hpl _ rest (hlen rest)]
        simp only [Option.bind_some, hnl, if_false]
        exact geomTail_w _ (some p) rest hi
      | some d =>
        simp only [maskOk] at hm
        simp only [wShape, wMask, opt, List.nil_append, List.append_assoc, List.cons_append, Option.isSome_some, if_true,
          geometry, getKey_kw "Path" _ k_Path, Option.bind_eq_bind, Option.bind_some]
        simp only [show ("Path" == "Rect") = false by decide, show ("Path" == "Polygon") = false by decide, show ("Path" == "Path") = true by decide, Bool.false_eq_true, if_false, if_true]
        rw [geomMask]
        simp only [matches_name_kw, if_true, peekKey_kw "Mask" _ k_Mask, beq_self_eq_true, List.tail_cons, number_num d _ hm, Option.map_some, Option.bind_some]
        rw [geomIterate]
        simp only [matches_name_kw, if_true, peekKey_kw "Iterate" _ k_Iterate, beq_self_eq_true, List.tail_cons, Option.bind_some]
        rw [hpl _ rest (hlen rest)]
        simp only [Option.bind_some, hnl, if_false]
        exact geomTail_w _ (some p) rest hi

theorem geometry_w (g : Geometry) (rest : List Tok) (h : geomOk g = true) : geometry (wGeom g ++ rest) = some (g, rest) := by
  cases g with
  | shape s =>
    have := geometry_shape s none rest h rfl
    simpa [wGeom, wTail] using this
  | iterate s p =>
    simp only [geomOk, Bool.and_eq_true] at h
    have := geometry_shape s (some p) rest h.1 h.2
    simpa [wGeom, wTail] using this

theorem wGeom_length (g : Geometry) : 1 ≤ (wGeom g).length := by
  cases g with
  | shape s => cases s <;> simp [wGeom, wShape]
  | iterate s p => cases s <;> simp [wGeom, wShape]

theorem wGeom_head (g : Geometry) : ∃ k r, wGeom g = kw k :: r ∧ (k = "Rect" ∨ k = "Polygon" ∨ k = "Path") := by
  have hs : ∀ (s : Shape) (b : Bool) (t : List Tok), ∃ k r, wShape s b ++ t = kw k :: r ∧ (k = "Rect" ∨ k = "Polygon" ∨ k = "Path") := by
    intro s b t
    cases s
    · exact ⟨"Rect", _, rfl, Or.inl rfl⟩
    · exact ⟨"Polygon", _, rfl, Or.inr (Or.inl rfl)⟩
    · exact ⟨"Path", _, rfl, Or.inr (Or.inr rfl)⟩
  cases g with
  | shape s => exact hs s false [semiTok]
  | iterate s p => exact hs s true _

/-! ### layer geometries -/
theorem k_Layer : isKey "Layer" = true := by decide +kernel
theorem k_End : isKey "End" = true := by decide +kernel
theorem k_Via : isKey "Via" = true := by decide +kernel
theorem k_Width : isKey "Width" = true := by decide +kernel
theorem k_ExceptPgNet : isKey "ExceptPgNet" = true := by decide +kernel
theorem k_Spacing : isKey "Spacing" = true := by decide +kernel
theorem k_DesignRuleWidth : isKey "DesignRuleWidth" = true := by decide +kernel

/-- what may follow a LAYER block: nothing, another LAYER, or END -/
def StopLE (rest : List Tok) : Prop := rest = [] ∨ (∃ r, rest = kw "Layer" :: r) ∨ (∃ r, rest = kw "End" :: r)

def wViaInst (v : Via) : List Tok := [kw "Via"] ++ wPt v.pt ++ [ident v.name, semiTok]
def viaInstOk (v : Via) : Bool := ptOk v.pt

theorem layerBody_stop (lg : LayerGeoms) (rest : List Tok) (f : Nat) (hs : StopLE rest) : layerBody (f + 1) lg rest = some (lg, rest) := by
  rcases hs with rfl | ⟨r, rfl⟩ | ⟨r, rfl⟩
  · simp [layerBody]
  · rw [layerBody]
    simp only [List.isEmpty_cons, Bool.false_eq_true, if_false, peekKey_kw "Layer" r k_Layer, beq_self_eq_true, Bool.true_or, if_true]
  · rw [layerBody]
    simp only [List.isEmpty_cons, Bool.false_eq_true, if_false, peekKey_kw "End" r k_End, beq_self_eq_true, Bool.or_true, if_true,
      show ("End" == "Layer") = false by decide, Bool.false_or]

theorem matches_name_ident (x : Str) (r : List Tok) : matchesTT .name (ident x :: r) = true := by simp [matchesTT, ident]

theorem layerBody_vias : ∀ (vs : List Via) (lg : LayerGeoms) (rest : List Tok) (f : Nat), vs.length + 1 ≤ f →
    vs.all viaInstOk = true → StopLE rest →
    layerBody f lg (vs.flatMap wViaInst ++ rest) = some ({ lg with vias := lg.vias ++ vs }, rest) := by
  intro vs
  induction vs with
  | nil =>
    intro lg rest f hf _ hs
    obtain ⟨g, rfl⟩ : ∃ g, f = g + 1 := ⟨f - 1, by simp at hf; omega⟩
    simpa using layerBody_stop lg rest g hs
  | cons v r ih =>
    intro lg rest f hf hok hs
    obtain ⟨g, rfl⟩ : ∃ g, f = g + 1 := ⟨f - 1, by simp at hf; omega⟩
    simp only [List.all_cons, Bool.and_eq_true] at hok
    have hv : ptOk v.pt = true := hok.1
    simp only [ptOk, Bool.and_eq_true] at hv
    simp only [List.flatMap_cons, wViaInst, wPt, List.cons_append, List.nil_append, List.append_assoc]
    rw [layerBody]
    simp only [List.isEmpty_cons, Bool.false_eq_true, if_false, peekKey_kw "Via" _ k_Via,
      show ("Via" == "Layer") = false by decide, show ("Via" == "End") = false by decide, show ("Via" == "Path") = false by decide,
      show ("Via" == "Polygon") = false by decide, show ("Via" == "Rect") = false by decide, Bool.or_self, beq_self_eq_true, if_true,
      List.tail_cons, matches_name_num, point, number_num, hv.1, hv.2, Option.bind_some, getName_ident, semi_semiTok]
    have := ih { lg with vias := lg.vias ++ [v] } rest g (by simp at hf; omega) hok.2 hs
    simp only [wViaInst, wPt, List.cons_append, List.nil_append, List.append_assoc] at this
    rw [this]
    try simp

theorem layerBody_geoms (vs : List Via) (rest : List Tok) (hvs : vs.all viaInstOk = true) (hs : StopLE rest) :
    ∀ (gs : List Geometry) (lg : LayerGeoms) (f : Nat), gs.length + vs.length + 1 ≤ f → gs.all geomOk = true →
    layerBody f lg (gs.flatMap wGeom ++ (vs.flatMap wViaInst ++ rest)) =
      some ({ lg with geometries := lg.geometries ++ gs, vias := lg.vias ++ vs }, rest) := by
  intro gs
  induction gs with
  | nil =>
    intro lg f hf _
    have := layerBody_vias vs lg rest f (by simp at hf; omega) hvs hs
    simpa using this
  | cons g r ih =>
    intro lg f hf hok
    obtain ⟨n, rfl⟩ : ∃ n, f = n + 1 := ⟨f - 1, by simp at hf; omega⟩
    simp only [List.all_cons, Bool.and_eq_true] at hok
    simp only [List.flatMap_cons, List.append_assoc]
    obtain ⟨k, t, hk, hkk⟩ := wGeom_head g
    rw [layerBody]
    have hne : (wGeom g ++ (r.flatMap wGeom ++ (vs.flatMap wViaInst ++ rest))).isEmpty = false := by rw [hk]; rfl
    have hpk : peekKey (wGeom g ++ (r.flatMap wGeom ++ (vs.flatMap wViaInst ++ rest))) = some k := by
      rw [hk]
      rcases hkk with rfl | rfl | rfl
      · exact peekKey_kw _ _ k_Rect
      · exact peekKey_kw _ _ k_Polygon
      · exact peekKey_kw _ _ k_Path
    simp only [hne, Bool.false_eq_true, if_false, hpk]
    have hbr : (k == "Layer" || k == "End") = false ∧ (k == "Path" || k == "Polygon" || k == "Rect") = true := by
      rcases hkk with rfl | rfl | rfl <;> decide
    simp only [hbr.1, hbr.2, Bool.false_eq_true, if_false, if_true, geometry_w g _ hok.1, Option.bind_some]
    have := ih { lg with geometries := lg.geometries ++ [g] } n (by simp at hf; omega) hok.2
    rw [this]
    simp

def wSpacing (sp : Option Spacing) : List Tok :=
  match sp with
  | some (.drw d) => [kw "DesignRuleWidth", num d]
  | some (.spacing d) => [kw "Spacing", num d]
  | none => []

def spacingOk (sp : Option Spacing) : Bool := match sp with | some (.spacing d) => decOk d | some (.drw d) => decOk d | none => true

theorem layerHeader_w (name : Str) (epg : Option Bool) (spacing : Option Spacing) (hepg' : epg = none ∨ epg = some true)
    (hsp : spacingOk spacing = true) : ∀ (T : List Tok) (F : Nat),
      ((if epg = some true then [kw "ExceptPgNet"] else []) ++ (wSpacing spacing ++ semiTok :: T)).length ≤ F →
      layerHeader F ⟨name, [], [], none, none, none⟩
        ((if epg = some true then [kw "ExceptPgNet"] else []) ++ (wSpacing spacing ++ semiTok :: T)) =
          some (⟨name, [], [], epg, spacing, none⟩, T) := by
  intro T F hF
  rcases hepg' with rfl | rfl
  · cases spacing with
    | none =>
      obtain ⟨n, rfl⟩ : ∃ n, F = n + 1 := ⟨F - 1, by simp [wSpacing] at hF; omega⟩
      simp [wSpacing, layerHeader, matches_semi]
    | some sp =>
      obtain ⟨n, rfl⟩ : ∃ n, F = n + 2 := ⟨F - 2, by cases sp <;> simp [wSpacing] at hF <;> omega⟩
      cases sp with
      | spacing d =>
        simp only [spacingOk] at hsp
        simp [wSpacing, layerHeader, not_matches_semi_kw, getKey_kw, k_Spacing, number_num d _ hsp, matches_semi]
      | drw d =>
        simp only [spacingOk] at hsp
        simp [wSpacing, layerHeader, not_matches_semi_kw, getKey_kw, k_DesignRuleWidth, number_num d _ hsp, matches_semi]
  · cases spacing with
    | none =>
      obtain ⟨n, rfl⟩ : ∃ n, F = n + 2 := ⟨F - 2, by simp [wSpacing] at hF; omega⟩
      simp [wSpacing, layerHeader, not_matches_semi_kw, getKey_kw, k_ExceptPgNet, matches_semi]
    | some sp =>
      obtain ⟨n, rfl⟩ : ∃ n, F = n + 3 := ⟨F - 3, by cases sp <;> simp [wSpacing] at hF <;> omega⟩
      cases sp with
      | spacing d =>
        simp only [spacingOk] at hsp
        simp [wSpacing, layerHeader, not_matches_semi_kw, getKey_kw, k_ExceptPgNet, k_Spacing, number_num d _ hsp, matches_semi]
      | drw d =>
        simp only [spacingOk] at hsp
        simp [wSpacing, layerHeader, not_matches_semi_kw, getKey_kw, k_ExceptPgNet, k_DesignRuleWidth, number_num d _ hsp, matches_semi]

def lgOk (l : LayerGeoms) : Bool :=
  l.geometries.all geomOk && l.vias.all viaInstOk && (l.exceptPgNet != some false) &&
  spacingOk l.spacing &&
  (match l.width with | some d => decOk d | none => true)

theorem wLayerGeoms_eq (l : LayerGeoms) : wLayerGeoms l =
    [kw "Layer", ident l.layerName]
    ++ (if l.exceptPgNet = some true then [kw "ExceptPgNet"] else [])
    ++ wSpacing l.spacing
    ++ [semiTok]
    ++ opt l.width (fun d => [kw "Width", num d, semiTok])
    ++ l.geometries.flatMap wGeom
    ++ l.vias.flatMap wViaInst := by
  rfl

theorem flatMap_wGeom_length (gs : List Geometry) : gs.length ≤ (gs.flatMap wGeom).length := by
  induction gs with
  | nil => simp
  | cons g r ih => have := wGeom_length g; simp only [List.flatMap_cons, List.length_append, List.length_cons]; omega

theorem flatMap_wViaInst_length (vs : List Via) : vs.length ≤ (vs.flatMap wViaInst).length := by
  induction vs with
  | nil => simp
  | cons v r ih =>
    simp only [List.flatMap_cons, List.length_append, List.length_cons]
    have : 1 ≤ (wViaInst v).length := by simp [wViaInst]
    omega

theorem layerGeoms_w (l : LayerGeoms) (rest : List Tok) (h : lgOk l = true) (hs : StopLE rest) :
    layerGeoms (wLayerGeoms l ++ rest) = some (l, rest) := by
  obtain ⟨name, geoms, vias, epg, spacing, width⟩ := l
  simp only [lgOk, Bool.and_eq_true, bne_iff_ne, ne_eq] at h
  obtain ⟨⟨⟨⟨hg, hv⟩, hepg⟩, hsp⟩, hw⟩ := h
  -- the body after the header
  have body : ∀ (lg0 : LayerGeoms) (f : Nat), geoms.length + vias.length + (if width.isSome then 1 else 0) + 1 ≤ f →
      layerBody f lg0 (opt width (fun d => [kw "Width", num d, semiTok]) ++ (geoms.flatMap wGeom ++ (vias.flatMap wViaInst ++ rest))) =
        some ({ lg0 with geometries := lg0.geometries ++ geoms, vias := lg0.vias ++ vias, width := width <|> lg0.width }, rest) := by
    intro lg0 f hf
    cases width with
    | none =>
      simp only [opt, List.nil_append]
      rw [layerBody_geoms vias rest hv hs geoms lg0 f (by simpa using hf) hg]
      simp
    | some d =>
      simp only [Option.isSome_some, if_true] at hf
      obtain ⟨n, rfl⟩ : ∃ n, f = n + 1 := ⟨f - 1, by omega⟩
      simp only [opt, List.cons_append, List.nil_append]
      rw [layerBody]
      simp only [List.isEmpty_cons, Bool.false_eq_true, if_false, peekKey_kw "Width" _ k_Width,
        show ("Width" == "Layer") = false by decide, show ("Width" == "End") = false by decide, show ("Width" == "Path") = false by decide,
        show ("Width" == "Polygon") = false by decide, show ("Width" == "Rect") = false by decide, show ("Width" == "Via") = false by decide,
        Bool.or_self, beq_self_eq_true, if_true, List.tail_cons, number_num d _ hw, Option.bind_some, semi_semiTok]
      rw [layerBody_geoms vias rest hv hs geoms _ n (by omega) hg]
      simp
  have hlen : geoms.length + vias.length + (if width.isSome then 1 else 0) + 1 ≤
      (opt width (fun d => [kw "Width", num d, semiTok]) ++ (geoms.flatMap wGeom ++ (vias.flatMap wViaInst ++ rest))).length + 1 := by
    have h1 := flatMap_wGeom_length geoms
    have h2 := flatMap_wViaInst_length vias
    simp only [List.length_append]
    cases width <;> simp only [opt, List.length_nil, List.length_cons, Option.isSome_none, Option.isSome_some, if_true, Bool.false_eq_true, if_false] <;> omega
  rw [wLayerGeoms_eq]
  simp only [List.append_assoc, List.cons_append, List.nil_append]
  unfold layerGeoms
  simp only [expectKey_kw "Layer" _ k_Layer, getName_ident, Option.bind_eq_bind, Option.bind_some]
  have hepg' : epg = none ∨ epg = some true := by
    cases epg with
    | none => exact Or.inl rfl
    | some b => cases b with
      | true => exact Or.inr rfl
      | false => exact absurd rfl hepg
  have header := layerHeader_w name epg spacing hepg' hsp
  rw [header _ _ (Nat.le_succ _)]
  simp only [Option.bind_some]
  rw [body _ _ hlen]
  simp

/-! ### ports -/
theorem k_Port : isKey "Port" = true := by decide +kernel
theorem k_Class : isKey "Class" = true := by decide +kernel
theorem t_PortClass : (lefEnums.lookup "LefPortClass").isSome = true := by decide +kernel

theorem wLayerGeoms_length (l : LayerGeoms) : 3 ≤ (wLayerGeoms l).length := by
  rw [wLayerGeoms_eq]; simp only [List.length_append, List.length_cons, List.length_nil]; omega

theorem flatMap_wLayerGeoms_length (ls : List LayerGeoms) : ls.length ≤ (ls.flatMap wLayerGeoms).length := by
  induction ls with
  | nil => simp
  | cons l r ih => have := wLayerGeoms_length l; simp only [List.flatMap_cons, List.length_append, List.length_cons]; omega

/-- LAYER blocks of a port, then END -/
theorem portBody_layers (T : List Tok) : ∀ (ls : List LayerGeoms) (p : Port) (f : Nat), ls.length + 1 ≤ f →
    ls.all lgOk = true →
    portBody f p (ls.flatMap wLayerGeoms ++ kw "End" :: T) = some ({ p with layers := p.layers ++ ls }, T) := by
  intro ls
  induction ls with
  | nil =>
    intro p f hf _
    obtain ⟨n, rfl⟩ : ∃ n, f = n + 1 := ⟨f - 1, by simp at hf; omega⟩
    simp [portBody, peekKey_kw "End" T k_End]
  | cons l r ih =>
    intro p f hf hok
    obtain ⟨n, rfl⟩ : ∃ n, f = n + 1 := ⟨f - 1, by simp at hf; omega⟩
    simp only [List.all_cons, Bool.and_eq_true] at hok
    simp only [List.flatMap_cons, List.append_assoc]
    have hstop : StopLE (r.flatMap wLayerGeoms ++ kw "End" :: T) := by
      cases r with
      | nil => exact Or.inr (Or.inr ⟨T, rfl⟩)
      | cons l2 r2 => exact Or.inr (Or.inl ⟨_, by rw [List.flatMap_cons, wLayerGeoms_eq]; simp only [List.append_assoc, List.cons_append, List.nil_append]; rfl⟩)
    have hhead : peekKey (wLayerGeoms l ++ (r.flatMap wLayerGeoms ++ kw "End" :: T)) = some "Layer" := by
      rw [wLayerGeoms_eq]; simp only [List.append_assoc, List.cons_append]; exact peekKey_kw _ _ k_Layer
    rw [portBody]
    simp only [hhead, show ("Layer" == "Class") = false by decide, beq_self_eq_true, Bool.false_eq_true, if_false, if_true,
      layerGeoms_w l _ hok.1 hstop, Option.bind_some]
    have hl := wLayerGeoms_length l
    rw [if_pos (by simp only [List.length_append]; omega)]
    have := ih { p with layers := p.layers ++ [l] } n (by simp at hf; omega) hok.2
    rw [this]
    simp

def portOk (p : Port) : Bool :=
  p.layers.all lgOk && (match p.cls with | some c => isVariant "LefPortClass" c | none => true)

theorem port_w (p : Port) (T : List Tok) (h : portOk p = true) : port (wPort p ++ T) = some (p, T) := by
  obtain ⟨cls, layers⟩ := p
  simp only [portOk, Bool.and_eq_true] at h
  have hlen := flatMap_wLayerGeoms_length layers
  simp only [wPort, List.append_assoc, List.cons_append, List.nil_append, port, expectKey_kw "Port" _ k_Port, Option.bind_eq_bind,
    Option.bind_some]
  cases cls with
  | none =>
    simp only [opt, List.nil_append]
    rw [portBody_layers T layers ⟨none, []⟩ _ (by simp only [List.length_append, List.length_cons]; omega) h.1]
    simp
  | some c =>
    simp only [opt, List.cons_append, List.nil_append, List.length_cons, List.length_append]
    rw [portBody]
    simp only [peekKey_kw "Class" _ k_Class, beq_self_eq_true, if_true, List.tail_cons,
      parseEnum_en "LefPortClass" c _ t_PortClass h.2, Option.bind_some, semi_semiTok]
    rw [portBody_layers T layers ⟨some c, []⟩ _ (by omega) h.1]
    simp

theorem wPort_length (p : Port) : 2 ≤ (wPort p).length := by
  simp only [wPort, List.length_append, List.length_cons, List.length_nil]; omega

/-! ### pins -/
theorem k_Pin : isKey "Pin" = true := by decide +kernel
theorem k_Direction : isKey "Direction" = true := by decide +kernel
theorem k_Use : isKey "Use" = true := by decide +kernel
theorem k_Shape : isKey "Shape" = true := by decide +kernel
theorem k_AntennaModel : isKey "AntennaModel" = true := by decide +kernel
theorem k_TaperRule : isKey "TaperRule" = true := by decide +kernel
theorem k_MustJoin : isKey "MustJoin" = true := by decide +kernel
theorem k_SupplySensitivity : isKey "SupplySensitivity" = true := by decide +kernel
theorem k_GroundSensitivity : isKey "GroundSensitivity" = true := by decide +kernel
theorem k_NetExpr : isKey "NetExpr" = true := by decide +kernel
theorem k_Property : isKey "Property" = true := by decide +kernel
theorem k_Input : isKey "Input" = true := by decide +kernel
theorem k_Output : isKey "Output" = true := by decide +kernel
theorem k_Inout : isKey "Inout" = true := by decide +kernel
theorem k_FeedThru : isKey "FeedThru" = true := by decide +kernel
theorem k_Tristate : isKey "Tristate" = true := by decide +kernel
theorem t_PinUse : (lefEnums.lookup "LefPinUse").isSome = true := by decide +kernel
theorem t_PinShape : (lefEnums.lookup "LefPinShape").isSome = true := by decide +kernel
theorem t_AntennaModel : (lefEnums.lookup "LefAntennaModel").isSome = true := by decide +kernel

/-- `PROPERTY name value ;` as one statement -/
theorem property_w (acc : List Prop') (pr : Prop') (T : List Tok) :
    property acc (wProp pr ++ T) = some (acc ++ [pr], T) := by
  obtain ⟨n, v⟩ := pr
  have hw : ((word v).tt == .name || (word v).tt == .number || (word v).tt == .string) = true := by
    simp only [word]
    unfold wordType
    split
    · rfl
    · split <;> rfl
    · rfl
  simp only [wProp, List.cons_append, List.nil_append, property, expectKey_kw "Property" _ k_Property, Option.bind_eq_bind, Option.bind_some,
    List.length_cons]
  rw [propertyPairs]
  simp only [matchesTT, ident, show ((TT.name == TT.semi) = false) by decide, Bool.false_eq_true, if_false, getName, expectTT,
    beq_self_eq_true, if_true, hw]
  rw [propertyPairs]
  simp [matchesTT, semiTok, word]

def dirOk (d : String × Bool) : Bool :=
  (d.1 == "Input" && !d.2) || (d.1 == "Inout" && !d.2) || (d.1 == "FeedThru" && !d.2) || d.1 == "Output"

def wDir (d : String × Bool) : List Tok :=
  [kw "Direction"] ++ (if d.1 == "Output" then [kw "Output"] ++ (if d.2 then [kw "Tristate"] else []) else [kw d.1]) ++ [semiTok]

theorem pinDirection_w (d : String × Bool) (T : List Tok) (h : dirOk d = true) : pinDirection (wDir d ++ T) = some (d, T) := by
  obtain ⟨k, t⟩ := d
  simp only [dirOk, Bool.or_eq_true, Bool.and_eq_true, beq_iff_eq, Bool.not_eq_true'] at h
  rcases h with ((⟨rfl, rfl⟩ | ⟨rfl, rfl⟩) | ⟨rfl, rfl⟩) | rfl
  · simp [wDir, pinDirection, expectKey_kw, k_Direction, getKey_kw, k_Input, semi_semiTok]
  · simp [wDir, pinDirection, expectKey_kw, k_Direction, getKey_kw, k_Inout, semi_semiTok]
  · simp [wDir, pinDirection, expectKey_kw, k_Direction, getKey_kw, k_FeedThru, semi_semiTok]
  · cases t
    · simp [wDir, pinDirection, expectKey_kw, k_Direction, getKey_kw, k_Output, matches_semi]
    · simp [wDir, pinDirection, expectKey_kw, k_Direction, getKey_kw, k_Output, not_matches_semi_kw, k_Tristate, semi_semiTok]

theorem antennaKeys_not (k : String) (h : k ∈ ["End", "Port", "Direction", "Use", "Shape", "AntennaModel"]) : antennaKeys.contains k = false := by
  simp only [List.mem_cons, List.mem_nil_iff, or_false] at h
  rcases h with rfl | rfl | rfl | rfl | rfl | rfl <;> decide

/-- one-statement steps of `pinBody` -/
theorem pin_dir (f : Nat) (p : Pin) (d : String × Bool) (T : List Tok) (h : dirOk d = true) :
    pinBody (f + 1) p (wDir d ++ T) = pinBody f { p with direction := some d } T := by
  have hpk : peekKey (wDir d ++ T) = some "Direction" := by simp only [wDir, List.append_assoc, List.cons_append, List.nil_append]; exact peekKey_kw _ _ k_Direction
  have hl : T.length < (wDir d ++ T).length := by
    simp only [wDir, List.length_append, List.length_cons, List.length_nil]; omega
  rw [pinBody]
  simp only [hpk, pinDirection_w d T h, Option.bind_some, hl, if_true, show ("Direction" == "End") = false by decide,
    show ("Direction" == "Port") = false by decide, beq_self_eq_true, Bool.false_eq_true, if_false]

theorem pin_use (f : Nat) (p : Pin) (e : String) (T : List Tok) (h : isVariant "LefPinUse" e = true) :
    pinBody (f + 1) p (kw "Use" :: en "LefPinUse" e :: semiTok :: T) = pinBody f { p with use_ := some e } T := by
  rw [pinBody]
  simp [peekKey_kw "Use" _ k_Use, parseEnum_en "LefPinUse" e _ t_PinUse h, semi_semiTok]

theorem pin_shape (f : Nat) (p : Pin) (e : String) (T : List Tok) (h : isVariant "LefPinShape" e = true) :
    pinBody (f + 1) p (kw "Shape" :: en "LefPinShape" e :: semiTok :: T) = pinBody f { p with shape := some e } T := by
  rw [pinBody]
  simp [peekKey_kw "Shape" _ k_Shape, parseEnum_en "LefPinShape" e _ t_PinShape h, semi_semiTok]

theorem pin_amodel (f : Nat) (p : Pin) (e : String) (T : List Tok) (h : isVariant "LefAntennaModel" e = true) :
    pinBody (f + 1) p (kw "AntennaModel" :: en "LefAntennaModel" e :: semiTok :: T) = pinBody f { p with antennaModel := some e } T := by
  rw [pinBody]
  simp [peekKey_kw "AntennaModel" _ k_AntennaModel, parseEnum_en "LefAntennaModel" e _ t_AntennaModel h, semi_semiTok, antennaKeys]

theorem pin_taper (f : Nat) (p : Pin) (v : Str) (T : List Tok) :
    pinBody (f + 1) p (kw "TaperRule" :: ident v :: semiTok :: T) = pinBody f { p with taperRule := some v } T := by
  rw [pinBody]; simp [peekKey_kw "TaperRule" _ k_TaperRule, getName_ident, semi_semiTok, antennaKeys]
theorem pin_supply (f : Nat) (p : Pin) (v : Str) (T : List Tok) :
    pinBody (f + 1) p (kw "SupplySensitivity" :: ident v :: semiTok :: T) = pinBody f { p with supplySensitivity := some v } T := by
  rw [pinBody]; simp [peekKey_kw "SupplySensitivity" _ k_SupplySensitivity, getName_ident, semi_semiTok, antennaKeys]
theorem pin_ground (f : Nat) (p : Pin) (v : Str) (T : List Tok) :
    pinBody (f + 1) p (kw "GroundSensitivity" :: ident v :: semiTok :: T) = pinBody f { p with groundSensitivity := some v } T := by
  rw [pinBody]; simp [peekKey_kw "GroundSensitivity" _ k_GroundSensitivity, getName_ident, semi_semiTok, antennaKeys]
theorem pin_mustjoin (f : Nat) (p : Pin) (v : Str) (T : List Tok) :
    pinBody (f + 1) p (kw "MustJoin" :: ident v :: semiTok :: T) = pinBody f { p with mustJoin := some v } T := by
  rw [pinBody]; simp [peekKey_kw "MustJoin" _ k_MustJoin, getName_ident, semi_semiTok, antennaKeys]
theorem pin_netexpr (f : Nat) (p : Pin) (v : Str) (T : List Tok) :
    pinBody (f + 1) p (kw "NetExpr" :: strTok v :: semiTok :: T) = pinBody f { p with netExpr := some v } T := by
  rw [pinBody]; simp [peekKey_kw "NetExpr" _ k_NetExpr, expectTT, strTok, semi_semiTok, antennaKeys]
theorem pin_end (f : Nat) (p : Pin) (T : List Tok) : pinBody (f + 1) p (kw "End" :: T) = some (p, T) := by
  rw [pinBody]; simp [peekKey_kw "End" _ k_End]

theorem pin_props (T : List Tok) : ∀ (ps : List Prop') (p : Pin) (f : Nat), ps.length ≤ f →
    pinBody f p (ps.flatMap wProp ++ T) = pinBody (f - ps.length) { p with properties := p.properties ++ ps } T := by
  intro ps
  induction ps with
  | nil => intro p f _; simp
  | cons pr r ih =>
    intro p f hf
    obtain ⟨n, rfl⟩ : ∃ n, f = n + 1 := ⟨f - 1, by simp at hf; omega⟩
    simp only [List.flatMap_cons, List.append_assoc]
    have hpk : peekKey (wProp pr ++ (r.flatMap wProp ++ T)) = some "Property" := by
      simp only [wProp, List.cons_append]; exact peekKey_kw _ _ k_Property
    have hl : (r.flatMap wProp ++ T).length < (wProp pr ++ (r.flatMap wProp ++ T)).length := by
      simp only [wProp, List.length_append, List.length_cons, List.length_nil]; omega
    rw [pinBody]
    simp only [hpk, property_w p.properties pr _, Option.bind_some, hl, if_true]
    simp only [show ("Property" == "End") = false by decide, show ("Property" == "Port") = false by decide,
      show ("Property" == "Direction") = false by decide, show ("Property" == "Use") = false by decide,
      show ("Property" == "Shape") = false by decide, show ("Property" == "AntennaModel") = false by decide,
      show antennaKeys.contains "Property" = false by decide, show ("Property" == "TaperRule") = false by decide,
      show ("Property" == "MustJoin") = false by decide, show ("Property" == "SupplySensitivity") = false by decide,
      show ("Property" == "GroundSensitivity") = false by decide, show ("Property" == "NetExpr") = false by decide,
      beq_self_eq_true, Bool.false_eq_true, if_false, if_true]
    rw [ih { p with properties := p.properties ++ [pr] } n (by simp at hf; omega)]
    simp [Nat.add_sub_add_right]

theorem pin_ports (T : List Tok) : ∀ (ps : List Port) (p : Pin) (f : Nat), ps.length ≤ f → ps.all portOk = true →
    pinBody f p (ps.flatMap wPort ++ T) = pinBody (f - ps.length) { p with ports := p.ports ++ ps } T := by
  intro ps
  induction ps with
  | nil => intro p f _ _; simp
  | cons pt r ih =>
    intro p f hf hok
    obtain ⟨n, rfl⟩ : ∃ n, f = n + 1 := ⟨f - 1, by simp at hf; omega⟩
    simp only [List.all_cons, Bool.and_eq_true] at hok
    simp only [List.flatMap_cons, List.append_assoc]
    have hpk : peekKey (wPort pt ++ (r.flatMap wPort ++ T)) = some "Port" := by
      simp only [wPort, List.append_assoc, List.cons_append, List.nil_append]; exact peekKey_kw _ _ k_Port
    have hl : (r.flatMap wPort ++ T).length < (wPort pt ++ (r.flatMap wPort ++ T)).length := by
      have := wPort_length pt; simp only [List.length_append]; omega
    rw [pinBody]
    simp only [hpk, port_w pt _ hok.1, Option.bind_some, hl, if_true, show ("Port" == "End") = false by decide, beq_self_eq_true,
      Bool.false_eq_true, if_false]
    rw [ih { p with ports := p.ports ++ [pt] } n (by simp at hf; omega) hok.2]
    simp [Nat.add_sub_add_right]

def wAntenna (a : Antenna) : List Tok := [ident a.key, num a.val] ++ opt a.layer (fun l => [kw "Layer", ident l]) ++ [semiTok]

def antennaOk (a : Antenna) : Bool :=
  (match LefEnum.parse keyTable a.key with | some k => antennaKeys.contains k | none => false) && upper a.key == a.key && decOk a.val

theorem pin_antennas (T : List Tok) : ∀ (as : List Antenna) (p : Pin) (f : Nat), as.length ≤ f → as.all antennaOk = true →
    pinBody f p (as.flatMap wAntenna ++ T) = pinBody (f - as.length) { p with antennaAttrs := p.antennaAttrs ++ as } T := by
  intro as
  induction as with
  | nil => intro p f _ _; simp
  | cons a r ih =>
    intro p f hf hok
    obtain ⟨n, rfl⟩ : ∃ n, f = n + 1 := ⟨f - 1, by simp at hf; omega⟩
    simp only [List.all_cons, antennaOk, Bool.and_eq_true] at hok
    obtain ⟨⟨⟨hk, hu⟩, hv⟩, hrest⟩ := hok
    simp only [beq_iff_eq] at hu
    cases hp : LefEnum.parse keyTable a.key with
    | none => simp [hp] at hk
    | some k =>
      simp only [hp] at hk
      have hpk : peekKey (wAntenna a ++ (r.flatMap wAntenna ++ T)) = some k := by
        simp only [wAntenna, List.append_assoc, List.cons_append, List.nil_append, peekKey, ident]; exact hp
      have hnot : (k == "End") = false ∧ (k == "Port") = false ∧ (k == "Direction") = false ∧ (k == "Use") = false ∧
          (k == "Shape") = false ∧ (k == "AntennaModel") = false := by
        simp only [antennaKeys, List.contains_cons, List.contains_nil, Bool.or_false, Bool.or_eq_true, beq_iff_eq] at hk
        rcases hk with rfl | rfl | rfl | rfl | rfl | rfl | rfl | rfl | rfl <;> decide
      simp only [List.flatMap_cons, List.append_assoc]
      rw [pinBody]
      simp only [hpk, hnot.1, hnot.2.1, hnot.2.2.1, hnot.2.2.2.1, hnot.2.2.2.2.1, hnot.2.2.2.2.2, Bool.false_eq_true, if_false, hk, if_true]
      simp only [wAntenna, List.append_assoc, List.cons_append, List.nil_append, getName_ident, Option.bind_some, number_num a.val _ hv]
      cases hl : a.layer with
      | none =>
        simp only [opt, List.nil_append, matches_semi, if_true, List.tail_cons, upperStr, hu]
        have := ih { p with antennaAttrs := p.antennaAttrs ++ [⟨a.key, a.val, none⟩] } n (by simp at hf; omega) hrest
        simp only [wAntenna] at this
        rw [this]
        obtain ⟨ak, av, al⟩ := a
        simp only at hl; subst hl
        simp [Nat.add_sub_add_right]
      | some l =>
        simp only [opt, List.cons_append, List.nil_append, not_matches_semi_kw, Bool.false_eq_true, if_false,
          expectKey_kw "Layer" _ k_Layer, Option.bind_some, getName_ident, semi_semiTok, upperStr, hu]
        have := ih { p with antennaAttrs := p.antennaAttrs ++ [⟨a.key, a.val, some l⟩] } n (by simp at hf; omega) hrest
        simp only [wAntenna] at this
        rw [this]
        obtain ⟨ak, av, al⟩ := a
        simp only at hl; subst hl
        simp [Nat.add_sub_add_right]

def optOk {α : Type} (o : Option α) (f : α → Bool) : Bool := match o with | some a => f a | none => true

/-- optional one-statement steps: consume one unit of fuel exactly when the statement is present -/
def st {α : Type} (o : Option α) : Nat := if o.isSome then 1 else 0

theorem pin_opt_dir (f : Nat) (p : Pin) (o : Option (String × Bool)) (T : List Tok) (hp : p.direction = none)
    (h : optOk o dirOk = true) :
    pinBody (f + st o) p (opt o wDir ++ T) = pinBody f { p with direction := o } T := by
  cases o with
  | none => cases p; simp only at hp; subst hp; simp [st, opt]
  | some d => simpa [st, opt] using pin_dir f p d T h
theorem pin_opt_use (f : Nat) (p : Pin) (o : Option String) (T : List Tok) (hp : p.use_ = none)
    (h : optOk o (isVariant "LefPinUse") = true) :
    pinBody (f + st o) p (opt o (fun e => [kw "Use", en "LefPinUse" e, semiTok]) ++ T) = pinBody f { p with use_ := o } T := by
  cases o with
  | none => cases p; simp only at hp; subst hp; simp [st, opt]
  | some e => simpa [st, opt] using pin_use f p e T h
theorem pin_opt_shape (f : Nat) (p : Pin) (o : Option String) (T : List Tok) (hp : p.shape = none)
    (h : optOk o (isVariant "LefPinShape") = true) :
    pinBody (f + st o) p (opt o (fun e => [kw "Shape", en "LefPinShape" e, semiTok]) ++ T) = pinBody f { p with shape := o } T := by
  cases o with
  | none => cases p; simp only at hp; subst hp; simp [st, opt]
  | some e => simpa [st, opt] using pin_shape f p e T h
theorem pin_opt_amodel (f : Nat) (p : Pin) (o : Option String) (T : List Tok) (hp : p.antennaModel = none)
    (h : optOk o (isVariant "LefAntennaModel") = true) :
    pinBody (f + st o) p (opt o (fun e => [kw "AntennaModel", en "LefAntennaModel" e, semiTok]) ++ T) = pinBody f { p with antennaModel := o } T := by
  cases o with
  | none => cases p; simp only at hp; subst hp; simp [st, opt]
  | some e => simpa [st, opt] using pin_amodel f p e T h
theorem pin_opt_taper (f : Nat) (p : Pin) (o : Option Str) (T : List Tok) (hp : p.taperRule = none) :
    pinBody (f + st o) p (opt o (fun v => [kw "TaperRule", ident v, semiTok]) ++ T) = pinBody f { p with taperRule := o } T := by
  cases o with
  | none => cases p; simp only at hp; subst hp; simp [st, opt]
  | some e => simpa [st, opt] using pin_taper f p e T
theorem pin_opt_supply (f : Nat) (p : Pin) (o : Option Str) (T : List Tok) (hp : p.supplySensitivity = none) :
    pinBody (f + st o) p (opt o (fun v => [kw "SupplySensitivity", ident v, semiTok]) ++ T) = pinBody f { p with supplySensitivity := o } T := by
  cases o with
  | none => cases p; simp only at hp; subst hp; simp [st, opt]
  | some e => simpa [st, opt] using pin_supply f p e T
theorem pin_opt_ground (f : Nat) (p : Pin) (o : Option Str) (T : List Tok) (hp : p.groundSensitivity = none) :
    pinBody (f + st o) p (opt o (fun v => [kw "GroundSensitivity", ident v, semiTok]) ++ T) = pinBody f { p with groundSensitivity := o } T := by
  cases o with
  | none => cases p; simp only at hp; subst hp; simp [st, opt]
  | some e => simpa [st, opt] using pin_ground f p e T
theorem pin_opt_mustjoin (f : Nat) (p : Pin) (o : Option Str) (T : List Tok) (hp : p.mustJoin = none) :
    pinBody (f + st o) p (opt o (fun v => [kw "MustJoin", ident v, semiTok]) ++ T) = pinBody f { p with mustJoin := o } T := by
  cases o with
  | none => cases p; simp only at hp; subst hp; simp [st, opt]
  | some e => simpa [st, opt] using pin_mustjoin f p e T
theorem pin_opt_netexpr (f : Nat) (p : Pin) (o : Option Str) (T : List Tok) (hp : p.netExpr = none) :
    pinBody (f + st o) p (opt o (fun v => [kw "NetExpr", strTok v, semiTok]) ++ T) = pinBody f { p with netExpr := o } T := by
  cases o with
  | none => cases p; simp only at hp; subst hp; simp [st, opt]
  | some e => simpa [st, opt] using pin_netexpr f p e T

theorem pin_antennas' (T : List Tok) (as : List Antenna) (p : Pin) (f : Nat) (h : as.all antennaOk = true) :
    pinBody (f + as.length) p (as.flatMap wAntenna ++ T) = pinBody f { p with antennaAttrs := p.antennaAttrs ++ as } T := by
  rw [pin_antennas T as p _ (by omega) h]; simp
theorem pin_props' (T : List Tok) (ps : List Prop') (p : Pin) (f : Nat) :
    pinBody (f + ps.length) p (ps.flatMap wProp ++ T) = pinBody f { p with properties := p.properties ++ ps } T := by
  rw [pin_props T ps p _ (by omega)]; simp
theorem pin_ports' (T : List Tok) (ps : List Port) (p : Pin) (f : Nat) (h : ps.all portOk = true) :
    pinBody (f + ps.length) p (ps.flatMap wPort ++ T) = pinBody f { p with ports := p.ports ++ ps } T := by
  rw [pin_ports T ps p _ (by omega) h]; simp

def pinOk (p : Pin) : Bool :=
  optOk p.direction dirOk && optOk p.use_ (isVariant "LefPinUse") && optOk p.shape (isVariant "LefPinShape") &&
  optOk p.antennaModel (isVariant "LefAntennaModel") && p.antennaAttrs.all antennaOk && p.ports.all portOk

theorem wPin_eq (p : Pin) : wPin p =
    [kw "Pin", ident p.name] ++ (opt p.direction wDir ++ (opt p.use_ (fun e => [kw "Use", en "LefPinUse" e, semiTok]) ++
      (opt p.shape (fun e => [kw "Shape", en "LefPinShape" e, semiTok]) ++ (opt p.antennaModel (fun e => [kw "AntennaModel", en "LefAntennaModel" e, semiTok]) ++
      (p.antennaAttrs.flatMap wAntenna ++ (opt p.taperRule (fun v => [kw "TaperRule", ident v, semiTok]) ++
      (opt p.supplySensitivity (fun v => [kw "SupplySensitivity", ident v, semiTok]) ++ (opt p.groundSensitivity (fun v => [kw "GroundSensitivity", ident v, semiTok]) ++
      (opt p.mustJoin (fun v => [kw "MustJoin", ident v, semiTok]) ++ (opt p.netExpr (fun v => [kw "NetExpr", strTok v, semiTok]) ++
      (p.properties.flatMap wProp ++ (p.ports.flatMap wPort ++ [kw "End", ident p.name])))))))))))) := by
  simp only [wPin, List.append_assoc]
  rfl

theorem flatMap_wPort_length (ps : List Port) : ps.length ≤ (ps.flatMap wPort).length := by
  induction ps with
  | nil => simp
  | cons a r ih => have := wPort_length a; simp only [List.flatMap_cons, List.length_append, List.length_cons]; omega
theorem flatMap_wProp_length (ps : List Prop') : ps.length ≤ (ps.flatMap wProp).length := by
  induction ps with
  | nil => simp
  | cons a r ih => simp only [List.flatMap_cons, List.length_append, List.length_cons, List.length_nil, wProp]; omega
theorem flatMap_wAntenna_length (ps : List Antenna) : ps.length ≤ (ps.flatMap wAntenna).length := by
  induction ps with
  | nil => simp
  | cons a r ih => simp only [List.flatMap_cons, List.length_append, List.length_cons, List.length_nil, wAntenna]; omega
theorem st_le_opt {α : Type} (o : Option α) (w : α → List Tok) (h : ∀ a, 1 ≤ (w a).length) : st o ≤ (opt o w).length := by
  cases o with
  | none => simp [st]
  | some a => simpa [st, opt] using h a

/-- the body of a pin up to and including END -/
theorem pinBody_w (p : Pin) (T : List Tok) (h : pinOk p = true) (F : Nat)
    (hF : st p.direction + st p.use_ + st p.shape + st p.antennaModel + p.antennaAttrs.length + st p.taperRule + st p.supplySensitivity +
      st p.groundSensitivity + st p.mustJoin + st p.netExpr + p.properties.length + p.ports.length + 1 ≤ F) :
    pinBody F ⟨p.name, [], none, none, none, none, [], none, none, none, none, none, []⟩
      ((wPin p).drop 2 ++ T) = some (p, ident p.name :: T) := by
  obtain ⟨name, ports, direction, use_, shape, amodel, ants, taper, supply, ground, mustjoin, netexpr, props⟩ := p
  simp only [pinOk, Bool.and_eq_true] at h
  obtain ⟨⟨⟨⟨⟨h1, h2⟩, h3⟩, h4⟩, h5⟩, h6⟩ := h
  simp only at hF
  obtain ⟨g, rfl⟩ : ∃ g, F = ((((((((((((g + 1) + ports.length) + props.length) + st netexpr) + st mustjoin) + st ground) + st supply)
      + st taper) + ants.length) + st amodel) + st shape) + st use_) + st direction := ⟨F - (st direction + st use_ + st shape + st amodel + ants.length + st taper + st supply +
      st ground + st mustjoin + st netexpr + props.length + ports.length + 1), by omega⟩
  rw [wPin_eq]
  simp only [List.cons_append, List.nil_append, List.drop_succ_cons, List.drop_zero, List.append_assoc]
  rw [pin_opt_dir _ _ _ _ rfl h1]; dsimp only
  rw [pin_opt_use _ _ _ _ rfl h2]; dsimp only
  rw [pin_opt_shape _ _ _ _ rfl h3]; dsimp only
  rw [pin_opt_amodel _ _ _ _ rfl h4]; dsimp only
  rw [pin_antennas' _ _ _ _ h5]; dsimp only
  rw [pin_opt_taper _ _ _ _ rfl]; dsimp only
  rw [pin_opt_supply _ _ _ _ rfl]; dsimp only
  rw [pin_opt_ground _ _ _ _ rfl]; dsimp only
  rw [pin_opt_mustjoin _ _ _ _ rfl]; dsimp only
  rw [pin_opt_netexpr _ _ _ _ rfl]; dsimp only
  rw [pin_props']; dsimp only
  rw [pin_ports' _ _ _ _ h6]; dsimp only
  rw [pin_end]
  simp

theorem pin_w (p : Pin) (T : List Tok) (h : pinOk p = true) : pin (wPin p ++ T) = some (p, T) := by
  have hb := pinBody_w p T h (((wPin p).drop 2 ++ T).length + 1) (by
    rw [wPin_eq]
    simp only [List.cons_append, List.nil_append, List.drop_succ_cons, List.drop_zero, List.length_append, List.length_cons, List.length_nil]
    have a1 := st_le_opt p.direction wDir (by intro a; simp [wDir])
    have a2 := st_le_opt p.use_ (fun e => [kw "Use", en "LefPinUse" e, semiTok]) (by intro a; simp)
    have a3 := st_le_opt p.shape (fun e => [kw "Shape", en "LefPinShape" e, semiTok]) (by intro a; simp)
    have a4 := st_le_opt p.antennaModel (fun e => [kw "AntennaModel", en "LefAntennaModel" e, semiTok]) (by intro a; simp)
    have a5 := flatMap_wAntenna_length p.antennaAttrs
    have a6 := st_le_opt p.taperRule (fun v => [kw "TaperRule", ident v, semiTok]) (by intro a; simp)
    have a7 := st_le_opt p.supplySensitivity (fun v => [kw "SupplySensitivity", ident v, semiTok]) (by intro a; simp)
    have a8 := st_le_opt p.groundSensitivity (fun v => [kw "GroundSensitivity", ident v, semiTok]) (by intro a; simp)
    have a9 := st_le_opt p.mustJoin (fun v => [kw "MustJoin", ident v, semiTok]) (by intro a; simp)
    have a10 := st_le_opt p.netExpr (fun v => [kw "NetExpr", strTok v, semiTok]) (by intro a; simp)
    have a11 := flatMap_wProp_length p.properties
    have a12 := flatMap_wPort_length p.ports
    omega)
  have hsplit : wPin p ++ T = kw "Pin" :: ident p.name :: ((wPin p).drop 2 ++ T) := by
    rw [wPin_eq]; simp
  rw [hsplit]
  unfold pin
  simp only [expectKey_kw "Pin" _ k_Pin, getName_ident, Option.bind_eq_bind, Option.bind_some]
  rw [hb]
  simp [expectIdent, getName_ident]

/-! ### macros -/
theorem k_Macro : isKey "Macro" = true := by decide +kernel
theorem k_Site : isKey "Site" = true := by decide +kernel
theorem k_Eeq : isKey "Eeq" = true := by decide +kernel
theorem k_FixedMask : isKey "FixedMask" = true := by decide +kernel
theorem k_Foreign : isKey "Foreign" = true := by decide +kernel
theorem k_Origin : isKey "Origin" = true := by decide +kernel
theorem k_Size : isKey "Size" = true := by decide +kernel
theorem k_Obs : isKey "Obs" = true := by decide +kernel
theorem k_Symmetry : isKey "Symmetry" = true := by decide +kernel
theorem k_Source : isKey "Source" = true := by decide +kernel
theorem k_Density : isKey "Density" = true := by decide +kernel
theorem k_Bump : isKey "Bump" = true := by decide +kernel
theorem t_Symmetry : (lefEnums.lookup "LefSymmetry").isSome = true := by decide +kernel
theorem t_Orient : (lefEnums.lookup "LefOrient").isSome = true := by decide +kernel
theorem t_DefSource : (lefEnums.lookup "LefDefSource").isSome = true := by decide +kernel
theorem t_MacroClassName : (lefEnums.lookup "LefMacroClassName").isSome = true := by decide +kernel
theorem t_Block : (lefEnums.lookup "LefBlockClassType").isSome = true := by decide +kernel
theorem t_Pad : (lefEnums.lookup "LefPadClassType").isSome = true := by decide +kernel
theorem t_Core : (lefEnums.lookup "LefCoreClassType").isSome = true := by decide +kernel
theorem t_EndCap : (lefEnums.lookup "LefEndCapClassType").isSome = true := by decide +kernel

theorem not_matches_semi_en (t v : String) (r : List Tok) : matchesTT .semi (en t v :: r) = false := by simp [matchesTT, en]

theorem symmetries_w (T : List Tok) : ∀ (ss : List String) (acc : List String) (f : Nat), ss.length + 1 ≤ f →
    ss.all (isVariant "LefSymmetry") = true →
    symmetries f acc (ss.map (en "LefSymmetry") ++ semiTok :: T) = some (acc ++ ss, T) := by
  intro ss
  induction ss with
  | nil =>
    intro acc f hf _
    obtain ⟨n, rfl⟩ : ∃ n, f = n + 1 := ⟨f - 1, by simp at hf; omega⟩
    simp [symmetries, matches_semi]
  | cons x r ih =>
    intro acc f hf hok
    obtain ⟨n, rfl⟩ : ∃ n, f = n + 1 := ⟨f - 1, by simp at hf; omega⟩
    simp only [List.all_cons, Bool.and_eq_true] at hok
    simp only [List.map_cons, List.cons_append]
    rw [symmetries]
    simp only [not_matches_semi_en, Bool.false_eq_true, if_false, parseEnum_en "LefSymmetry" x _ t_Symmetry hok.1, Option.bind_some]
    rw [ih (acc ++ [x]) n (by simp at hf; omega) hok.2]
    simp

theorem sizeStmt_w (a b : Dec) (T : List Tok) (ha : decOk a = true) (hb : decOk b = true) :
    sizeStmt (kw "Size" :: num a :: kw "By" :: num b :: semiTok :: T) = some ((a, b), T) := by
  simp [sizeStmt, expectKey_kw, k_Size, k_By, number_num, ha, hb, semi_semiTok]

/-- class well-formedness: the class name with an admissible sub-type / BUMP flag -/
def classOk (c : String × Option String × Bool) : Bool :=
  (c.1 == "Cover" && c.2.1.isNone) ||
  (c.1 == "Ring" && c.2.1.isNone && !c.2.2) ||
  (c.1 == "Block" && optOk c.2.1 (isVariant "LefBlockClassType") && !c.2.2) ||
  (c.1 == "Pad" && optOk c.2.1 (isVariant "LefPadClassType") && !c.2.2) ||
  (c.1 == "Core" && optOk c.2.1 (isVariant "LefCoreClassType") && !c.2.2) ||
  (c.1 == "EndCap" && (match c.2.1 with | some t => isVariant "LefEndCapClassType" t | none => false) && !c.2.2)

theorem macroClass_w (c : String × Option String × Bool) (T : List Tok) (h : classOk c = true) :
    macroClass (wMacroClass c ++ T) = some (c, T) := by
  obtain ⟨n, sub, bump⟩ := c
  simp only [classOk, Bool.or_eq_true, Bool.and_eq_true, beq_iff_eq, Bool.not_eq_true', Option.isNone_iff_eq_none] at h
  rcases h with ((((⟨rfl, rfl⟩ | ⟨⟨rfl, rfl⟩, rfl⟩) | ⟨⟨rfl, hs⟩, rfl⟩) | ⟨⟨rfl, hs⟩, rfl⟩) | ⟨⟨rfl, hs⟩, rfl⟩) | ⟨⟨rfl, hs⟩, rfl⟩
  · cases bump
    · simp [wMacroClass, opt, macroClass, expectKey_kw, k_Class, parseEnum_en "LefMacroClassName" "Cover" _ t_MacroClassName (by decide +kernel), matches_semi]
    · simp [wMacroClass, opt, macroClass, expectKey_kw, k_Class, parseEnum_en "LefMacroClassName" "Cover" _ t_MacroClassName (by decide +kernel),
        not_matches_semi_kw, k_Bump, semi_semiTok]
  · simp [wMacroClass, opt, macroClass, expectKey_kw, k_Class, parseEnum_en "LefMacroClassName" "Ring" _ t_MacroClassName (by decide +kernel), semi_semiTok]
  · cases sub with
    | none => simp [wMacroClass, opt, macroClass, expectKey_kw, k_Class, parseEnum_en "LefMacroClassName" "Block" _ t_MacroClassName (by decide +kernel), matches_semi]
    | some t =>
      simp only [optOk] at hs
      simp [wMacroClass, opt, macroClass, expectKey_kw, k_Class, parseEnum_en "LefMacroClassName" "Block" _ t_MacroClassName (by decide +kernel),
        not_matches_semi_en, parseEnum_en "LefBlockClassType" t _ t_Block hs, semi_semiTok]
  · cases sub with
    | none => simp [wMacroClass, opt, macroClass, expectKey_kw, k_Class, parseEnum_en "LefMacroClassName" "Pad" _ t_MacroClassName (by decide +kernel), matches_semi]
    | some t =>
      simp only [optOk] at hs
      simp [wMacroClass, opt, macroClass, expectKey_kw, k_Class, parseEnum_en "LefMacroClassName" "Pad" _ t_MacroClassName (by decide +kernel),
        not_matches_semi_en, parseEnum_en "LefPadClassType" t _ t_Pad hs, semi_semiTok]
  · cases sub with
    | none => simp [wMacroClass, opt, macroClass, expectKey_kw, k_Class, parseEnum_en "LefMacroClassName" "Core" _ t_MacroClassName (by decide +kernel), matches_semi]
    | some t =>
      simp only [optOk] at hs
      simp [wMacroClass, opt, macroClass, expectKey_kw, k_Class, parseEnum_en "LefMacroClassName" "Core" _ t_MacroClassName (by decide +kernel),
        not_matches_semi_en, parseEnum_en "LefCoreClassType" t _ t_Core hs, semi_semiTok]
  · cases sub with
    | none => simp at hs
    | some t =>
      simp only at hs
      simp [wMacroClass, opt, macroClass, expectKey_kw, k_Class, parseEnum_en "LefMacroClassName" "EndCap" _ t_MacroClassName (by decide +kernel),
        parseEnum_en "LefEndCapClassType" t _ t_EndCap hs, semi_semiTok]

/-- LAYER blocks of an OBS, then END -/
theorem obsBody_w (T : List Tok) : ∀ (ls : List LayerGeoms) (acc : List LayerGeoms) (f : Nat), ls.length + 1 ≤ f →
    ls.all lgOk = true →
    obsBody f acc (ls.flatMap wLayerGeoms ++ kw "End" :: T) = some (acc ++ ls, T) := by
  intro ls
  induction ls with
  | nil =>
    intro acc f hf _
    obtain ⟨n, rfl⟩ : ∃ n, f = n + 1 := ⟨f - 1, by simp at hf; omega⟩
    simp [obsBody, peekKey_kw "End" T k_End]
  | cons l r ih =>
    intro acc f hf hok
    obtain ⟨n, rfl⟩ : ∃ n, f = n + 1 := ⟨f - 1, by simp at hf; omega⟩
    simp only [List.all_cons, Bool.and_eq_true] at hok
    simp only [List.flatMap_cons, List.append_assoc]
    have hstop : StopLE (r.flatMap wLayerGeoms ++ kw "End" :: T) := by
      cases r with
      | nil => exact Or.inr (Or.inr ⟨T, rfl⟩)
      | cons l2 r2 => exact Or.inr (Or.inl ⟨_, by rw [List.flatMap_cons, wLayerGeoms_eq]; simp only [List.append_assoc, List.cons_append, List.nil_append]; rfl⟩)
    have hhead : peekKey (wLayerGeoms l ++ (r.flatMap wLayerGeoms ++ kw "End" :: T)) = some "Layer" := by
      rw [wLayerGeoms_eq]; simp only [List.append_assoc, List.cons_append]; exact peekKey_kw _ _ k_Layer
    have hne : (wLayerGeoms l ++ (r.flatMap wLayerGeoms ++ kw "End" :: T)).isEmpty = false := by
      rw [wLayerGeoms_eq]; rfl
    rw [obsBody]
    simp only [hne, Bool.false_eq_true, if_false, hhead, beq_self_eq_true, if_true, layerGeoms_w l _ hok.1 hstop, Option.bind_some]
    have hl := wLayerGeoms_length l
    rw [if_pos (by simp only [List.length_append]; omega)]
    rw [ih (acc ++ [l]) n (by simp at hf; omega) hok.2]
    simp

/-! density -/
def wDensityRect (r : DensityRect) : List Tok := [kw "Rect"] ++ wPt r.p1 ++ wPt r.p2 ++ [num r.value, semiTok]
def wDensityLayer (l : DensityGeoms) : List Tok := [kw "Layer", ident l.layerName, semiTok] ++ l.rects.flatMap wDensityRect
def drOk (r : DensityRect) : Bool := ptOk r.p1 && ptOk r.p2 && decOk r.value
def dlOk (l : DensityGeoms) : Bool := l.rects.all drOk

theorem densityRects_w (T : List Tok) (hT : (∃ r, T = kw "Layer" :: r) ∨ (∃ r, T = kw "End" :: r)) :
    ∀ (rs : List DensityRect) (acc : List DensityRect) (f : Nat), rs.length + 1 ≤ f → rs.all drOk = true →
    densityRects f acc (rs.flatMap wDensityRect ++ T) = some (acc ++ rs, T) := by
  intro rs
  induction rs with
  | nil =>
    intro acc f hf _
    obtain ⟨n, rfl⟩ : ∃ n, f = n + 1 := ⟨f - 1, by simp at hf; omega⟩
    rcases hT with ⟨r, rfl⟩ | ⟨r, rfl⟩
    · simp [densityRects, peekKey_kw "Layer" r k_Layer]
    · simp [densityRects, peekKey_kw "End" r k_End]
  | cons x r ih =>
    intro acc f hf hok
    obtain ⟨n, rfl⟩ : ∃ n, f = n + 1 := ⟨f - 1, by simp at hf; omega⟩
    simp only [List.all_cons, Bool.and_eq_true] at hok
    obtain ⟨hx, hr⟩ := hok
    simp only [drOk, Bool.and_eq_true] at hx
    simp only [List.flatMap_cons, wDensityRect, List.append_assoc, List.cons_append, List.nil_append]
    rw [densityRects]
    simp only [peekKey_kw "Rect" _ k_Rect, show ("Rect" == "Layer") = false by decide, show ("Rect" == "End") = false by decide,
      Bool.or_self, Bool.false_eq_true, if_false, beq_self_eq_true, if_true, List.tail_cons, point_wPt _ _ hx.1.1, Option.bind_some,
      point_wPt _ _ hx.1.2, number_num _ _ hx.2, semi_semiTok]
    have := ih (acc ++ [x]) n (by simp at hf; omega) hr
    simp only [wDensityRect, List.append_assoc, List.cons_append, List.nil_append] at this
    rw [this]
    try simp

theorem wDensityLayer_length (l : DensityGeoms) : 3 ≤ (wDensityLayer l).length := by simp [wDensityLayer]

theorem densityBody_w (T : List Tok) : ∀ (ls : List DensityGeoms) (acc : List DensityGeoms) (f : Nat), ls.length + 1 ≤ f →
    ls.all dlOk = true →
    densityBody f acc (ls.flatMap wDensityLayer ++ kw "End" :: T) = some (acc ++ ls, T) := by
  intro ls
  induction ls with
  | nil =>
    intro acc f hf _
    obtain ⟨n, rfl⟩ : ∃ n, f = n + 1 := ⟨f - 1, by simp at hf; omega⟩
    simp [densityBody, peekKey_kw "End" T k_End]
  | cons l r ih =>
    intro acc f hf hok
    obtain ⟨n, rfl⟩ : ∃ n, f = n + 1 := ⟨f - 1, by simp at hf; omega⟩
    simp only [List.all_cons, Bool.and_eq_true] at hok
    have hT : (∃ q, r.flatMap wDensityLayer ++ kw "End" :: T = kw "Layer" :: q) ∨ (∃ q, r.flatMap wDensityLayer ++ kw "End" :: T = kw "End" :: q) := by
      cases r with
      | nil => exact Or.inr ⟨T, rfl⟩
      | cons l2 r2 => exact Or.inl ⟨_, by simp only [List.flatMap_cons, wDensityLayer, List.append_assoc, List.cons_append, List.nil_append]; rfl⟩
    have hlenr : l.rects.length ≤ (l.rects.flatMap wDensityRect).length := by
      generalize l.rects = rs
      induction rs with
      | nil => simp
      | cons a b ihb => simp only [List.flatMap_cons, List.length_append, List.length_cons, wDensityRect, wPt, List.length_nil]; omega
    simp only [List.flatMap_cons, wDensityLayer, List.append_assoc, List.cons_append, List.nil_append]
    rw [densityBody]
    simp only [peekKey_kw "Layer" _ k_Layer, beq_self_eq_true, if_true, List.tail_cons, getName_ident, Option.bind_some, semi_semiTok]
    rw [densityRects_w _ hT l.rects [] _ (by simp only [List.length_append, List.length_cons]; omega) hok.1]
    simp only [List.nil_append, Option.bind_some]
    rw [if_pos (by simp only [List.length_append, List.length_cons]; omega)]
    have := ih (acc ++ [⟨l.layerName, l.rects⟩]) n (by simp at hf; omega) hok.2
    simp only [wDensityLayer, List.append_assoc, List.cons_append, List.nil_append] at this
    rw [this]
    try simp

/-! macro body: one-statement steps -/
def wForeign (f : Foreign) : List Tok := [kw "Foreign", ident f.cell] ++ opt f.pt wPt ++ opt f.orient (fun o => [en "LefOrient" o]) ++ [semiTok]
def foreignOk (f : Foreign) : Bool :=
  optOk f.pt ptOk && optOk f.orient (isVariant "LefOrient") && (f.pt.isSome || f.orient.isNone)

theorem mac_class (ver : Dec) (f : Nat) (m : Macro) (c : String × Option String × Bool) (T : List Tok) (h : classOk c = true) :
    macroBody ver (f + 1) m (wMacroClass c ++ T) = macroBody ver f { m with cls := some c } T := by
  have hpk : peekKey (wMacroClass c ++ T) = some "Class" := by
    simp only [wMacroClass, List.append_assoc, List.cons_append]; exact peekKey_kw _ _ k_Class
  have hl : T.length < (wMacroClass c ++ T).length := by simp only [wMacroClass, List.length_append, List.length_cons]; omega
  rw [macroBody]
  simp only [hpk, beq_self_eq_true, if_true, macroClass_w c T h, Option.bind_some, hl]

theorem mac_fixedmask (ver : Dec) (f : Nat) (m : Macro) (T : List Tok) :
    macroBody ver (f + 1) m (kw "FixedMask" :: semiTok :: T) = macroBody ver f { m with fixedMask := true } T := by
  rw [macroBody]; simp [peekKey_kw "FixedMask" _ k_FixedMask, semi_semiTok]; omega

theorem mac_foreign (ver : Dec) (f : Nat) (m : Macro) (fr : Foreign) (T : List Tok) (h : foreignOk fr = true) :
    macroBody ver (f + 1) m (wForeign fr ++ T) = macroBody ver f { m with foreign := some fr } T := by
  obtain ⟨c, pt, o⟩ := fr
  simp only [foreignOk, Bool.and_eq_true, Bool.or_eq_true, Option.isSome_iff_ne_none, Option.isNone_iff_eq_none] at h
  obtain ⟨⟨hp, ho⟩, hpo⟩ := h
  rw [macroBody]
  cases pt with
  | none =>
    have : o = none := by rcases hpo with h | h; exact absurd rfl h; exact h
    subst this
    simp [wForeign, opt, peekKey_kw "Foreign" _ k_Foreign, getName_ident, matches_semi]; omega
  | some p =>
    simp only [optOk] at hp
    have hp' := hp
    simp only [ptOk, Bool.and_eq_true] at hp'
    cases o with
    | none =>
      simp [wForeign, opt, wPt, peekKey_kw "Foreign" _ k_Foreign, getName_ident, matchesTT, num, semiTok, point, number, expectTT,
        decOk] at hp' ⊢
      simp [hp'.1, hp'.2]; omega
    | some ov =>
      simp only [optOk] at ho
      simp [wForeign, opt, wPt, peekKey_kw "Foreign" _ k_Foreign, getName_ident, matchesTT, num, semiTok, point, number, expectTT,
        decOk, en] at hp' ⊢
      simp [hp'.1, hp'.2]
      have := parseEnum_en "LefOrient" ov (semiTok :: T) t_Orient ho
      simp only [en, semiTok] at this
      simp [this, semi, expectTT]
      have : T.length < T.length + 1 + 1 + 1 + 1 + 1 + 1 := by omega
      simp [this]

theorem mac_origin (ver : Dec) (f : Nat) (m : Macro) (p : Pt) (T : List Tok) (h : ptOk p = true) :
    macroBody ver (f + 1) m (kw "Origin" :: (wPt p ++ semiTok :: T)) = macroBody ver f { m with origin := some p } T := by
  generalize hts : kw "Origin" :: (wPt p ++ semiTok :: T) = ts
  have hpk : peekKey ts = some "Origin" := by subst hts; exact peekKey_kw _ _ k_Origin
  have htl : ts.tail = wPt p ++ semiTok :: T := by subst hts; rfl
  have hl : T.length < ts.length := by subst hts; simp; omega
  rw [macroBody]; simp [hpk, htl, point_wPt p _ h, semi_semiTok, hl]

theorem mac_source (ver : Dec) (f : Nat) (m : Macro) (e : String) (T : List Tok) (h : isVariant "LefDefSource" e = true)
    (hv : v5p4.lt ver = false) :
    macroBody ver (f + 1) m (kw "Source" :: en "LefDefSource" e :: semiTok :: T) = macroBody ver f { m with source := some e } T := by
  generalize hts : kw "Source" :: en "LefDefSource" e :: semiTok :: T = ts
  have hpk : peekKey ts = some "Source" := by subst hts; exact peekKey_kw _ _ k_Source
  have htl : ts.tail = en "LefDefSource" e :: semiTok :: T := by subst hts; rfl
  have hl : T.length < ts.length := by subst hts; simp; omega
  rw [macroBody]; simp [hpk, htl, hv, parseEnum_en "LefDefSource" e _ t_DefSource h, semi_semiTok, hl]

theorem mac_eeq (ver : Dec) (f : Nat) (m : Macro) (v : Str) (T : List Tok) :
    macroBody ver (f + 1) m (kw "Eeq" :: ident v :: semiTok :: T) = macroBody ver f { m with eeq := some v } T := by
  generalize hts : kw "Eeq" :: ident v :: semiTok :: T = ts
  have hpk : peekKey ts = some "Eeq" := by subst hts; exact peekKey_kw _ _ k_Eeq
  have htl : ts.tail = ident v :: semiTok :: T := by subst hts; rfl
  have hl : T.length < ts.length := by subst hts; simp; omega
  rw [macroBody]; simp [hpk, htl, getName_ident, semi_semiTok, hl]

theorem mac_site (ver : Dec) (f : Nat) (m : Macro) (v : Str) (T : List Tok) :
    macroBody ver (f + 1) m (kw "Site" :: ident v :: semiTok :: T) = macroBody ver f { m with site := some v } T := by
  generalize hts : kw "Site" :: ident v :: semiTok :: T = ts
  have hpk : peekKey ts = some "Site" := by subst hts; exact peekKey_kw _ _ k_Site
  have htl : ts.tail = ident v :: semiTok :: T := by subst hts; rfl
  have hl : T.length < ts.length := by subst hts; simp; omega
  rw [macroBody]; simp [hpk, htl, getName_ident, semi_semiTok, hl]

theorem mac_size (ver : Dec) (f : Nat) (m : Macro) (sz : Dec × Dec) (T : List Tok) (ha : decOk sz.1 = true) (hb : decOk sz.2 = true) :
    macroBody ver (f + 1) m (kw "Size" :: num sz.1 :: kw "By" :: num sz.2 :: semiTok :: T) = macroBody ver f { m with size := some sz } T := by
  have hs := sizeStmt_w sz.1 sz.2 T ha hb
  generalize hts : kw "Size" :: num sz.1 :: kw "By" :: num sz.2 :: semiTok :: T = ts at hs
  have hpk : peekKey ts = some "Size" := by subst hts; exact peekKey_kw _ _ k_Size
  have hl : T.length < ts.length := by subst hts; simp; omega
  rw [macroBody]; simp [hpk, hs, hl]

theorem mac_symmetry (ver : Dec) (f : Nat) (m : Macro) (ss : List String) (T : List Tok) (h : ss.all (isVariant "LefSymmetry") = true) :
    macroBody ver (f + 1) m (wSymmetry ss ++ T) = macroBody ver f { m with symmetry := some ss } T := by
  have heq : wSymmetry ss ++ T = kw "Symmetry" :: (ss.map (en "LefSymmetry") ++ semiTok :: T) := by simp [wSymmetry]
  rw [heq]
  generalize hts : kw "Symmetry" :: (ss.map (en "LefSymmetry") ++ semiTok :: T) = ts
  have hpk : peekKey ts = some "Symmetry" := by subst hts; exact peekKey_kw _ _ k_Symmetry
  have htl : ts.tail = ss.map (en "LefSymmetry") ++ semiTok :: T := by subst hts; rfl
  have hl : T.length < ts.length := by subst hts; simp; omega
  have hlen : ss.length + 1 ≤ ts.length + 1 := by subst hts; simp; omega
  have hs := symmetries_w T ss [] (ts.length + 1) hlen h
  rw [macroBody]; simp [hpk, htl, hs, hl]

theorem mac_obs (ver : Dec) (f : Nat) (m : Macro) (ls : List LayerGeoms) (T : List Tok) (h : ls.all lgOk = true) :
    macroBody ver (f + 1) m (kw "Obs" :: (ls.flatMap wLayerGeoms ++ kw "End" :: T)) = macroBody ver f { m with obs := ls } T := by
  generalize hts : kw "Obs" :: (ls.flatMap wLayerGeoms ++ kw "End" :: T) = ts
  have hpk : peekKey ts = some "Obs" := by subst hts; exact peekKey_kw _ _ k_Obs
  have htl : ts.tail = ls.flatMap wLayerGeoms ++ kw "End" :: T := by subst hts; rfl
  have hl : T.length < ts.length := by subst hts; simp; omega
  have hlen : ls.length + 1 ≤ ts.length + 1 := by
    subst hts; have := flatMap_wLayerGeoms_length ls; simp only [List.length_cons, List.length_append]; omega
  have hs := obsBody_w T ls [] (ts.length + 1) hlen h
  rw [macroBody]; simp [hpk, htl, hs, hl]

theorem flatMap_wDensityLayer_length (ls : List DensityGeoms) : ls.length ≤ (ls.flatMap wDensityLayer).length := by
  induction ls with
  | nil => simp
  | cons a r ih =>
    have : 1 ≤ (wDensityLayer a).length := by simp [wDensityLayer]
    simp only [List.flatMap_cons, List.length_append, List.length_cons]; omega

theorem mac_density (ver : Dec) (f : Nat) (m : Macro) (ls : List DensityGeoms) (T : List Tok) (h : ls.all dlOk = true) :
    macroBody ver (f + 1) m (kw "Density" :: (ls.flatMap wDensityLayer ++ kw "End" :: T)) = macroBody ver f { m with density := some ls } T := by
  generalize hts : kw "Density" :: (ls.flatMap wDensityLayer ++ kw "End" :: T) = ts
  have hpk : peekKey ts = some "Density" := by subst hts; exact peekKey_kw _ _ k_Density
  have htl : ts.tail = ls.flatMap wDensityLayer ++ kw "End" :: T := by subst hts; rfl
  have hl : T.length < ts.length := by subst hts; simp; omega
  have hlen : ls.length + 1 ≤ ts.length + 1 := by
    subst hts; have := flatMap_wDensityLayer_length ls; simp only [List.length_cons, List.length_append]; omega
  have hs := densityBody_w T ls [] (ts.length + 1) hlen h
  rw [macroBody]; simp [hpk, htl, hs, hl]

theorem mac_end (ver : Dec) (f : Nat) (m : Macro) (T : List Tok) : macroBody ver (f + 1) m (kw "End" :: T) = some (m, T) := by
  rw [macroBody]; simp [peekKey_kw "End" _ k_End]

theorem mac_pins (ver : Dec) (T : List Tok) : ∀ (ps : List Pin) (m : Macro) (f : Nat), ps.length ≤ f → ps.all pinOk = true →
    macroBody ver f m (ps.flatMap wPin ++ T) = macroBody ver (f - ps.length) { m with pins := m.pins ++ ps } T := by
  intro ps
  induction ps with
  | nil => intro m f _ _; simp
  | cons pn r ih =>
    intro m f hf hok
    obtain ⟨n, rfl⟩ : ∃ n, f = n + 1 := ⟨f - 1, by simp at hf; omega⟩
    simp only [List.all_cons, Bool.and_eq_true] at hok
    simp only [List.flatMap_cons, List.append_assoc]
    have hp := pin_w pn (r.flatMap wPin ++ T) hok.1
    have hpk : peekKey (wPin pn ++ (r.flatMap wPin ++ T)) = some "Pin" := by
      rw [wPin_eq]; exact peekKey_kw _ _ k_Pin
    have hl : (r.flatMap wPin ++ T).length < (wPin pn ++ (r.flatMap wPin ++ T)).length := by
      rw [wPin_eq]; simp only [List.length_append, List.length_cons, List.cons_append]; omega
    generalize hR : r.flatMap wPin ++ T = R at hp hpk hl
    generalize wPin pn ++ R = ts at hp hpk hl
    rw [macroBody]; simp [hpk, hp, hl]
    subst hR
    rw [ih _ n (by simp at hf; omega) hok.2]
    simp [Nat.add_sub_add_right]

theorem mac_props (ver : Dec) (T : List Tok) : ∀ (ps : List Prop') (m : Macro) (f : Nat), ps.length ≤ f →
    macroBody ver f m (ps.flatMap wProp ++ T) = macroBody ver (f - ps.length) { m with properties := m.properties ++ ps } T := by
  intro ps
  induction ps with
  | nil => intro m f _; simp
  | cons pr r ih =>
    intro m f hf
    obtain ⟨n, rfl⟩ : ∃ n, f = n + 1 := ⟨f - 1, by simp at hf; omega⟩
    simp only [List.flatMap_cons, List.append_assoc]
    have hp := property_w m.properties pr (r.flatMap wProp ++ T)
    have hpk : peekKey (wProp pr ++ (r.flatMap wProp ++ T)) = some "Property" := by
      simp only [wProp, List.cons_append]; exact peekKey_kw _ _ k_Property
    have hl : (r.flatMap wProp ++ T).length < (wProp pr ++ (r.flatMap wProp ++ T)).length := by
      simp only [wProp, List.length_append, List.length_cons, List.length_nil]; omega
    generalize hR : r.flatMap wProp ++ T = R at hp hpk hl
    generalize wProp pr ++ R = ts at hp hpk hl
    rw [macroBody]; simp [hpk, hp, hl]
    subst hR
    rw [ih _ n (by simp at hf; omega)]
    simp [Nat.add_sub_add_right]

/-! optional macro statements -/
theorem mac_opt_cls (ver : Dec) (f : Nat) (m : Macro) (o : Option (String × Option String × Bool)) (T : List Tok) (hp : m.cls = none)
    (h : optOk o classOk = true) :
    macroBody ver (f + st o) m (opt o wMacroClass ++ T) = macroBody ver f { m with cls := o } T := by
  cases o with
  | none => cases m; simp only at hp; subst hp; simp [st, opt]
  | some d => simpa [st, opt] using mac_class ver f m d T h
theorem mac_opt_fixedmask (ver : Dec) (f : Nat) (m : Macro) (b : Bool) (T : List Tok) (hp : m.fixedMask = false) :
    macroBody ver (f + (if b then 1 else 0)) m ((if b then [kw "FixedMask", semiTok] else []) ++ T) = macroBody ver f { m with fixedMask := b } T := by
  cases b with
  | false => cases m; simp only at hp; subst hp; simp
  | true => simpa using mac_fixedmask ver f m T
theorem mac_opt_foreign (ver : Dec) (f : Nat) (m : Macro) (o : Option Foreign) (T : List Tok) (hp : m.foreign = none)
    (h : optOk o foreignOk = true) :
    macroBody ver (f + st o) m (opt o wForeign ++ T) = macroBody ver f { m with foreign := o } T := by
  cases o with
  | none => cases m; simp only at hp; subst hp; simp [st, opt]
  | some d => simpa [st, opt] using mac_foreign ver f m d T h
def wOrigin (p : Pt) : List Tok := [kw "Origin"] ++ wPt p ++ [semiTok]
theorem wOrigin_def : wOrigin = fun p => [kw "Origin"] ++ wPt p ++ [semiTok] := rfl
theorem wForeign_def : wForeign = fun f => [kw "Foreign", ident f.cell] ++ opt f.pt wPt ++ opt f.orient (fun o => [en "LefOrient" o]) ++ [semiTok] := rfl
theorem mac_opt_origin (ver : Dec) (f : Nat) (m : Macro) (o : Option Pt) (T : List Tok) (hp : m.origin = none)
    (h : optOk o ptOk = true) :
    macroBody ver (f + st o) m (opt o wOrigin ++ T) = macroBody ver f { m with origin := o } T := by
  cases o with
  | none => cases m; simp only at hp; subst hp; simp [st, opt]
  | some d => simpa [st, opt, wOrigin] using mac_origin ver f m d T h
theorem mac_opt_source (ver : Dec) (f : Nat) (m : Macro) (o : Option String) (T : List Tok) (hp : m.source = none)
    (h : optOk o (isVariant "LefDefSource") = true) (hv : o.isSome = true → v5p4.lt ver = false) :
    macroBody ver (f + st o) m (opt o (fun s => [kw "Source", en "LefDefSource" s, semiTok]) ++ T) = macroBody ver f { m with source := o } T := by
  cases o with
  | none => cases m; simp only at hp; subst hp; simp [st, opt]
  | some d => simpa [st, opt] using mac_source ver f m d T h (hv rfl)
theorem mac_opt_eeq (ver : Dec) (f : Nat) (m : Macro) (o : Option Str) (T : List Tok) (hp : m.eeq = none) :
    macroBody ver (f + st o) m (opt o (fun c => [kw "Eeq", ident c, semiTok]) ++ T) = macroBody ver f { m with eeq := o } T := by
  cases o with
  | none => cases m; simp only at hp; subst hp; simp [st, opt]
  | some d => simpa [st, opt] using mac_eeq ver f m d T
theorem mac_opt_site (ver : Dec) (f : Nat) (m : Macro) (o : Option Str) (T : List Tok) (hp : m.site = none) :
    macroBody ver (f + st o) m (opt o (fun c => [kw "Site", ident c, semiTok]) ++ T) = macroBody ver f { m with site := o } T := by
  cases o with
  | none => cases m; simp only at hp; subst hp; simp [st, opt]
  | some d => simpa [st, opt] using mac_site ver f m d T
def sizeOk (s : Dec × Dec) : Bool := decOk s.1 && decOk s.2
theorem mac_opt_size (ver : Dec) (f : Nat) (m : Macro) (o : Option (Dec × Dec)) (T : List Tok) (hp : m.size = none)
    (h : optOk o sizeOk = true) :
    macroBody ver (f + st o) m (opt o (fun s => [kw "Size", num s.1, kw "By", num s.2, semiTok]) ++ T) = macroBody ver f { m with size := o } T := by
  cases o with
  | none => cases m; simp only at hp; subst hp; simp [st, opt]
  | some d =>
    simp only [optOk, sizeOk, Bool.and_eq_true] at h
    simpa [st, opt] using mac_size ver f m d T h.1 h.2
def symOk (ss : List String) : Bool := ss.all (isVariant "LefSymmetry")
theorem mac_opt_symmetry (ver : Dec) (f : Nat) (m : Macro) (o : Option (List String)) (T : List Tok) (hp : m.symmetry = none)
    (h : optOk o symOk = true) :
    macroBody ver (f + st o) m (opt o wSymmetry ++ T) = macroBody ver f { m with symmetry := o } T := by
  cases o with
  | none => cases m; simp only at hp; subst hp; simp [st, opt]
  | some d => simpa [st, opt] using mac_symmetry ver f m d T h
def densOk (ls : List DensityGeoms) : Bool := ls.all dlOk
def wDensity' (d : List DensityGeoms) : List Tok := [kw "Density"] ++ d.flatMap wDensityLayer ++ [kw "End"]
theorem wDensity_eq (d : List DensityGeoms) : wDensity d = wDensity' d := rfl
theorem mac_opt_density (ver : Dec) (f : Nat) (m : Macro) (o : Option (List DensityGeoms)) (T : List Tok) (hp : m.density = none)
    (h : optOk o densOk = true) :
    macroBody ver (f + st o) m (opt o wDensity' ++ T) = macroBody ver f { m with density := o } T := by
  cases o with
  | none => cases m; simp only at hp; subst hp; simp [st, opt]
  | some d => simpa [st, opt, wDensity'] using mac_density ver f m d T h
def wObs (ls : List LayerGeoms) : List Tok := if ls.isEmpty then [] else [kw "Obs"] ++ ls.flatMap wLayerGeoms ++ [kw "End"]
def stl {α : Type} (l : List α) : Nat := if l.isEmpty then 0 else 1
theorem mac_opt_obs (ver : Dec) (f : Nat) (m : Macro) (ls : List LayerGeoms) (T : List Tok) (hp : m.obs = [])
    (h : ls.all lgOk = true) :
    macroBody ver (f + stl ls) m (wObs ls ++ T) = macroBody ver f { m with obs := ls } T := by
  cases ls with
  | nil => cases m; simp only at hp; subst hp; simp [stl, wObs]
  | cons a r => simpa [stl, wObs] using mac_obs ver f m (a :: r) T h
theorem mac_pins' (ver : Dec) (T : List Tok) (ps : List Pin) (m : Macro) (f : Nat) (h : ps.all pinOk = true) :
    macroBody ver (f + ps.length) m (ps.flatMap wPin ++ T) = macroBody ver f { m with pins := m.pins ++ ps } T := by
  rw [mac_pins ver T ps m _ (by omega) h]; simp
theorem mac_props' (ver : Dec) (T : List Tok) (ps : List Prop') (m : Macro) (f : Nat) :
    macroBody ver (f + ps.length) m (ps.flatMap wProp ++ T) = macroBody ver f { m with properties := m.properties ++ ps } T := by
  rw [mac_props ver T ps m _ (by omega)]; simp

def macroOk (m : Macro) : Bool :=
  optOk m.cls classOk && optOk m.foreign foreignOk && optOk m.origin ptOk && optOk m.source (isVariant "LefDefSource") &&
  optOk m.size sizeOk && optOk m.symmetry symOk && m.pins.all pinOk && m.obs.all lgOk && optOk m.density densOk

/-- the token sequence of a macro, in the writer's order (`wMacro` is this behind its version gate) -/
def wMacroToks (m : Macro) : List Tok :=
  [kw "Macro", ident m.name] ++ (opt m.cls wMacroClass ++ ((if m.fixedMask then [kw "FixedMask", semiTok] else []) ++
    (opt m.foreign wForeign ++ (opt m.origin wOrigin ++
    (opt m.source (fun s => [kw "Source", en "LefDefSource" s, semiTok]) ++ (opt m.eeq (fun c => [kw "Eeq", ident c, semiTok]) ++
    (opt m.size (fun s => [kw "Size", num s.1, kw "By", num s.2, semiTok]) ++ (opt m.symmetry wSymmetry ++
    (opt m.site (fun s => [kw "Site", ident s, semiTok]) ++ (m.pins.flatMap wPin ++ (wObs m.obs ++ (m.properties.flatMap wProp ++
    (opt m.density wDensity' ++ [kw "End", ident m.name])))))))))))))

theorem wMacro_eq (ver : Dec) (m : Macro) (h : (m.source.isSome && v5p4.lt ver) = false) : wMacro ver m = some (wMacroToks m) := by
  simp only [wMacro, h, wMacroToks, wObs, wForeign_def, wOrigin_def, show wDensity' = wDensity from rfl, List.append_assoc,
    Bool.false_eq_true, if_false]

theorem macroBody_w (ver : Dec) (m : Macro) (T : List Tok) (h : macroOk m = true) (hv : m.source.isSome = true → v5p4.lt ver = false) (F : Nat)
    (hF : st m.cls + (if m.fixedMask then 1 else 0) + st m.foreign + st m.origin + st m.source + st m.eeq + st m.size + st m.symmetry +
      st m.site + m.pins.length + stl m.obs + m.properties.length + st m.density + 1 ≤ F) :
    macroBody ver F ⟨m.name, [], [], none, none, none, none, none, none, none, none, false, [], none⟩
      ((wMacroToks m).drop 2 ++ T) = some (m, ident m.name :: T) := by
  obtain ⟨name, pins, obs, cls, foreign, origin, size, symmetry, site, source, eeq, fixedMask, props, density⟩ := m
  simp only [macroOk, Bool.and_eq_true] at h
  obtain ⟨⟨⟨⟨⟨⟨⟨⟨h1, h2⟩, h3⟩, h4⟩, h5⟩, h6⟩, h7⟩, h8⟩, h9⟩ := h
  simp only at hF hv
  obtain ⟨g, rfl⟩ : ∃ g, F = (((((((((((((g + 1) + st density) + props.length) + stl obs) + pins.length) + st site) + st symmetry) + st size)
      + st eeq) + st source) + st origin) + st foreign) + (if fixedMask then 1 else 0)) + st cls :=
    ⟨F - (st cls + (if fixedMask then 1 else 0) + st foreign + st origin + st source + st eeq + st size + st symmetry +
      st site + pins.length + stl obs + props.length + st density + 1), by omega⟩
  simp only [wMacroToks, List.cons_append, List.nil_append, List.drop_succ_cons, List.drop_zero, List.append_assoc]
  rw [mac_opt_cls _ _ _ _ _ rfl h1]; dsimp only
  rw [mac_opt_fixedmask _ _ _ _ _ rfl]; dsimp only
  rw [mac_opt_foreign _ _ _ _ _ rfl h2]; dsimp only
  rw [mac_opt_origin _ _ _ _ _ rfl h3]; dsimp only
  rw [mac_opt_source _ _ _ _ _ rfl h4 hv]; dsimp only
  rw [mac_opt_eeq _ _ _ _ _ rfl]; dsimp only
  rw [mac_opt_size _ _ _ _ _ rfl h5]; dsimp only
  rw [mac_opt_symmetry _ _ _ _ _ rfl h6]; dsimp only
  rw [mac_opt_site _ _ _ _ _ rfl]; dsimp only
  rw [mac_pins' _ _ _ _ _ h7]; dsimp only
  rw [mac_opt_obs _ _ _ _ _ rfl h8]; dsimp only
  rw [mac_props']; dsimp only
  rw [mac_opt_density _ _ _ _ _ rfl h9]; dsimp only
  rw [mac_end]
  simp

theorem flatMap_wPin_length (ps : List Pin) : ps.length ≤ (ps.flatMap wPin).length := by
  induction ps with
  | nil => simp
  | cons a r ih =>
    have : 1 ≤ (wPin a).length := by rw [wPin_eq]; simp
    simp only [List.flatMap_cons, List.length_append, List.length_cons]; omega
theorem stl_le_wObs (ls : List LayerGeoms) : stl ls ≤ (wObs ls).length := by
  cases ls with
  | nil => simp [stl]
  | cons a r => simp [stl, wObs]

theorem macro_w (ver : Dec) (m : Macro) (T : List Tok) (h : macroOk m = true) (hv : m.source.isSome = true → v5p4.lt ver = false) :
    macro_ ver (wMacroToks m ++ T) = some (m, T) := by
  have hb := macroBody_w ver m T h hv (((wMacroToks m).drop 2 ++ T).length + 1) (by
    simp only [wMacroToks, List.cons_append, List.nil_append, List.drop_succ_cons, List.drop_zero, List.length_append, List.length_cons, List.length_nil]
    have a1 := st_le_opt m.cls wMacroClass (by intro a; simp [wMacroClass])
    have a2 : (if m.fixedMask then 1 else 0) ≤ (if m.fixedMask then [kw "FixedMask", semiTok] else []).length := by cases m.fixedMask <;> simp
    have a3 := st_le_opt m.foreign wForeign (by intro a; simp [wForeign])
    have a4 := st_le_opt m.origin wOrigin (by intro a; simp [wOrigin])
    have a5 := st_le_opt m.source (fun s => [kw "Source", en "LefDefSource" s, semiTok]) (by intro a; simp)
    have a6 := st_le_opt m.eeq (fun c => [kw "Eeq", ident c, semiTok]) (by intro a; simp)
    have a7 := st_le_opt m.size (fun s => [kw "Size", num s.1, kw "By", num s.2, semiTok]) (by intro a; simp)
    have a8 := st_le_opt m.symmetry wSymmetry (by intro a; simp [wSymmetry])
    have a9 := st_le_opt m.site (fun s => [kw "Site", ident s, semiTok]) (by intro a; simp)
    have a10 := flatMap_wPin_length m.pins
    have a11 := stl_le_wObs m.obs
    have a12 := flatMap_wProp_length m.properties
    have a13 := st_le_opt m.density wDensity' (by intro a; simp [wDensity'])
    omega)
  have hsplit : wMacroToks m ++ T = kw "Macro" :: ident m.name :: ((wMacroToks m).drop 2 ++ T) := by
    simp [wMacroToks]
  rw [hsplit]
  unfold macro_
  simp only [expectKey_kw "Macro" _ k_Macro, getName_ident, Option.bind_eq_bind, Option.bind_some]
  rw [hb]
  simp [expectIdent, getName_ident]

/-! ### sites -/
theorem t_SiteClass : (lefEnums.lookup "LefSiteClass").isSome = true := by decide +kernel

theorem sb_class (name : Str) (f : Nat) (b : SiteB) (e : String) (T : List Tok) (h : isVariant "LefSiteClass" e = true) :
    siteBody name (f + 1) b (kw "Class" :: en "LefSiteClass" e :: semiTok :: T) = siteBody name f { b with cls := some e } T := by
  generalize hts : kw "Class" :: en "LefSiteClass" e :: semiTok :: T = ts
  have hpk : peekKey ts = some "Class" := by subst hts; exact peekKey_kw _ _ k_Class
  have htl : ts.tail = en "LefSiteClass" e :: semiTok :: T := by subst hts; rfl
  have hl : T.length < ts.length := by subst hts; simp; omega
  rw [siteBody]; simp [hpk, htl, parseEnum_en "LefSiteClass" e _ t_SiteClass h, semi_semiTok, hl]

theorem sb_symmetry (name : Str) (f : Nat) (b : SiteB) (ss : List String) (T : List Tok) (h : symOk ss = true) :
    siteBody name (f + 1) b (wSymmetry ss ++ T) = siteBody name f { b with symmetry := some ss } T := by
  have heq : wSymmetry ss ++ T = kw "Symmetry" :: (ss.map (en "LefSymmetry") ++ semiTok :: T) := by simp [wSymmetry]
  rw [heq]
  generalize hts : kw "Symmetry" :: (ss.map (en "LefSymmetry") ++ semiTok :: T) = ts
  have hpk : peekKey ts = some "Symmetry" := by subst hts; exact peekKey_kw _ _ k_Symmetry
  have htl : ts.tail = ss.map (en "LefSymmetry") ++ semiTok :: T := by subst hts; rfl
  have hl : T.length < ts.length := by subst hts; simp; omega
  have hlen : ss.length + 1 ≤ ts.length + 1 := by subst hts; simp; omega
  have hs := symmetries_w T ss [] (ts.length + 1) hlen h
  rw [siteBody]; simp [hpk, htl, hs, hl]

theorem sb_opt_symmetry (name : Str) (f : Nat) (b : SiteB) (o : Option (List String)) (T : List Tok) (hp : b.symmetry = none)
    (h : optOk o symOk = true) :
    siteBody name (f + st o) b (opt o wSymmetry ++ T) = siteBody name f { b with symmetry := o } T := by
  cases o with
  | none => cases b; simp only at hp; subst hp; simp [st, opt]
  | some d => simpa [st, opt] using sb_symmetry name f b d T h

theorem sb_size (name : Str) (f : Nat) (b : SiteB) (sz : Dec × Dec) (T : List Tok) (h : sizeOk sz = true) :
    siteBody name (f + 1) b (kw "Size" :: num sz.1 :: kw "By" :: num sz.2 :: semiTok :: T) = siteBody name f { b with size := some sz } T := by
  simp only [sizeOk, Bool.and_eq_true] at h
  have hs := sizeStmt_w sz.1 sz.2 T h.1 h.2
  generalize hts : kw "Size" :: num sz.1 :: kw "By" :: num sz.2 :: semiTok :: T = ts at hs
  have hpk : peekKey ts = some "Size" := by subst hts; exact peekKey_kw _ _ k_Size
  have hl : T.length < ts.length := by subst hts; simp; omega
  rw [siteBody]; simp [hpk, hs, hl]

theorem sb_end (name : Str) (f : Nat) (c : String) (sz : Dec × Dec) (sym : Option (List String)) (T : List Tok) :
    siteBody name (f + 1) ⟨some c, some sz, sym⟩ (kw "End" :: ident name :: T) = some (⟨name, c, sz, sym⟩, T) := by
  rw [siteBody]; simp [peekKey_kw "End" _ k_End, expectIdent, getName_ident]

def siteOk (s : Site) : Bool := isVariant "LefSiteClass" s.cls && sizeOk s.size && optOk s.symmetry symOk

theorem site_w (s : Site) (T : List Tok) (h : siteOk s = true) : site (wSite s ++ T) = some (s, T) := by
  obtain ⟨name, cls, size, sym⟩ := s
  simp only [siteOk, Bool.and_eq_true] at h
  obtain ⟨⟨h1, h2⟩, h3⟩ := h
  have a := st_le_opt sym wSymmetry (by intro a; simp [wSymmetry])
  simp only [wSite, List.cons_append, List.nil_append, List.append_assoc]
  unfold site
  simp only [expectKey_kw "Site" _ k_Site, getName_ident, Option.bind_eq_bind, Option.bind_some]
  obtain ⟨g, hg⟩ : ∃ g, (kw "Class" :: en "LefSiteClass" cls :: semiTok :: (opt sym wSymmetry ++
      (kw "Size" :: num size.1 :: kw "By" :: num size.2 :: semiTok :: kw "End" :: ident name :: T))).length + 1
      = (((g + 1) + 1) + st sym) + 1 := ⟨8 + (opt sym wSymmetry).length + T.length - st sym, by simp only [List.length_cons, List.length_append]; omega⟩
  rw [hg, sb_class _ _ _ _ _ h1]; dsimp only
  rw [sb_opt_symmetry _ _ _ _ _ rfl h3]; dsimp only
  rw [sb_size _ _ _ _ _ h2]; dsimp only
  rw [sb_end]

/-! ### units -/
theorem k_Resistance : isKey "Resistance" = true := by decide +kernel
theorem k_Database : isKey "Database" = true := by decide +kernel
theorem k_Microns : isKey "Microns" = true := by decide +kernel
theorem k_Units : isKey "Units" = true := by decide +kernel
theorem k_Time : isKey "Time" = true := by decide +kernel
theorem k_Nanoseconds : isKey "Nanoseconds" = true := by decide +kernel
theorem k_Capacitance : isKey "Capacitance" = true := by decide +kernel
theorem k_Picofarads : isKey "Picofarads" = true := by decide +kernel
theorem k_Ohms : isKey "Ohms" = true := by decide +kernel
theorem k_Power : isKey "Power" = true := by decide +kernel
theorem k_Milliwatts : isKey "Milliwatts" = true := by decide +kernel
theorem k_Current : isKey "Current" = true := by decide +kernel
theorem k_Milliamps : isKey "Milliamps" = true := by decide +kernel
theorem k_Voltage : isKey "Voltage" = true := by decide +kernel
theorem k_Volts : isKey "Volts" = true := by decide +kernel
theorem k_Frequency : isKey "Frequency" = true := by decide +kernel
theorem k_Megahertz : isKey "Megahertz" = true := by decide +kernel
theorem un_time (f : Nat) (u : Units) (d : Dec) (T : List Tok) (h : decOk d = true) :
    unitsBody (f + 1) u (kw "Time" :: kw "Nanoseconds" :: num d :: semiTok :: T) = unitsBody f { u with time := some d } T := by
  rw [unitsBody]; simp [getKey_kw "Time" _ k_Time, expectKey_kw "Nanoseconds" _ k_Nanoseconds, number_num d _ h, semi_semiTok]
theorem un_opt_time (f : Nat) (u : Units) (o : Option Dec) (T : List Tok) (hp : u.time = none) (h : optOk o decOk = true) :
    unitsBody (f + st o) u (opt o (fun d => [kw "Time", kw "Nanoseconds", num d, semiTok]) ++ T) = unitsBody f { u with time := o } T := by
  cases o with
  | none => cases u; simp only at hp; subst hp; simp [st, opt]
  | some d => simpa [st, opt] using un_time f u d T h
theorem un_cap (f : Nat) (u : Units) (d : Dec) (T : List Tok) (h : decOk d = true) :
    unitsBody (f + 1) u (kw "Capacitance" :: kw "Picofarads" :: num d :: semiTok :: T) = unitsBody f { u with cap := some d } T := by
  rw [unitsBody]; simp [getKey_kw "Capacitance" _ k_Capacitance, expectKey_kw "Picofarads" _ k_Picofarads, number_num d _ h, semi_semiTok]
theorem un_opt_cap (f : Nat) (u : Units) (o : Option Dec) (T : List Tok) (hp : u.cap = none) (h : optOk o decOk = true) :
    unitsBody (f + st o) u (opt o (fun d => [kw "Capacitance", kw "Picofarads", num d, semiTok]) ++ T) = unitsBody f { u with cap := o } T := by
  cases o with
  | none => cases u; simp only at hp; subst hp; simp [st, opt]
  | some d => simpa [st, opt] using un_cap f u d T h
theorem un_res (f : Nat) (u : Units) (d : Dec) (T : List Tok) (h : decOk d = true) :
    unitsBody (f + 1) u (kw "Resistance" :: kw "Ohms" :: num d :: semiTok :: T) = unitsBody f { u with res := some d } T := by
  rw [unitsBody]; simp [getKey_kw "Resistance" _ k_Resistance, expectKey_kw "Ohms" _ k_Ohms, number_num d _ h, semi_semiTok]
theorem un_opt_res (f : Nat) (u : Units) (o : Option Dec) (T : List Tok) (hp : u.res = none) (h : optOk o decOk = true) :
    unitsBody (f + st o) u (opt o (fun d => [kw "Resistance", kw "Ohms", num d, semiTok]) ++ T) = unitsBody f { u with res := o } T := by
  cases o with
  | none => cases u; simp only at hp; subst hp; simp [st, opt]
  | some d => simpa [st, opt] using un_res f u d T h
theorem un_power (f : Nat) (u : Units) (d : Dec) (T : List Tok) (h : decOk d = true) :
    unitsBody (f + 1) u (kw "Power" :: kw "Milliwatts" :: num d :: semiTok :: T) = unitsBody f { u with power := some d } T := by
  rw [unitsBody]; simp [getKey_kw "Power" _ k_Power, expectKey_kw "Milliwatts" _ k_Milliwatts, number_num d _ h, semi_semiTok]
theorem un_opt_power (f : Nat) (u : Units) (o : Option Dec) (T : List Tok) (hp : u.power = none) (h : optOk o decOk = true) :
    unitsBody (f + st o) u (opt o (fun d => [kw "Power", kw "Milliwatts", num d, semiTok]) ++ T) = unitsBody f { u with power := o } T := by
  cases o with
  | none => cases u; simp only at hp; subst hp; simp [st, opt]
  | some d => simpa [st, opt] using un_power f u d T h
theorem un_current (f : Nat) (u : Units) (d : Dec) (T : List Tok) (h : decOk d = true) :
    unitsBody (f + 1) u (kw "Current" :: kw "Milliamps" :: num d :: semiTok :: T) = unitsBody f { u with current := some d } T := by
  rw [unitsBody]; simp [getKey_kw "Current" _ k_Current, expectKey_kw "Milliamps" _ k_Milliamps, number_num d _ h, semi_semiTok]
theorem un_opt_current (f : Nat) (u : Units) (o : Option Dec) (T : List Tok) (hp : u.current = none) (h : optOk o decOk = true) :
    unitsBody (f + st o) u (opt o (fun d => [kw "Current", kw "Milliamps", num d, semiTok]) ++ T) = unitsBody f { u with current := o } T := by
  cases o with
  | none => cases u; simp only at hp; subst hp; simp [st, opt]
  | some d => simpa [st, opt] using un_current f u d T h
theorem un_voltage (f : Nat) (u : Units) (d : Dec) (T : List Tok) (h : decOk d = true) :
    unitsBody (f + 1) u (kw "Voltage" :: kw "Volts" :: num d :: semiTok :: T) = unitsBody f { u with voltage := some d } T := by
  rw [unitsBody]; simp [getKey_kw "Voltage" _ k_Voltage, expectKey_kw "Volts" _ k_Volts, number_num d _ h, semi_semiTok]
theorem un_opt_voltage (f : Nat) (u : Units) (o : Option Dec) (T : List Tok) (hp : u.voltage = none) (h : optOk o decOk = true) :
    unitsBody (f + st o) u (opt o (fun d => [kw "Voltage", kw "Volts", num d, semiTok]) ++ T) = unitsBody f { u with voltage := o } T := by
  cases o with
  | none => cases u; simp only at hp; subst hp; simp [st, opt]
  | some d => simpa [st, opt] using un_voltage f u d T h
theorem un_freq (f : Nat) (u : Units) (d : Dec) (T : List Tok) (h : decOk d = true) :
    unitsBody (f + 1) u (kw "Frequency" :: kw "Megahertz" :: num d :: semiTok :: T) = unitsBody f { u with freq := some d } T := by
  rw [unitsBody]; simp [getKey_kw "Frequency" _ k_Frequency, expectKey_kw "Megahertz" _ k_Megahertz, number_num d _ h, semi_semiTok]
theorem un_opt_freq (f : Nat) (u : Units) (o : Option Dec) (T : List Tok) (hp : u.freq = none) (h : optOk o decOk = true) :
    unitsBody (f + st o) u (opt o (fun d => [kw "Frequency", kw "Megahertz", num d, semiTok]) ++ T) = unitsBody f { u with freq := o } T := by
  cases o with
  | none => cases u; simp only at hp; subst hp; simp [st, opt]
  | some d => simpa [st, opt] using un_freq f u d T h
def dbuOk (v : Int) : Bool := decOk ⟨v, 0⟩ && dbuTryNew ⟨v, 0⟩ == some v
theorem un_dbu (f : Nat) (u : Units) (v : Int) (T : List Tok) (h : dbuOk v = true) :
    unitsBody (f + 1) u (kw "Database" :: kw "Microns" :: num ⟨v, 0⟩ :: semiTok :: T) = unitsBody f { u with dbu := some v } T := by
  simp only [dbuOk, Bool.and_eq_true, beq_iff_eq] at h
  rw [unitsBody]; simp [getKey_kw "Database" _ k_Database, expectKey_kw "Microns" _ k_Microns, number_num _ _ h.1, semi_semiTok, h.2]
theorem un_opt_dbu (f : Nat) (u : Units) (o : Option Int) (T : List Tok) (hp : u.dbu = none) (h : optOk o dbuOk = true) :
    unitsBody (f + st o) u (opt o (fun v => [kw "Database", kw "Microns", num ⟨v, 0⟩, semiTok]) ++ T) = unitsBody f { u with dbu := o } T := by
  cases o with
  | none => cases u; simp only at hp; subst hp; simp [st, opt]
  | some d => simpa [st, opt] using un_dbu f u d T h
theorem un_end (f : Nat) (u : Units) (T : List Tok) : unitsBody (f + 1) u (kw "End" :: kw "Units" :: T) = some (u, T) := by
  rw [unitsBody]; simp [getKey_kw "End" _ k_End, expectKey_kw "Units" _ k_Units]

def unitsOk (u : Units) : Bool :=
  optOk u.time decOk && optOk u.cap decOk && optOk u.res decOk && optOk u.power decOk && optOk u.current decOk &&
  optOk u.voltage decOk && optOk u.dbu dbuOk && optOk u.freq decOk

theorem units_w (u : Units) (T : List Tok) (h : unitsOk u = true) (F : Nat)
    (hF : st u.time + st u.cap + st u.res + st u.power + st u.current + st u.voltage + st u.dbu + st u.freq + 1 ≤ F) :
    unitsBody F {} ((wUnits u).tail ++ T) = some (u, T) := by
  obtain ⟨dbu, time, cap, res, power, current, voltage, freq⟩ := u
  simp only [unitsOk, Bool.and_eq_true] at h
  obtain ⟨⟨⟨⟨⟨⟨⟨h1, h2⟩, h3⟩, h4⟩, h5⟩, h6⟩, h7⟩, h8⟩ := h
  simp only at hF
  obtain ⟨g, rfl⟩ : ∃ g, F = ((((((((g + 1) + st freq) + st dbu) + st voltage) + st current) + st power) + st res) + st cap) + st time :=
    ⟨F - (st time + st cap + st res + st power + st current + st voltage + st dbu + st freq + 1), by omega⟩
  simp only [wUnits, List.cons_append, List.nil_append, List.tail_cons, List.append_assoc]
  rw [un_opt_time _ _ _ _ rfl h1]; dsimp only
  rw [un_opt_cap _ _ _ _ rfl h2]; dsimp only
  rw [un_opt_res _ _ _ _ rfl h3]; dsimp only
  rw [un_opt_power _ _ _ _ rfl h4]; dsimp only
  rw [un_opt_current _ _ _ _ rfl h5]; dsimp only
  rw [un_opt_voltage _ _ _ _ rfl h6]; dsimp only
  rw [un_opt_dbu _ _ _ _ rfl h7]; dsimp only
  rw [un_opt_freq _ _ _ _ rfl h8]; dsimp only
  rw [un_end]

/-! ### via definitions -/
theorem k_Default : isKey "Default" = true := by decide +kernel
theorem k_ViaRule : isKey "ViaRule" = true := by decide +kernel
theorem k_CutSize : isKey "CutSize" = true := by decide +kernel
theorem k_Layers : isKey "Layers" = true := by decide +kernel
theorem k_CutSpacing : isKey "CutSpacing" = true := by decide +kernel
theorem k_Enclosure : isKey "Enclosure" = true := by decide +kernel
theorem k_RowCol : isKey "RowCol" = true := by decide +kernel
theorem k_Offset : isKey "Offset" = true := by decide +kernel

theorem viaMask_w (m : Option Dec) (t : Tok) (r : List Tok) (hm : maskOk m = true) (ht : t.tt = .number) :
    viaMask (wMask m ++ t :: r) = some (m, t :: r) := by
  cases m with
  | none =>
    have : matchesTT .name (t :: r) = false := by simp [matchesTT, ht]
    simp [wMask, opt, viaMask, this]
  | some d =>
    simp only [maskOk] at hm
    have : matchesTT .name (kw "Mask" :: num d :: t :: r) = true := by simp [matchesTT, kw]
    simp [wMask, opt, viaMask, this, getKey_kw "Mask" _ k_Mask, number_num d _ hm]

def vshapeOk : ViaShape → Bool
  | .rect m a b => maskOk m && ptOk a && ptOk b
  | .polygon m ps => maskOk m && ps.all ptOk && decide (3 ≤ ps.length)

theorem viaShape_w (s : ViaShape) (T : List Tok) (h : vshapeOk s = true) : viaShape (wViaShape s ++ T) = some (s, T) := by
  cases s with
  | rect m a b =>
    simp only [vshapeOk, Bool.and_eq_true] at h
    obtain ⟨⟨hm, ha⟩, hb⟩ := h
    have e : wViaShape (.rect m a b) ++ T = kw "Rect" :: (wMask m ++ num a.x :: (num a.y :: (wPt b ++ semiTok :: T))) := by
      simp [wViaShape, wPt]
    rw [e, viaShape]
    simp only [peekKey_kw "Rect" _ k_Rect, beq_self_eq_true, if_true, List.tail_cons, Option.bind_eq_bind]
    rw [viaMask_w m _ _ hm (by simp [num])]
    have : num a.x :: num a.y :: (wPt b ++ semiTok :: T) = wPt a ++ (wPt b ++ semiTok :: T) := by simp [wPt]
    simp only [Option.bind_some, this, point_wPt a _ ha, point_wPt b _ hb, semi_semiTok]
    rfl
  | polygon m ps =>
    simp only [vshapeOk, Bool.and_eq_true, decide_eq_true_eq] at h
    obtain ⟨⟨hm, hp⟩, hl⟩ := h
    obtain ⟨p0, ps', rfl⟩ : ∃ p0 ps', ps = p0 :: ps' := by cases ps with | nil => simp at hl | cons a b => exact ⟨a, b, rfl⟩
    have e : wViaShape (.polygon m (p0 :: ps')) ++ T = kw "Polygon" :: (wMask m ++ num p0.x :: (num p0.y :: (ps'.flatMap wPt ++ semiTok :: T))) := by
      simp [wViaShape, wPt]
    rw [e, viaShape]
    simp only [peekKey_kw "Polygon" _ k_Polygon, show ("Polygon" == "Rect") = false by decide, beq_self_eq_true, if_true,
      Bool.false_eq_true, if_false, List.tail_cons, Option.bind_eq_bind]
    rw [viaMask_w m _ _ hm (by simp [num])]
    simp only [Option.bind_some]
    rw [← flatMap_wPt_cons, pointList_w (p0 :: ps') (semiTok :: T) _ (by
      simp only [List.length_append, flatMap_wPt_length, List.length_cons]; omega) hp (by simp [matchesTT, semiTok])]
    have hnl : ¬ ((p0 :: ps').length < 3) := by omega
    simp only [Option.bind_some, hnl, if_false, semi_semiTok]
    rfl

theorem wViaShape_key (s : ViaShape) (R : List Tok) : peekKey (wViaShape s ++ R) = some "Rect" ∨ peekKey (wViaShape s ++ R) = some "Polygon" := by
  cases s with
  | rect m a b => left; simp only [wViaShape, List.append_assoc, List.cons_append]; exact peekKey_kw _ _ k_Rect
  | polygon m ps => right; simp only [wViaShape, List.append_assoc, List.cons_append]; exact peekKey_kw _ _ k_Polygon

theorem wViaShape_length (s : ViaShape) : 1 ≤ (wViaShape s).length := by
  cases s <;> simp [wViaShape]

theorem viaShapes_w (T : List Tok) (hT : (∃ r, T = kw "Layer" :: r) ∨ (∃ r, T = kw "End" :: r)) :
    ∀ (ss : List ViaShape) (acc : List ViaShape) (f : Nat), ss.length + 1 ≤ f → ss.all vshapeOk = true →
    viaShapes f acc (ss.flatMap wViaShape ++ T) = some (acc ++ ss, T) := by
  intro ss
  induction ss with
  | nil =>
    intro acc f hf _
    obtain ⟨g, rfl⟩ : ∃ g, f = g + 1 := ⟨f - 1, by simp at hf; omega⟩
    rcases hT with ⟨r, rfl⟩ | ⟨r, rfl⟩
    · rw [viaShapes]; simp [peekKey_kw "Layer" _ k_Layer]
    · rw [viaShapes]; simp [peekKey_kw "End" _ k_End]
  | cons s r ih =>
    intro acc f hf hok
    obtain ⟨g, rfl⟩ : ∃ g, f = g + 1 := ⟨f - 1, by simp at hf; omega⟩
    simp only [List.all_cons, Bool.and_eq_true] at hok
    simp only [List.flatMap_cons, List.append_assoc]
    have hv := viaShape_w s (r.flatMap wViaShape ++ T) hok.1
    have hk := wViaShape_key s (r.flatMap wViaShape ++ T)
    have hl : (r.flatMap wViaShape ++ T).length < (wViaShape s ++ (r.flatMap wViaShape ++ T)).length := by
      have := wViaShape_length s; simp only [List.length_append]; omega
    have hne : (wViaShape s ++ (r.flatMap wViaShape ++ T)).isEmpty = false := by
      cases s <;> simp [wViaShape]
    generalize hR : r.flatMap wViaShape ++ T = R at hv hk hl hne
    generalize wViaShape s ++ R = ts at hv hk hl hne
    rw [viaShapes]
    rcases hk with hk | hk <;> simp [hk, hv, hl, hne] <;> subst hR <;> rw [ih _ g (by simp at hf; omega) hok.2] <;> simp

def wViaLayer (l : ViaLayer) : List Tok := [kw "Layer", ident l.layerName, semiTok] ++ l.shapes.flatMap wViaShape
def vlayerOk (l : ViaLayer) : Bool := l.shapes.all vshapeOk

theorem flatMap_wViaShape_length (ss : List ViaShape) : ss.length ≤ (ss.flatMap wViaShape).length := by
  induction ss with
  | nil => simp
  | cons a r ih => have := wViaShape_length a; simp only [List.flatMap_cons, List.length_append, List.length_cons]; omega

theorem viaLayers_w (T : List Tok) (hT : ∃ r, T = kw "End" :: r) :
    ∀ (ls : List ViaLayer) (acc : List ViaLayer) (f : Nat), ls.length + 1 ≤ f → ls.all vlayerOk = true →
    viaLayers f acc (ls.flatMap wViaLayer ++ T) = some (acc ++ ls, T) := by
  intro ls
  induction ls with
  | nil =>
    intro acc f hf _
    obtain ⟨g, rfl⟩ : ∃ g, f = g + 1 := ⟨f - 1, by simp at hf; omega⟩
    obtain ⟨r, rfl⟩ := hT
    rw [viaLayers]; simp [peekKey_kw "End" _ k_End]
  | cons l r ih =>
    intro acc f hf hok
    obtain ⟨g, rfl⟩ : ∃ g, f = g + 1 := ⟨f - 1, by simp at hf; omega⟩
    simp only [List.all_cons, Bool.and_eq_true] at hok
    obtain ⟨n, ss⟩ := l
    have hT' : (∃ q, r.flatMap wViaLayer ++ T = kw "Layer" :: q) ∨ (∃ q, r.flatMap wViaLayer ++ T = kw "End" :: q) := by
      cases r with
      | nil => right; obtain ⟨q, rfl⟩ := hT; exact ⟨q, by simp⟩
      | cons a b => left; exact ⟨_, by simp [wViaLayer]; rfl⟩
    have e : (⟨n, ss⟩ :: r).flatMap wViaLayer ++ T = kw "Layer" :: ident n :: semiTok :: (ss.flatMap wViaShape ++ (r.flatMap wViaLayer ++ T)) := by
      simp [wViaLayer]
    rw [e]
    generalize hR : r.flatMap wViaLayer ++ T = R at hT'
    have hs := viaShapes_w R hT' ss [] ((ss.flatMap wViaShape ++ R).length + 1) (by
      have := flatMap_wViaShape_length ss; simp only [List.length_append]; omega) hok.1
    have hRS : R.length ≤ (ss.flatMap wViaShape ++ R).length := by simp only [List.length_append]; omega
    generalize ss.flatMap wViaShape ++ R = S at hs hRS
    generalize hts : kw "Layer" :: ident n :: semiTok :: S = ts
    have hpk : peekKey ts = some "Layer" := by subst hts; exact peekKey_kw _ _ k_Layer
    have htl : ts.tail = ident n :: semiTok :: S := by subst hts; rfl
    have hl : R.length < ts.length := by subst hts; simp only [List.length_cons]; omega
    rw [viaLayers]; simp [hpk, htl, getName_ident, semi_semiTok, hs, hl]
    subst hR
    rw [ih _ g (by simp at hf; omega) hok.2]; simp

theorem num2_w (a b : Dec) (T : List Tok) (ha : decOk a = true) (hb : decOk b = true) : num2 (num a :: num b :: T) = some ((a, b), T) := by
  simp [num2, number_num, ha, hb]
theorem num4_w (a b c d : Dec) (T : List Tok) (ha : decOk a = true) (hb : decOk b = true) (hc : decOk c = true) (hd : decOk d = true) :
    num4 (num a :: num b :: num c :: num d :: T) = some ((a, b, c, d), T) := by
  simp [num4, num2_w, ha, hb, hc, hd]

def d2Ok (p : Dec × Dec) : Bool := decOk p.1 && decOk p.2
def d4Ok (p : Dec × Dec × Dec × Dec) : Bool := decOk p.1 && decOk p.2.1 && decOk p.2.2.1 && decOk p.2.2.2

theorem gv_cutsize (f : Nat) (g : GenB) (v : Dec × Dec) (T : List Tok) (h : d2Ok v = true) :
    genViaBody (f + 1) g (kw "CutSize" :: num v.1 :: num v.2 :: semiTok :: T) = genViaBody f { g with cutSize := some v } T := by
  simp only [d2Ok, Bool.and_eq_true] at h
  rw [genViaBody]; simp [peekKey_kw "CutSize" _ k_CutSize, num2_w _ _ _ h.1 h.2, semi_semiTok]
theorem gv_layers (f : Nat) (g : GenB) (v : Str × Str × Str) (T : List Tok) :
    genViaBody (f + 1) g (kw "Layers" :: ident v.1 :: ident v.2.1 :: ident v.2.2 :: semiTok :: T) = genViaBody f { g with layers := some v } T := by
  rw [genViaBody]; simp [peekKey_kw "Layers" _ k_Layers, getName_ident, semi_semiTok]
theorem gv_cutspacing (f : Nat) (g : GenB) (v : Dec × Dec) (T : List Tok) (h : d2Ok v = true) :
    genViaBody (f + 1) g (kw "CutSpacing" :: num v.1 :: num v.2 :: semiTok :: T) = genViaBody f { g with cutSpacing := some v } T := by
  simp only [d2Ok, Bool.and_eq_true] at h
  rw [genViaBody]; simp [peekKey_kw "CutSpacing" _ k_CutSpacing, num2_w _ _ _ h.1 h.2, semi_semiTok]
theorem gv_enclosure (f : Nat) (g : GenB) (v : Dec × Dec × Dec × Dec) (T : List Tok) (h : d4Ok v = true) :
    genViaBody (f + 1) g (kw "Enclosure" :: num v.1 :: num v.2.1 :: num v.2.2.1 :: num v.2.2.2 :: semiTok :: T) = genViaBody f { g with enclosure := some v } T := by
  simp only [d4Ok, Bool.and_eq_true] at h
  rw [genViaBody]; simp [peekKey_kw "Enclosure" _ k_Enclosure, num4_w _ _ _ _ _ h.1.1.1 h.1.1.2 h.1.2 h.2, semi_semiTok]
theorem gv_rowcol (f : Nat) (g : GenB) (v : Dec × Dec) (T : List Tok) (h : d2Ok v = true) :
    genViaBody (f + 1) g (kw "RowCol" :: num v.1 :: num v.2 :: semiTok :: T) = genViaBody f { g with rowcol := some v } T := by
  simp only [d2Ok, Bool.and_eq_true] at h
  rw [genViaBody]; simp [peekKey_kw "RowCol" _ k_RowCol, num2_w _ _ _ h.1 h.2, semi_semiTok]
theorem gv_origin (f : Nat) (g : GenB) (v : Pt) (T : List Tok) (h : ptOk v = true) :
    genViaBody (f + 1) g (kw "Origin" :: (wPt v ++ semiTok :: T)) = genViaBody f { g with origin := some v } T := by
  rw [genViaBody]; simp [peekKey_kw "Origin" _ k_Origin, point_wPt v _ h, semi_semiTok]
theorem gv_offset (f : Nat) (g : GenB) (v : Dec × Dec × Dec × Dec) (T : List Tok) (h : d4Ok v = true) :
    genViaBody (f + 1) g (kw "Offset" :: num v.1 :: num v.2.1 :: num v.2.2.1 :: num v.2.2.2 :: semiTok :: T) = genViaBody f { g with offset := some v } T := by
  simp only [d4Ok, Bool.and_eq_true] at h
  rw [genViaBody]; simp [peekKey_kw "Offset" _ k_Offset, num4_w _ _ _ _ _ h.1.1.1 h.1.1.2 h.1.2 h.2, semi_semiTok]
theorem gv_end (f : Nat) (g : GenB) (T : List Tok) : genViaBody (f + 1) g (kw "End" :: T) = some (g, kw "End" :: T) := by
  rw [genViaBody]; simp [peekKey_kw "End" _ k_End]

theorem gv_opt_rowcol (f : Nat) (g : GenB) (o : Option (Dec × Dec)) (T : List Tok) (hp : g.rowcol = none) (h : optOk o d2Ok = true) :
    genViaBody (f + st o) g (opt o (fun r => [kw "RowCol", num r.1, num r.2, semiTok]) ++ T) = genViaBody f { g with rowcol := o } T := by
  cases o with
  | none => cases g; simp only at hp; subst hp; simp [st, opt]
  | some d => simpa [st, opt] using gv_rowcol f g d T h
theorem gv_opt_origin (f : Nat) (g : GenB) (o : Option Pt) (T : List Tok) (hp : g.origin = none) (h : optOk o ptOk = true) :
    genViaBody (f + st o) g (opt o wOrigin ++ T) = genViaBody f { g with origin := o } T := by
  cases o with
  | none => cases g; simp only at hp; subst hp; simp [st, opt]
  | some d => simpa [st, opt, wOrigin] using gv_origin f g d T h
theorem gv_opt_offset (f : Nat) (g : GenB) (o : Option (Dec × Dec × Dec × Dec)) (T : List Tok) (hp : g.offset = none) (h : optOk o d4Ok = true) :
    genViaBody (f + st o) g (opt o (fun o => [kw "Offset", num o.1, num o.2.1, num o.2.2.1, num o.2.2.2, semiTok]) ++ T) = genViaBody f { g with offset := o } T := by
  cases o with
  | none => cases g; simp only at hp; subst hp; simp [st, opt]
  | some d => simpa [st, opt] using gv_offset f g d T h

def genOk (g : GenVia) : Bool :=
  d2Ok g.cutSize && d2Ok g.cutSpacing && d4Ok g.enclosure && optOk g.rowcol d2Ok && optOk g.origin ptOk && optOk g.offset d4Ok

/-- the statements of a generated via after `VIARULE name ;` -/
def wGenBody (g : GenVia) : List Tok :=
  kw "CutSize" :: num g.cutSize.1 :: num g.cutSize.2 :: semiTok ::
  kw "Layers" :: ident g.layers.1 :: ident g.layers.2.1 :: ident g.layers.2.2 :: semiTok ::
  kw "CutSpacing" :: num g.cutSpacing.1 :: num g.cutSpacing.2 :: semiTok ::
  kw "Enclosure" :: num g.enclosure.1 :: num g.enclosure.2.1 :: num g.enclosure.2.2.1 :: num g.enclosure.2.2.2 :: semiTok ::
  (opt g.rowcol (fun r => [kw "RowCol", num r.1, num r.2, semiTok]) ++ (opt g.origin wOrigin ++
    opt g.offset (fun o => [kw "Offset", num o.1, num o.2.1, num o.2.2.1, num o.2.2.2, semiTok])))

theorem genBody_w (g : GenVia) (T : List Tok) (h : genOk g = true) (F : Nat) (hF : 8 ≤ F) :
    genViaBody F { rule := g.rule } (wGenBody g ++ kw "End" :: T) =
      some (⟨g.rule, some g.cutSize, some g.layers, some g.cutSpacing, some g.enclosure, g.rowcol, g.origin, g.offset⟩, kw "End" :: T) := by
  obtain ⟨rule, cs, ls, sp, en, rc, og, off⟩ := g
  simp only [genOk, Bool.and_eq_true] at h
  obtain ⟨⟨⟨⟨⟨h1, h2⟩, h3⟩, h4⟩, h5⟩, h6⟩ := h
  have b1 : st rc ≤ 1 := by simp only [st]; split <;> omega
  have b2 : st og ≤ 1 := by simp only [st]; split <;> omega
  have b3 : st off ≤ 1 := by simp only [st]; split <;> omega
  obtain ⟨n, rfl⟩ : ∃ n, F = (((((((n + 1) + st off) + st og) + st rc) + 1) + 1) + 1) + 1 := ⟨F - (st rc + st og + st off + 5), by omega⟩
  simp only [wGenBody, List.cons_append, List.append_assoc]
  rw [gv_cutsize _ _ _ _ h1]; dsimp only
  rw [gv_layers]; dsimp only
  rw [gv_cutspacing _ _ _ _ h2]; dsimp only
  rw [gv_enclosure _ _ _ _ h3]; dsimp only
  rw [gv_opt_rowcol _ _ _ _ rfl h4]; dsimp only
  rw [gv_opt_origin _ _ _ _ rfl h5]; dsimp only
  rw [gv_opt_offset _ _ _ _ rfl h6]; dsimp only
  rw [gv_end]

def wViaData : ViaData → List Tok
  | .fixed r ls => opt r (fun d => [kw "Resistance", num d, semiTok]) ++ ls.flatMap wViaLayer
  | .generated g => kw "ViaRule" :: ident g.rule :: semiTok :: wGenBody g

def viaDataOk : ViaData → Bool
  | .fixed r ls => optOk r decOk && ls.all vlayerOk
  | .generated g => genOk g

theorem flatMap_wViaLayer_length (ls : List ViaLayer) : ls.length ≤ (ls.flatMap wViaLayer).length := by
  induction ls with
  | nil => simp
  | cons a r ih =>
    have : 1 ≤ (wViaLayer a).length := by simp [wViaLayer]
    simp only [List.flatMap_cons, List.length_append, List.length_cons]; omega

theorem viaDataP_w (d : ViaData) (T : List Tok) (h : viaDataOk d = true) :
    viaDataP (wViaData d ++ kw "End" :: T) = some (d, kw "End" :: T) := by
  cases d with
  | generated g =>
    simp only [viaDataOk] at h
    have hb := genBody_w g T h ((wGenBody g ++ kw "End" :: T).length + 1) (by
      simp only [wGenBody, List.length_cons, List.length_append]; omega)
    simp only [wViaData, List.cons_append]
    unfold viaDataP
    simp only [peekKey_kw "ViaRule" _ k_ViaRule, beq_self_eq_true, if_true, List.tail_cons, getName_ident, semi_semiTok,
      Option.bind_eq_bind, Option.bind_some, Option.pure_def]
    rw [hb]
    cases g; rfl
  | fixed r ls =>
    simp only [viaDataOk, Bool.and_eq_true] at h
    have hl := viaLayers_w (kw "End" :: T) ⟨T, rfl⟩ ls [] ((ls.flatMap wViaLayer ++ kw "End" :: T).length + 1) (by
      have := flatMap_wViaLayer_length ls; simp only [List.length_append]; omega) h.2
    have hkey : ∀ R, peekKey (ls.flatMap wViaLayer ++ kw "End" :: R) = some "Layer" ∨ peekKey (ls.flatMap wViaLayer ++ kw "End" :: R) = some "End" := by
      intro R
      cases ls with
      | nil => right; exact peekKey_kw _ _ k_End
      | cons a b => left; simp only [List.flatMap_cons, wViaLayer, List.append_assoc, List.cons_append]; exact peekKey_kw _ _ k_Layer
    cases r with
    | none =>
      simp only [wViaData, opt, List.nil_append]
      unfold viaDataP
      have hk := hkey T
      generalize ls.flatMap wViaLayer ++ kw "End" :: T = S at hl hk
      rcases hk with hk | hk <;> simp [hk, hl]
    | some d =>
      simp only [optOk] at h
      simp only [wViaData, opt, List.cons_append, List.nil_append]
      generalize ls.flatMap wViaLayer ++ kw "End" :: T = S at hl
      unfold viaDataP
      simp [peekKey_kw "Resistance" _ k_Resistance, number_num d _ h.1, semi_semiTok, hl]

def wViaToks (v : ViaDef) : List Tok :=
  kw "Via" :: ident v.name :: ((if v.isDefault then [kw "Default"] else []) ++ (wViaData v.data ++ [kw "End", ident v.name]))

theorem wVia_eq (v : ViaDef) : wVia v = wViaToks v := by
  obtain ⟨n, isDef, d⟩ := v
  cases d with
  | fixed r ls => simp only [wVia, wViaToks, wViaData, List.append_assoc, List.cons_append, List.nil_append]; rfl
  | generated g => simp [wVia, wViaToks, wViaData, wGenBody, wOrigin_def]

def viaOk (v : ViaDef) : Bool := viaDataOk v.data

theorem wViaData_key (d : ViaData) (R : List Tok) : ∃ k, peekKey (wViaData d ++ kw "End" :: R) = some k ∧ (k == "Default") = false := by
  cases d with
  | generated g => exact ⟨"ViaRule", peekKey_kw _ _ k_ViaRule, by decide⟩
  | fixed r ls =>
    cases r with
    | some d => exact ⟨"Resistance", peekKey_kw _ _ k_Resistance, by decide⟩
    | none =>
      cases ls with
      | nil => exact ⟨"End", peekKey_kw _ _ k_End, by decide⟩
      | cons a b => exact ⟨"Layer", by simp only [wViaData, opt, List.nil_append, List.flatMap_cons, wViaLayer, List.append_assoc, List.cons_append]; exact peekKey_kw _ _ k_Layer, by decide⟩

theorem viaDef_w (v : ViaDef) (T : List Tok) (h : viaOk v = true) : viaDef (wViaToks v ++ T) = some (v, T) := by
  obtain ⟨n, isDef, d⟩ := v
  simp only [viaOk] at h
  have hd := viaDataP_w d (ident n :: T) h
  obtain ⟨k, hk, hkd⟩ := wViaData_key d (ident n :: T)
  simp only [wViaToks, List.cons_append, List.append_assoc, List.nil_append]
  generalize wViaData d ++ kw "End" :: ident n :: T = S at hd hk
  unfold viaDef
  cases isDef with
  | true =>
    simp [expectKey_kw "Via" _ k_Via, getName_ident, peekKey_kw "Default" _ k_Default, hd, peekKey_kw "End" _ k_End, expectIdent]
  | false =>
    have hkd' : k ≠ "Default" := by simpa using hkd
    simp [expectKey_kw "Via" _ k_Via, getName_ident, hk, hkd', hd, peekKey_kw "End" _ k_End, expectIdent]

/-! ### property definitions -/
theorem k_PropertyDefinitions : isKey "PropertyDefinitions" = true := by decide +kernel
theorem k_String : isKey "String" = true := by decide +kernel
theorem k_Real : isKey "Real" = true := by decide +kernel
theorem k_Integer : isKey "Integer" = true := by decide +kernel
theorem k_Range : isKey "Range" = true := by decide +kernel
theorem t_PropObj : (lefEnums.lookup "LefPropertyDefinitionObjectType").isSome = true := by decide +kernel

/-- the seven object types are also keywords, spelt the same, and the reader's dispatch list holds exactly them -/
theorem propObj_table : (enumTable "LefPropertyDefinitionObjectType").all (fun p =>
    LefEnum.parse keyTable p.2.toList == some p.1 && propDefObjects.contains p.1) = true := by decide +kernel

theorem propObj_key (o : String) (r : List Tok) (h : isVariant "LefPropertyDefinitionObjectType" o = true) :
    peekKey (en "LefPropertyDefinitionObjectType" o :: r) = some o ∧ propDefObjects.contains o = true := by
  unfold isVariant at h
  cases hs : toStr (enumTable "LefPropertyDefinitionObjectType") o with
  | none => simp [hs] at h
  | some s =>
    have := List.all_eq_true.1 propObj_table (o, s) (toStr_mem _ _ _ hs)
    simp only [Bool.and_eq_true, beq_iff_eq] at this
    refine ⟨?_, this.2⟩
    simp only [peekKey, en, kwText, hs, Option.getD_some]
    exact this.1

theorem propDefTail_w (v : Option Dec) (rg : Option (Dec × Dec)) (T : List Tok) (hv : optOk v decOk = true) (hr : optOk rg d2Ok = true) :
    propDefTail (opt rg (fun r => [kw "Range", num r.1, num r.2]) ++ (opt v (fun d => [num d]) ++ semiTok :: T)) = some ((v, rg), T) := by
  unfold propDefTail
  cases rg with
  | none =>
    cases v with
    | none => simp [opt, matchesTT, semiTok, semi, expectTT]
    | some d =>
      simp only [optOk] at hv
      have : matchesTT .name (num d :: semiTok :: T) = false := by simp [matchesTT, num]
      have h2 : matchesTT .number (num d :: semiTok :: T) = true := by simp [matchesTT, num]
      simp [opt, this, h2, number_num d _ hv, semi_semiTok]
  | some r =>
    simp only [optOk, d2Ok, Bool.and_eq_true] at hr
    have h1 : ∀ R, matchesTT .name (kw "Range" :: R) = true := by intro R; simp [matchesTT, kw]
    cases v with
    | none =>
      have h2 : matchesTT .number (semiTok :: T) = false := by simp [matchesTT, semiTok]
      simp [opt, h1, expectKey_kw "Range" _ k_Range, num2_w _ _ _ hr.1 hr.2, h2, semi_semiTok]
    | some d =>
      simp only [optOk] at hv
      have h2 : matchesTT .number (num d :: semiTok :: T) = true := by simp [matchesTT, num]
      simp [opt, h1, expectKey_kw "Range" _ k_Range, num2_w _ _ _ hr.1 hr.2, h2, number_num d _ hv, semi_semiTok]

def pdOk : PropDef → Bool
  | .str o _ _ => isVariant "LefPropertyDefinitionObjectType" o
  | .real o _ v r => isVariant "LefPropertyDefinitionObjectType" o && optOk v decOk && optOk r d2Ok
  | .int o _ v r => isVariant "LefPropertyDefinitionObjectType" o && optOk v decOk && optOk r d2Ok

theorem propDefs_step (d : PropDef) (acc : List PropDef) (f : Nat) (R : List Tok) (h : pdOk d = true) :
    propDefs (f + 1) acc (wPropDef d ++ R) = propDefs f (acc ++ [d]) R := by
  cases d with
  | str o n v =>
    simp only [pdOk] at h
    obtain ⟨hk, hc⟩ := propObj_key o (ident n :: kw "String" :: (opt v (fun s => [strTok s]) ++ semiTok :: R)) h
    have hp := parseEnum_en "LefPropertyDefinitionObjectType" o (ident n :: kw "String" :: (opt v (fun s => [strTok s]) ++ semiTok :: R)) t_PropObj h
    simp only [wPropDef, List.cons_append, List.nil_append, List.append_assoc]
    rw [propDefs]
    simp only [hk, hc, if_true, hp, Option.bind_some, getName_ident, getKey_kw "String" _ k_String, beq_self_eq_true]
    cases v with
    | none => simp [opt, matches_semi]
    | some sv => simp [opt, matchesTT, strTok, expectTT, semi_semiTok]
  | real o n v rg =>
    simp only [pdOk, Bool.and_eq_true] at h
    obtain ⟨⟨ho, hv⟩, hr⟩ := h
    obtain ⟨hk, hc⟩ := propObj_key o (ident n :: kw "Real" :: (opt rg (fun r => [kw "Range", num r.1, num r.2]) ++ (opt v (fun d => [num d]) ++ semiTok :: R))) ho
    have hp := parseEnum_en "LefPropertyDefinitionObjectType" o (ident n :: kw "Real" :: (opt rg (fun r => [kw "Range", num r.1, num r.2]) ++ (opt v (fun d => [num d]) ++ semiTok :: R))) t_PropObj ho
    simp only [wPropDef, List.cons_append, List.nil_append, List.append_assoc]
    rw [propDefs]
    simp only [hk, hc, if_true, hp, Option.bind_some, getName_ident, getKey_kw "Real" _ k_Real, beq_self_eq_true,
      show ("Real" == "String") = false by decide, Bool.false_eq_true, if_false, propDefTail_w v rg R hv hr]
  | int o n v rg =>
    simp only [pdOk, Bool.and_eq_true] at h
    obtain ⟨⟨ho, hv⟩, hr⟩ := h
    obtain ⟨hk, hc⟩ := propObj_key o (ident n :: kw "Integer" :: (opt rg (fun r => [kw "Range", num r.1, num r.2]) ++ (opt v (fun d => [num d]) ++ semiTok :: R))) ho
    have hp := parseEnum_en "LefPropertyDefinitionObjectType" o (ident n :: kw "Integer" :: (opt rg (fun r => [kw "Range", num r.1, num r.2]) ++ (opt v (fun d => [num d]) ++ semiTok :: R))) t_PropObj ho
    simp only [wPropDef, List.cons_append, List.nil_append, List.append_assoc]
    rw [propDefs]
    simp only [hk, hc, if_true, hp, Option.bind_some, getName_ident, getKey_kw "Integer" _ k_Integer, beq_self_eq_true,
      show ("Integer" == "String") = false by decide, show ("Integer" == "Real") = false by decide, Bool.false_eq_true, if_false,
      propDefTail_w v rg R hv hr]

theorem propDefs_w (T : List Tok) : ∀ (ds : List PropDef) (acc : List PropDef) (f : Nat), ds.length + 1 ≤ f → ds.all pdOk = true →
    propDefs f acc (ds.flatMap wPropDef ++ kw "End" :: kw "PropertyDefinitions" :: T) = some (acc ++ ds, T) := by
  intro ds
  induction ds with
  | nil =>
    intro acc f hf _
    obtain ⟨g, rfl⟩ : ∃ g, f = g + 1 := ⟨f - 1, by simp at hf; omega⟩
    rw [propDefs]
    simp [peekKey_kw "End" _ k_End, show ¬ ("End" ∈ propDefObjects) by decide, expectKey_kw "PropertyDefinitions" _ k_PropertyDefinitions]
  | cons d r ih =>
    intro acc f hf hok
    obtain ⟨g, rfl⟩ : ∃ g, f = g + 1 := ⟨f - 1, by simp at hf; omega⟩
    simp only [List.all_cons, Bool.and_eq_true] at hok
    simp only [List.flatMap_cons, List.append_assoc]
    rw [propDefs_step d acc g _ hok.1, ih _ g (by simp at hf; omega) hok.2]
    simp

end L21.Lef
