import L21.Model.Lef
/-
The lexer returns exactly the tokens a text was laid out from — for EVERY layout: any white space
(Unicode `White_Space`, line breaks included) and any `#` comments between the tokens.

`Layout` = leading separator, then (token, separator) pairs.  `tokWf` says a (type, text) pair is a
LEF lexeme of that type.  `tokens_layout`: `Lef.tokens (layoutText L) = some (the tokens of L)`.
-/
namespace L21.LefLexRT
open L21.LefLex L21.Lef

abbrev W := isWsUnicode

/-! ### `spanP` -/
theorem spanP_append_stop (p : Char → Bool) : ∀ (a X : List Char), a.all p = true → (∀ c, X.head? = some c → p c = false) →
    spanP p (a ++ X) = (a, X) := by
  intro a
  induction a with
  | nil =>
    intro X _ hX
    cases X with
    | nil => rfl
    | cons c r => have := hX c rfl; simp [spanP, this]
  | cons c a ih =>
    intro X ha hX
    simp only [List.all_cons, Bool.and_eq_true] at ha
    simp [spanP, ha.1, ih X ha.2 hX]

theorem spanP_split (p : Char → Bool) : ∀ (l : List Char), (spanP p l).1 ++ (spanP p l).2 = l ∧ (spanP p l).1.all p = true := by
  intro l
  induction l with
  | nil => simp [spanP]
  | cons c r ih =>
    by_cases h : p c = true
    · simp [spanP, h, ih.1, ih.2]
    · simp [spanP, h]

/-- a span over `w ++ X` where everything in `w` may or may not satisfy `p` but `X`'s head does not -/
theorem spanP_within (p : Char → Bool) : ∀ (w X : List Char), (∀ c, X.head? = some c → p c = false) →
    ∃ a b, w = a ++ b ∧ spanP p (w ++ X) = (a, b ++ X) ∧ a.all p = true := by
  intro w
  induction w with
  | nil =>
    intro X hX
    refine ⟨[], [], rfl, ?_, rfl⟩
    cases X with
    | nil => rfl
    | cons c r => have := hX c rfl; simp [spanP, this]
  | cons c w ih =>
    intro X hX
    by_cases h : p c = true
    · obtain ⟨a, b, e, hs, ha⟩ := ih X hX
      refine ⟨c :: a, b, by simp [e], ?_, by simp [h, ha]⟩
      simp [spanP, h, hs]
    · exact ⟨[], c :: w, rfl, by simp [spanP, h], rfl⟩

theorem bytes_append (a b : List Char) : bytes (a ++ b) = bytes a + bytes b := by simp [bytes]
theorem bytes_cons (c : Char) (a : List Char) : bytes (c :: a) = c.utf8Size + bytes a := by simp [bytes]
@[simp] theorem bytes_nil : bytes [] = 0 := rfl
@[simp] theorem usz_hash : '#'.utf8Size = 1 := by decide
@[simp] theorem usz_semi : ';'.utf8Size = 1 := by decide
@[simp] theorem usz_quote : '"'.utf8Size = 1 := by decide
@[simp] theorem usz_nl : '\n'.utf8Size = 1 := by decide

/-! ### continuation-style lexing facts -/
/-- with any sufficient fuel, lexing `X` from byte offset `pos` gives `R` -/
def LexTo (pos : Nat) (X : List Char) (R : List LefLex.Tok) : Prop :=
  ∀ fuel, X.length < fuel → lexFrom W fuel pos X = .ok R

theorem LexTo_nil (pos : Nat) : LexTo pos [] [] := by
  intro fuel h
  cases fuel with
  | zero => omega
  | succ f => simp [lexFrom]

def headNotWs (X : List Char) : Prop := ∀ c, X.head? = some c → W c = false

theorem asciiRun_ws (d : Char) (h : (isAsciiWs d && d != '\n') = true) : W d = true := by
  simp only [Bool.and_eq_true, isAsciiWs, Bool.or_eq_true, beq_iff_eq] at h
  rcases h.1 with ((((h | h) | h) | h) | h) <;> subst h <;> decide

theorem nl_ws : W '\n' = true := by decide

/-- a run of white space is skipped -/
theorem skip_ws (X : List Char) (R : List LefLex.Tok) (hX : headNotWs X) : ∀ (n : Nat) (w : List Char), w.length ≤ n → w.all W = true →
    ∀ pos, LexTo (pos + bytes w) X R → LexTo pos (w ++ X) R := by
  intro n
  induction n with
  | zero =>
    intro w hn _ pos h
    have : w = [] := List.eq_nil_of_length_eq_zero (by omega)
    subst this; simpa using h
  | succ n ih =>
    intro w hn hw pos h
    cases w with
    | nil => simpa using h
    | cons c w =>
      simp only [List.all_cons, Bool.and_eq_true] at hw
      intro fuel hf
      cases fuel with
      | zero => omega
      | succ f =>
        simp only [List.cons_append, List.length_cons, List.length_append] at hf
        simp only [List.cons_append, lexFrom]
        have hc : (c == '\n' || W c) = true := by simp [hw.1]
        rw [if_pos hc]
        by_cases hnl : (c == '\n') = true
        · rw [if_pos hnl]
          simp only [bytes_nil, Nat.add_zero]
          refine ih w (by simp at hn; omega) hw.2 (pos + c.utf8Size) ?_ f (by simp; omega)
          simpa [bytes_cons, Nat.add_assoc] using h
        · rw [if_neg hnl]
          obtain ⟨a, b, e, hs, ha⟩ := spanP_within (fun d => isAsciiWs d && d != '\n') w X (by
            intro d hd
            have := hX d hd
            cases hq : (isAsciiWs d && d != '\n') with
            | false => rfl
            | true => rw [asciiRun_ws d hq] at this; cases this)
          rw [hs]
          simp only []
          subst e
          simp only [List.all_append, Bool.and_eq_true] at hw
          refine ih b (by simp at hn; omega) hw.2.2 (pos + c.utf8Size + bytes a) ?_ f (by simp at hf ⊢; omega)
          simpa [bytes_cons, bytes_append, Nat.add_assoc] using h

/-! ### separators: white space and `#` comments -/
/-- `w0 # body1 \n w1 # body2 \n w2 …` -/
structure Sep where
  w0 : List Char
  segs : List (List Char × List Char)
  deriving Repr

def segsText : List (List Char × List Char) → List Char
  | [] => []
  | (b, w) :: r => '#' :: b ++ '\n' :: w ++ segsText r

def Sep.text (s : Sep) : List Char := s.w0 ++ segsText s.segs

def segsOk (l : List (List Char × List Char)) : Bool := l.all fun (b, w) => b.all (· != '\n') && w.all W
def Sep.ok (s : Sep) : Bool := s.w0.all W && segsOk s.segs

theorem skip_segs (X : List Char) (R : List LefLex.Tok) (hX : headNotWs X) : ∀ (segs : List (List Char × List Char)) (w0 : List Char),
    w0.all W = true → segsOk segs = true →
    ∀ pos, LexTo (pos + bytes (w0 ++ segsText segs)) X R → LexTo pos (w0 ++ segsText segs ++ X) R := by
  intro segs
  induction segs with
  | nil =>
    intro w0 hw _ pos h
    simp only [segsText, List.append_nil] at h ⊢
    exact skip_ws X R hX _ w0 (Nat.le_refl _) hw pos h
  | cons s segs ih =>
    intro w0 hw hs pos h
    obtain ⟨b, w⟩ := s
    simp only [segsOk, List.all_cons, Bool.and_eq_true] at hs
    have hs2 : segsOk segs = true := hs.2
    simp only [segsText, List.append_assoc]
    refine skip_ws _ R ?_ _ w0 (Nat.le_refl _) hw pos ?_
    · intro c hc; simp at hc; subst hc; decide
    · -- the comment
      intro fuel hf
      cases fuel with
      | zero => omega
      | succ f =>
        simp only [List.cons_append, lexFrom]
        rw [if_neg (by decide), if_neg (by decide), if_neg (by decide), if_pos (by decide)]
        have hsp : spanP (fun d => d != '\n') (b ++ '\n' :: (w ++ (segsText segs ++ X))) = (b, '\n' :: (w ++ (segsText segs ++ X))) :=
          spanP_append_stop _ b _ hs.1.1 (by intro c hc; simp at hc; subst hc; rfl)
        rw [hsp]
        simp only []
        have := ih ('\n' :: w) (by simp [nl_ws, hs.1.2]) hs2 (pos + bytes w0 + 1 + bytes b) (by
          simpa [bytes_cons, bytes_append, segsText, Nat.add_assoc, Nat.add_comm, Nat.add_left_comm] using h)
        have h2 := this f (by simp at hf ⊢; omega)
        simpa [List.append_assoc] using h2

theorem skip_sep (X : List Char) (R : List LefLex.Tok) (hX : headNotWs X) (s : Sep) (hs : s.ok = true) (pos : Nat)
    (h : LexTo (pos + bytes s.text) X R) : LexTo pos (s.text ++ X) R := by
  simp only [Sep.ok, Bool.and_eq_true] at hs
  exact skip_segs X R hX s.segs s.w0 hs.1 hs.2 pos h

/-! ### tokens -/
def numStart (c : Char) : Bool := isDigit c || c == '.' || c == '-' || c == '+'

/-- `c :: body` is lexed as one word starting at `c` -/
def wordOk (c : Char) (body : List Char) : Bool :=
  !W c && c != ';' && c != '"' && c != '#' && body.all (fun d => !W d)

/-- (type, text) is a LEF lexeme of that type -/
def strBodyOk (r : List Char) : Bool := r.getLast? == some '"' && r.dropLast.all (· != '"')
def tokWf (t : Lef.Tok) : Bool :=
  match t.tt with
  | .semi => t.txt == [';']
  | .string => match t.txt with
    | c :: r => c == '"' && strBodyOk r
    | [] => false
  | .name => match t.txt with
    | c :: body => wordOk c body && !(numStart c && isNumberText (c :: body))
    | [] => false
  | .number => match t.txt with
    | c :: body => wordOk c body && numStart c && isNumberText (c :: body)
    | [] => false

def isWord (t : Lef.Tok) : Bool := t.tt == .name || t.tt == .number

theorem tokWf_head (t : Lef.Tok) (h : tokWf t = true) : ∃ c r, t.txt = c :: r ∧ W c = false := by
  obtain ⟨tt, txt⟩ := t
  cases tt with
  | semi => simp only [tokWf, beq_iff_eq] at h; subst h; exact ⟨';', [], rfl, by decide⟩
  | string =>
    cases txt with
    | nil => simp [tokWf] at h
    | cons c r =>
      simp only [tokWf, Bool.and_eq_true, beq_iff_eq] at h
      refine ⟨c, r, rfl, ?_⟩; rw [h.1]; decide
  | name =>
    cases txt with
    | nil => simp [tokWf] at h
    | cons c r =>
      simp only [tokWf, wordOk, Bool.and_eq_true, Bool.not_eq_true'] at h
      exact ⟨c, r, rfl, h.1.1.1.1.1⟩
  | number =>
    cases txt with
    | nil => simp [tokWf] at h
    | cons c r =>
      simp only [tokWf, wordOk, Bool.and_eq_true, Bool.not_eq_true'] at h
      exact ⟨c, r, rfl, h.1.1.1.1.1.1⟩

theorem lex_semi (pos : Nat) (X : List Char) (R : List LefLex.Tok) (h : LexTo (pos + 1) X R) :
    LexTo pos (';' :: X) (⟨.semi, pos, pos + 1⟩ :: R) := by
  intro fuel hf
  cases fuel with
  | zero => omega
  | succ f =>
    simp only [lexFrom]
    rw [if_neg (by decide), if_pos (by decide), h f (by simp at hf; omega)]

theorem lex_string (pos : Nat) (body X : List Char) (R : List LefLex.Tok) (hb : body.all (· != '"') = true)
    (h : LexTo (pos + bytes ('"' :: body ++ ['"'])) X R) :
    LexTo pos ('"' :: body ++ ['"'] ++ X) (⟨.string, pos, pos + bytes ('"' :: body ++ ['"'])⟩ :: R) := by
  intro fuel hf
  cases fuel with
  | zero => omega
  | succ f =>
    simp only [List.cons_append, List.append_assoc, List.nil_append, lexFrom]
    rw [if_neg (by decide), if_neg (by decide), if_pos (by decide)]
    have hsp : spanP (fun d => d != '"') (body ++ ('"' :: X)) = (body, '"' :: X) :=
      spanP_append_stop _ body _ hb (by intro c hc; simp at hc; subst hc; rfl)
    rw [hsp]; simp only []
    have e : pos + 1 + bytes body + bytes ['"'] = pos + bytes ('"' :: body ++ ['"']) := by
      simp [bytes_cons, bytes_append]; omega
    rw [e, h f (by simp at hf ⊢; omega)]
    simp

theorem lex_word (pos : Nat) (c : Char) (body X : List Char) (R : List LefLex.Tok) (hw : wordOk c body = true)
    (hX : ∀ d, X.head? = some d → W d = true)
    (h : LexTo (pos + bytes (c :: body)) X R) :
    LexTo pos (c :: body ++ X)
      (⟨if numStart c && isNumberText (c :: body) then .number else .name, pos, pos + bytes (c :: body)⟩ :: R) := by
  simp only [wordOk, Bool.and_eq_true, Bool.not_eq_true', bne_iff_ne, ne_eq] at hw
  obtain ⟨⟨⟨⟨h1, h2⟩, h3⟩, h4⟩, h5⟩ := hw
  intro fuel hf
  cases fuel with
  | zero => omega
  | succ f =>
    have hnl : (c == '\n') = false := by
      cases hq : (c == '\n') with
      | false => rfl
      | true => simp only [beq_iff_eq] at hq; subst hq; simp [W, nl_ws] at h1
    have hsp : spanP (fun d => !W d) (body ++ X) = (body, X) :=
      spanP_append_stop _ body _ h5 (by intro d hd; simp [hX d hd])
    have e : pos + c.utf8Size + bytes body = pos + bytes (c :: body) := by simp [bytes_cons]; omega
    simp only [List.cons_append, lexFrom]
    rw [if_neg (by simp [hnl, h1]), if_neg (by simpa using h2), if_neg (by simpa using h3), if_neg (by simpa using h4)]
    by_cases hn : numStart c = true
    · rw [if_pos (by simpa [numStart, Bool.or_assoc] using hn)]
      simp only [hsp, e, hn, Bool.true_and]
      rw [h f (by simp at hf ⊢; omega)]
    · rw [if_neg (by simpa [numStart, Bool.or_assoc] using hn)]
      simp only [hsp, e]
      rw [h f (by simp at hf ⊢; omega)]
      simp [hn]

/-! ### layouts -/
structure Layout where
  lead : Sep
  items : List (Lef.Tok × Sep)

def itemsText : List (Lef.Tok × Sep) → List Char
  | [] => []
  | (t, s) :: r => t.txt ++ s.text ++ itemsText r

def Layout.text (L : Layout) : List Char := L.lead.text ++ itemsText L.items

/-- a word must be followed by white space (or by the end of the text); `;` and strings need no gap -/
def gapOk (t : Lef.Tok) (s : Sep) (rest : List (Lef.Tok × Sep)) : Bool :=
  !isWord t || !s.w0.isEmpty || (s.segs.isEmpty && rest.isEmpty)

def itemsOk : List (Lef.Tok × Sep) → Bool
  | [] => true
  | (t, s) :: r => tokWf t && s.ok && gapOk t s r && itemsOk r

def Layout.ok (L : Layout) : Bool := L.lead.ok && itemsOk L.items

def posToks (pos : Nat) : List (Lef.Tok × Sep) → List LefLex.Tok
  | [] => []
  | (t, s) :: r => ⟨t.tt, pos, pos + bytes t.txt⟩ :: posToks (pos + bytes t.txt + bytes s.text) r

theorem itemsText_head (items : List (Lef.Tok × Sep)) (h : itemsOk items = true) : headNotWs (itemsText items) := by
  cases items with
  | nil => intro c hc; simp [itemsText] at hc
  | cons p r =>
    obtain ⟨t, s⟩ := p
    simp only [itemsOk, Bool.and_eq_true] at h
    obtain ⟨c, r', e, hc⟩ := tokWf_head t h.1.1.1
    intro d hd
    simp [itemsText, e] at hd
    subst hd; exact hc

theorem gap_head (t : Lef.Tok) (s : Sep) (r : List (Lef.Tok × Sep)) (hw : isWord t = true) (hs : s.ok = true)
    (hg : gapOk t s r = true) : ∀ d, (s.text ++ itemsText r).head? = some d → W d = true := by
  intro d hd
  simp only [gapOk, hw, Bool.not_true, Bool.false_or, Bool.or_eq_true, Bool.and_eq_true, Bool.not_eq_true',
    List.isEmpty_iff] at hg
  simp only [Sep.ok, Bool.and_eq_true] at hs
  rcases hg with hg | ⟨h1, h2⟩
  · cases hw0 : s.w0 with
    | nil => simp [hw0] at hg
    | cons c w =>
      simp only [Sep.text, hw0, List.cons_append, List.head?_cons, Option.some.injEq] at hd
      subst hd
      have := hs.1; rw [hw0] at this; simp only [List.all_cons, Bool.and_eq_true] at this; exact this.1
  · subst h2
    simp only [Sep.text, h1, segsText, itemsText, List.append_nil] at hd
    cases hw0 : s.w0 with
    | nil => simp [hw0] at hd
    | cons c w =>
      simp only [hw0, List.head?_cons, Option.some.injEq] at hd
      subst hd
      have := hs.1; rw [hw0] at this; simp only [List.all_cons, Bool.and_eq_true] at this; exact this.1

theorem lex_items : ∀ (items : List (Lef.Tok × Sep)) (pos : Nat), itemsOk items = true →
    LexTo pos (itemsText items) (posToks pos items) := by
  intro items
  induction items with
  | nil => intro pos _; exact LexTo_nil pos
  | cons p r ih =>
    intro pos h
    obtain ⟨t, s⟩ := p
    simp only [itemsOk, Bool.and_eq_true] at h
    obtain ⟨⟨⟨hwf, hs⟩, hgap⟩, hr⟩ := h
    have hrest : LexTo (pos + bytes t.txt) (s.text ++ itemsText r) (posToks (pos + bytes t.txt + bytes s.text) r) :=
      skip_sep _ _ (itemsText_head r hr) s hs _ (ih _ hr)
    obtain ⟨tt, txt⟩ := t
    simp only [itemsText, posToks, List.append_assoc]
    cases tt with
    | semi =>
      simp only [tokWf, beq_iff_eq] at hwf
      subst hwf
      have := lex_semi pos _ _ (by simpa [bytes_cons] using hrest)
      simpa [bytes_cons] using this
    | string =>
      cases txt with
      | nil => simp [tokWf] at hwf
      | cons q body' =>
        simp only [tokWf, strBodyOk, Bool.and_eq_true, beq_iff_eq] at hwf
        obtain ⟨hq, hl, hb⟩ := hwf
        subst hq
        have hb' : body' = body'.dropLast ++ ['"'] := by
          have hne : body' ≠ [] := by intro e; simp [e] at hl
          have := (List.dropLast_concat_getLast hne).symm
          rw [List.getLast?_eq_some_getLast hne] at hl
          simp only [Option.some.injEq] at hl
          rw [hl] at this; exact this
        rw [hb'] at hrest ⊢
        have := lex_string pos body'.dropLast _ _ hb (by simpa using hrest)
        simpa using this
    | name =>
      cases txt with
      | nil => simp [tokWf] at hwf
      | cons c body =>
        simp only [tokWf, Bool.and_eq_true, Bool.not_eq_true'] at hwf
        have := lex_word pos c body _ _ hwf.1 (by
          exact gap_head ⟨.name, c :: body⟩ s r rfl hs hgap) hrest
        simpa [hwf.2] using this
    | number =>
      cases txt with
      | nil => simp [tokWf] at hwf
      | cons c body =>
        simp only [tokWf, Bool.and_eq_true] at hwf
        have := lex_word pos c body _ _ hwf.1.1 (by
          exact gap_head ⟨.number, c :: body⟩ s r rfl hs hgap) hrest
        simpa [hwf.1.2, hwf.2] using this

/-! ### slicing the source by byte offsets gives back the token texts -/
theorem go_skip (s e : Nat) : ∀ (pre Y : List Char) (p : Nat), p + bytes pre ≤ s → s ≤ e →
    sliceBytes.go s e p (pre ++ Y) = sliceBytes.go s e (p + bytes pre) Y := by
  intro pre
  induction pre with
  | nil => intro Y p _ _; simp
  | cons c pre ih =>
    intro Y p h1 h2
    have := Char.utf8Size_pos c
    simp only [bytes_cons] at h1
    simp only [List.cons_append, sliceBytes.go]
    rw [if_neg (by omega), if_neg (by omega), ih Y _ (by omega) h2, bytes_cons, Nat.add_assoc]

theorem go_take (s e : Nat) : ∀ (txt Z : List Char) (p : Nat), s ≤ p → p + bytes txt ≤ e →
    sliceBytes.go s e p (txt ++ Z) = txt ++ sliceBytes.go s e (p + bytes txt) Z := by
  intro txt
  induction txt with
  | nil => intro Z p _ _; simp
  | cons c txt ih =>
    intro Z p h1 h2
    have := Char.utf8Size_pos c
    simp only [bytes_cons] at h2
    simp only [List.cons_append, sliceBytes.go]
    rw [if_neg (by omega), if_pos (by omega), ih Z _ (by omega) (by omega), bytes_cons, Nat.add_assoc]

theorem go_done (s e p : Nat) (Z : List Char) (h : e ≤ p) : sliceBytes.go s e p Z = [] := by
  cases Z with
  | nil => simp [sliceBytes.go]
  | cons c r => simp only [sliceBytes.go]; rw [if_pos (by omega)]

theorem slice_mid (pre txt post : List Char) :
    sliceBytes (pre ++ (txt ++ post)) (bytes pre) (bytes pre + bytes txt) = txt := by
  unfold sliceBytes
  rw [go_skip _ _ pre _ 0 (by omega) (by omega), go_take _ _ txt post _ (by omega) (by omega),
    go_done _ _ _ _ (by omega)]
  simp

theorem slice_items : ∀ (items : List (Lef.Tok × Sep)) (pre : List Char),
    (posToks (bytes pre) items).map (fun t => (⟨t.ttype, sliceBytes (pre ++ itemsText items) t.start t.stop⟩ : Lef.Tok)) =
      items.map (·.1) := by
  intro items
  induction items with
  | nil => intro pre; rfl
  | cons p r ih =>
    intro pre
    obtain ⟨t, s⟩ := p
    simp only [posToks, itemsText, List.map_cons, List.append_assoc]
    congr 1
    · rw [slice_mid]
    · have := ih (pre ++ (t.txt ++ s.text))
      simpa [bytes_append, Nat.add_assoc] using this

/-- THE LEXER THEOREM: every well-formed layout lexes to its own token list -/
theorem tokens_layout (L : Layout) (h : L.ok = true) : tokens L.text = some (L.items.map (·.1)) := by
  simp only [Layout.ok, Bool.and_eq_true] at h
  have hl : LexTo 0 (L.lead.text ++ itemsText L.items) (posToks (bytes L.lead.text) L.items) :=
    skip_sep _ _ (itemsText_head _ h.2) L.lead h.1 0 (by simpa using lex_items L.items (bytes L.lead.text) h.2)
  have := hl ((L.lead.text ++ itemsText L.items).length + 1) (by omega)
  simp only [tokens, lex, Layout.text, this]
  rw [slice_items L.items L.lead.text]

/-- what the reader returns depends on the token list alone -/
theorem parse_layout (L : Layout) (h : L.ok = true) :
    parse L.text = libBody ((L.items.map (·.1)).length + 1) ⟨58, 1⟩ {} (L.items.map (·.1)) := by
  simp [parse, tokens_layout L h]

theorem parse_layout_indep (L1 L2 : Layout) (h1 : L1.ok = true) (h2 : L2.ok = true)
    (he : L1.items.map (·.1) = L2.items.map (·.1)) : parse L1.text = parse L2.text := by
  rw [parse_layout L1 h1, parse_layout L2 h2, he]

end L21.LefLexRT
