import L21.Props.C07
/-
C07 — helper lemmas for the cell-level round trip raw → GDSII → raw: one shape / one instance at a
time, the first pass over the exported elements, and the label pass under label separation.
-/
namespace L21.RawGds
open L21.Geom L21.Gds

/-- a shape after the trip: a four-point polygon that is an axis-parallel rectangle is recognised as
    a rectangle (the importer's normalisation); everything else keeps its points and width -/
def normShape : Shape → Shape
  | .polygon pts => boundaryShape pts
  | s => s

theorem pairUp_flatMap_append (pts : List Pt) (p : Pt) : pairUp ((pts ++ [p]).flatMap ptXY) = pts ++ [p] := pairUp_flatMap _

/-- one exported shape is imported as one element with the same layer, purpose and (normalised) shape -/
theorem import_exportShape (known : List Bytes) (acc : Pass1) (layer dt : Int) (s : Shape) (g : Gds.Elem)
    (h : exportShape layer dt s = .ok g) :
    importElem known acc g = .ok { acc with elems := acc.elems ++ [⟨none, layer, dt, normShape s⟩] } := by
  cases s with
  | rect p0 p1 =>
    simp only [exportShape] at h
    split at h
    · cases h; exact c07_rect_roundtrip known acc layer dt p0 p1
    · cases h
  | path pts w =>
    have := c07_path_open layer dt pts w g h
    subst this
    exact c07_path_roundtrip known acc layer dt pts w
  | polygon pts =>
    simp only [exportShape] at h
    cases pts with
    | nil => cases h
    | cons p0 rest =>
      simp only at h
      split at h
      · cases h
        simp only [importElem, pairUp_flatMap]
        have hl : ((p0 :: rest) ++ [p0]).getLast? = some p0 := List.getLast?_concat ..
        have hd : ((p0 :: rest) ++ [p0]).dropLast = p0 :: rest := List.dropLast_concat
        simp only [List.cons_append] at hl hd ⊢
        simp [hl, hd, normShape]
      · cases h


/-- GDSII has no instance names: an instance comes back with its target, location, reflection and angle -/
def eraseName (i : Inst) : Inst := { i with name := [] }

theorem import_exportInst (known : List Bytes) (acc : Pass1) (i : Inst) (g : Gds.Elem) (h : exportInst i = .ok g)
    (hk : known.contains i.cell = true) :
    importElem known acc g = .ok { acc with insts := acc.insts ++ [eraseName i] } := by
  obtain ⟨st, rfl, hst⟩ := c07_orientation_roundtrip i g h
  simp only [importElem, hk, Bool.not_true, Bool.false_eq_true, if_false, pairUp, hst, eraseName]

theorem importP1_insts (known : List Bytes) : ∀ (is : List Inst) (gs : List Gds.Elem) (acc : Pass1) (rest : List Gds.Elem),
    exportInsts is = .ok gs → (∀ i ∈ is, known.contains i.cell = true) →
    importElemsP1 known acc (gs ++ rest) = importElemsP1 known { acc with insts := acc.insts ++ is.map eraseName } rest := by
  intro is
  induction is with
  | nil => intro gs acc rest h _; simp only [exportInsts, Gds.Out.ok.injEq] at h; subst h; simp
  | cons i r ih =>
    intro gs acc rest h hk
    simp only [exportInsts] at h
    cases h1 : exportInst i with
    | err => simp [h1] at h
    | ok g =>
      cases h2 : exportInsts r with
      | err => simp [h1, h2] at h
      | ok gs' =>
        simp only [h1, h2, Gds.Out.ok.injEq] at h
        subst h
        simp only [List.cons_append, importElemsP1, import_exportInst known acc i g h1 (hk i (by simp))]
        rw [ih gs' _ rest h2 (fun x hx => hk x (by simp [hx]))]
        simp

def stripE (e : Elem) : Elem := ⟨none, e.layer, e.purpose, normShape e.shape⟩

theorem importP1_elems (known : List Bytes) (tbl : LabelTbl) : ∀ (es : List Elem) (gs : List Gds.Elem) (acc : Pass1),
    exportElems tbl es = .ok gs → (∀ e ∈ es, e.net = none) →
    importElemsP1 known acc gs = .ok { acc with elems := acc.elems ++ es.map stripE } := by
  intro es
  induction es with
  | nil => intro gs acc h _; simp only [exportElems, Gds.Out.ok.injEq] at h; subst h; simp [importElemsP1]
  | cons e r ih =>
    intro gs acc h hn
    simp only [exportElems] at h
    cases h1 : exportElem tbl e with
    | err => simp [h1] at h
    | ok g1 =>
      cases h2 : exportElems tbl r with
      | err => simp [h1, h2] at h
      | ok gs' =>
        simp only [h1, h2, Gds.Out.ok.injEq] at h
        subst h
        have hne := hn e (by simp)
        simp only [exportElem, hne] at h1
        cases h3 : exportShape e.layer e.purpose e.shape with
        | err => simp [h3] at h1
        | ok g =>
          simp only [h3, Gds.Out.ok.injEq] at h1
          subst h1
          simp only [List.cons_append, List.nil_append, importElemsP1, import_exportShape known acc _ _ _ g h3]
          rw [ih gs' _ h2 (fun x hx => hn x (by simp [hx]))]
          simp [stripE]

/-! ### net names: labels out, labels in -/
def hits (layer : Int) (q : Pt) (x : Elem) : Bool := x.layer == layer && shapeContains x.shape q

/-- a label whose point lies in exactly one shape of its layer names exactly that shape -/
theorem applyText_names_one (pre post : List Elem) (e : Elem) (annots : List (Bytes × Pt)) (n : Bytes) (q : Pt)
    (hc : shapeContains e.shape q = true) (hnone : e.net = none)
    (hsep : ∀ x ∈ pre ++ post, hits e.layer q x = false) :
    applyText (pre ++ e :: post) annots (n, e.layer, q) = (pre ++ { e with net := some (lowerAscii n) } :: post, annots) := by
  have hhit : (pre ++ e :: post).any (fun x => x.layer == e.layer && shapeContains x.shape q) = true := by
    rw [List.any_eq_true]; exact ⟨e, by simp, by simp [hc]⟩
  have hid : ∀ l : List Elem, (∀ x ∈ l, hits e.layer q x = false) →
      l.map (fun x => if x.layer == e.layer && shapeContains x.shape q && x.net.isNone then { x with net := some (lowerAscii n) } else x) = l := by
    intro l hl
    induction l with
    | nil => rfl
    | cons x r ih =>
      have hx : (x.layer == e.layer && shapeContains x.shape q) = false := hl x (by simp)
      simp only [List.map_cons, hx, Bool.false_and, Bool.false_eq_true, if_false]
      rw [ih (fun y hy => hl y (by simp [hy]))]
  simp only [applyText, hhit, if_true, List.map_append, List.map_cons]
  rw [hid pre (fun x hx => hsep x (by simp [hx])), hid post (fun x hx => hsep x (by simp [hx]))]
  simp [hc, hnone]

/-- an element after the trip: shape normalised, net name lower-cased -/
def finalE (e : Elem) : Elem := ⟨e.net.map lowerAscii, e.layer, e.purpose, normShape e.shape⟩

/-- the labels the exporter writes for a list of elements, as the importer's first pass records them -/
def textsOf : List Elem → List (Bytes × Int × Pt)
  | [] => []
  | e :: rest => (match e.net, labelLocation e.shape with
      | some n, .ok q => [(n, e.layer, q)]
      | _, _ => []) ++ textsOf rest

/-- **label separation**: each named element's label point lies in its own (normalised) shape and in
    no other shape of the same layer — checked against the elements before (`done`) and after it -/
def sepOk (done : List Elem) : List Elem → Bool
  | [] => true
  | e :: rest =>
    (match e.net, labelLocation e.shape with
     | some _, .ok q => shapeContains (normShape e.shape) q &&
         (done ++ rest.map stripE).all (fun x => !hits e.layer q x)
     | some _, .err => false
     | none, _ => true) && sepOk (done ++ [finalE e]) rest

theorem fold_labels : ∀ (rest done : List Elem) (annots : List (Bytes × Pt)), sepOk done rest = true →
    (textsOf rest).foldl (fun acc t => applyText acc.1 acc.2 t) (done ++ rest.map stripE, annots) = (done ++ rest.map finalE, annots) := by
  intro rest
  induction rest with
  | nil => intro done annots _; simp [textsOf]
  | cons e r ih =>
    intro done annots h
    simp only [sepOk, Bool.and_eq_true] at h
    obtain ⟨h1, h2⟩ := h
    cases hn : e.net with
    | none =>
      have hf : finalE e = stripE e := by simp [finalE, stripE, hn]
      simp only [textsOf, hn, List.nil_append, List.map_cons]
      have := ih (done ++ [finalE e]) annots h2
      rw [hf] at this ⊢
      simpa [List.append_assoc] using this
    | some n =>
      cases hq : labelLocation e.shape with
      | err => simp [hn, hq] at h1
      | ok q =>
        simp only [hn, hq, Bool.and_eq_true, List.all_eq_true, Bool.not_eq_true'] at h1
        obtain ⟨hc, hsep⟩ := h1
        simp only [textsOf, hn, hq, List.cons_append, List.nil_append, List.foldl_cons, List.map_cons]
        have step := applyText_names_one done (r.map stripE) (stripE e) annots n q hc rfl (by
          intro x hx; exact hsep x hx)
        have hl : (stripE e).layer = e.layer := rfl
        rw [hl] at step
        rw [step]
        have hf : ({ net := some (lowerAscii n), layer := e.layer, purpose := (stripE e).purpose, shape := (stripE e).shape } : Elem) = finalE e := by
          simp [finalE, stripE, hn]
        rw [hf]
        have := ih (done ++ [finalE e]) annots h2
        simpa [List.append_assoc] using this


theorem importP1_elems_nets (known : List Bytes) (tbl : LabelTbl) : ∀ (es : List Elem) (gs : List Gds.Elem) (acc : Pass1),
    exportElems tbl es = .ok gs →
    importElemsP1 known acc gs = .ok { acc with elems := acc.elems ++ es.map stripE, texts := acc.texts ++ textsOf es } := by
  intro es
  induction es with
  | nil => intro gs acc h; simp only [exportElems, Gds.Out.ok.injEq] at h; subst h; simp [importElemsP1, textsOf]
  | cons e r ih =>
    intro gs acc h
    simp only [exportElems] at h
    cases h1 : exportElem tbl e with
    | err => simp [h1] at h
    | ok g1 =>
      cases h2 : exportElems tbl r with
      | err => simp [h1, h2] at h
      | ok gs' =>
        simp only [h1, h2, Gds.Out.ok.injEq] at h
        subst h
        simp only [exportElem] at h1
        cases h3 : exportShape e.layer e.purpose e.shape with
        | err => simp [h3] at h1
        | ok g =>
          simp only [h3] at h1
          cases hn : e.net with
          | none =>
            simp only [hn, Gds.Out.ok.injEq] at h1
            subst h1
            simp only [List.cons_append, List.nil_append, importElemsP1, import_exportShape known acc _ _ _ g h3]
            rw [ih gs' _ h2]
            simp [stripE, textsOf, hn]
          | some n =>
            simp only [hn] at h1
            split at h1
            · rename_i lp loc hlp hloc
              split at h1
              · simp only [Gds.Out.ok.injEq] at h1
                subst h1
                simp only [List.cons_append, List.nil_append, importElemsP1, import_exportShape known acc _ _ _ g h3]
                simp only [importElem, pairUp]
                rw [ih gs' _ h2]
                simp [stripE, textsOf, hn, hloc]
              · cases h1
            · cases h1

end L21.RawGds
