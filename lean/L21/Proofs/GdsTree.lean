import L21.Model.Gds
/-
Tree level of the GDSII round trip: the reader's record-level state machine (`parseLib`) applied to
the record list the writer produces (`libRecs`) returns the library.  (Byte level: Proofs/GdsBytes.)
-/
namespace L21.Gds

theorem propRecs_length (ps : List Property) : (propRecs ps).length = 2 * ps.length := by
  induction ps with
  | nil => rfl
  | cons p r ih => simp only [propRecs, List.flatMap_cons, List.length_append, List.length_cons, List.length_nil] at ih ⊢; omega

/-- PROPATTR / PROPVALUE pairs, then ENDEL: the element is built with the properties appended -/
theorem parseElem_props (k : EK) (rest : List Rec) : ∀ (ps : List Property) (b : B) (f : Nat), ps.length + 1 ≤ f →
    parseElem k f b (propRecs ps ++ ⟨17, .none⟩ :: rest) =
      (match build k { b with props := b.props ++ ps } with | .ok e => .ok (e, rest) | .err => .err) := by
  intro ps
  induction ps with
  | nil =>
    intro b f hf
    obtain ⟨g, rfl⟩ : ∃ g, f = g + 1 := ⟨f - 1, by omega⟩
    cases b
    simp [propRecs, parseElem]
    rfl
  | cons p r ih =>
    intro b f hf
    obtain ⟨g, rfl⟩ : ∃ g, f = g + 1 := ⟨f - 1, by simp at hf; omega⟩
    have := ih { b with props := b.props ++ [p] } g (by simp at hf; omega)
    cases p
    simp only [propRecs, List.flatMap_cons, List.cons_append, List.nil_append, List.append_assoc] at this ⊢
    simp only [parseElem, rPropAttr, rPropValue, int1]
    simpa [propRecs, rPropAttr, rPropValue, int1] using this

theorem mkStrans_flags (r am aa : Bool) :
    mkStrans (if r then 128 else 0) ((if am then 4 else 0) + (if aa then 2 else 0)) = ⟨r, am, aa, none, none⟩ := by
  cases r <;> cases am <;> cases aa <;> simp [mkStrans]

/-- element well-formedness: the coordinate list has the shape its kind demands -/
def elemOk : Elem → Bool
  | .boundary _ _ xy _ => xyOk .boundary xy
  | .path _ _ xy _ _ _ _ _ => xyOk .path xy
  | .sref _ xy _ _ => xyOk .sref xy
  | .aref _ xy _ _ _ _ => xyOk .aref xy
  | .text _ _ _ xy _ _ _ _ _ => xyOk .text xy
  | .node _ _ xy _ => xyOk .node xy
  | .box _ _ xy _ => xyOk .box xy

def kindOf : Elem → EK
  | .boundary .. => .boundary | .path .. => .path | .sref .. => .sref | .aref .. => .aref
  | .text .. => .text | .node .. => .node | .box .. => .box

theorem parseElem_mono (k : EK) : ∀ (f : Nat) (b : B) (recs : List Rec) (r : Elem × List Rec),
    parseElem k f b recs = .ok r → ∀ f', f ≤ f' → parseElem k f' b recs = .ok r := by
  intro f
  induction f with
  | zero => intro b recs r h; simp [parseElem] at h
  | succ f ih =>
    intro b recs r h f' hf
    obtain ⟨g, rfl⟩ : ∃ g, f' = g + 1 := ⟨f' - 1, by omega⟩
    have hg : f ≤ g := by omega
    cases recs with
    | nil => simp [parseElem] at h
    | cons x rest =>
      unfold parseElem at h ⊢
      split at h <;> dsimp only at h ⊢
      all_goals (try (exact h))
      all_goals (try (cases h; done))
      all_goals (try (split at h))
      all_goals (try (cases h; done))
      all_goals (try (rename_i hc; rw [if_pos hc]))
      all_goals (try exact ih _ _ _ h _ hg)
      all_goals (try (split at h))
      all_goals (try (cases h; done))
      all_goals (try (rename_i hc2; rw [if_pos hc2]))
      all_goals (try exact ih _ _ _ h _ hg)

/-- the records of an element between ELFLAGS/PLEX and the properties -/
def elemMid : Elem → List Rec
  | .boundary layer dt xy _ => [⟨rLayer, int1 layer⟩, ⟨rDataType, int1 dt⟩, ⟨rXy, .ints xy⟩]
  | .path layer dt xy width pt be ee _ =>
    [⟨rLayer, int1 layer⟩, ⟨rDataType, int1 dt⟩]
      ++ optRec rPathType int1 pt ++ optRec rWidth int1 width ++ optRec rBeginExtn int1 be ++ optRec rEndExtn int1 ee
      ++ [⟨rXy, .ints xy⟩]
  | .sref name xy st _ => [⟨rStructRefName, .str name⟩] ++ optStrans st ++ [⟨rXy, .ints xy⟩]
  | .aref name xy cols rows st _ =>
    [⟨rStructRefName, .str name⟩] ++ optStrans st ++ [⟨rColRow, .ints [cols, rows]⟩, ⟨rXy, .ints xy⟩]
  | .text s layer tt xy pres pt width st _ =>
    [⟨rLayer, int1 layer⟩, ⟨rTextType, int1 tt⟩]
      ++ optRec rPresentation (fun (e : Nat × Nat) => .bits e.1 e.2) pres ++ optRec rPathType int1 pt ++ optRec rWidth int1 width
      ++ optStrans st ++ [⟨rXy, .ints xy⟩, ⟨rString, .str s⟩]
  | .node layer nt xy _ => [⟨rLayer, int1 layer⟩, ⟨rNodetype, int1 nt⟩, ⟨rXy, .ints xy⟩]
  | .box layer bt xy _ => [⟨rLayer, int1 layer⟩, ⟨rBoxType, int1 bt⟩, ⟨rXy, .ints xy⟩]

def elemCommon : Elem → Common
  | .boundary _ _ _ c | .path _ _ _ _ _ _ _ c | .sref _ _ _ c | .aref _ _ _ _ _ c
  | .text _ _ _ _ _ _ _ _ c | .node _ _ _ c | .box _ _ _ c => c

def headerRec : Elem → Rec
  | .boundary .. => ⟨rBoundary, .none⟩ | .path .. => ⟨rPath, .none⟩ | .sref .. => ⟨rStructRef, .none⟩
  | .aref .. => ⟨rArrayRef, .none⟩ | .text .. => ⟨rText, .none⟩ | .node .. => ⟨rNode, .none⟩ | .box .. => ⟨rBox, .none⟩

theorem elemRecs_eq (e : Elem) : elemRecs e =
    headerRec e :: (commonHead (elemCommon e) ++ (elemMid e ++ (propRecs (elemCommon e).props ++ [⟨rEndElement, .none⟩]))) := by
  cases e <;> simp [elemRecs, elemMid, headerRec, elemCommon, List.append_assoc]

/-- ELFLAGS and PLEX, when present, only fill their two builder fields -/
theorem parse_common (k : EK) (c : Common) (f : Nat) (rest : List Rec) :
    parseElem k (f + (commonHead c).length) {} (commonHead c ++ rest) =
      parseElem k f { elflags := c.elflags, plex := c.plex } rest := by
  obtain ⟨ef, pl, ps⟩ := c
  cases ef <;> cases pl <;>
    simp [commonHead, optRec, parseElem, rElemFlags, rPlex, int1]

/-! one-record steps of `parseElem` -/
def hasLayer (k : EK) : Bool := !(k == .sref || k == .aref)
def hasStrans (k : EK) : Bool := k == .sref || k == .aref || k == .text

theorem pe_layer (k : EK) (f : Nat) (b : B) (v : Int) (r : List Rec) (h : hasLayer k = true) :
    parseElem k (f + 1) b (⟨rLayer, int1 v⟩ :: r) = parseElem k f { b with layer := some v } r := by
  simp only [hasLayer] at h
  simp [parseElem, rLayer, int1, h]
theorem pe_xy (k : EK) (f : Nat) (b : B) (l : List Int) (r : List Rec) (h : xyOk k l = true) :
    parseElem k (f + 1) b (⟨rXy, .ints l⟩ :: r) = parseElem k f { b with xy := some l } r := by
  simp [parseElem, rXy, h]
theorem pe_xtype (k : EK) (f : Nat) (b : B) (v : Int) (r : List Rec) (rt : Nat) (h : rt = xtypeRec k)
    (hk : k = .boundary ∨ k = .path ∨ k = .text ∨ k = .node ∨ k = .box) :
    parseElem k (f + 1) b (⟨rt, int1 v⟩ :: r) = parseElem k f { b with xtype := some v } r := by
  subst h
  rcases hk with rfl | rfl | rfl | rfl | rfl <;> simp [parseElem, xtypeRec, int1]
theorem pe_name (k : EK) (f : Nat) (b : B) (n : Bytes) (r : List Rec) (h : (k == .sref || k == .aref) = true) :
    parseElem k (f + 1) b (⟨rStructRefName, .str n⟩ :: r) = parseElem k f { b with name := some n } r := by
  simp [parseElem, rStructRefName, h]
theorem pe_colrow (f : Nat) (b : B) (c w : Int) (r : List Rec) :
    parseElem .aref (f + 1) b (⟨rColRow, .ints [c, w]⟩ :: r) = parseElem .aref f { b with cols := some c, rows := some w } r := by
  simp [parseElem, rColRow]
theorem pe_string (f : Nat) (b : B) (s : Bytes) (r : List Rec) :
    parseElem .text (f + 1) b (⟨rString, .str s⟩ :: r) = parseElem .text f { b with string := some s } r := by
  simp [parseElem, rString]

theorem pe_opt_width (k : EK) (f : Nat) (b : B) (o : Option Int) (r : List Rec) (hk : (k == .path || k == .text) = true)
    (hb : b.width = none) :
    parseElem k (f + (optRec rWidth int1 o).length) b (optRec rWidth int1 o ++ r) = parseElem k f { b with width := o } r := by
  cases o with
  | none => cases b; simp only [optRec, List.length_nil, Nat.add_zero, List.nil_append]; simp at hb; subst hb; rfl
  | some v => simp [optRec, parseElem, rWidth, int1, hk]
theorem pe_opt_pathtype (k : EK) (f : Nat) (b : B) (o : Option Int) (r : List Rec) (hk : (k == .path || k == .text) = true)
    (hb : b.pathType = none) :
    parseElem k (f + (optRec rPathType int1 o).length) b (optRec rPathType int1 o ++ r) = parseElem k f { b with pathType := o } r := by
  cases o with
  | none => cases b; simp only [optRec, List.length_nil, Nat.add_zero, List.nil_append]; simp at hb; subst hb; rfl
  | some v => simp [optRec, parseElem, rPathType, int1, hk]
theorem pe_opt_bgn (f : Nat) (b : B) (o : Option Int) (r : List Rec) (hb : b.beginExtn = none) :
    parseElem .path (f + (optRec rBeginExtn int1 o).length) b (optRec rBeginExtn int1 o ++ r) = parseElem .path f { b with beginExtn := o } r := by
  cases o with
  | none => cases b; simp only [optRec, List.length_nil, Nat.add_zero, List.nil_append]; simp at hb; subst hb; rfl
  | some v => simp [optRec, parseElem, rBeginExtn, int1]
theorem pe_opt_end (f : Nat) (b : B) (o : Option Int) (r : List Rec) (hb : b.endExtn = none) :
    parseElem .path (f + (optRec rEndExtn int1 o).length) b (optRec rEndExtn int1 o ++ r) = parseElem .path f { b with endExtn := o } r := by
  cases o with
  | none => cases b; simp only [optRec, List.length_nil, Nat.add_zero, List.nil_append]; simp at hb; subst hb; rfl
  | some v => simp [optRec, parseElem, rEndExtn, int1]
theorem pe_opt_pres (f : Nat) (b : B) (o : Option (Nat × Nat)) (r : List Rec) (hb : b.presentation = none) :
    parseElem .text (f + (optRec rPresentation (fun (e : Nat × Nat) => Payload.bits e.1 e.2) o).length) b
      (optRec rPresentation (fun (e : Nat × Nat) => Payload.bits e.1 e.2) o ++ r) = parseElem .text f { b with presentation := o } r := by
  cases o with
  | none => cases b; simp only [optRec, List.length_nil, Nat.add_zero, List.nil_append]; simp at hb; subst hb; rfl
  | some v => obtain ⟨a, c⟩ := v; simp [optRec, parseElem, rPresentation]

/-- STRANS with its optional MAG / ANGLE, followed by a record that is neither -/
theorem pe_opt_strans (k : EK) (f : Nat) (b : B) (o : Option Strans) (nx : Rec) (r : List Rec) (hk : hasStrans k = true)
    (hb : b.strans = none) (hnx : nx.rt ≠ 27 ∧ nx.rt ≠ 28) :
    parseElem k (f + (if o.isSome then 1 else 0)) b (optStrans o ++ nx :: r) = parseElem k f { b with strans := o } (nx :: r) := by
  have tail : ∀ s : Strans, parseStransTail s (nx :: r) = (s, nx :: r) := by
    intro s
    obtain ⟨rt, pl⟩ := nx
    simp only at hnx
    unfold parseStransTail
    split
    · rename_i h1; simp only [List.cons.injEq, Rec.mk.injEq] at h1; exact absurd h1.1.1 hnx.1
    · rename_i h1; simp only [List.cons.injEq, Rec.mk.injEq] at h1; exact absurd h1.1.1 hnx.2
    · rfl
  simp only [hasStrans] at hk
  cases o with
  | none => cases b; simp only [optStrans, Option.isSome_none, Bool.false_eq_true, if_false, Nat.add_zero, List.nil_append]; simp at hb; subst hb; rfl
  | some s =>
    obtain ⟨rf, am, aa, mag, angle⟩ := s
    simp only [Option.isSome_some, if_true, optStrans, stransRecs]
    cases mag <;> cases angle <;>
      simp only [optRec, List.append_nil, List.nil_append, List.cons_append, parseElem, rStrans, rMag, rAngle, hk, if_true,
        parseStransTail, tail, mkStrans_flags, List.length_cons] <;>
      simp <;> omega


end L21.Gds
