import L21.Model.Gds
/-
Tree level of the GDSII round trip: the reader's record-level state machine (`parseLib`) applied to
the record list the writer produces (`libRecs`) returns the library.  (Byte level: Proofs/GdsBytes.)
-/
namespace L21.Gds

theorem propRecs_length (ps : List Property) : (propRecs ps).length = 2 * ps.length := by
  induction ps with
  | nil => rfl
  | cons p r ih => simp only [propRecs, List.flatMap_cons, List.length_append, List.length_cons, List.length_nil] at ih ⊢; omega

/-- PROPATTR / PROPVALUE pairs, then ENDEL: the element is built with the properties appended -/
theorem parseElem_props (k : EK) (rest : List Rec) : ∀ (ps : List Property) (b : B) (f : Nat), ps.length + 1 ≤ f →
    parseElem k f b (propRecs ps ++ ⟨17, .none⟩ :: rest) =
      (match build k { b with props := b.props ++ ps } with | .ok e => .ok (e, rest) | .err => .err) := by
  intro ps
  induction ps with
  | nil =>
    intro b f hf
    obtain ⟨g, rfl⟩ : ∃ g, f = g + 1 := ⟨f - 1, by omega⟩
    cases b
    simp [propRecs, parseElem]
    rfl
  | cons p r ih =>
    intro b f hf
    obtain ⟨g, rfl⟩ : ∃ g, f = g + 1 := ⟨f - 1, by simp at hf; omega⟩
    have := ih { b with props := b.props ++ [p] } g (by simp at hf; omega)
    cases p
    simp only [propRecs, List.flatMap_cons, List.cons_append, List.nil_append, List.append_assoc] at this ⊢
    simp only [parseElem, rPropAttr, rPropValue, int1]
    simpa [propRecs, rPropAttr, rPropValue, int1] using this

theorem mkStrans_flags (r am aa : Bool) :
    mkStrans (if r then 128 else 0) ((if am then 4 else 0) + (if aa then 2 else 0)) = ⟨r, am, aa, none, none⟩ := by
  cases r <;> cases am <;> cases aa <;> simp [mkStrans]

/-- element well-formedness: the coordinate list has the shape its kind demands -/
def elemOk : Elem → Bool
  | .boundary _ _ xy _ => xyOk .boundary xy
  | .path _ _ xy _ _ _ _ _ => xyOk .path xy
  | .sref _ xy _ _ => xyOk .sref xy
  | .aref _ xy _ _ _ _ => xyOk .aref xy
  | .text _ _ _ xy _ _ _ _ _ => xyOk .text xy
  | .node _ _ xy _ => xyOk .node xy
  | .box _ _ xy _ => xyOk .box xy

def kindOf : Elem → EK
  | .boundary .. => .boundary | .path .. => .path | .sref .. => .sref | .aref .. => .aref
  | .text .. => .text | .node .. => .node | .box .. => .box

theorem parseElem_mono (k : EK) : ∀ (f : Nat) (b : B) (recs : List Rec) (r : Elem × List Rec),
    parseElem k f b recs = .ok r → ∀ f', f ≤ f' → parseElem k f' b recs = .ok r := by
  intro f
  induction f with
  | zero => intro b recs r h; simp [parseElem] at h
  | succ f ih =>
    intro b recs r h f' hf
    obtain ⟨g, rfl⟩ : ∃ g, f' = g + 1 := ⟨f' - 1, by omega⟩
    have hg : f ≤ g := by omega
    cases recs with
    | nil => simp [parseElem] at h
    | cons x rest =>
      unfold parseElem at h ⊢
      split at h <;> dsimp only at h ⊢
      all_goals (try (exact h))
      all_goals (try (cases h; done))
      all_goals (try (split at h))
      all_goals (try (cases h; done))
      all_goals (try (rename_i hc; rw [if_pos hc]))
      all_goals (try exact ih _ _ _ h _ hg)
      all_goals (try (split at h))
      all_goals (try (cases h; done))
      all_goals (try (rename_i hc2; rw [if_pos hc2]))
      all_goals (try exact ih _ _ _ h _ hg)

/-- the records of an element between ELFLAGS/PLEX and the properties -/
def elemMid : Elem → List Rec
  | .boundary layer dt xy _ => [⟨rLayer, int1 layer⟩, ⟨rDataType, int1 dt⟩, ⟨rXy, .ints xy⟩]
  | .path layer dt xy width pt be ee _ =>
    [⟨rLayer, int1 layer⟩, ⟨rDataType, int1 dt⟩]
      ++ optRec rPathType int1 pt ++ optRec rWidth int1 width ++ optRec rBeginExtn int1 be ++ optRec rEndExtn int1 ee
      ++ [⟨rXy, .ints xy⟩]
  | .sref name xy st _ => [⟨rStructRefName, .str name⟩] ++ optStrans st ++ [⟨rXy, .ints xy⟩]
  | .aref name xy cols rows st _ =>
    [⟨rStructRefName, .str name⟩] ++ optStrans st ++ [⟨rColRow, .ints [cols, rows]⟩, ⟨rXy, .ints xy⟩]
  | .text s layer tt xy pres pt width st _ =>
    [⟨rLayer, int1 layer⟩, ⟨rTextType, int1 tt⟩]
      ++ optRec rPresentation (fun (e : Nat × Nat) => .bits e.1 e.2) pres ++ optRec rPathType int1 pt ++ optRec rWidth int1 width
      ++ optStrans st ++ [⟨rXy, .ints xy⟩, ⟨rString, .str s⟩]
  | .node layer nt xy _ => [⟨rLayer, int1 layer⟩, ⟨rNodetype, int1 nt⟩, ⟨rXy, .ints xy⟩]
  | .box layer bt xy _ => [⟨rLayer, int1 layer⟩, ⟨rBoxType, int1 bt⟩, ⟨rXy, .ints xy⟩]

def elemCommon : Elem → Common
  | .boundary _ _ _ c | .path _ _ _ _ _ _ _ c | .sref _ _ _ c | .aref _ _ _ _ _ c
  | .text _ _ _ _ _ _ _ _ c | .node _ _ _ c | .box _ _ _ c => c

def headerRec : Elem → Rec
  | .boundary .. => ⟨rBoundary, .none⟩ | .path .. => ⟨rPath, .none⟩ | .sref .. => ⟨rStructRef, .none⟩
  | .aref .. => ⟨rArrayRef, .none⟩ | .text .. => ⟨rText, .none⟩ | .node .. => ⟨rNode, .none⟩ | .box .. => ⟨rBox, .none⟩

theorem elemRecs_eq (e : Elem) : elemRecs e =
    headerRec e :: (commonHead (elemCommon e) ++ (elemMid e ++ (propRecs (elemCommon e).props ++ [⟨rEndElement, .none⟩]))) := by
  cases e <;> simp [elemRecs, elemMid, headerRec, elemCommon, List.append_assoc]

/-- ELFLAGS and PLEX, when present, only fill their two builder fields -/
theorem parse_common (k : EK) (c : Common) (f : Nat) (rest : List Rec) :
    parseElem k (f + (commonHead c).length) {} (commonHead c ++ rest) =
      parseElem k f { elflags := c.elflags, plex := c.plex } rest := by
  obtain ⟨ef, pl, ps⟩ := c
  cases ef <;> cases pl <;>
    simp [commonHead, optRec, parseElem, rElemFlags, rPlex, int1]

/-! one-record steps of `parseElem` -/
def hasLayer (k : EK) : Bool := !(k == .sref || k == .aref)
def hasStrans (k : EK) : Bool := k == .sref || k == .aref || k == .text

theorem pe_layer (k : EK) (f : Nat) (b : B) (v : Int) (r : List Rec) (h : hasLayer k = true) :
    parseElem k (f + 1) b (⟨rLayer, int1 v⟩ :: r) = parseElem k f { b with layer := some v } r := by
  simp only [hasLayer] at h
  simp [parseElem, rLayer, int1, h]
theorem pe_xy (k : EK) (f : Nat) (b : B) (l : List Int) (r : List Rec) (h : xyOk k l = true) :
    parseElem k (f + 1) b (⟨rXy, .ints l⟩ :: r) = parseElem k f { b with xy := some l } r := by
  simp [parseElem, rXy, h]
theorem pe_xtype (k : EK) (f : Nat) (b : B) (v : Int) (r : List Rec) (rt : Nat) (h : rt = xtypeRec k)
    (hk : k = .boundary ∨ k = .path ∨ k = .text ∨ k = .node ∨ k = .box) :
    parseElem k (f + 1) b (⟨rt, int1 v⟩ :: r) = parseElem k f { b with xtype := some v } r := by
  subst h
  rcases hk with rfl | rfl | rfl | rfl | rfl <;> simp [parseElem, xtypeRec, int1]
theorem pe_name (k : EK) (f : Nat) (b : B) (n : Bytes) (r : List Rec) (h : (k == .sref || k == .aref) = true) :
    parseElem k (f + 1) b (⟨rStructRefName, .str n⟩ :: r) = parseElem k f { b with name := some n } r := by
  simp [parseElem, rStructRefName, h]
theorem pe_colrow (f : Nat) (b : B) (c w : Int) (r : List Rec) :
    parseElem .aref (f + 1) b (⟨rColRow, .ints [c, w]⟩ :: r) = parseElem .aref f { b with cols := some c, rows := some w } r := by
  simp [parseElem, rColRow]
theorem pe_string (f : Nat) (b : B) (s : Bytes) (r : List Rec) :
    parseElem .text (f + 1) b (⟨rString, .str s⟩ :: r) = parseElem .text f { b with string := some s } r := by
  simp [parseElem, rString]

theorem pe_opt_width (k : EK) (f : Nat) (b : B) (o : Option Int) (r : List Rec) (hk : (k == .path || k == .text) = true)
    (hb : b.width = none) :
    parseElem k (f + (optRec rWidth int1 o).length) b (optRec rWidth int1 o ++ r) = parseElem k f { b with width := o } r := by
  cases o with
  | none => cases b; simp only [optRec, List.length_nil, Nat.add_zero, List.nil_append]; simp at hb; subst hb; rfl
  | some v => simp [optRec, parseElem, rWidth, int1, hk]
theorem pe_opt_pathtype (k : EK) (f : Nat) (b : B) (o : Option Int) (r : List Rec) (hk : (k == .path || k == .text) = true)
    (hb : b.pathType = none) :
    parseElem k (f + (optRec rPathType int1 o).length) b (optRec rPathType int1 o ++ r) = parseElem k f { b with pathType := o } r := by
  cases o with
  | none => cases b; simp only [optRec, List.length_nil, Nat.add_zero, List.nil_append]; simp at hb; subst hb; rfl
  | some v => simp [optRec, parseElem, rPathType, int1, hk]
theorem pe_opt_bgn (f : Nat) (b : B) (o : Option Int) (r : List Rec) (hb : b.beginExtn = none) :
    parseElem .path (f + (optRec rBeginExtn int1 o).length) b (optRec rBeginExtn int1 o ++ r) = parseElem .path f { b with beginExtn := o } r := by
  cases o with
  | none => cases b; simp only [optRec, List.length_nil, Nat.add_zero, List.nil_append]; simp at hb; subst hb; rfl
  | some v => simp [optRec, parseElem, rBeginExtn, int1]
theorem pe_opt_end (f : Nat) (b : B) (o : Option Int) (r : List Rec) (hb : b.endExtn = none) :
    parseElem .path (f + (optRec rEndExtn int1 o).length) b (optRec rEndExtn int1 o ++ r) = parseElem .path f { b with endExtn := o } r := by
  cases o with
  | none => cases b; simp only [optRec, List.length_nil, Nat.add_zero, List.nil_append]; simp at hb; subst hb; rfl
  | some v => simp [optRec, parseElem, rEndExtn, int1]
theorem pe_opt_pres (f : Nat) (b : B) (o : Option (Nat × Nat)) (r : List Rec) (hb : b.presentation = none) :
    parseElem .text (f + (optRec rPresentation (fun (e : Nat × Nat) => Payload.bits e.1 e.2) o).length) b
      (optRec rPresentation (fun (e : Nat × Nat) => Payload.bits e.1 e.2) o ++ r) = parseElem .text f { b with presentation := o } r := by
  cases o with
  | none => cases b; simp only [optRec, List.length_nil, Nat.add_zero, List.nil_append]; simp at hb; subst hb; rfl
  | some v => obtain ⟨a, c⟩ := v; simp [optRec, parseElem, rPresentation]

/-- STRANS with its optional MAG / ANGLE, followed by a record that is neither -/
theorem pe_opt_strans (k : EK) (f : Nat) (b : B) (o : Option Strans) (nx : Rec) (r : List Rec) (hk : hasStrans k = true)
    (hb : b.strans = none) (hnx : nx.rt ≠ 27 ∧ nx.rt ≠ 28) :
    parseElem k (f + (if o.isSome then 1 else 0)) b (optStrans o ++ nx :: r) = parseElem k f { b with strans := o } (nx :: r) := by
  have tail : ∀ s : Strans, parseStransTail s (nx :: r) = (s, nx :: r) := by
    intro s
    obtain ⟨rt, pl⟩ := nx
    simp only at hnx
    unfold parseStransTail
    split
    · rename_i h1; simp only [List.cons.injEq, Rec.mk.injEq] at h1; exact absurd h1.1.1 hnx.1
    · rename_i h1; simp only [List.cons.injEq, Rec.mk.injEq] at h1; exact absurd h1.1.1 hnx.2
    · rfl
  simp only [hasStrans] at hk
  cases o with
  | none => cases b; simp only [optStrans, Option.isSome_none, Bool.false_eq_true, if_false, Nat.add_zero, List.nil_append]; simp at hb; subst hb; rfl
  | some s =>
    obtain ⟨rf, am, aa, mag, angle⟩ := s
    simp only [Option.isSome_some, if_true, optStrans, stransRecs]
    cases mag <;> cases angle <;>
      simp only [optRec, List.append_nil, List.nil_append, List.cons_append, parseElem, rStrans, rMag, rAngle, hk, if_true,
        parseStransTail, tail, mkStrans_flags, List.length_cons] <;>
      simp <;> omega


/-- number of parse steps of the middle part (STRANS with MAG/ANGLE is one step) -/
def midSteps : Elem → Nat
  | .boundary .. | .node .. | .box .. => 3
  | .path _ _ _ width pt be ee _ =>
    2 + (optRec rPathType int1 pt).length + (optRec rWidth int1 width).length + (optRec rBeginExtn int1 be).length
      + (optRec rEndExtn int1 ee).length + 1
  | .sref _ _ st _ => 1 + (if st.isSome then 1 else 0) + 1
  | .aref _ _ _ _ st _ => 1 + (if st.isSome then 1 else 0) + 2
  | .text _ _ _ _ pres pt width st _ =>
    2 + (optRec rPresentation (fun (e : Nat × Nat) => Payload.bits e.1 e.2) pres).length + (optRec rPathType int1 pt).length
      + (optRec rWidth int1 width).length + (if st.isSome then 1 else 0) + 2

theorem parse_mid_boundary (layer dt : Int) (xy : List Int) (ef : Option (Nat × Nat)) (pl : Option Int) (ps : List Property)
    (rest : List Rec) (h : xyOk .boundary xy = true) (g : Nat) (hg : ps.length + 1 ≤ g) :
    parseElem .boundary (g + 3) { elflags := ef, plex := pl }
      (⟨rLayer, int1 layer⟩ :: ⟨rDataType, int1 dt⟩ :: ⟨rXy, .ints xy⟩ :: (propRecs ps ++ ⟨17, .none⟩ :: rest)) =
      .ok (.boundary layer dt xy ⟨ef, pl, ps⟩, rest) := by
  rw [show g + 3 = (g + 2) + 1 from rfl, pe_layer _ _ _ _ _ rfl]
  dsimp only
  rw [show g + 2 = (g + 1) + 1 from rfl, pe_xtype _ _ _ _ _ rDataType rfl (by simp)]
  dsimp only
  rw [pe_xy _ _ _ _ _ h]
  dsimp only
  rw [parseElem_props _ _ _ _ _ hg]
  simp [build]

theorem parse_mid_node (layer dt : Int) (xy : List Int) (ef : Option (Nat × Nat)) (pl : Option Int) (ps : List Property)
    (rest : List Rec) (h : xyOk .node xy = true) (g : Nat) (hg : ps.length + 1 ≤ g) :
    parseElem .node (g + 3) { elflags := ef, plex := pl }
      (⟨rLayer, int1 layer⟩ :: ⟨rNodetype, int1 dt⟩ :: ⟨rXy, .ints xy⟩ :: (propRecs ps ++ ⟨17, .none⟩ :: rest)) =
      .ok (.node layer dt xy ⟨ef, pl, ps⟩, rest) := by
  rw [show g + 3 = (g + 2) + 1 from rfl, pe_layer _ _ _ _ _ rfl]
  dsimp only
  rw [show g + 2 = (g + 1) + 1 from rfl, pe_xtype _ _ _ _ _ rNodetype rfl (by simp)]
  dsimp only
  rw [pe_xy _ _ _ _ _ h]
  dsimp only
  rw [parseElem_props _ _ _ _ _ hg]
  simp [build]

theorem parse_mid_box (layer dt : Int) (xy : List Int) (ef : Option (Nat × Nat)) (pl : Option Int) (ps : List Property)
    (rest : List Rec) (h : xyOk .box xy = true) (g : Nat) (hg : ps.length + 1 ≤ g) :
    parseElem .box (g + 3) { elflags := ef, plex := pl }
      (⟨rLayer, int1 layer⟩ :: ⟨rBoxType, int1 dt⟩ :: ⟨rXy, .ints xy⟩ :: (propRecs ps ++ ⟨17, .none⟩ :: rest)) =
      .ok (.box layer dt xy ⟨ef, pl, ps⟩, rest) := by
  rw [show g + 3 = (g + 2) + 1 from rfl, pe_layer _ _ _ _ _ rfl]
  dsimp only
  rw [show g + 2 = (g + 1) + 1 from rfl, pe_xtype _ _ _ _ _ rBoxType rfl (by simp)]
  dsimp only
  rw [pe_xy _ _ _ _ _ h]
  dsimp only
  rw [parseElem_props _ _ _ _ _ hg]
  simp [build]

theorem parse_mid_path (layer dt : Int) (xy : List Int) (width pt be ee : Option Int) (ef : Option (Nat × Nat)) (pl : Option Int)
    (ps : List Property) (rest : List Rec) (h : xyOk .path xy = true) (g : Nat) (hg : ps.length + 1 ≤ g) :
    parseElem .path (((((((g + 1) + (optRec rEndExtn int1 ee).length) + (optRec rBeginExtn int1 be).length) + (optRec rWidth int1 width).length)
          + (optRec rPathType int1 pt).length) + 1) + 1) { elflags := ef, plex := pl }
      (⟨rLayer, int1 layer⟩ :: ⟨rDataType, int1 dt⟩ :: (optRec rPathType int1 pt ++ (optRec rWidth int1 width ++ (optRec rBeginExtn int1 be ++
        (optRec rEndExtn int1 ee ++ ⟨rXy, .ints xy⟩ :: (propRecs ps ++ ⟨17, .none⟩ :: rest)))))) =
      .ok (.path layer dt xy width pt be ee ⟨ef, pl, ps⟩, rest) := by
  rw [pe_layer _ _ _ _ _ rfl]
  dsimp only
  rw [pe_xtype _ _ _ _ _ rDataType rfl (by simp)]
  dsimp only
  rw [pe_opt_pathtype _ _ _ _ _ rfl rfl]
  dsimp only
  rw [pe_opt_width _ _ _ _ _ rfl rfl]
  dsimp only
  rw [pe_opt_bgn _ _ _ _ rfl]
  dsimp only
  rw [pe_opt_end _ _ _ _ rfl]
  dsimp only
  rw [pe_xy _ _ _ _ _ h]
  dsimp only
  rw [parseElem_props _ _ _ _ _ hg]
  simp [build]

theorem parse_mid_sref (name : Bytes) (xy : List Int) (st : Option Strans) (ef : Option (Nat × Nat)) (pl : Option Int)
    (ps : List Property) (rest : List Rec) (h : xyOk .sref xy = true) (g : Nat) (hg : ps.length + 1 ≤ g) :
    parseElem .sref (((g + 1) + (if st.isSome then 1 else 0)) + 1) { elflags := ef, plex := pl }
      (⟨rStructRefName, .str name⟩ :: (optStrans st ++ ⟨rXy, .ints xy⟩ :: (propRecs ps ++ ⟨17, .none⟩ :: rest))) =
      .ok (.sref name xy st ⟨ef, pl, ps⟩, rest) := by
  rw [pe_name _ _ _ _ _ rfl]
  dsimp only
  rw [pe_opt_strans _ _ _ _ _ _ rfl rfl (by simp [rXy])]
  dsimp only
  rw [pe_xy _ _ _ _ _ h]
  dsimp only
  rw [parseElem_props _ _ _ _ _ hg]
  simp [build]

theorem parse_mid_aref (name : Bytes) (xy : List Int) (cols rows : Int) (st : Option Strans) (ef : Option (Nat × Nat)) (pl : Option Int)
    (ps : List Property) (rest : List Rec) (h : xyOk .aref xy = true) (g : Nat) (hg : ps.length + 1 ≤ g) :
    parseElem .aref ((((g + 1) + 1) + (if st.isSome then 1 else 0)) + 1) { elflags := ef, plex := pl }
      (⟨rStructRefName, .str name⟩ :: (optStrans st ++ ⟨rColRow, .ints [cols, rows]⟩ :: ⟨rXy, .ints xy⟩ :: (propRecs ps ++ ⟨17, .none⟩ :: rest))) =
      .ok (.aref name xy cols rows st ⟨ef, pl, ps⟩, rest) := by
  rw [pe_name _ _ _ _ _ rfl]
  dsimp only
  rw [pe_opt_strans _ _ _ _ _ _ rfl rfl (by simp [rColRow])]
  dsimp only
  rw [pe_colrow]
  dsimp only
  rw [pe_xy _ _ _ _ _ h]
  dsimp only
  rw [parseElem_props _ _ _ _ _ hg]
  simp [build]

theorem parse_mid_text (str : Bytes) (layer tt : Int) (xy : List Int) (pres : Option (Nat × Nat)) (pt width : Option Int)
    (st : Option Strans) (ef : Option (Nat × Nat)) (pl : Option Int)
    (ps : List Property) (rest : List Rec) (h : xyOk .text xy = true) (g : Nat) (hg : ps.length + 1 ≤ g) :
    parseElem .text ((((((((g + 1) + 1) + (if st.isSome then 1 else 0)) + (optRec rWidth int1 width).length) + (optRec rPathType int1 pt).length)
          + (optRec rPresentation (fun (e : Nat × Nat) => Payload.bits e.1 e.2) pres).length) + 1) + 1) { elflags := ef, plex := pl }
      (⟨rLayer, int1 layer⟩ :: ⟨rTextType, int1 tt⟩ :: (optRec rPresentation (fun (e : Nat × Nat) => Payload.bits e.1 e.2) pres ++
        (optRec rPathType int1 pt ++ (optRec rWidth int1 width ++ (optStrans st ++ ⟨rXy, .ints xy⟩ :: ⟨rString, .str str⟩ ::
          (propRecs ps ++ ⟨17, .none⟩ :: rest)))))) =
      .ok (.text str layer tt xy pres pt width st ⟨ef, pl, ps⟩, rest) := by
  rw [pe_layer _ _ _ _ _ rfl]
  dsimp only
  rw [pe_xtype _ _ _ _ _ rTextType rfl (by simp)]
  dsimp only
  rw [pe_opt_pres _ _ _ _ rfl]
  dsimp only
  rw [pe_opt_pathtype _ _ _ _ _ rfl rfl]
  dsimp only
  rw [pe_opt_width _ _ _ _ _ rfl rfl]
  dsimp only
  rw [pe_opt_strans _ _ _ _ _ _ rfl rfl (by simp [rXy])]
  dsimp only
  rw [pe_xy _ _ _ _ _ h]
  dsimp only
  rw [pe_string]
  dsimp only
  rw [parseElem_props _ _ _ _ _ hg]
  simp [build]

/-- the records of an element after its header record -/
def tailRecs (e : Elem) : List Rec :=
  commonHead (elemCommon e) ++ (elemMid e ++ (propRecs (elemCommon e).props ++ [⟨17, .none⟩]))

theorem elemRecs_cons (e : Elem) : elemRecs e = headerRec e :: tailRecs e := by
  rw [elemRecs_eq]; rfl

theorem midSteps_le (e : Elem) : midSteps e ≤ (elemMid e).length := by
  cases e <;> simp only [midSteps, elemMid, List.length_append, List.length_cons, List.length_nil] <;> try omega
  all_goals (rename_i st _; cases st <;> simp [optStrans, stransRecs] <;> omega)

/-- with exactly enough fuel, the records after the header parse back to the element -/
theorem parse_tail_exact (e : Elem) (rest : List Rec) (h : elemOk e = true) :
    parseElem (kindOf e) (((elemCommon e).props.length + 1 + midSteps e) + (commonHead (elemCommon e)).length) {}
      (tailRecs e ++ rest) = .ok (e, rest) := by
  unfold tailRecs
  rw [List.append_assoc, parse_common, List.append_assoc, List.append_assoc, List.singleton_append]
  cases e with
  | boundary layer dt xy c => obtain ⟨ef, pl, ps⟩ := c; exact parse_mid_boundary layer dt xy ef pl ps rest h _ (Nat.le_refl _)
  | node layer dt xy c => obtain ⟨ef, pl, ps⟩ := c; exact parse_mid_node layer dt xy ef pl ps rest h _ (Nat.le_refl _)
  | box layer dt xy c => obtain ⟨ef, pl, ps⟩ := c; exact parse_mid_box layer dt xy ef pl ps rest h _ (Nat.le_refl _)
  | path layer dt xy width pt be ee c =>
    obtain ⟨ef, pl, ps⟩ := c
    have := parse_mid_path layer dt xy width pt be ee ef pl ps rest h _ (Nat.le_refl (ps.length + 1))
    simp only [elemMid, elemCommon, kindOf, midSteps, List.cons_append, List.nil_append, List.append_assoc] at this ⊢
    rw [show ps.length + 1 + (2 + (optRec rPathType int1 pt).length + (optRec rWidth int1 width).length + (optRec rBeginExtn int1 be).length
        + (optRec rEndExtn int1 ee).length + 1) =
        ((((((ps.length + 1 + 1) + (optRec rEndExtn int1 ee).length) + (optRec rBeginExtn int1 be).length) + (optRec rWidth int1 width).length)
          + (optRec rPathType int1 pt).length) + 1) + 1 by omega]
    exact this
  | sref name xy st c =>
    obtain ⟨ef, pl, ps⟩ := c
    have := parse_mid_sref name xy st ef pl ps rest h _ (Nat.le_refl (ps.length + 1))
    simp only [elemMid, elemCommon, kindOf, midSteps, List.cons_append, List.nil_append, List.append_assoc] at this ⊢
    rw [show ps.length + 1 + (1 + (if st.isSome then 1 else 0) + 1) = ((ps.length + 1 + 1) + (if st.isSome then 1 else 0)) + 1 by omega]
    exact this
  | aref name xy cols rows st c =>
    obtain ⟨ef, pl, ps⟩ := c
    have := parse_mid_aref name xy cols rows st ef pl ps rest h _ (Nat.le_refl (ps.length + 1))
    simp only [elemMid, elemCommon, kindOf, midSteps, List.cons_append, List.nil_append, List.append_assoc] at this ⊢
    rw [show ps.length + 1 + (1 + (if st.isSome then 1 else 0) + 2) = (((ps.length + 1 + 1) + 1) + (if st.isSome then 1 else 0)) + 1 by omega]
    exact this
  | text str layer tt xy pres pt width st c =>
    obtain ⟨ef, pl, ps⟩ := c
    have := parse_mid_text str layer tt xy pres pt width st ef pl ps rest h _ (Nat.le_refl (ps.length + 1))
    simp only [elemMid, elemCommon, kindOf, midSteps, List.cons_append, List.nil_append, List.append_assoc] at this ⊢
    rw [show ps.length + 1 + (2 + (optRec rPresentation (fun (e : Nat × Nat) => Payload.bits e.1 e.2) pres).length + (optRec rPathType int1 pt).length
        + (optRec rWidth int1 width).length + (if st.isSome then 1 else 0) + 2) =
        (((((((ps.length + 1 + 1) + 1) + (if st.isSome then 1 else 0)) + (optRec rWidth int1 width).length) + (optRec rPathType int1 pt).length)
          + (optRec rPresentation (fun (e : Nat × Nat) => Payload.bits e.1 e.2) pres).length) + 1) + 1 by omega]
    exact this

/-- with the fuel the struct parser actually passes -/
theorem parse_tail (e : Elem) (rest : List Rec) (h : elemOk e = true) :
    parseElem (kindOf e) ((tailRecs e ++ rest).length + 1) {} (tailRecs e ++ rest) = .ok (e, rest) := by
  refine parseElem_mono _ _ _ _ _ (parse_tail_exact e rest h) _ ?_
  have := midSteps_le e
  simp only [tailRecs, List.length_append, List.length_cons, List.length_nil, propRecs_length]
  omega

theorem elemKind_header (e : Elem) : elemKind (headerRec e).rt = some (kindOf e) ∧
    ¬ ((headerRec e).rt = rEndStruct ∧ (headerRec e).pl = .none) := by
  cases e <;> simp [headerRec, elemKind, kindOf, rBoundary, rPath, rStructRef, rArrayRef, rText, rNode, rBox, rEndStruct]

/-- `parse_struct`'s element loop reads back every element the writer emitted, in order -/
theorem parseElems_all : ∀ (es : List Elem) (acc : List Elem) (rest : List Rec) (f : Nat), es.length + 1 ≤ f →
    (∀ e ∈ es, elemOk e = true) →
    parseElems f acc (es.flatMap elemRecs ++ ⟨rEndStruct, .none⟩ :: rest) = .ok (acc ++ es, rest) := by
  intro es
  induction es with
  | nil =>
    intro acc rest f hf _
    obtain ⟨g, rfl⟩ : ∃ g, f = g + 1 := ⟨f - 1, by simp at hf; omega⟩
    simp [parseElems, rEndStruct]
  | cons e r ih =>
    intro acc rest f hf hok
    obtain ⟨g, rfl⟩ : ∃ g, f = g + 1 := ⟨f - 1, by simp at hf; omega⟩
    have he := hok e (by simp)
    obtain ⟨hk, hne⟩ := elemKind_header e
    simp only [List.flatMap_cons, elemRecs_cons, List.cons_append, List.append_assoc]
    rw [parseElems]
    simp only [hne, if_false, hk]
    have pt := parse_tail e (r.flatMap elemRecs ++ ⟨rEndStruct, .none⟩ :: rest) he
    rw [pt]
    simp only [List.length_append, List.length_cons]
    rw [if_pos (by omega)]
    have := ih (acc ++ [e]) rest g (by simp at hf; omega) (fun x hx => hok x (by simp [hx]))
    simpa [List.append_assoc] using this

def structOk (s : Struct) : Bool := s.elems.all elemOk
def libOk (l : Library) : Bool := l.structs.all structOk

theorem flatMap_elemRecs_length (es : List Elem) : es.length ≤ (es.flatMap elemRecs).length := by
  induction es with
  | nil => simp
  | cons e r ih => simp only [List.flatMap_cons, List.length_append, List.length_cons, elemRecs_cons]; omega

theorem parseLibBody_structs (v : Int) (d : List Int) (t : List Rec) : ∀ (ss : List Struct) (lb : LB) (f : Nat),
    ss.length + 1 ≤ f → (∀ s ∈ ss, structOk s = true) →
    parseLibBody v d f lb (ss.flatMap structRecs ++ ⟨rEndLib, .none⟩ :: t) =
      (match lb.name, lb.units with
       | some n, some u => .ok ⟨n, v, d, u, lb.structs ++ ss⟩
       | _, _ => .err) := by
  intro ss
  induction ss with
  | nil =>
    intro lb f hf _
    obtain ⟨g, rfl⟩ : ∃ g, f = g + 1 := ⟨f - 1, by simp at hf; omega⟩
    simp [parseLibBody, rEndLib]
    rfl
  | cons s r ih =>
    intro lb f hf hok
    obtain ⟨g, rfl⟩ : ∃ g, f = g + 1 := ⟨f - 1, by simp at hf; omega⟩
    have hs := hok s (by simp)
    simp only [structOk, List.all_eq_true] at hs
    simp only [List.flatMap_cons, structRecs, List.cons_append, List.nil_append, List.append_assoc, rBgnStruct, rStructName]
    rw [parseLibBody]
    have pe := parseElems_all s.elems [] (r.flatMap structRecs ++ ⟨rEndLib, .none⟩ :: t)
      ((s.elems.flatMap elemRecs ++ ⟨rEndStruct, .none⟩ :: (r.flatMap structRecs ++ ⟨rEndLib, .none⟩ :: t)).length + 1)
      (by have := flatMap_elemRecs_length s.elems; simp only [List.length_append, List.length_cons]; omega) hs
    simp only [List.nil_append] at pe
    rw [pe]
    simp only [List.length_append, List.length_cons]
    rw [if_pos (by omega)]
    have := ih { lb with structs := lb.structs ++ [⟨s.name, s.dates, s.elems⟩] } g (by simp at hf; omega)
      (fun x hx => hok x (by simp [hx]))
    rw [this]
    cases s
    cases hn : lb.name <;> cases hu : lb.units <;> simp [List.append_assoc]

/-- TREE-LEVEL ROUND TRIP: the reader's record state machine applied to the records the writer
    emits returns the library — for every library whose elements have coordinate lists of the shape
    their kind demands. -/
theorem parseLib_libRecs (l : Library) (h : libOk l = true) : parseLib (libRecs l) = .ok l := by
  obtain ⟨name, version, dates, units, structs⟩ := l
  simp only [libOk, List.all_eq_true] at h
  have hlen : structs.length ≤ (structs.flatMap structRecs).length := by
    clear h
    induction structs with
    | nil => simp
    | cons s r ih => simp only [List.flatMap_cons, List.length_append, structRecs, List.length_cons]; omega
  simp only [libRecs, List.cons_append, List.nil_append, parseLib, rHeader, rBgnLib, int1, rLibName, rUnits]
  generalize hF : (⟨2, Payload.str name⟩ :: ⟨3, Payload.reals [units.1, units.2]⟩ ::
      (structs.flatMap structRecs ++ [⟨rEndLib, Payload.none⟩]) : List Rec).length + 1 = F
  simp only [List.length_cons, List.length_append, List.length_nil] at hF
  obtain ⟨g, rfl⟩ : ∃ g, F = (g + 1) + 1 := ⟨F - 2, by omega⟩
  rw [parseLibBody, parseLibBody]
  have := parseLibBody_structs version dates [] structs { name := some name, units := some units } g
    (by omega) (fun s hs => h s hs)
  simpa using this

end L21.Gds
