import L21.Spec.GdsFlatten
import L21.Model.RawFlat
import L21.Props.C06S
import L21.Props.C12
import L21.Props.C17
/-
C06 as ONE closed statement: flattening the imported raw library = flattening the GDSII data
under GDSII semantics (`Spec/GdsFlatten.lean`).

Steps.  (1) The eight right-angle orientations are the signed permutation matrices (`Ortho`), closed
under `cascade`; rectangle recognition commutes with them (`boundaryShape_map`).  (2) For one element,
what the importer stores is what the specification says the element draws (`contrib_shapes`) and
places (`contrib_refs`: the reference's transformation, the array's lattice).  (3) For one structure,
concatenation in element order (`struct_content`, on top of `c06_struct_pass1` and the label rule's
shape preservation).  (4) For the library, every structure has its cell, found under its name
(`importLib_cells`: the dependency order of C17 lists every structure; names are distinct).
(5) Induction over the hierarchy depth (`insts_sim`, `flatten_import`).
-/
namespace L21.RawGds
open L21.Geom L21.Gds L21.Aff L21.GdsFlat

/-! ### right-angle transformations -/

/-- the eight orientations: a signed permutation matrix -/
def Ortho (t : AffZ) : Prop :=
  ((t.a = 1 ∨ t.a = -1) ∧ t.b = 0 ∧ t.c = 0 ∧ (t.d = 1 ∨ t.d = -1)) ∨
  (t.a = 0 ∧ (t.b = 1 ∨ t.b = -1) ∧ (t.c = 1 ∨ t.c = -1) ∧ t.d = 0)

theorem ortho_id : Ortho AffZ.id := by simp [Ortho, AffZ.id]

theorem ortho_ofInstance (loc : Pt) (refl : Bool) (q : Nat) : Ortho (AffZ.ofInstance loc refl q) := by
  have h4 : q % 4 = 0 ∨ q % 4 = 1 ∨ q % 4 = 2 ∨ q % 4 = 3 := by omega
  unfold AffZ.ofInstance Ortho cosQ sinQ
  rcases h4 with h | h | h | h <;> cases refl <;> simp [h]

theorem ortho_cascade (p c : AffZ) (hp : Ortho p) (hc : Ortho c) : Ortho (p.cascade c) := by
  unfold Ortho at *
  unfold AffZ.cascade
  rcases hp with ⟨ha | ha, hb, hcc, hd | hd⟩ | ⟨ha, hb | hb, hcc | hcc, hd⟩ <;>
    rcases hc with ⟨ha' | ha', hb', hc', hd' | hd'⟩ | ⟨ha', hb' | hb', hc' | hc', hd'⟩ <;>
    simp [ha, hb, hcc, hd, ha', hb', hc', hd']

/-- rectangle recognition commutes with a right-angle transformation -/
theorem boundaryShape_map (t : AffZ) (ht : Ortho t) (pts : List Pt) :
    boundaryShape (pts.map t.apply) = (boundaryShape pts).transform t := by
  match pts with
  | [] => simp [boundaryShape, Shape.transform]
  | [_] => simp [boundaryShape, Shape.transform]
  | [_, _] => simp [boundaryShape, Shape.transform]
  | [_, _, _] => simp [boundaryShape, Shape.transform]
  | _ :: _ :: _ :: _ :: _ :: _ => simp [boundaryShape, Shape.transform]
  | [a, b, c, d] =>
    simp only [List.map, boundaryShape, AffZ.apply]
    unfold Ortho at ht
    rcases ht with ⟨ha | ha, hb, hc, hd | hd⟩ | ⟨ha, hb | hb, hc | hc, hd⟩ <;> simp only [ha, hb, hc, hd] <;>
      (split <;> split <;> simp_all [Shape.transform, AffZ.apply] <;> omega)


/-! ### one element: what the importer stores is what the specification says it draws / places -/

theorem pairUp_eq_points : ∀ (l : List Int), pairUp l = points l
  | [] => rfl
  | [_] => rfl
  | x :: y :: rest => by simp [pairUp, points, pairUp_eq_points rest]

theorem allSomeL_eq {α : Type} : ∀ (l : List (Option α)), allSomeL l = allSome l
  | [] => rfl
  | none :: _ => rfl
  | some a :: rest => by simp [allSomeL, allSome, allSomeL_eq rest]

/-- how a flattened specification shape is presented in the raw model -/
def classify : FShape → Int × Int × Shape
  | .poly l d pts => (l, d, boundaryShape pts)
  | .path l d pts w => (l, d, .path pts w)

def triple (t : AffZ) (e : Elem) : Int × Int × Shape := (e.layer, e.purpose, e.shape.transform t)

theorem angleQ_eq (a : Option Nat) : angleQ? a = quarter? a := by
  cases a <;> rfl

/-- shapes: the element's stored shapes, transformed, are the classified specification shapes -/
theorem contrib_shapes (known : List Bytes) (e : Gds.Elem) (c : Pass1) (t : AffZ) (ht : Ortho t) (fs : List FShape)
    (hc : contrib known e = .ok c) (hs : ownShapes t e = some fs) : c.elems.map (triple t) = fs.map classify := by
  unfold contrib at hc
  cases e with
  | boundary layer dt xy cm =>
    simp only [importElem, ownShapes, pairUp_eq_points] at hc hs
    split at hc
    · rename_i p0 rest pl h1 h2
      rw [h2] at hs
      rw [h1] at hs hc
      simp only at hs
      split at hc
      · simp at hc
      · rename_i hne
        simp only [Gds.Out.ok.injEq] at hc; subst hc
        simp only [not_not] at hne
        simp only [hne, if_true, Option.some.injEq] at hs; subst hs
        simp only [triple, classify, List.map, List.nil_append]
        subst hne
        rw [boundaryShape_map t ht]
    · simp at hc
  | box layer bt xy cm =>
    simp only [importElem, ownShapes, pairUp_eq_points] at hc hs
    split at hc
    · rename_i a b c' d e' h1
      rw [h1] at hs
      simp only at hs
      split at hs
      · rename_i hr
        simp only [Gds.Out.ok.injEq] at hc; subst hc
        simp only [Option.some.injEq] at hs; subst hs
        have := boundaryShape_map t ht [a, b, c', d]
        simp only [List.map] at this
        simp only [triple, classify, List.map, this]
        simp only [isRectCycle, Bool.or_eq_true, Bool.and_eq_true, decide_eq_true_eq] at hr
        have hcond : (a.x = b.x ∧ b.y = c'.y ∧ c'.x = d.x ∧ d.y = a.y) ∨ (a.y = b.y ∧ b.x = c'.x ∧ c'.y = d.y ∧ d.x = a.x) := by
          rcases hr with ⟨⟨⟨g1, g2⟩, g3⟩, g4⟩ | ⟨⟨⟨g1, g2⟩, g3⟩, g4⟩
          · exact Or.inl ⟨g1, g2, g3, g4⟩
          · exact Or.inr ⟨g1, g2, g3, g4⟩
        simp [triple, boundaryShape, hcond, Shape.transform]
      · simp at hs
    · simp at hc
  | path layer dt xy width pt be ee cm =>
    cases width with
    | none => simp [importElem] at hc
    | some w =>
      simp only [importElem, ownShapes, pairUp_eq_points] at hc hs
      split at hc
      · simp at hc
      · rename_i hw
        simp only [Gds.Out.ok.injEq] at hc; subst hc
        have : 0 ≤ w := by omega
        simp only [this, if_true, Option.some.injEq] at hs; subst hs
        simp [triple, classify, Shape.transform]
  | sref name xy st cm =>
    simp only [ownShapes, Option.some.injEq] at hs; subst hs
    simp only [importElem] at hc
    split at hc
    · simp at hc
    · split at hc <;> simp at hc
      subst hc; simp
  | aref name xy cols rows st cm =>
    simp only [ownShapes, Option.some.injEq] at hs; subst hs
    simp only [importElem] at hc
    split at hc
    · simp at hc
    · split at hc
      · split at hc
        · simp at hc
        · split at hc
          · simp at hc
          · split at hc <;> simp at hc
            subst hc; simp
      · simp at hc
  | text str layer tt xy pres ptt w st cm =>
    simp only [ownShapes, Option.some.injEq] at hs; subst hs
    simp only [importElem] at hc
    split at hc <;> simp at hc
    subst hc; simp
  | node layer nt xy cm =>
    simp only [ownShapes, Option.some.injEq] at hs; subst hs
    simp only [importElem, Gds.Out.ok.injEq] at hc
    subst hc; simp

/-- the placement an imported instance stands for -/
def instPlace (i : Inst) : Option (Bytes × AffZ) := (angleQ? i.angle).map (fun q => (i.cell, AffZ.ofInstance i.loc i.refl q))

theorem importStrans_placement (st : Option Strans) (array refl : Bool) (ang : Option Nat) (loc : Pt)
    (h : importStrans st array = .ok (refl, ang)) :
    placement loc st = (quarter? ang).map (AffZ.ofInstance loc refl) := by
  cases st with
  | none => simp only [importStrans, Gds.Out.ok.injEq, Prod.mk.injEq] at h; obtain ⟨rfl, rfl⟩ := h; rfl
  | some s =>
    simp only [importStrans] at h
    split at h
    · simp at h
    · rename_i h1
      split at h
      · simp at h
      · split at h
        · simp at h
        · rename_i h3
          simp only [Gds.Out.ok.injEq, Prod.mk.injEq] at h; obtain ⟨rfl, rfl⟩ := h
          simp only [placement]
          have : (s.absMag || s.absAngle || (s.mag.isSome && s.mag != some 0x3ff0000000000000)) = false := by
            simp only [Bool.not_eq_true] at h1 h3
            simp only [Bool.or_eq_false_iff] at h1
            simp [h1.1, h1.2, h3]
          simp [this]

theorem contrib_refs (known : List Bytes) (e : Gds.Elem) (c : Pass1) (rs : List (Bytes × AffZ))
    (hc : contrib known e = .ok c) (hr : ownRefs e = some rs) : allSome (c.insts.map instPlace) = some rs := by
  unfold contrib at hc
  cases e with
  | sref name xy st cm =>
    simp only [importElem, ownRefs, pairUp_eq_points] at hc hr
    split at hc
    · simp at hc
    · split at hc
      · rename_i loc refl ang h1 h2
        rw [h1] at hr
        simp only at hr
        simp only [Gds.Out.ok.injEq] at hc; subst hc
        rw [importStrans_placement st false refl ang loc h2] at hr
        simp only [List.nil_append, List.map, instPlace, angleQ_eq]
        cases hq : quarter? ang with
        | none => simp [hq] at hr
        | some q => simp [hq] at hr; subst hr; simp [allSome]
      · simp at hc
  | aref name xy cols rows st cm =>
    simp only [importElem, ownRefs, pairUp_eq_points] at hc hr
    split at hc
    · simp at hc
    · split at hc
      · rename_i p0 p1 p2 h1
        rw [h1] at hr
        simp only at hr
        split at hc
        · simp at hc
        · rename_i hcr
          split at hc
          · simp at hc
          · rename_i hmod
            split at hc
            · rename_i refl ang h2
              simp only [Gds.Out.ok.injEq] at hc; subst hc
              simp only [hcr, if_false, hmod] at hr
              rw [← hr]
              congr 1
              simp only [List.nil_append, arrayInsts, lattice, List.map_flatMap, List.map_map]
              congr 1
              funext i
              congr 1
              funext j
              simp only [Function.comp, instPlace, angleQ_eq, importStrans_placement st true refl ang _ h2]
              cases quarter? ang <;> rfl
            · simp at hc
      · simp at hc
  | boundary layer dt xy cm =>
    simp only [ownRefs, Option.some.injEq] at hr; subst hr
    simp only [importElem] at hc
    split at hc
    · split at hc <;> simp at hc
      subst hc; simp [allSome]
    · simp at hc
  | box layer bt xy cm =>
    simp only [ownRefs, Option.some.injEq] at hr; subst hr
    simp only [importElem] at hc
    split at hc <;> simp at hc
    subst hc; simp [allSome]
  | path layer dt xy width pt be ee cm =>
    simp only [ownRefs, Option.some.injEq] at hr; subst hr
    simp only [importElem] at hc
    split at hc
    · simp at hc
    · split at hc <;> simp at hc
      subst hc; simp [allSome]
  | text str layer tt xy pres ptt w st cm =>
    simp only [ownRefs, Option.some.injEq] at hr; subst hr
    simp only [importElem] at hc
    split at hc <;> simp at hc
    subst hc; simp [allSome]
  | node layer nt xy cm =>
    simp only [ownRefs, Option.some.injEq] at hr; subst hr
    simp only [importElem, Gds.Out.ok.injEq] at hc
    subst hc; simp [allSome]

/-! ### one structure -/

theorem triple_of_base (t : AffZ) (l1 l2 : List Elem)
    (h : l1.map (fun e => (e.layer, e.purpose, e.shape)) = l2.map (fun e => (e.layer, e.purpose, e.shape))) :
    l1.map (triple t) = l2.map (triple t) := by
  have : ∀ l : List Elem, l.map (triple t) = (l.map (fun e => (e.layer, e.purpose, e.shape))).map (fun x => (x.1, x.2.1, x.2.2.transform t)) := by
    intro l; simp [List.map_map, triple, Function.comp]
  rw [this l1, this l2, h]

theorem foldl_applyText_keeps (texts : List (Bytes × Int × Pt)) : ∀ (elems : List Elem) (annots : List (Bytes × Pt)),
    (texts.foldl (fun acc tx => applyText acc.1 acc.2 tx) (elems, annots)).1.map (fun e => (e.layer, e.purpose, e.shape)) =
      elems.map (fun e => (e.layer, e.purpose, e.shape)) := by
  induction texts with
  | nil => intro elems annots; rfl
  | cons tx rest ih =>
    intro elems annots
    simp only [List.foldl]
    have h1 := c06_label_keeps_shapes elems annots tx
    have h2 := ih (applyText elems annots tx).1 (applyText elems annots tx).2
    rw [← h1, ← h2]

theorem allSome_map_ok {α β : Type} (f : α → Option β) : ∀ (l : List α) (r : List β), allSome (l.map f) = some r →
    l.map f = r.map some := by
  intro l
  induction l with
  | nil => intro r h; simp [allSome] at h; subst h; rfl
  | cons a l ih =>
    intro r h
    simp only [List.map_cons] at h ⊢
    cases ha : f a with
    | none => simp [ha, allSome] at h
    | some b =>
      simp only [ha, allSome] at h
      cases hl : allSome (l.map f) with
      | none => simp [hl] at h
      | some r' => simp [hl] at h; subst h; simp [ih r' hl]

theorem allSome_append {α : Type} : ∀ (l1 l2 : List (Option α)) (r1 r2 : List α), allSome l1 = some r1 → allSome l2 = some r2 →
    allSome (l1 ++ l2) = some (r1 ++ r2) := by
  intro l1
  induction l1 with
  | nil => intro l2 r1 r2 h1 h2; simp [allSome] at h1; subst h1; simpa using h2
  | cons a l1 ih =>
    intro l2 r1 r2 h1 h2
    cases a with
    | none => simp [allSome] at h1
    | some a =>
      simp only [allSome] at h1
      cases hl : allSome l1 with
      | none => simp [hl] at h1
      | some r' => simp [hl] at h1; subst h1; simp [allSome, ih l2 r' r2 hl h2]

theorem shapes_list (known : List Bytes) (t : AffZ) (ht : Ortho t) : ∀ (es : List Gds.Elem) (cs : List Pass1) (own : List (List FShape)),
    es.map (contrib known) = cs.map Gds.Out.ok → es.map (ownShapes t) = own.map some →
    (cs.flatMap (·.elems)).map (triple t) = own.flatten.map classify := by
  intro es
  induction es with
  | nil =>
    intro cs own hcs ho
    cases cs with
    | nil => cases own with
      | nil => rfl
      | cons _ _ => simp at ho
    | cons _ _ => simp at hcs
  | cons e es ih =>
    intro cs own hcs ho
    cases cs with
    | nil => simp at hcs
    | cons c cs =>
      cases own with
      | nil => simp at ho
      | cons o own =>
        simp only [List.map_cons, List.cons.injEq] at hcs ho
        simp only [List.flatMap_cons, List.flatten_cons, List.map_append]
        rw [contrib_shapes known e c t ht o hcs.1 ho.1, ih cs own hcs.2 ho.2]

theorem refs_list (known : List Bytes) : ∀ (es : List Gds.Elem) (cs : List Pass1) (refs : List (List (Bytes × AffZ))),
    es.map (contrib known) = cs.map Gds.Out.ok → es.map ownRefs = refs.map some →
    allSome ((cs.flatMap (·.insts)).map instPlace) = some refs.flatten := by
  intro es
  induction es with
  | nil =>
    intro cs refs hcs hr
    cases cs with
    | nil => cases refs with
      | nil => rfl
      | cons _ _ => simp at hr
    | cons _ _ => simp at hcs
  | cons e es ih =>
    intro cs refs hcs hr
    cases cs with
    | nil => simp at hcs
    | cons c cs =>
      cases refs with
      | nil => simp at hr
      | cons r refs =>
        simp only [List.map_cons, List.cons.injEq] at hcs hr
        simp only [List.flatMap_cons, List.flatten_cons, List.map_append]
        exact allSome_append _ _ _ _ (contrib_refs known e c r hcs.1 hr.1) (ih cs refs hcs.2 hr.2)

/-- the cell imported from a structure holds, shape for shape and placement for placement, what the
    specification says the structure draws and places -/
theorem struct_content (known : List Bytes) (s : Gds.Struct) (cell : Cell) (t : AffZ) (ht : Ortho t)
    (own : List (List FShape)) (refs : List (List (Bytes × AffZ)))
    (hi : importStruct known s = .ok cell)
    (ho : allSome (s.elems.map (ownShapes t)) = some own) (hr : allSome (s.elems.map ownRefs) = some refs) :
    cell.name = s.name ∧ cell.elems.map (triple t) = own.flatten.map classify ∧
      allSome (cell.insts.map instPlace) = some refs.flatten := by
  unfold importStruct at hi
  cases hp : importElemsP1 known {} s.elems with
  | err => simp [hp] at hi
  | ok p1 =>
    simp only [hp, Gds.Out.ok.injEq] at hi
    subst hi
    obtain ⟨cs, hcs, h1, h2, _⟩ := c06_struct_pass1 known s.elems {} p1 hp
    refine ⟨rfl, ?_, ?_⟩
    · have hk := foldl_applyText_keeps p1.texts p1.elems []
      rw [triple_of_base t _ _ hk, h2]
      simp only [List.nil_append]
      exact shapes_list known t ht s.elems cs own hcs (allSome_map_ok _ _ _ ho)
    · rw [h1]
      simp only [List.nil_append]
      exact refs_list known s.elems cs refs hcs (allSome_map_ok _ _ _ hr)

/-! ### the library: every structure has its cell -/

theorem importStruct_name (known : List Bytes) (s : Gds.Struct) (c : Cell) (h : importStruct known s = .ok c) : c.name = s.name := by
  unfold importStruct at h
  cases hp : importElemsP1 known {} s.elems with
  | err => simp [hp] at h
  | ok p1 => simp only [hp, Gds.Out.ok.injEq] at h; subst h; rfl

/-- in a list of structures with distinct names, none of them known yet, every structure is imported
    (with SOME list of known names — only used to reject dangling references) and found under its name -/
theorem importStructs_find : ∀ (ss : List Gds.Struct) (known : List Bytes) (cs : List Cell),
    (ss.map (·.name)).Nodup → (∀ s ∈ ss, s.name ∉ known) → importStructs known ss = .ok cs →
    (∀ c ∈ cs, ∃ s ∈ ss, c.name = s.name) ∧
    ∀ s ∈ ss, ∃ k cell, cs.find? (fun c => c.name == s.name) = some cell ∧ importStruct k s = .ok cell := by
  intro ss
  induction ss with
  | nil => intro known cs _ _ h; simp [importStructs] at h; subst h; simp
  | cons s0 rest ih =>
    intro known cs hn hk h
    simp only [List.map_cons, List.nodup_cons] at hn
    have h0 : known.contains s0.name = false := by
      have := hk s0 (List.mem_cons_self ..)
      simpa using this
    simp only [importStructs, h0] at h
    cases hs : importStruct known s0 with
    | err => simp [hs] at h
    | ok c0 =>
      simp only [hs] at h
      cases hr : importStructs (s0.name :: known) rest with
      | err => simp [hr] at h
      | ok more =>
        simp only [hr, Bool.false_eq_true, if_false, Gds.Out.ok.injEq] at h; subst h
        have hk' : ∀ s ∈ rest, s.name ∉ (s0.name :: known) := by
          intro s hs' hmem
          rcases List.mem_cons.1 hmem with e | e
          · exact hn.1 (by rw [← e]; exact List.mem_map_of_mem (f := (·.name)) hs')
          · exact hk s (List.mem_cons_of_mem _ hs') e
        obtain ⟨ih1, ih2⟩ := ih (s0.name :: known) more hn.2 hk' hr
        have hc0 := importStruct_name known s0 c0 hs
        refine ⟨?_, ?_⟩
        · intro c hc
          rcases List.mem_cons.1 hc with rfl | hc
          · exact ⟨s0, List.mem_cons_self .., hc0⟩
          · obtain ⟨s, hs', e⟩ := ih1 c hc; exact ⟨s, List.mem_cons_of_mem _ hs', e⟩
        · intro s hs'
          rcases List.mem_cons.1 hs' with rfl | hs'
          · exact ⟨known, c0, by simp [List.find?, hc0], hs⟩
          · obtain ⟨k, cell, hf, hi⟩ := ih2 s hs'
            refine ⟨k, cell, ?_, hi⟩
            have hne : (c0.name == s.name) = false := by
              rw [hc0]
              have : s0.name ≠ s.name := fun e => hn.1 (by rw [e]; exact List.mem_map_of_mem (f := (·.name)) hs')
              simpa using this
            simp [List.find?, hne, hf]

theorem names_nodup_of_indices (l : List Gds.Struct) (hn : (l.map (·.name)).Nodup) : ∀ (order : List Nat), order.Nodup →
    ((order.filterMap (fun i => l[i]?)).map (·.name)).Nodup := by
  intro order
  induction order with
  | nil => intro _; simp
  | cons x rest ih =>
    intro hno
    simp only [List.nodup_cons] at hno
    cases hx : l[x]? with
    | none => simp only [List.filterMap_cons, hx]; exact ih hno.2
    | some s =>
      simp only [List.filterMap_cons, hx, List.map_cons, List.nodup_cons]
      refine ⟨?_, ih hno.2⟩
      intro hmem
      obtain ⟨s', hs', e⟩ := List.mem_map.1 hmem
      obtain ⟨y, hy, hly⟩ := List.mem_filterMap.1 hs'
      have hxlt : x < l.length := by
        rcases Nat.lt_or_ge x l.length with h | h
        · exact h
        · rw [List.getElem?_eq_none h] at hx; simp at hx
      have h1 : (l.map (·.name))[x]? = some s.name := by simp [hx]
      have h2 : (l.map (·.name))[y]? = some s'.name := by simp [hly]
      have : x = y := (List.getElem?_inj (by simpa using hxlt) hn).1 (by rw [h1, h2, e])
      subst this
      exact hno.1 hy

/-- after a successful import every structure of the GDSII library has its cell in the raw library,
    found under the structure's name -/
theorem importLib_cells (g : Gds.Library) (lib : Lib) (hn : (g.structs.map (·.name)).Nodup) (h : importLib g = .ok lib) :
    ∀ s ∈ g.structs, ∃ k cell, lib.cells.find? (fun c => c.name == s.name) = some cell ∧ importStruct k s = .ok cell := by
  unfold importLib at h
  split at h
  · simp at h
  · simp only at h
    split at h
    · simp at h
    · split at h
      · rename_i order ho
        split at h
        · rename_i cs hcs
          simp only [Gds.Out.ok.injEq] at h; subst h
          obtain ⟨hnd, hmem, _⟩ := Dep.c17_sound _ _ _ _ ho
          have hss := names_nodup_of_indices g.structs hn order hnd
          obtain ⟨_, hfind⟩ := importStructs_find _ [] cs hss (by intro s _; simp) hcs
          intro s hs
          apply hfind
          obtain ⟨i, hi, hgi⟩ := List.mem_iff_getElem.1 hs
          refine List.mem_filterMap.2 ⟨i, ?_, by simp [hi, hgi]⟩
          exact (hmem i).2 ⟨i, List.mem_range.2 hi, Dep.Reach.refl i⟩
        · simp at h
      · simp at h

/-! ### the hierarchy -/

theorem insts_sim (cells : List Cell) (g : List Gds.Struct) (fuel : Nat) (t : AffZ)
    (ih : ∀ (loc : Pt) (refl : Bool) (q : Nat) (n : Bytes) (x : List FShape),
      GdsFlat.flatten g fuel (t.cascade (AffZ.ofInstance loc refl q)) n = some x →
      flattenCell cells fuel (t.cascade (AffZ.ofInstance loc refl q)) n = some (x.map classify)) :
    ∀ (insts : List Inst) (rs : List (Bytes × AffZ)) (subs : List (List FShape)),
      allSome (insts.map instPlace) = some rs →
      allSome (rs.map (fun r => GdsFlat.flatten g fuel (t.cascade r.2) r.1)) = some subs →
      allSomeL (insts.map (fun i => (angleQ? i.angle).bind (fun q =>
        flattenCell cells fuel (t.cascade (AffZ.ofInstance i.loc i.refl q)) i.cell))) = some (subs.map (·.map classify)) := by
  intro insts
  induction insts with
  | nil => intro rs subs h1 h2; simp [allSome] at h1; subst h1; simp [allSome] at h2; subst h2; rfl
  | cons i insts ihl =>
    intro rs subs h1 h2
    simp only [List.map_cons] at h1 ⊢
    cases hq : angleQ? i.angle with
    | none =>
      have hi : instPlace i = none := by simp [instPlace, hq]
      rw [hi] at h1; simp [allSome] at h1
    | some q =>
      have hi : instPlace i = some (i.cell, AffZ.ofInstance i.loc i.refl q) := by simp [instPlace, hq]
      rw [hi] at h1
      simp only [allSome] at h1
      cases hrest : allSome (insts.map instPlace) with
      | none => rw [hrest] at h1; simp at h1
      | some rs' =>
        rw [hrest] at h1
        simp only [Option.map_some, Option.some.injEq] at h1
        subst h1
        simp only [List.map_cons] at h2
        cases hx : GdsFlat.flatten g fuel (t.cascade (AffZ.ofInstance i.loc i.refl q)) i.cell with
        | none => rw [hx] at h2; simp [allSome] at h2
        | some x =>
          rw [hx] at h2
          simp only [allSome] at h2
          cases hsub : allSome (rs'.map (fun r => GdsFlat.flatten g fuel (t.cascade r.2) r.1)) with
          | none => rw [hsub] at h2; simp at h2
          | some subs' =>
            rw [hsub] at h2
            simp only [Option.map_some, Option.some.injEq] at h2
            subst h2
            simp only [Option.bind_some, ih _ _ _ _ _ hx, allSomeL]
            rw [ihl rs' subs' hrest hsub]
            rfl

/-- **Flattening the imported library = flattening the GDSII data.**  For every GDSII library with
    distinct structure names whose import succeeds, every structure, every right-angle view `t` and
    every hierarchy depth: whenever the GDSII semantics define the flattened content of the
    structure, the raw library's cell of that name flattens to exactly that content — every
    boundary, box and path on its layer / datatype with its transformed coordinates, every reference
    reflected, rotated, translated, every array expanded to its lattice — nothing dropped, nothing
    added, in the same order; a rectangle-shaped polygon is presented as the rectangle on its first
    and third corner (`classify`). -/
theorem flatten_import (g : Gds.Library) (lib : Lib) (hn : (g.structs.map (·.name)).Nodup) (h : importLib g = .ok lib) :
    ∀ (fuel : Nat) (t : AffZ) (name : Bytes) (fs : List FShape), Ortho t →
      GdsFlat.flatten g.structs fuel t name = some fs →
      flattenCell lib.cells fuel t name = some (fs.map classify) := by
  intro fuel
  induction fuel with
  | zero => intro t name fs _ hf; simp [GdsFlat.flatten] at hf
  | succ fuel ih =>
    intro t name fs ht hf
    simp only [GdsFlat.flatten] at hf
    cases hfs : findStruct g.structs name with
    | none => simp [hfs] at hf
    | some s =>
      simp only [hfs] at hf
      have hsmem : s ∈ g.structs := List.mem_of_find?_eq_some hfs
      have hsname : s.name = name := by
        have := List.find?_some hfs
        simpa using this
      cases ho : allSome (s.elems.map (ownShapes t)) with
      | none => simp [ho] at hf
      | some own =>
        cases hr : allSome (s.elems.map ownRefs) with
        | none => simp [ho, hr] at hf
        | some refs =>
          simp only [ho, hr] at hf
          cases hsub : allSome (refs.flatten.map (fun r => GdsFlat.flatten g.structs fuel (t.cascade r.2) r.1)) with
          | none => rw [hsub] at hf; simp at hf
          | some subs =>
            rw [hsub] at hf
            simp only [Option.map_some, Option.some.injEq] at hf
            subst hf
            obtain ⟨k, cell, hfind, himp⟩ := importLib_cells g lib hn h s hsmem
            obtain ⟨_, hel, hin⟩ := struct_content k s cell t ht own refs himp ho hr
            rw [hsname] at hfind
            simp only [flattenCell, hfind]
            have := insts_sim lib.cells g.structs fuel t
              (fun loc refl q n x hx => ih _ n x (ortho_cascade _ _ ht (ortho_ofInstance loc refl q)) hx)
              cell.insts refs.flatten subs hin hsub
            rw [this]
            simp only [Option.map_some, Option.some.injEq, List.map_append, List.map_flatten]
            congr 1
            rw [← List.map_flatten]
            exact hel

end L21.RawGds
