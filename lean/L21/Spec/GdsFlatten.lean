import L21.Model.Gds
import L21.Model.Aff
/-
GDSII flattening semantics, written from the stream-format document — not from the importer.

A structure draws its own BOUNDARY, BOX and PATH elements and, for every reference, everything
the referenced structure draws, placed by the reference's transformation: reflection about the
x-axis, then counter-clockwise rotation, then translation (`AffZ.ofInstance`, proved to be exactly
that composition in `Props/C12.lean: c12_from_instance`).  An array reference stands for
columns × rows such placements on the lattice spanned by its three coordinates.  Texts and nodes
draw nothing.  The specification covers right-angle rotations and unit magnification; anything
else (`placement = none`) is outside it.
-/
namespace L21.GdsFlat
open L21.Gds L21.Geom L21.Aff

/-- a flattened shape: layer, datatype and transformed coordinates -/
inductive FShape where
  | poly (layer dt : Int) (pts : List Pt)                  -- BOUNDARY / BOX: the vertex cycle, closing vertex dropped
  | path (layer dt : Int) (pts : List Pt) (width : Nat)    -- PATH: centre line and width
  deriving DecidableEq, Repr

def points : List Int → List Pt
  | x :: y :: rest => ⟨x, y⟩ :: points rest
  | _ => []

/-- quarter turns of a GDSII angle (a double, in degrees): 0, 90, 180, 270 -/
def quarter? : Option Nat → Option Nat
  | none => some 0
  | some a =>
    if a = 0 then some 0 else if a = 0x4056800000000000 then some 1
    else if a = 0x4066800000000000 then some 2 else if a = 0x4070e00000000000 then some 3 else none

/-- the transformation a reference at `loc` with transform record `st` stands for -/
def placement (loc : Pt) (st : Option Strans) : Option AffZ :=
  match st with
  | none => some (AffZ.ofInstance loc false 0)
  | some s =>
    if s.absMag || s.absAngle || (s.mag.isSome && s.mag != some 0x3ff0000000000000) then none
    else (quarter? s.angle).map (AffZ.ofInstance loc s.reflected)

/-- a BOX is a rectangle given by its four corners (and the first again) -/
def isRectCycle (a b c d : Pt) : Bool :=
  (decide (a.x = b.x) && decide (b.y = c.y) && decide (c.x = d.x) && decide (d.y = a.y)) ||
  (decide (a.y = b.y) && decide (b.x = c.x) && decide (c.y = d.y) && decide (d.x = a.x))

/-- what an element draws itself, seen through the transformation `t` -/
def ownShapes (t : AffZ) : Elem → Option (List FShape)
  | .boundary layer dt xy _ =>
    let pts := points xy
    match pts, pts.getLast? with
    | p0 :: _, some pl => if p0 = pl then some [.poly layer dt (pts.dropLast.map t.apply)] else none
    | _, _ => none
  | .box layer bt xy _ =>
    match points xy with
    | [a, b, c, d, _] => if isRectCycle a b c d then some [.poly layer bt ([a, b, c, d].map t.apply)] else none
    | _ => none
  | .path layer dt xy (some w) _ _ _ _ => if 0 ≤ w then some [.path layer dt ((points xy).map t.apply) w.toNat] else none
  | .path _ _ _ none _ _ _ _ => none
  | _ => some []

/-- the lattice of an array reference: columns × rows points from `p0`, column pitch (p1 - p0)/cols,
    row pitch (p2 - p0)/rows -/
def lattice (p0 p1 p2 : Pt) (cols rows : Int) : List Pt :=
  (List.range cols.toNat).flatMap (fun (i : Nat) => (List.range rows.toNat).map (fun (j : Nat) =>
    (⟨p0.x + (i : Int) * Int.tdiv (p1.x - p0.x) cols + (j : Int) * Int.tdiv (p2.x - p0.x) rows,
      p0.y + (i : Int) * Int.tdiv (p1.y - p0.y) cols + (j : Int) * Int.tdiv (p2.y - p0.y) rows⟩ : Pt)))

def allSome {α : Type} : List (Option α) → Option (List α)
  | [] => some []
  | none :: _ => none
  | some a :: rest => (allSome rest).map (a :: ·)

/-- the placements an element makes: (structure name, transformation) -/
def ownRefs : Elem → Option (List (Bytes × AffZ))
  | .sref name xy st _ =>
    match points xy with
    | [loc] => (placement loc st).map (fun p => [(name, p)])
    | _ => none
  | .aref name xy cols rows st _ =>
    match points xy with
    | [p0, p1, p2] =>
      if cols ≤ 0 ∨ rows ≤ 0 then none
      else if Int.tmod (p1.x - p0.x) cols ≠ 0 ∨ Int.tmod (p1.y - p0.y) cols ≠ 0 ∨ Int.tmod (p2.x - p0.x) rows ≠ 0 ∨ Int.tmod (p2.y - p0.y) rows ≠ 0 then none
      else allSome ((lattice p0 p1 p2 cols rows).map (fun loc => (placement loc st).map (fun p => (name, p))))
    | _ => none
  | _ => some []

def findStruct (g : List Struct) (name : Bytes) : Option Struct := g.find? (fun s => s.name == name)

/-- everything the structure `name` draws, seen through `t`: its own shapes in element order, then
    its placements in element order, each flattened in turn.  `fuel` bounds the hierarchy depth
    (`none` when it is exhausted — a cyclic hierarchy — or a name is undefined). -/
def flatten (g : List Struct) : Nat → AffZ → Bytes → Option (List FShape)
  | 0, _, _ => none
  | fuel + 1, t, name =>
    match findStruct g name with
    | none => none
    | some s =>
      match allSome (s.elems.map (ownShapes t)), allSome (s.elems.map ownRefs) with
      | some own, some refs =>
        (allSome (refs.flatten.map (fun r => flatten g fuel (t.cascade r.2) r.1))).map (fun subs => own.flatten ++ subs.flatten)
      | _, _ => none

end L21.GdsFlat
