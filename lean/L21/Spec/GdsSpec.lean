import L21.Model.GdsTables
/-
GDSII Stream Format — record numbers, data types and payload sizes, transcribed from the
format manual (Calma GDSII Stream Format Manual, release 6.0), NOT from the gds21 sources.
Data types: 0 no data, 1 bit array, 2 two-byte signed integer, 3 four-byte signed integer,
4 four-byte real (unused), 5 eight-byte real, 6 ASCII string.
-/
namespace L21.Spec
open L21.Gds

/-- (record number, mnemonic, data type, payload size rule) for every record of the manual -/
def gdsSpecTable : List (Nat × String × Nat × LenSpec) := [
  (0x00, "HEADER", 2, .fixed 2),
  (0x01, "BGNLIB", 2, .fixed 24),
  (0x02, "LIBNAME", 6, .strlen),
  (0x03, "UNITS", 5, .fixed 16),
  (0x04, "ENDLIB", 0, .fixed 0),
  (0x05, "BGNSTR", 2, .fixed 24),
  (0x06, "STRNAME", 6, .strlen),
  (0x07, "ENDSTR", 0, .fixed 0),
  (0x08, "BOUNDARY", 0, .fixed 0),
  (0x09, "PATH", 0, .fixed 0),
  (0x0A, "SREF", 0, .fixed 0),
  (0x0B, "AREF", 0, .fixed 0),
  (0x0C, "TEXT", 0, .fixed 0),
  (0x0D, "LAYER", 2, .fixed 2),
  (0x0E, "DATATYPE", 2, .fixed 2),
  (0x0F, "WIDTH", 3, .fixed 4),
  (0x10, "XY", 3, .xy),
  (0x11, "ENDEL", 0, .fixed 0),
  (0x12, "SNAME", 6, .strlen),
  (0x13, "COLROW", 2, .fixed 4),
  (0x15, "NODE", 0, .fixed 0),
  (0x16, "TEXTTYPE", 2, .fixed 2),
  (0x17, "PRESENTATION", 1, .fixed 2),
  (0x19, "STRING", 6, .strlen),
  (0x1A, "STRANS", 1, .fixed 2),
  (0x1B, "MAG", 5, .fixed 8),
  (0x1C, "ANGLE", 5, .fixed 8),
  (0x1F, "REFLIBS", 6, .strlen),
  (0x20, "FONTS", 6, .strlen),
  (0x21, "PATHTYPE", 2, .fixed 2),
  (0x22, "GENERATIONS", 2, .fixed 2),
  (0x23, "ATTRTABLE", 6, .strlen),
  (0x26, "ELFLAGS", 1, .fixed 2),
  (0x2A, "NODETYPE", 2, .fixed 2),
  (0x2B, "PROPATTR", 2, .fixed 2),
  (0x2C, "PROPVALUE", 6, .strlen),
  (0x2D, "BOX", 0, .fixed 0),
  (0x2E, "BOXTYPE", 2, .fixed 2),
  (0x2F, "PLEX", 3, .fixed 4),
  (0x30, "BGNEXTN", 3, .fixed 4),
  (0x31, "ENDEXTN", 3, .fixed 4),
  (0x32, "TAPENUM", 2, .fixed 2),
  (0x33, "TAPECODE", 2, .fixed 12),
  (0x36, "FORMAT", 2, .fixed 2),
  (0x37, "MASK", 6, .strlen),
  (0x38, "ENDMASKS", 0, .fixed 0),
  (0x39, "LIBDIRSIZE", 2, .fixed 2),
  (0x3A, "SRFNAME", 6, .strlen),
  (0x3B, "LIBSECUR", 2, .fixed 2)]

/-- the numbers the manual assigns, in the crate's spelling of the names (for the numbering check) -/
def gdsSpecNumbers : List (String × Nat) := [
  ("Header", 0), ("BgnLib", 1), ("LibName", 2), ("Units", 3), ("EndLib", 4), ("BgnStruct", 5),
  ("StructName", 6), ("EndStruct", 7), ("Boundary", 8), ("Path", 9), ("StructRef", 10), ("ArrayRef", 11),
  ("Text", 12), ("Layer", 13), ("DataType", 14), ("Width", 15), ("Xy", 16), ("EndElement", 17),
  ("StructRefName", 18), ("ColRow", 19), ("TextNode", 20), ("Node", 21), ("TextType", 22),
  ("Presentation", 23), ("Spacing", 24), ("String", 25), ("Strans", 26), ("Mag", 27), ("Angle", 28),
  ("Uinteger", 29), ("Ustring", 30), ("RefLibs", 31), ("Fonts", 32), ("PathType", 33), ("Generations", 34),
  ("AttrTable", 35), ("StypTable", 36), ("StrType", 37), ("ElemFlags", 38), ("ElemKey", 39), ("LinkType", 40),
  ("LinkKeys", 41), ("Nodetype", 42), ("PropAttr", 43), ("PropValue", 44), ("Box", 45), ("BoxType", 46),
  ("Plex", 47), ("BeginExtn", 48), ("EndExtn", 49), ("TapeNum", 50), ("TapeCode", 51), ("StrClass", 52),
  ("Reserved", 53), ("Format", 54), ("Mask", 55), ("EndMasks", 56), ("LibDirSize", 57), ("SrfName", 58),
  ("LibSecur", 59)]

def gdsSpecDataTypes : List (String × Nat) :=
  [("NoData", 0), ("BitArray", 1), ("I16", 2), ("I32", 3), ("F32", 4), ("F64", 5), ("Str", 6)]

/-- payload layout implied by data type and size rule -/
def layoutOk (dt : Nat) (ls : LenSpec) (pk : PK) : Bool :=
  match pk with
  | .none => dt == 0 && ls == .fixed 0
  | .bits => dt == 1 && ls == .fixed 2
  | .i16 k => dt == 2 && ls == .fixed (2 * k)
  | .i32 k => dt == 3 && ls == .fixed (4 * k)
  | .i32vec => dt == 3 && ls == .xy
  | .f64 k => dt == 5 && ls == .fixed (8 * k)
  | .str => dt == 6 && ls == .strlen

/-- element grammar (BNF of the manual) as a recogniser over record numbers -/
def skipOpt (rt : Nat) : List Nat → List Nat
  | r :: rest => if r = rt then rest else r :: rest
  | [] => []

def expect (rt : Nat) : List Nat → Option (List Nat)
  | r :: rest => if r = rt then some rest else none
  | [] => none

/-- `{PROPATTR PROPVALUE}*` -/
def skipProps : Nat → List Nat → Option (List Nat)
  | 0, l => some l
  | f + 1, 0x2B :: 0x2C :: rest => skipProps f rest
  | _, 0x2B :: _ => none
  | _, l => some l

/-- `[STRANS [MAG] [ANGLE]]` -/
def skipStrans : List Nat → List Nat
  | 0x1A :: rest => skipOpt 0x1C (skipOpt 0x1B rest)
  | l => l

/-- one `<element>` … `ENDEL`; returns the remaining records -/
def element (l : List Nat) : Option (List Nat) :=
  let head (rest : List Nat) := skipOpt 0x2F (skipOpt 0x26 rest)     -- [ELFLAGS] [PLEX]
  let tail (rest : List Nat) : Option (List Nat) := do
    let r ← skipProps rest.length rest
    expect 0x11 r
  match l with
  | 0x08 :: rest => do  -- BOUNDARY [ELFLAGS] [PLEX] LAYER DATATYPE XY
    tail (← expect 0x10 (← expect 0x0E (← expect 0x0D (head rest))))
  | 0x09 :: rest => do  -- PATH [ELFLAGS] [PLEX] LAYER DATATYPE [PATHTYPE] [WIDTH] [BGNEXTN] [ENDEXTN] XY
    let r ← expect 0x0E (← expect 0x0D (head rest))
    tail (← expect 0x10 (skipOpt 0x31 (skipOpt 0x30 (skipOpt 0x0F (skipOpt 0x21 r)))))
  | 0x0A :: rest => do  -- SREF [ELFLAGS] [PLEX] SNAME [<strans>] XY
    tail (← expect 0x10 (skipStrans (← expect 0x12 (head rest))))
  | 0x0B :: rest => do  -- AREF [ELFLAGS] [PLEX] SNAME [<strans>] COLROW XY
    tail (← expect 0x10 (← expect 0x13 (skipStrans (← expect 0x12 (head rest)))))
  | 0x0C :: rest => do  -- TEXT [ELFLAGS] [PLEX] LAYER TEXTTYPE [PRESENTATION] [PATHTYPE] [WIDTH] [<strans>] XY STRING
    let r ← expect 0x16 (← expect 0x0D (head rest))
    tail (← expect 0x19 (← expect 0x10 (skipStrans (skipOpt 0x0F (skipOpt 0x21 (skipOpt 0x17 r))))))
  | 0x15 :: rest => do  -- NODE [ELFLAGS] [PLEX] LAYER NODETYPE XY
    tail (← expect 0x10 (← expect 0x2A (← expect 0x0D (head rest))))
  | 0x2D :: rest => do  -- BOX [ELFLAGS] [PLEX] LAYER BOXTYPE XY
    tail (← expect 0x10 (← expect 0x2E (← expect 0x0D (head rest))))
  | _ => none

/-- `{<element>}* ENDSTR` -/
def elements : Nat → List Nat → Option (List Nat)
  | 0, _ => none
  | _, 0x07 :: rest => some rest
  | f + 1, l => match element l with
    | some rest => elements f rest
    | none => none

/-- `{BGNSTR STRNAME {<element>}* ENDSTR}* ENDLIB` and nothing after -/
def structures : Nat → List Nat → Bool
  | 0, _ => false
  | _, [0x04] => true
  | f + 1, 0x05 :: 0x06 :: rest => match elements rest.length.succ rest with
    | some rest' => structures f rest'
    | none => false
  | _, _ => false

/-- `HEADER BGNLIB LIBNAME UNITS {<structure>}* ENDLIB` -/
def gdsGrammar (l : List Nat) : Bool :=
  match l with
  | 0x00 :: 0x01 :: 0x02 :: 0x03 :: rest => structures rest.length.succ rest
  | _ => false

end L21.Spec
