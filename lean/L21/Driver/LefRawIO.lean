import L21.Driver.Sexp
import L21.Model.LefRaw
namespace L21.Driver
open L21 Sexp LefRaw

def dec? : Sexp → Option Dec
  | .list [.atom "d", m, s] => do pure ⟨← int? m, ← nat? s⟩
  | _ => none
def lpt? : Sexp → Option LPt
  | .list [a, b] => do pure ⟨← dec? a, ← dec? b⟩
  | _ => none
def lgeom? : Sexp → Option LGeom
  | .list [.atom "rect", a, b, c, d] => do pure (.rect ⟨← dec? a, ← dec? b⟩ ⟨← dec? c, ← dec? d⟩)
  | .list (.atom "polygon" :: ps) => do pure (.polygon (← ps.mapM lpt?))
  | .list (.atom "path" :: ps) => do pure (.path (← ps.mapM lpt?))
  | .list [.atom "iterate"] => some .iterate
  | _ => none
def spacing? : Sexp → Option Spacing
  | .atom "none" => some .none
  | .list [.atom "sp", d] => do pure (.spacing (← dec? d))
  | .list [.atom "drw", d] => do pure (.designRuleWidth (← dec? d))
  | _ => none
def lg? : Sexp → Option LayerGeoms
  | .list [.atom "lg", layer, w, e, sp, .list gs] => do
    let width ← (match w with | .atom "#f" => some none | s => (dec? s).map some)
    pure ⟨← bytes? layer, width, ← bool? e, ← spacing? sp, ← gs.mapM lgeom?⟩
  | _ => none
def pin? : Sexp → Option Pin
  | .list (.atom "pin" :: n :: ports) => do
    let ps ← ports.mapM (fun p => match p with
      | .list (.atom "port" :: lgs) => lgs.mapM lg?
      | _ => none)
    pure ⟨← bytes? n, ps⟩
  | _ => none
def macro? : Sexp → Option Macro
  | .list [.atom "macro", n, sz, .list (.atom "pins" :: pins), .list (.atom "obs" :: obs)] => do
    let size ← (match sz with
      | .atom "#f" => some none
      | .list [a, b] => do pure (some (← dec? a, ← dec? b))
      | _ => none)
    pure ⟨← bytes? n, size, ← pins.mapM pin?, ← obs.mapM lg?⟩
  | _ => none

def shapeS : Shape → Sexp
  | .rect a b => .list [.atom "rect", ofInt a.x, ofInt a.y, ofInt b.x, ofInt b.y]
  | .polygon ps => .list (.atom "polygon" :: ps.map (fun p => .list [ofInt p.x, ofInt p.y]))
  | .path ps w => .list (.atom "path" :: ofNat w :: ps.map (fun p => .list [ofInt p.x, ofInt p.y]))

def insertSorted (x : String × Sexp) : List (String × Sexp) → List (String × Sexp)
  | [] => [x]
  | y :: rest => if x.1 < y.1 then x :: y :: rest else y :: insertSorted x rest

/-- layer map printed sorted by the (hex) layer name, as the harness does -/
def layerMapS (m : List (List Nat × List Shape)) : List Sexp :=
  let entries := m.map (fun (e : List Nat × List Shape) =>
    let k := (ofBytes e.1).toStr
    (k, Sexp.list (ofBytes e.1 :: e.2.map shapeS)))
  (entries.foldl (fun acc e => insertSorted e acc) []).map (·.2)

def absS (a : Abstract) : Sexp :=
  .list [.atom "abs", ofBytes a.name,
    .list (.atom "outline" :: a.outline.map (fun p => .list [ofInt p.x, ofInt p.y])),
    .list (.atom "ports" :: a.ports.map (fun p => .list (.atom "port" :: ofBytes p.net :: layerMapS p.shapes))),
    .list (.atom "blockages" :: layerMapS a.blockages)]

def opLefRawImport (args : List Sexp) : String :=
  match args with
  | .atom ncs :: ms =>
    match ms.mapM macro? with
    | some macs =>
      -- `<ncs>/<seed>`: the seed fills fields the importer does not read (harness side only)
      match importLib ((ncs.splitOn "/").head? == some "off") macs with
      | .ok as => s!"ok {Sexp.list (as.map absS)}"
      | .err => "err"
    | none => "bad-op"
  | _ => "bad-op"

end L21.Driver
