import L21.Driver.Sexp
import L21.Model.Gds
/-
S-expression form of a GDS library (shared with harness/src/gdsio.rs).
-/
namespace L21.Driver
open L21 Sexp Gds

def optS (f : α → Sexp) : Option α → Sexp
  | none => .atom "#f"
  | some a => f a
def pairS (p : Nat × Nat) : Sexp := .list [ofNat p.1, ofNat p.2]
def intsS (l : List Int) : Sexp := .list (l.map ofInt)

def stransS (s : Strans) : Sexp :=
  .list [.atom "st", ofBool s.reflected, ofBool s.absMag, ofBool s.absAngle, optS ofF64 s.mag, optS ofF64 s.angle]
def commonS (c : Common) : List Sexp :=
  [optS pairS c.elflags, optS ofInt c.plex, .list (c.props.map (fun p => .list [ofInt p.attr, ofBytes p.value]))]

def elemS : Elem → Sexp
  | .boundary l d xy c => .list ([.atom "boundary", ofInt l, ofInt d, intsS xy] ++ commonS c)
  | .path l d xy w pt be ee c => .list ([.atom "path", ofInt l, ofInt d, intsS xy, optS ofInt w, optS ofInt pt, optS ofInt be, optS ofInt ee] ++ commonS c)
  | .sref n xy st c => .list ([.atom "sref", ofBytes n, intsS xy, optS stransS st] ++ commonS c)
  | .aref n xy cs rs st c => .list ([.atom "aref", ofBytes n, intsS xy, ofInt cs, ofInt rs, optS stransS st] ++ commonS c)
  | .text s l t xy pr pt w st c => .list ([.atom "text", ofBytes s, ofInt l, ofInt t, intsS xy, optS pairS pr, optS ofInt pt, optS ofInt w, optS stransS st] ++ commonS c)
  | .node l d xy c => .list ([.atom "node", ofInt l, ofInt d, intsS xy] ++ commonS c)
  | .box l d xy c => .list ([.atom "box", ofInt l, ofInt d, intsS xy] ++ commonS c)

def structS (s : Struct) : Sexp := .list [.atom "struct", ofBytes s.name, intsS s.dates, .list (s.elems.map elemS)]
def libS (l : Library) : Sexp :=
  .list [.atom "lib", ofBytes l.name, ofInt l.version, intsS l.dates, .list [ofF64 l.units.1, ofF64 l.units.2], .list (l.structs.map structS)]

-- parsing
def opt? (f : Sexp → Option α) : Sexp → Option (Option α)
  | .atom "#f" => some none
  | s => (f s).map some
def pair? : Sexp → Option (Nat × Nat)
  | .list [a, b] => do pure (← nat? a, ← nat? b)
  | _ => none
def ints? : Sexp → Option (List Int)
  | .list xs => xs.mapM int?
  | _ => none
def strans? : Sexp → Option Strans
  | .list [.atom "st", r, am, aa, m, a] => do
    pure ⟨← bool? r, ← bool? am, ← bool? aa, ← opt? f64? m, ← opt? f64? a⟩
  | _ => none
def prop? : Sexp → Option Property
  | .list [a, v] => do pure ⟨← int? a, ← bytes? v⟩
  | _ => none
def common? : List Sexp → Option Common
  | [e, p, .list ps] => do pure ⟨← opt? pair? e, ← opt? int? p, ← ps.mapM prop?⟩
  | _ => none
def elem? : Sexp → Option Elem
  | .list (.atom "boundary" :: l :: d :: xy :: c) => do pure (.boundary (← int? l) (← int? d) (← ints? xy) (← common? c))
  | .list (.atom "path" :: l :: d :: xy :: w :: pt :: be :: ee :: c) => do
    pure (.path (← int? l) (← int? d) (← ints? xy) (← opt? int? w) (← opt? int? pt) (← opt? int? be) (← opt? int? ee) (← common? c))
  | .list (.atom "sref" :: n :: xy :: st :: c) => do pure (.sref (← bytes? n) (← ints? xy) (← opt? strans? st) (← common? c))
  | .list (.atom "aref" :: n :: xy :: cs :: rs :: st :: c) => do
    pure (.aref (← bytes? n) (← ints? xy) (← int? cs) (← int? rs) (← opt? strans? st) (← common? c))
  | .list (.atom "text" :: s :: l :: t :: xy :: pr :: pt :: w :: st :: c) => do
    pure (.text (← bytes? s) (← int? l) (← int? t) (← ints? xy) (← opt? pair? pr) (← opt? int? pt) (← opt? int? w) (← opt? strans? st) (← common? c))
  | .list (.atom "node" :: l :: d :: xy :: c) => do pure (.node (← int? l) (← int? d) (← ints? xy) (← common? c))
  | .list (.atom "box" :: l :: d :: xy :: c) => do pure (.box (← int? l) (← int? d) (← ints? xy) (← common? c))
  | _ => none
def struct? : Sexp → Option Struct
  | .list [.atom "struct", n, d, .list es] => do pure ⟨← bytes? n, ← ints? d, ← es.mapM elem?⟩
  | _ => none
def lib? : Sexp → Option Library
  | .list [.atom "lib", n, v, d, .list [u0, u1], .list ss] => do
    pure ⟨← bytes? n, ← int? v, ← ints? d, (← f64? u0, ← f64? u1), ← ss.mapM struct?⟩
  | _ => none

def opGdsWrite (args : List Sexp) : String :=
  match args with
  | [s] => match lib? s with
    | some l => match Gds.enc l with
      | .ok bs => s!"ok {ofBytes bs}"
      | .err => "err"
    | none => "bad-op"
  | _ => "bad-op"

def opGdsRead (args : List Sexp) : String :=
  match args with
  | [s] => match bytes? s with
    | some bs => match Gds.dec bs with
      | .ok l => s!"ok {libS l}"
      | .err => "err"
    | none => "bad-op"
  | _ => "bad-op"

end L21.Driver
