import L21.Driver.Sexp
import L21.Model.Tetris
/- Line-protocol glue for the gridded-layout compiler model (C08).
   tetris.compile (stack (prim px py) (metals (m h|v cutsize offset overlap flip shared (entries E…))…) (vias (via bot|#f sx sy)…))
                  (cell ox oy metals (insts (inst x y rh rv w h metals)…) (cuts (l t l t)…) (assigns (x<net> l t l t)…))
   E = (g w) | (s w) | (p w) | (n w) | (rep k E…)
   -> ok ((m L net|#f x0 y0 x1 y1) | (v V net x0 y0 x1 y1) …) | err -/
namespace L21.Driver.TT
open L21 L21.Sexp L21.Tetris

def entry? : Sexp → Option Entry
  | .list [.atom "g", w] => do pure ⟨.gap, ← int? w⟩
  | .list [.atom "s", w] => do pure ⟨.sig, ← int? w⟩
  | .list [.atom "p", w] => do pure ⟨.pwr, ← int? w⟩
  | .list [.atom "n", w] => do pure ⟨.gnd, ← int? w⟩
  | _ => none
def spec? : Sexp → Option Spec
  | .list (.atom "rep" :: k :: es) => do pure (.rep (← es.mapM entry?) (← nat? k))
  | s => (entry? s).map .one
def metal? : Sexp → Option Metal
  | .list [.atom "m", .atom d, cs, off, ov, fl, sh, .list (.atom "entries" :: es)] => do
    pure ⟨d == "h", ← int? cs, ← int? off, ← int? ov, ← bool? fl, ← bool? sh, ← es.mapM spec?⟩
  | _ => none
def via? : Sexp → Option Via
  | .list [.atom "via", b, sx, sy] => do
    let bot ← (match b with | .atom "#f" => some none | b => (nat? b).map some)
    pure ⟨bot, ← int? sx, ← int? sy⟩
  | _ => none
def stack? : Sexp → Option Stack
  | .list [.atom "stack", .list [.atom "prim", px, py], .list (.atom "metals" :: ms), .list (.atom "vias" :: vs)] => do
    pure ⟨← int? px, ← int? py, ← ms.mapM metal?, ← vs.mapM via?⟩
  | _ => none
def cross? : List Sexp → Option Cross
  | [a, b, c, d] => do pure ⟨⟨← nat? a, ← nat? b⟩, ⟨← nat? c, ← nat? d⟩⟩
  | _ => none
def inst? : Sexp → Option Inst
  | .list [.atom "inst", x, y, rh, rv, w, h, m] => do
    pure ⟨← int? x, ← int? y, ← bool? rh, ← bool? rv, ← int? w, ← int? h, ← nat? m⟩
  | _ => none
def cell? : Sexp → Option Cell
  | .list [.atom "cell", ox, oy, m, .list (.atom "insts" :: is), .list (.atom "cuts" :: cs), .list (.atom "assigns" :: as)] => do
    let cuts ← cs.mapM fun c => match c with | .list l => cross? l | _ => none
    let assigns ← as.mapM fun a => match a with
      | .list (n :: rest) => do pure (((← bytes? n), (← cross? rest)) : Bytes × Cross)
      | _ => none
    pure ⟨← int? ox, ← int? oy, ← nat? m, ← is.mapM inst?, cuts, assigns⟩
  | _ => none

def ofElem (e : Elem) : Sexp :=
  .list [.atom (if e.via then "v" else "m"), ofNat e.layer,
    (match e.net with | some n => ofBytes n | none => .atom "#f"), ofInt e.x0, ofInt e.y0, ofInt e.x1, ofInt e.y1]

def opCompile (args : List Sexp) : String :=
  match args with
  | [s, c] => match stack? s, cell? c with
    | some st, some cl => match compile st cl with
      | some es => s!"ok {Sexp.list (es.map ofElem)}"
      | none => "err"
    | _, _ => "bad-op"
  | _ => "bad-op"

end L21.Driver.TT
