import L21.Driver.Sexp
import L21.Model.GdsFloat
import L21.Model.Dep
import L21.Model.Geom
import L21.Model.Aff
import L21.Driver.GdsIO
import L21.Driver.LefRawIO
import L21.Driver.RawProtoIO
import L21.Driver.RawLefIO
import L21.Driver.LayersIO
import L21.Driver.RawGdsIO
import L21.Driver.PlaceIO
import L21.Driver.LefIO
import L21.Driver.TProtoIO
import L21.Driver.TetrisIO
/-
Line-protocol operations: `<op> <sexpr>*` ↦ result line.
-/
namespace L21.Driver
open L21 Sexp

def opFEnc (args : List Sexp) : String :=
  match args with
  | [a] => match f64? a with
    | some b => match GdsFloat.encodeBits b with
      | some g => s!"ok {ofF64 g}"
      | none => "err"
    | none => "bad-op"
  | _ => "bad-op"

def opFDec (args : List Sexp) : String :=
  match args with
  | [a] => match f64? a with
    | some g => s!"ok {ofF64 (GdsFloat.decodeBits g)}"
    | none => "bad-op"
  | _ => "bad-op"

/-- `f.decenc`: decode, then encode the decoded double -/
def opFDecEnc (args : List Sexp) : String :=
  match args with
  | [a] => match f64? a with
    | some g =>
      let d := GdsFloat.decodeBits g
      match GdsFloat.encodeBits d with
      | some g2 => s!"ok {ofF64 d} {ofF64 g2}"
      | none => s!"ok {ofF64 d} err"
    | none => "bad-op"
  | _ => "bad-op"

def natList? : Sexp → Option (List Nat)
  | .list xs => xs.mapM nat?
  | _ => none

def graph? (args : List Sexp) : Option (List (List Nat) × List Nat) :=
  match args with
  | [.list rows, items] => do
    let tbl ← rows.mapM natList?
    let it ← natList? items
    pure (tbl, it)
  -- history case `(adj) (items) (adj0)`: the orderers keep no state, so the earlier wiring `adj0` of
  -- the same cells does not matter to the model
  | [.list rows, items, .list _] => do
    let tbl ← rows.mapM natList?
    let it ← natList? items
    pure (tbl, it)
  | _ => none

/-- all five orderers are the same DFS; `dangling` = references outside the table are errors
    (GDS struct names that do not exist), otherwise such nodes simply have no dependencies. -/
def opDep (dangling : Bool) (args : List Sexp) : String :=
  match graph? args with
  | none => "bad-op"
  | some (tbl, items) =>
    let n := tbl.length
    let big := (tbl.flatten ++ items).foldl max 0 + 1
    if dangling && (tbl.any (fun r => r.any (fun d => d ≥ n)) || items.any (fun i => i ≥ n)) then "err"
    else match Dep.order (Dep.adjOf tbl) (max n big + 1) items with
      | .ok st => s!"ok {Sexp.list (st.map ofNat)}"
      | .cycle => "err"
      | .fuel => "fuel"

def pt? : Sexp → Option Geom.Pt
  | .list [a, b] => do pure ⟨← int? a, ← int? b⟩
  | _ => none
def pts? (xs : List Sexp) : Option (List Geom.Pt) := xs.mapM pt?

def opContains (args : List Sexp) : String :=
  match args with
  | [.list (.atom kind :: rest), .list qs] =>
    match pts? qs with
    | none => "bad-op"
    | some qs =>
      match kind, rest with
      | "rect", [a, b, c, d] =>
        match int? a, int? b, int? c, int? d with
        | some a, some b, some c, some d =>
          s!"ok {Sexp.list (qs.map (fun q => ofBool (Geom.rectContains ⟨a, b⟩ ⟨c, d⟩ q)))}"
        | _, _, _, _ => "bad-op"
      | "poly", vs =>
        match pts? vs with
        | some P => s!"ok {Sexp.list (qs.map (fun q => ofBool (Geom.polyContains P q)))}"
        | none => "bad-op"
      | "path", w :: vs =>
        match nat? w, pts? vs with
        | some w, some P =>
          let rs := qs.map (fun q => Geom.pathContains P w q)
          if rs.any (fun r => r == Geom.Out.panic) then "panic"
          else s!"ok {Sexp.list (rs.map (fun r => match r with | .ok b => ofBool b | .panic => .atom "?"))}"
        | _, _ => "bad-op"
      | _, _ => "bad-op"
  | _ => "bad-op"

def quarter? : Sexp → Option Nat
  | .atom "none" => some 0
  | s => (int? s).map (fun q => ((q % 4 + 4) % 4).toNat)

def place? : Sexp → Option Aff.AffZ
  | .list [x, y, r, q] => do pure (Aff.AffZ.ofInstance ⟨← int? x, ← int? y⟩ (← bool? r) (← quarter? q))
  | _ => none

def ptsToSexp (ps : List Geom.Pt) : Sexp := .list (ps.map (fun p => .list [ofInt p.x, ofInt p.y]))

def opTfApply (args : List Sexp) : String :=
  match args with
  | [.list chain, .list qs] =>
    match chain.mapM place?, pts? qs with
    | some ts, some ps =>
      let t := ts.foldl (fun acc i => acc.cascade i) Aff.AffZ.id
      s!"ok {ptsToSexp (ps.map t.apply)}"
    | _, _ => "bad-op"
  | _ => "bad-op"

def inst? : Sexp → Option Aff.Inst
  | .list [.atom "inst", c, x, y, r, q] => do
    pure ⟨← nat? c, ⟨← int? x, ← int? y⟩, ← bool? r, ← quarter? q⟩
  | _ => none

def cell? : Sexp → Option Aff.Cell
  | .list [.atom "cell", .list shapes, .list insts] => do
    let sh ← shapes.mapM (fun s => match s with | .list ps => pts? ps | _ => none)
    let is ← insts.mapM inst?
    pure ⟨sh, is⟩
  | _ => none

def opFlatten (args : List Sexp) : String :=
  match args with
  | [.list cs, top] =>
    match cs.mapM cell?, nat? top with
    | some cells, some t =>
      match Aff.flatten cells (cells.length + 1) Aff.AffZ.id t with
      | some shapes => s!"ok {Sexp.list (shapes.map ptsToSexp)}"
      | none => "err"
    | _, _ => "bad-op"
  | _ => "bad-op"

def dispatch (op : String) (args : List Sexp) : String :=
  match op with
  | "f.enc" => opFEnc args
  | "f.dec" => opFDec args
  | "f.decenc" => opFDecEnc args
  | "gds.write" => opGdsWrite args
  | "gds.read" => opGdsRead args
  | "gds.c03" => opGdsRead (args.take 1)
  | "gds.open" => opGdsRead (args.take 1)      -- a file holds the same bytes: the model reads them the same way
  | "lefraw.import" => opLefRawImport args
  | "place" => opPlace args
  | "place.retry" => opPlaceRetry args
  | "place.array" => opPlaceArray args
  | "rawgds.export" => opRawGdsExport args
  | "gdsraw.import" => opGdsRawImport args
  | "gdsraw.flat" => opGdsRawFlat args
  | "rawproto.export" => opRawProtoExport args
  | "rawproto.import" => opRawProtoImport args
  | "rawproto.seq" => "unsupported"
  | "lef.lex" => opLefLex args
  | "lef.states" => opLefStates args
  | "lef.enum" => opLefEnum args
  | "lef.dbu" => opLefDbu args
  | "lef.parse" => LefP.opLefParse args
  | "lef.open" => LefP.opLefParse args       -- a file holds the same text: the reader model reads it the same way
  | "lef.wfail" => "unsupported"
  | "lef.wtokens" => LefP.opLefWTokens args
  | "lef.read" => "unsupported"
  | "lef.wr" => LefP.opLefWr args
  | "lef.crash" => "unsupported"
  | "lef.big" => "unsupported"
  | "tproto.export" => TP.opTExport args
  | "tproto.import" => TP.opTImport args
  | "tproto.rt" => TP.opTRoundtrip args
  | "tetris.compile" => TT.opCompile args
  | "tf.apply" => opTfApply args
  | "tf.general" => "unsupported"
  | "tf.gchain" => "unsupported"
  | "raw.gflatten" => "unsupported"
  | "c20.abs2gds" => "unsupported"
  | "c20.abs2lef" => opAbs2Lef args
  | "c20.lefrt" => "unsupported"
  | "c20.dup" => "unsupported"
  | "c20.purphist" => "unsupported"
  | "serde.gds" => "unsupported"
  | "serde.gdsbytes" => "unsupported"
  | "serde.lef" => "unsupported"
  | "serde.leflib" => "unsupported"
  | "serde.lefspecial" => "unsupported"
  | "raw.flatten" => opFlatten args
  | "geom.contains" => opContains args
  | "dep.tolerant" => "unsupported"
  | "dep.ports" => "unsupported"
  | "layers.ops" => opLayersOps args
  | "dep.generic" => opDep false args
  | "dep.raw" => opDep true args
  | "dep.tetris" => opDep true args
  | "dep.tetrisraw" => opDep true args
  | "dep.gds" => opDep true args
  | _ => "bad-op"

def stepLine (line : String) : String :=
  match Sexp.parseAll line with
  | some (Sexp.atom op :: args) => dispatch op args
  | _ => "bad-op"

end L21.Driver
