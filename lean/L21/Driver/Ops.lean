import L21.Driver.Sexp
import L21.Model.GdsFloat
/-
Line-protocol operations: `<op> <sexpr>*` ↦ result line.
-/
namespace L21.Driver
open L21 Sexp

def opFEnc (args : List Sexp) : String :=
  match args with
  | [a] => match f64? a with
    | some b => match GdsFloat.encodeBits b with
      | some g => s!"ok {ofF64 g}"
      | none => "err"
    | none => "bad-op"
  | _ => "bad-op"

def opFDec (args : List Sexp) : String :=
  match args with
  | [a] => match f64? a with
    | some g => s!"ok {ofF64 (GdsFloat.decodeBits g)}"
    | none => "bad-op"
  | _ => "bad-op"

def dispatch (op : String) (args : List Sexp) : String :=
  match op with
  | "f.enc" => opFEnc args
  | "f.dec" => opFDec args
  | _ => "bad-op"

def stepLine (line : String) : String :=
  match Sexp.parseAll line with
  | some (Sexp.atom op :: args) => dispatch op args
  | _ => "bad-op"

end L21.Driver
