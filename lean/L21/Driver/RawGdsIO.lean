import L21.Driver.GdsIO
import L21.Driver.RawProtoIO
import L21.Model.RawGds
import L21.Model.RawFlat
import L21.Spec.GdsFlatten
namespace L21.Driver
open L21 Sexp Geom

def gshape? : Sexp → Option RawGds.Shape
  | .list [.atom "rect", a, b, c, d] => do pure (.rect ⟨← int? a, ← int? b⟩ ⟨← int? c, ← int? d⟩)
  | .list (.atom "polygon" :: ps) => do pure (.polygon (← rpPts? ps))
  | .list (.atom "path" :: w :: ps) => do pure (.path (← rpPts? ps) (← nat? w))
  | _ => none
def gshapeS : RawGds.Shape → Sexp
  | .rect a b => .list [.atom "rect", ofInt a.x, ofInt a.y, ofInt b.x, ofInt b.y]
  | .polygon ps => .list (.atom "polygon" :: ps.map ptS)
  | .path ps w => .list (.atom "path" :: ofNat w :: ps.map ptS)

def gcell? : Sexp → Option RawGds.Cell
  | .list [.atom "cell", n, .list (.atom "insts" :: is), .list (.atom "elems" :: es), .list (.atom "annots" :: as)] => do
    let insts ← is.mapM (fun i => match i with
      | .list [.atom "i", nm, c, x, y, r, ang] => do
        let a ← (match ang with | .atom "#f" => some none | s => (f64? s).map some)
        pure (⟨← bytes? nm, ← bytes? c, ⟨← int? x, ← int? y⟩, ← bool? r, a⟩ : RawGds.Inst)
      | _ => none)
    let elems ← es.mapM (fun e => match e with
      | .list [.atom "e", net, l, p, sh] => do pure (⟨← optBytes? net, ← int? l, ← int? p, ← gshape? sh⟩ : RawGds.Elem)
      | _ => none)
    let ann ← as.mapM (fun a => match a with
      | .list [.atom "a", s, x, y] => do pure ((← bytes? s, (⟨← int? x, ← int? y⟩ : Pt)))
      | _ => none)
    pure ⟨← bytes? n, insts, elems, ann⟩
  | _ => none

def glib? : Sexp → Option (RawGds.LabelTbl × RawGds.Lib)
  | .list (.atom "glib" :: n :: u :: .list (.atom "layers" :: rows) :: cells) => do
    let tbl ← rows.mapM (fun r => match r with
      | .list [ln, lp] => do pure ((← int? ln, ← optInt? lp) : Int × Option Int)
      -- `(ln lp split)`: two layer objects share the number (harness side); the model keys layers by number
      | .list [ln, lp, _] => do pure ((← int? ln, ← optInt? lp) : Int × Option Int)
      | _ => none)
    pure (tbl, ⟨← bytes? n, ← nat? u, ← cells.mapM gcell?⟩)
  | _ => none

def gcellS (c : RawGds.Cell) : Sexp :=
  .list [.atom "cell", ofBytes c.name,
    .list (.atom "insts" :: c.insts.map (fun i => .list [.atom "i", ofBytes i.name, ofBytes i.cell, ofInt i.loc.x, ofInt i.loc.y, ofBool i.refl,
        (match i.angle with | none => .atom "#f" | some a => ofF64 a)])),
    .list (.atom "elems" :: c.elems.map (fun e => .list [.atom "e", (match e.net with | none => .atom "#f" | some n => ofBytes n), ofInt e.layer, ofInt e.purpose, gshapeS e.shape])),
    .list (.atom "annots" :: c.annotations.map (fun a => .list [.atom "a", ofBytes a.1, ofInt a.2.x, ofInt a.2.y]))]
def glibS (l : RawGds.Lib) : Sexp := .list (.atom "glib" :: ofBytes l.name :: ofNat l.units :: l.cells.map gcellS)

def opRawGdsExport (args : List Sexp) : String :=
  match args with
  | [s] => match glib? s with
    | some (tbl, lib) => (match RawGds.exportLib tbl lib with | .ok g => s!"ok {libS g}" | .err => "err")
    | none => "bad-op"
  | _ => "bad-op"
def opGdsRawImport (args : List Sexp) : String :=
  match args with
  | [s] => match lib? s with
    | some g => (match RawGds.importLib g with | .ok l => s!"ok {glibS l}" | .err => "err")
    | none => "bad-op"
  | _ => "bad-op"

/-- how the specification's flattened shapes are presented in the raw model (as in `Proofs/GdsFlat.lean`) -/
def classifyS : GdsFlat.FShape → Int × Int × RawGds.Shape
  | .poly l d pts => (l, d, RawGds.boundaryShape pts)
  | .path l d pts w => (l, d, .path pts w)

/-- `gdsraw.flat`: import, then `Layout::flatten` of every structure's cell (model `flattenCell`), in
    structure order.  The specification flattener runs alongside: by `c06_flatten` it agrees whenever it
    is defined — a difference would be printed and disagree with the code. -/
def opGdsRawFlat (args : List Sexp) : String :=
  match args with
  | [s] => match lib? s with
    | some g =>
      (match RawGds.importLib g with
       | .err => "err"
       | .ok l =>
         let depth := g.structs.length + 1
         let rows := g.structs.map (fun st => (st.name, RawGds.flattenCell l.cells depth Aff.AffZ.id st.name,
                        GdsFlat.flatten g.structs depth Aff.AffZ.id st.name))
         if rows.any (fun r => r.2.1.isNone) then "unsupported"
         else if rows.any (fun r => match r.2.1, r.2.2 with | some m, some sp => m != sp.map classifyS | _, _ => false) then "MODEL-SPEC-MISMATCH"
         else s!"ok {Sexp.list (rows.map (fun r => Sexp.list (.atom "flat" :: ofBytes r.1 ::
                (r.2.1.getD []).map (fun e => Sexp.list [ofInt e.1, ofInt e.2.1, gshapeS e.2.2]))))}")
    | none => "bad-op"
  | _ => "bad-op"

end L21.Driver
