import L21.Driver.Sexp
import L21.Model.Place
namespace L21.Driver
open L21 Sexp Place

def side? : Sexp → Option Side
  | .atom "top" => some .top | .atom "bottom" => some .bottom | .atom "left" => some .left | .atom "right" => some .right
  | _ => none
def sep? : Sexp → Option Sep
  | .atom "none" => some .none
  | .list [.atom "pp", .atom d, n] => do pure (.prim (d == "h") (← int? n))
  | .list [.atom "sizeof", c] => do pure (.sizeOf (← nat? c))
  | _ => none
def ploc? : Sexp → Option Loc
  | .list [.atom "abs", x, y] => do pure (.abs (← int? x) (← int? y))
  | .list [.atom "rel", to, s, a, sp] => do pure (.rel (← nat? to) (← side? s) (← side? a) (← sep? sp))
  | _ => none
def pinst? : Sexp → Option Inst
  | .list [c, l, rh, rv] => do pure ⟨← nat? c, ← ploc? l, ← bool? rh, ← bool? rv⟩
  | _ => none

/-- `place`: in placement order.  `place.retry` (`sorted`): the same program placed after a failed first attempt and a
    repair — some instances are then already absolute, so the ORDER of the second run is another one; locations by index. -/
def opPlaceG (sorted : Bool) (args : List Sexp) : String :=
  match args with
  | [.list (.atom "cells" :: cs), .list (.atom "insts" :: is)] =>
    match cs.mapM (fun c => match c with | .list [a, b] => do pure ((← int? a, ← int? b) : Int × Int) | _ => none), is.mapM pinst? with
    | some cells, some insts =>
      (match Place.run cells insts with
       | .ok out0 =>
         let out := if sorted then out0.mergeSort (fun a b => decide (a.1 ≤ b.1)) else out0
         let items := out.map (fun (e : Nat × Int × Int) =>
           match insts[e.1]? with
           | some i => Sexp.list [ofNat e.1, ofInt e.2.1, ofInt e.2.2, ofBool i.rh, ofBool i.rv]
           | none => .atom "?")
         s!"ok {Sexp.list items}"
       | .err => "err")
    | _, _ => "bad-op"
  | _ => "bad-op"

def opPlace (args : List Sexp) : String := opPlaceG false args
def opPlaceRetry (args : List Sexp) : String := opPlaceG true args

partial def arrdef? : Sexp → Option ArrDef
  | .list [.atom "leaf", c, n, sx, sy] => do pure (.leaf (← nat? c) (← nat? n) (← int? sx) (← int? sy))
  | .list [.atom "nested", a, n, sx, sy] => do pure (.nested (← arrdef? a) (← nat? n) (← int? sx) (← int? sy))
  | _ => none

def opPlaceArray (args : List Sexp) : String :=
  match args with
  | [a, x, y, rh, rv] =>
    match arrdef? a, int? x, int? y, bool? rh, bool? rv with
    | some ad, some x, some y, some rh, some rv =>
      let cs := flattenArrInst ad x y rh rv
      s!"ok {Sexp.list (cs.map (fun c => .list [ofNat c.cell, ofInt c.x, ofInt c.y, ofBool c.rh, ofBool c.rv]))}"
    | _, _, _, _, _ => "bad-op"
  | _ => "bad-op"

end L21.Driver
