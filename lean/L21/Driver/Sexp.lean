/-
S-expressions for the line protocol (driver side only; nothing here is proved about).
Atoms: decimal integers, `x<hex bytes>`, `f<16 hex>`, `#t`/`#f`, bare names.
-/
namespace L21

inductive Sexp where
  | atom (s : String)
  | list (xs : List Sexp)
  deriving Repr, Inhabited, BEq

namespace Sexp

private def isDelim (c : Char) : Bool := c == '(' || c == ')' || c == ' ' || c == '\t' || c == '\n' || c == '\r'

/-- tokens: "(" , ")" , atoms -/
def tokenize (s : String) : List String := Id.run do
  let mut toks : Array String := #[]
  let mut cur : String := ""
  for c in s.toList do
    if isDelim c then
      if cur != "" then
        toks := toks.push cur
        cur := ""
      if c == '(' then toks := toks.push "("
      else if c == ')' then toks := toks.push ")"
    else
      cur := cur.push c
  if cur != "" then toks := toks.push cur
  return toks.toList

/-- Parse one s-expression from a token list, with an explicit stack. -/
def parseToks (toks : List String) : Option (List Sexp) :=
  let rec go (toks : List String) (stack : List (List Sexp)) (cur : List Sexp) : Option (List Sexp) :=
    match toks with
    | [] => if stack.isEmpty then some cur.reverse else none
    | "(" :: rest => go rest (cur :: stack) []
    | ")" :: rest =>
      match stack with
      | [] => none
      | parent :: st => go rest st (Sexp.list cur.reverse :: parent)
    | a :: rest => go rest stack (Sexp.atom a :: cur)
  go toks [] []

def parseAll (s : String) : Option (List Sexp) := parseToks (tokenize s)

partial def toStr : Sexp → String
  | .atom s => s
  | .list xs => "(" ++ " ".intercalate (xs.map toStr) ++ ")"

instance : ToString Sexp := ⟨toStr⟩

def int? : Sexp → Option Int
  | .atom s => s.toInt?
  | _ => none
def nat? : Sexp → Option Nat
  | .atom s => s.toNat?
  | _ => none

def hexVal (c : Char) : Option Nat :=
  if '0' ≤ c ∧ c ≤ '9' then some (c.toNat - '0'.toNat)
  else if 'a' ≤ c ∧ c ≤ 'f' then some (c.toNat - 'a'.toNat + 10)
  else if 'A' ≤ c ∧ c ≤ 'F' then some (c.toNat - 'A'.toNat + 10)
  else none

def hexNat? (cs : List Char) : Option Nat :=
  cs.foldlM (fun acc c => do let v ← hexVal c; pure (acc * 16 + v)) 0

/-- `f<16 hex>` → 64-bit pattern -/
def f64? : Sexp → Option Nat
  | .atom s => match s.toList with
    | 'f' :: cs => if cs.length == 16 then hexNat? cs else none
    | _ => none
  | _ => none

def hexDigit (n : Nat) : Char := if n < 10 then Char.ofNat (48 + n) else Char.ofNat (87 + n)

def hexFixed (n width : Nat) : String :=
  String.ofList ((List.range width).reverse.map (fun i => hexDigit (n / 16 ^ i % 16)))

def ofF64 (b : Nat) : Sexp := .atom ("f" ++ hexFixed b 16)

/-- `x<hex>` → bytes -/
def bytes? : Sexp → Option (List Nat)
  | .atom s => match s.toList with
    | 'x' :: cs =>
      let rec go : List Char → Option (List Nat)
        | [] => some []
        | [_] => none
        | a :: b :: rest => do
          let h ← hexVal a; let l ← hexVal b; let r ← go rest; pure ((h * 16 + l) :: r)
      go cs
    | _ => none
  | _ => none

def ofBytes (bs : List Nat) : Sexp :=
  .atom (String.ofList ('x' :: bs.flatMap (fun b => [hexDigit (b / 16 % 16), hexDigit (b % 16)])))

def bool? : Sexp → Option Bool
  | .atom "#t" => some true
  | .atom "#f" => some false
  | _ => none
def ofBool (b : Bool) : Sexp := .atom (if b then "#t" else "#f")
def ofInt (i : Int) : Sexp := .atom (toString i)
def ofNat (n : Nat) : Sexp := .atom (toString n)

end Sexp
end L21
