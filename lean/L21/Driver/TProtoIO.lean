import L21.Driver.Sexp
import L21.Model.TProto
/- Line-protocol glue for the gridded-layout protobuf model (C19). -/
namespace L21.Driver.TP
open L21 L21.Sexp L21.TProto

def ints? : Sexp → Option (List Int)
  | .list xs => xs.mapM int?
  | _ => none
def ofInts (xs : List Int) : Sexp := .list (xs.map ofInt)

-- library side
def tcross? : List Sexp → Option Cross
  | [a, b, c, d] => do pure ⟨⟨← nat? a, ← nat? b⟩, ⟨← nat? c, ← nat? d⟩⟩
  | _ => none
def tinst? : Sexp → Option TProto.Inst
  | .list [.atom "inst", n, c, x, y, rh, rv] => do pure ⟨← bytes? n, ← nat? c, ← int? x, ← int? y, ← bool? rh, ← bool? rv⟩
  | _ => none
def tassign? : Sexp → Option Assign
  | .list (n :: rest) => do pure ⟨← bytes? n, ← tcross? rest⟩
  | _ => none
def tlayout? : Sexp → Option (Option Layout)
  | .atom "#f" => some none
  | .list [.atom "lay", n, ox, oy, m, .list (.atom "insts" :: is), .list (.atom "assigns" :: as), .list (.atom "cuts" :: cs)] => do
    let cuts ← cs.mapM (fun c => match c with | .list l => tcross? l | _ => none)
    pure (some ⟨← bytes? n, ← ints? ox, ← ints? oy, ← nat? m, ← is.mapM tinst?, ← as.mapM tassign?, cuts⟩)
  | _ => none
def tabs? : Sexp → Option (Option Abs)
  | .atom "#f" => some none
  | .list [.atom "abs", n, ox, oy, m] => do pure (some ⟨← bytes? n, ← ints? ox, ← ints? oy, ← nat? m⟩)
  | _ => none
def tcell? : Sexp → Option Cell
  | .list [.atom "cell", n, l, a] => do pure ⟨← bytes? n, ← tlayout? l, ← tabs? a⟩
  | _ => none
def tlib? : Sexp → Option Lib
  | .list [.atom "tlib", n, .list (.atom "cells" :: cs), .list (.atom "items" :: is)] => do
    pure ⟨← bytes? n, ← cs.mapM tcell?, ← is.mapM nat?⟩
  | _ => none

def ofCross (c : Cross) : List Sexp := [ofNat c.track.layer, ofNat c.track.track, ofNat c.cross.layer, ofNat c.cross.track]
def ofLayout : Option Layout → Sexp
  | none => .atom "#f"
  | some l => .list [.atom "lay", ofBytes l.name, ofInts l.ox, ofInts l.oy, ofNat l.metals,
      .list (.atom "insts" :: l.insts.map fun i => .list [.atom "inst", ofBytes i.name, ofNat i.cell, ofInt i.x, ofInt i.y, ofBool i.rh, ofBool i.rv]),
      .list (.atom "assigns" :: l.assigns.map fun a => .list (ofBytes a.net :: ofCross a.at_)),
      .list (.atom "cuts" :: l.cuts.map fun c => .list (ofCross c))]
def ofAbs : Option Abs → Sexp
  | none => .atom "#f"
  | some a => .list [.atom "abs", ofBytes a.name, ofInts a.ox, ofInts a.oy, ofNat a.metals]
def ofLib (l : Lib) : Sexp :=
  .list [.atom "tlib", ofBytes l.name,
    .list (.atom "cells" :: l.table.map fun c => .list [.atom "cell", ofBytes c.name, ofLayout c.layout, ofAbs c.abs]),
    .list (.atom "items" :: l.items.map ofNat)]

-- protobuf side
def pref? : Sexp → Option (Option PRef)
  | .atom "#f" => some none
  | .list [a, b] => do pure (some ⟨← int? a, ← int? b⟩)
  | _ => none
def pcross? : Sexp → Option (Option PCross)
  | .atom "#f" => some none
  | .list [.atom "pc", a, b] => do pure (some ⟨← pref? a, ← pref? b⟩)
  | _ => none
def pcross1? (s : Sexp) : Option PCross := do let c ← pcross? s; c
def pto? : Sexp → Option (Option (Option PTo))
  | .atom "#f" => some none
  | .atom "none" => some (some none)
  | .atom "ext" => some (some (some .ext))
  | .list [.atom "local", n] => do pure (some (some (.loc (← bytes? n))))
  | _ => none
def pplace? : Sexp → Option (Option (Option PPlace))
  | .atom "#f" => some none
  | .atom "none" => some (some none)
  | .atom "rel" => some (some (some .rel))
  | .list [.atom "abs", x, y] => do pure (some (some (.abs (← int? x) (← int? y))))
  | _ => none
def ppinst? : Sexp → Option PInst
  | .list [.atom "pinst", n, c, rh, rv, l] => do pure ⟨← bytes? n, ← pto? c, ← bool? rh, ← bool? rv, ← pplace? l⟩
  | _ => none
def poutline? : Sexp → Option (Option POutline)
  | .atom "#f" => some none
  | .list [.atom "po", x, y, m] => do pure (some ⟨← ints? x, ← ints? y, ← int? m⟩)
  | _ => none
def passign? : Sexp → Option PAssign
  | .list [.atom "pa", n, c] => do pure ⟨← bytes? n, ← pcross? c⟩
  | _ => none
def playout? : Sexp → Option (Option PLayout)
  | .atom "#f" => some none
  | .list [.atom "play", n, o, .list (.atom "pinsts" :: is), .list (.atom "passigns" :: as), .list (.atom "pcuts" :: cs)] => do
    pure (some ⟨← bytes? n, ← poutline? o, ← is.mapM ppinst?, ← as.mapM passign?, ← cs.mapM pcross1?⟩)
  | _ => none
def pabs? : Sexp → Option (Option PAbs)
  | .atom "#f" => some none
  | .list [.atom "pabs", n, o] => do pure (some ⟨← bytes? n, ← poutline? o⟩)
  | _ => none
def pcell? : Sexp → Option PCell
  | .list [.atom "pcell", n, l, a] => do pure ⟨← bytes? n, ← playout? l, ← pabs? a⟩
  | _ => none
def plib? : Sexp → Option PLib
  | .list (.atom "plib" :: n :: cs) => do pure ⟨← bytes? n, ← cs.mapM pcell?⟩
  | _ => none

def ofPRef : Option PRef → Sexp
  | none => .atom "#f"
  | some r => .list [ofInt r.layer, ofInt r.track]
def ofPCross : Option PCross → Sexp
  | none => .atom "#f"
  | some c => .list [.atom "pc", ofPRef c.track, ofPRef c.cross]
def ofPOutline : Option POutline → Sexp
  | none => .atom "#f"
  | some o => .list [.atom "po", ofInts o.x, ofInts o.y, ofInt o.metals]
def ofPInst (i : PInst) : Sexp :=
  .list [.atom "pinst", ofBytes i.name,
    (match i.cell with | none => .atom "#f" | some none => .atom "none" | some (some .ext) => .atom "ext" | some (some (.loc n)) => .list [.atom "local", ofBytes n]),
    ofBool i.rh, ofBool i.rv,
    (match i.loc with | none => .atom "#f" | some none => .atom "none" | some (some .rel) => .atom "rel" | some (some (.abs x y)) => .list [.atom "abs", ofInt x, ofInt y])]
def ofPLayout : Option PLayout → Sexp
  | none => .atom "#f"
  | some l => .list [.atom "play", ofBytes l.name, ofPOutline l.outline,
      .list (.atom "pinsts" :: l.insts.map ofPInst),
      .list (.atom "passigns" :: l.assigns.map fun a => .list [.atom "pa", ofBytes a.net, ofPCross a.at_]),
      .list (.atom "pcuts" :: l.cuts.map fun c => ofPCross (some c))]
def ofPAbs : Option PAbs → Sexp
  | none => .atom "#f"
  | some a => .list [.atom "pabs", ofBytes a.name, ofPOutline a.outline]
def ofPLib (p : PLib) : Sexp :=
  .list (.atom "plib" :: ofBytes p.domain :: p.cells.map fun c => .list [.atom "pcell", ofBytes c.name, ofPLayout c.layout, ofPAbs c.abs])

def opTExport (args : List Sexp) : String :=
  -- history case `<tlib> <earlier tlib>`: the exporter keeps no state, the earlier wiring does not matter
  match args.take 1 with
  | [a] => match tlib? a with
    | some lib => match exportLib lib with
      | some p => s!"ok {ofPLib p}"
      | none => "err"
    | none => "bad-op"
  | _ => "bad-op"
def opTImport (args : List Sexp) : String :=
  match args with
  | [a] => match plib? a with
    | some p => match importLib p with
      | some lib => s!"ok {ofLib lib}"
      | none => "err"
    | none => "bad-op"
  | _ => "bad-op"
/-- export, then import what was exported -/
def opTRoundtrip (args : List Sexp) : String :=
  match args with
  | [a] => match tlib? a with
    | some lib => match exportLib lib with
      | some p => match importLib p with
        | some l2 => s!"ok {ofLib l2}"
        | none => "err-import"
      | none => "err"
    | none => "bad-op"
  | _ => "bad-op"

end L21.Driver.TP
