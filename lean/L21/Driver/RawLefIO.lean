import L21.Driver.RawProtoIO
import L21.Model.RawLef
namespace L21.Driver
open L21 Sexp RawProto RawLef

def lshapeS : LShape → Sexp
  | .rect p q => .list [.atom "rect", ofInt p.x, ofInt p.y, ofInt q.x, ofInt q.y]
  | .polygon ps => .list (.atom "polygon" :: ps.map (fun p => .list [ofInt p.x, ofInt p.y]))
def llayerS (l : LLayer) : Sexp := .list (.atom "layer" :: ofBytes l.name :: l.geoms.map lshapeS)
def lmacroS (m : LMacro) : Sexp :=
  .list [.atom "macro", ofBytes m.name,
    .list (.atom "pins" :: m.pins.map (fun p => .list (.atom "pin" :: ofBytes p.name :: p.layers.map llayerS))),
    .list (.atom "obs" :: m.obs.map llayerS)]
def llibS (l : LLib) : Sexp := .list (.atom "leflib" :: ofInt l.dbu :: l.macros.map lmacroS)

/-- the harness names layer number n `L<n>` -/
def rlibLayerName (k : Determ.LKey) : Option (List Nat) := some (("L" ++ toString k.1).toUTF8.toList.map (·.toNat))

/-- `c20.abs2lef <rlib>`: `LefExporter::export` of a raw library -/
def opAbs2Lef (args : List Sexp) : String :=
  match args with
  | [s] => match rlib? s with
    | some (_, lib) =>
      (match exportRawLib rlibLayerName lib with
       | .ok l => s!"ok {llibS l}"
       | .err => "err"
       | .panic => "panic")
    | none => "bad-op"
  | _ => "bad-op"

end L21.Driver
