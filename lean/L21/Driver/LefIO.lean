import L21.Driver.Sexp
import L21.Model.LefLex
import L21.Model.LefEnum
/- Line-protocol glue for the LEF lexer and keyword models. -/
namespace L21.Driver
open L21 Sexp

def utf8Text? (s : Sexp) : Option (List Char) := do
  let bs ← bytes? s
  let ba := ByteArray.mk (bs.map (·.toUInt8)).toArray
  let str ← String.fromUTF8? ba
  pure str.toList

def ttName : LefLex.TT → String
  | .name => "name" | .number => "number" | .semi => "semi" | .string => "string"

def opLefLex (args : List Sexp) : String :=
  match args with
  | [a] => match utf8Text? a with
    | none => "bad-op"
    | some cs => match LefLex.lex LefLex.isWsUnicode cs with
      | .ok ts => s!"ok {Sexp.list (ts.map fun t => Sexp.list [.atom (ttName t.ttype), ofNat t.start, ofNat t.stop])}"
      | .err => "err"
  | _ => "bad-op"

def opLefEnum (args : List Sexp) : String :=
  match args with
  | [.atom tbl, a] => match utf8Text? a, L21.Gen.lefEnums.lookup tbl with
    | some cs, some t => match LefEnum.parse t cs with
      | some v => s!"ok {v}"
      | none => "ok none"
    | _, _ => "bad-op"
  | _ => "bad-op"

def opLefDbu (args : List Sexp) : String :=
  match args with
  | [m, s] => match int? m, nat? s with
    | some m, some s => if s > 28 then "bad-op" else match LefEnum.dbuTryNew ⟨m, s⟩ with
      | some v => s!"ok {v}"
      | none => "err"
    | _, _ => "bad-op"
  | _ => "bad-op"

end L21.Driver
