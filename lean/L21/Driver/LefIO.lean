import L21.Driver.Sexp
import L21.Model.LefLex
import L21.Model.LefEnum
import L21.Model.Lef
import L21.Model.LefWrite
import L21.Model.LefState
/- Line-protocol glue for the LEF lexer and keyword models. -/
namespace L21.Driver
open L21 Sexp

def utf8Text? (s : Sexp) : Option (List Char) := do
  let bs ← bytes? s
  let ba := ByteArray.mk (bs.map (·.toUInt8)).toArray
  let str ← String.fromUTF8? ba
  pure str.toList

def ttName : LefLex.TT → String
  | .name => "name" | .number => "number" | .semi => "semi" | .string => "string"

def opLefLex (args : List Sexp) : String :=
  match args with
  | [a] => match utf8Text? a with
    | none => "bad-op"
    | some cs => match LefLex.lex LefLex.isWsUnicode cs with
      | .ok ts => s!"ok {Sexp.list (ts.map fun t => Sexp.list [.atom (ttName t.ttype), ofNat t.start, ofNat t.stop])}"
      | .err => "err"
  | _ => "bad-op"

def charsBytes (cs : List Char) : Sexp :=
  ofBytes ((String.ofList cs).toUTF8.toList.map (·.toNat))

/-- `lef.states`: the error report at every parser position -/
def opLefStates (args : List Sexp) : String :=
  match args with
  | [a] => match utf8Text? a with
    | none => "bad-op"
    | some cs => match LefLex.reports LefLex.isWsUnicode cs with
      | .ok rs =>
        if rs.any (·.isNone) then "panic" else
        s!"ok {Sexp.list (rs.filterMap fun r => r.map fun (r : LefLex.Report) =>
          Sexp.list [charsBytes r.lineContent, ofNat r.lineNum, charsBytes r.token, ofNat r.pos])}"
      | .err => "err"
  | _ => "bad-op"

def opLefEnum (args : List Sexp) : String :=
  match args with
  | [.atom tbl, a] => match utf8Text? a, L21.Gen.lefEnums.lookup tbl with
    | some cs, some t => match LefEnum.parse t cs with
      | some v => s!"ok {v}"
      | none => "ok none"
    | _, _ => "bad-op"
  | _ => "bad-op"

def opLefDbu (args : List Sexp) : String :=
  match args with
  | [m, s] => match int? m, nat? s with
    | some m, some s => if s > 28 then "bad-op" else match LefEnum.dbuTryNew ⟨m, s⟩ with
      | some v => s!"ok {v}"
      | none => "err"
    | _, _ => "bad-op"
  | _ => "bad-op"

end L21.Driver

/-! canonical printing of a LEF library (shared format with harness/src/props/lef.rs: `lib_s`) -/
namespace L21.Driver.LefP
open L21 L21.Sexp L21.Lef

def sStr (s : Str) : Sexp := ofBytes ((String.ofList s).toUTF8.toList.map (·.toNat))
def sDec (d : Dec) : Sexp := let n := d.norm; .atom s!"d{n.mant}e{n.scale}"
def sOpt {α : Type} (f : α → Sexp) : Option α → Sexp
  | none => .atom "#f"
  | some a => f a
def sEnum (s : String) : Sexp := .atom s
def sPt (p : Pt) : List Sexp := [sDec p.x, sDec p.y]
def sPts (ps : List Pt) : List Sexp := ps.map fun p => .list (sPt p)
def sShape : Shape → Sexp
  | .rect m a b => .list ([.atom "rect", sOpt sDec m] ++ sPt a ++ sPt b)
  | .polygon m ps => .list ([.atom "poly", sOpt sDec m] ++ sPts ps)
  | .path m ps => .list ([.atom "path", sOpt sDec m] ++ sPts ps)
def sGeom : Geometry → Sexp
  | .shape s => sShape s
  | .iterate s p => .list [.atom "iter", sShape s, sDec p.numx, sDec p.numy, sDec p.spacex, sDec p.spacey]
def sLg (l : LayerGeoms) : Sexp :=
  .list [.atom "lg", sStr l.layerName, sOpt ofBool l.exceptPgNet,
    sOpt (fun s => match s with | Spacing.spacing d => .list [.atom "sp", sDec d] | .drw d => .list [.atom "drw", sDec d]) l.spacing,
    sOpt sDec l.width, .list (.atom "geoms" :: l.geometries.map sGeom),
    .list (.atom "vias" :: l.vias.map fun v => .list ([sStr v.name] ++ sPt v.pt))]
def sProps (ps : List Prop') : Sexp := .list (.atom "props" :: ps.map fun p => .list [sStr p.name, sStr p.value])
def sPort (p : Port) : Sexp := .list (.atom "port" :: sOpt sEnum p.cls :: p.layers.map sLg)
def sPin (p : Pin) : Sexp :=
  .list [.atom "pin", sStr p.name, sOpt (fun d => .list [.atom "dir", sEnum d.1, ofBool d.2]) p.direction, sOpt sEnum p.use_,
    sOpt sEnum p.shape, sOpt sEnum p.antennaModel,
    .list (.atom "ant" :: p.antennaAttrs.map fun a => .list [sStr a.key, sDec a.val, sOpt sStr a.layer]),
    sOpt sStr p.taperRule, sOpt sStr p.supplySensitivity, sOpt sStr p.groundSensitivity, sOpt sStr p.mustJoin, sOpt sStr p.netExpr,
    sProps p.properties, .list (.atom "ports" :: p.ports.map sPort)]
def sMacro (m : Macro) : Sexp :=
  .list [.atom "macro", sStr m.name, sOpt (fun c => .list [.atom "cls", sEnum c.1, sOpt sEnum c.2.1, ofBool c.2.2]) m.cls,
    sOpt (fun f => .list [.atom "foreign", sStr f.cell, sOpt (fun p => .list (sPt p)) f.pt, sOpt sEnum f.orient]) m.foreign,
    sOpt (fun p => .list (sPt p)) m.origin, sOpt (fun s => .list [sDec s.1, sDec s.2]) m.size,
    sOpt (fun s => .list (s.map sEnum)) m.symmetry, sOpt sStr m.site, sOpt sEnum m.source, sOpt sStr m.eeq, ofBool m.fixedMask,
    sProps m.properties,
    sOpt (fun d => .list (.atom "density" :: d.map fun l => .list (.atom "dl" :: sStr l.layerName ::
      l.rects.map fun r => .list ([.atom "dr"] ++ sPt r.p1 ++ sPt r.p2 ++ [sDec r.value])))) m.density,
    .list (.atom "obs" :: m.obs.map sLg), .list (.atom "pins" :: m.pins.map sPin)]
def sViaShape : ViaShape → Sexp
  | .rect m a b => .list ([.atom "vrect", sOpt sDec m] ++ sPt a ++ sPt b)
  | .polygon m ps => .list ([.atom "vpoly", sOpt sDec m] ++ sPts ps)
def d2 (p : Dec × Dec) : Sexp := .list [sDec p.1, sDec p.2]
def d4 (p : Dec × Dec × Dec × Dec) : Sexp := .list [sDec p.1, sDec p.2.1, sDec p.2.2.1, sDec p.2.2.2]
def sVia (v : ViaDef) : Sexp :=
  .list [.atom "via", sStr v.name, ofBool v.isDefault,
    match v.data with
    | .fixed r ls => .list (.atom "fixed" :: sOpt sDec r :: ls.map fun l => .list (.atom "vl" :: sStr l.layerName :: l.shapes.map sViaShape))
    | .generated g => .list [.atom "gen", sStr g.rule, d2 g.cutSize, .list [sStr g.layers.1, sStr g.layers.2.1, sStr g.layers.2.2],
        d2 g.cutSpacing, d4 g.enclosure, sOpt d2 g.rowcol, sOpt (fun p => .list (sPt p)) g.origin, sOpt d4 g.offset]]
def sSite (s : Site) : Sexp :=
  .list [.atom "site", sStr s.name, sEnum s.cls, d2 s.size, sOpt (fun l => .list (l.map sEnum)) s.symmetry]
def sUnits (u : Units) : Sexp :=
  .list [.atom "units", sOpt ofInt u.dbu, sOpt sDec u.time, sOpt sDec u.cap, sOpt sDec u.res, sOpt sDec u.power, sOpt sDec u.current,
    sOpt sDec u.voltage, sOpt sDec u.freq]
def sPropDef : PropDef → Sexp
  | .str o n v => .list [.atom "pstr", sEnum o, sStr n, sOpt sStr v]
  | .real o n v r => .list [.atom "preal", sEnum o, sStr n, sOpt sDec v, sOpt d2 r]
  | .int o n v r => .list [.atom "pint", sEnum o, sStr n, sOpt sDec v, sOpt d2 r]
def sChar (c : Char) : Sexp := sStr [c]
def sLib (l : Lib) : Sexp :=
  .list [.atom "lib", sOpt sDec l.version, sOpt sEnum l.namesCaseSensitive, sOpt sEnum l.noWireExt,
    sOpt (fun p => .list [sChar p.1, sChar p.2]) l.busBitChars, sOpt sChar l.dividerChar, sOpt sUnits l.units, ofBool l.fixedMask,
    sOpt sEnum l.clearance, sOpt sDec l.mfgGrid, sOpt sEnum l.useMinSpacing,
    .list (.atom "propdefs" :: l.propDefs.map sPropDef),
    .list (.atom "exts" :: l.extensions.map fun e => .list [sStr e.1, sStr e.2]),
    .list (.atom "vias" :: l.vias.map sVia), .list (.atom "sites" :: l.sites.map sSite), .list (.atom "macros" :: l.macros.map sMacro)]

/-- number tokens whose decimal reading the model covers: at most 28 fractional digits and a
    mantissa below 2^96 with all written digits (beyond that rust_decimal rounds; not modelled) -/
def numberInDomain (t : Str) : Bool :=
  let body := match t with | '-' :: r => r | '+' :: r => r | r => r
  let digits := body.filter LefLex.isDigit
  let frac := (body.dropWhile (· != '.')).filter LefLex.isDigit
  let m : Nat := digits.foldl (fun acc c => acc * 10 + (c.toNat - '0'.toNat)) 0
  (body.all fun c => LefLex.isDigit c || c == '.') → (frac.length ≤ 28 && m < 2 ^ 96)

def opLefParse (args : List Sexp) : String :=
  match args with
  | [a] => match L21.Driver.utf8Text? a with
    | none => "bad-op"
    | some cs =>
      match Lef.tokens cs with
      | none => "err"
      | some ts =>
        if ts.all (fun t => t.tt != .number || numberInDomain t.txt) then
          match Lef.parse cs with
          | some l => s!"ok {sLib l}"
          | none => "err"
        else "unsupported"
  | _ => "bad-op"

def sTok (t : Tok) : Sexp := .list [.atom (L21.Driver.ttName t.tt), sStr t.txt]

/-- text → library (reader model) → tokens of what the writer prints (writer model) -/
def opLefWTokens (args : List Sexp) : String :=
  match args with
  | [a] => match L21.Driver.utf8Text? a with
    | none => "bad-op"
    | some cs =>
      match Lef.tokens cs with
      | none => "err"
      | some ts =>
        if ts.all (fun t => t.tt != .number || numberInDomain t.txt) then
          match Lef.parse cs with
          | none => "err"
          | some l => match Lef.wLib l with
            | some toks => s!"ok {Sexp.list (toks.map sTok)}"
            | none => "err-write"
        else "unsupported"
  | _ => "bad-op"

/-- text → library (reader model) → writer model → reader model again: the write→read loop of C05
    entirely inside the models (the theorem `c05_read_write_read_partial` says this answers `ok #t`
    whenever the extension data re-lexes to itself) -/
def opLefWr (args : List Sexp) : String :=
  match args with
  | [a] => match L21.Driver.utf8Text? a with
    | none => "bad-op"
    | some cs =>
      match Lef.tokens cs with
      | none => "ok unreadable"
      | some ts =>
        if ts.all (fun t => t.tt != .number || numberInDomain t.txt) then
          match Lef.parse cs with
          | none => "ok unreadable"
          | some l => match Lef.wLib l with
            | none => "err-write"
            | some toks =>
              match Lef.libBody (toks.length + 1) ⟨58, 1⟩ {} toks with
              | none => "err-reread"
              | some l2 => if toString (sLib l2) == toString (sLib l) then "ok #t" else "ok #f"
        else "unsupported"
  | _ => "bad-op"

end L21.Driver.LefP
