import L21.Driver.Sexp
import L21.Model.Layers
namespace L21.Driver
open L21 Sexp Layers

def purpose? : Sexp → Option Purpose
  | .atom "drawing" => some .drawing
  | .atom "pin" => some .pin
  | .atom "label" => some .label
  | .atom "obstruction" => some .obstruction
  | .atom "outline" => some .outline
  | .list [.atom "named", s, k] => do pure (.named (← bytes? s) (← int? k))
  | .list [.atom "other", k] => do pure (.other (← int? k))
  | _ => none

def purposeS : Purpose → String
  | .drawing => "drawing" | .pin => "pin" | .label => "label" | .obstruction => "obstruction" | .outline => "outline"
  | .named s k => s!"(named {ofBytes s} {k})"
  | .other k => s!"(other {k})"

def i16? (s : Sexp) : Option Int := (int? s).bind fun v => if -32768 ≤ v ∧ v ≤ 32767 then some v else none

def addPairs : Layer → List Sexp → Option (Option Layer)
  | l, [] => some (some l)
  | l, .list [n, q] :: rest => do
    let n ← i16? n
    let q ← purpose? q
    match l.addPurpose n q with
    | some l' => addPairs l' rest
    | none => pure none
  | _, _ => none

/-- one operation: (new table, answer) or `none` for a malformed operation -/
def layersStep (ls : Layers.Layers) : Sexp → Option (Layers.Layers × String)
  | .list (.atom "add" :: num :: name :: pairs) => do
    let n ← i16? num
    let nm ← (match name with | .atom "#f" => some none | s => (bytes? s).map some)
    match ← addPairs ⟨n, nm, [], []⟩ pairs with
    | some l => let r := ls.add l; pure (r.1, toString r.2)
    | none => pure (ls, "err")
  | .list [.atom "goi", a, b] => do
    match ls.getOrInsert (← i16? a) (← i16? b) with
    | some (ls', k, q) => pure (ls', s!"(k {k} {purposeS q})")
    | none => pure (ls, "err")
  | .list [.atom "addp", k, n, q] => do
    let k ← nat? k
    let l ← ls.slots[k]?
    match l.addPurpose (← i16? n) (← purpose? q) with
    | some l' => pure ({ ls with slots := setSlot ls.slots k l' }, "ok")
    | none => pure (ls, "err")
  | .list [.atom "num", k, q] => do
    let l ← ls.slots[← nat? k]?
    pure (ls, match l.num (← purpose? q) with | some n => toString n | none => "#f")
  | .list [.atom "purpose", k, n] => do
    let l ← ls.slots[← nat? k]?
    pure (ls, match l.purpose (← i16? n) with | some p => purposeS p | none => "#f")
  | .list [.atom "keynum", n] => do
    pure (ls, match ls.keynum (← i16? n) with | some k => toString k | none => "#f")
  | .list [.atom "keyname", s] => do
    pure (ls, match ls.keyname (← bytes? s) with | some k => toString k | none => "#f")
  | .list [.atom "getname", k] => do
    let k ← nat? k
    let _ ← ls.slots[k]?
    pure (ls, match ls.getName k with | some s => toString (ofBytes s) | none => "#f")
  | .list [.atom "byname", s] => do
    match ls.importByName (← bytes? s) with
    | some (ls', k) => pure (ls', toString k)
    | none => pure (ls, "err")
  | .list [.atom "nextnum"] => pure (ls, match ls.nextnum with | some n => toString n | none => "err")
  | _ => none

def layersRun : Layers.Layers → List Sexp → List String → Option (List String)
  | _, [], acc => some acc.reverse
  | ls, op :: rest, acc => match layersStep ls op with
    | some (ls', a) => layersRun ls' rest (a :: acc)
    | none => none

/-- `layers.ops <op>...` -/
def opLayersOps (args : List Sexp) : String :=
  match layersRun {} args [] with
  | some out => "ok (" ++ " ".intercalate out ++ ")"
  | none => "bad-op"

end L21.Driver
