import L21.Driver.Sexp
import L21.Model.RawProto
namespace L21.Driver
open L21 Sexp RawProto Geom

def rpPt? : Sexp → Option Pt
  | .list [a, b] => do pure ⟨← int? a, ← int? b⟩
  | _ => none
def rpPts? (xs : List Sexp) : Option (List Pt) := xs.mapM rpPt?
def ptS (p : Pt) : Sexp := .list [ofInt p.x, ofInt p.y]
def optPtS : Option Pt → Sexp
  | none => .atom "#f"
  | some p => ptS p
def optPt? : Sexp → Option (Option Pt)
  | .atom "#f" => some none
  | s => (rpPt? s).map some

def rshape? : Sexp → Option RawProto.Shape
  | .list [.atom "rect", a, b, c, d] => do pure (.rect ⟨← int? a, ← int? b⟩ ⟨← int? c, ← int? d⟩)
  | .list (.atom "polygon" :: ps) => do pure (.polygon (← rpPts? ps))
  | .list (.atom "path" :: w :: ps) => do pure (.path (← rpPts? ps) (← nat? w))
  | _ => none
def rshapeS : RawProto.Shape → Sexp
  | .rect a b => .list [.atom "rect", ofInt a.x, ofInt a.y, ofInt b.x, ofInt b.y]
  | .polygon ps => .list (.atom "polygon" :: ps.map ptS)
  | .path ps w => .list (.atom "path" :: ofNat w :: ps.map ptS)

def optBytes? : Sexp → Option (Option (List Nat))
  | .atom "#f" => some none
  | s => (bytes? s).map some
def optInt? : Sexp → Option (Option Int)
  | .atom "#f" => some none
  | s => (int? s).map some

def layerMap? (xs : List Sexp) : Option (List (Int × List RawProto.Shape)) :=
  xs.mapM (fun m => match m with
    | .list (ln :: ss) => do pure (← int? ln, ← ss.mapM rshape?)
    | _ => none)
def layerMapRS (m : List (Int × List RawProto.Shape)) : List Sexp :=
  m.map (fun e => .list (ofInt e.1 :: e.2.map rshapeS))

def rcell? : Sexp → Option RawProto.Cell
  | .list [.atom "cell", n, lay, ab] => do
    let layout ← (match lay with
      | .atom "#f" => some none
      | .list [.atom "layout", ln, .list (.atom "insts" :: is), .list (.atom "elems" :: es), .list (.atom "annots" :: as)] => do
        let insts ← is.mapM (fun i => match i with
          | .list [.atom "i", nm, c, x, y, r, ang] => do
            pure (⟨← bytes? nm, ← bytes? c, ⟨← int? x, ← int? y⟩, ← bool? r, ← optInt? ang⟩ : RawProto.Inst)
          | _ => none)
        let elems ← es.mapM (fun e => match e with
          | .list [.atom "e", net, l, p, sh] => do
            pure (⟨← optBytes? net, ← int? l, ← int? p, ← rshape? sh⟩ : RawProto.Elem)
          | _ => none)
        let ann ← as.mapM (fun a => match a with
          | .list [.atom "a", s, x, y] => do pure ((← bytes? s, (⟨← int? x, ← int? y⟩ : Pt)))
          | _ => none)
        pure (some (⟨← bytes? ln, insts, elems, ann⟩ : RawProto.Layout))
      | _ => none)
    let abs ← (match ab with
      | .atom "#f" => some none
      | .list [.atom "abs", an, .list (.atom "outline" :: ops), .list (.atom "ports" :: ps), .list (.atom "blockages" :: bs)] => do
        let ports ← ps.mapM (fun p => match p with
          | .list (.atom "port" :: net :: ms) => do pure (⟨← bytes? net, ← layerMap? ms⟩ : RawProto.Port)
          | _ => none)
        pure (some (⟨← bytes? an, ← rpPts? ops, ports, ← layerMap? bs⟩ : RawProto.Abstract))
      | _ => none)
    pure ⟨← bytes? n, layout, abs⟩
  | _ => none

def rlib? : Sexp → Option (LayerTbl × Lib)
  | .list (.atom "rlib" :: n :: u :: .list (.atom "layers" :: rows) :: cells) => do
    let tbl ← rows.mapM (fun r => match r with
      | .list [ln, p, o] => do pure ((← int? ln, ← optInt? p, ← optInt? o) : Int × Option Int × Option Int)
      | _ => none)
    pure (tbl, ⟨← bytes? n, ← nat? u, ← cells.mapM rcell?⟩)
  | _ => none

def rcellS (c : RawProto.Cell) : Sexp :=
  let lay := match c.layout with
    | none => Sexp.atom "#f"
    | some l => .list [.atom "layout", ofBytes l.name,
        .list (.atom "insts" :: l.insts.map (fun i => .list [.atom "i", ofBytes i.name, ofBytes i.cell, ofInt i.loc.x, ofInt i.loc.y, ofBool i.refl,
            (match i.angle with | none => .atom "#f" | some a => ofInt a)])),
        .list (.atom "elems" :: l.elems.map (fun e => .list [.atom "e", (match e.net with | none => .atom "#f" | some n => ofBytes n), ofInt e.layer, ofInt e.purpose, rshapeS e.shape])),
        .list (.atom "annots" :: l.annotations.map (fun a => .list [.atom "a", ofBytes a.1, ofInt a.2.x, ofInt a.2.y]))]
  let ab := match c.abs with
    | none => Sexp.atom "#f"
    | some a => .list [.atom "abs", ofBytes a.name, .list (.atom "outline" :: a.outline.map ptS),
        .list (.atom "ports" :: a.ports.map (fun p => .list (.atom "port" :: ofBytes p.net :: layerMapRS p.shapes))),
        .list (.atom "blockages" :: layerMapRS a.blockages)]
  .list [.atom "cell", ofBytes c.name, lay, ab]

def rlibS (l : Lib) : Sexp := .list (.atom "rlib" :: ofBytes l.name :: ofNat l.units :: l.cells.map rcellS)

def lsS (ls : LayerShapes) : Sexp :=
  .list [.atom "ls", (match ls.layer with | none => .atom "#f" | some (a, b) => .list [ofInt a, ofInt b]),
    .list (.atom "rects" :: ls.rects.map (fun r => .list [.atom "pr", ofBytes r.net, optPtS r.ll, ofInt r.w, ofInt r.h])),
    .list (.atom "polys" :: ls.polys.map (fun p => .list (.atom "pp" :: ofBytes p.net :: p.verts.map ptS))),
    .list (.atom "paths" :: ls.paths.map (fun p => .list (.atom "ppa" :: ofBytes p.net :: ofInt p.width :: p.pts.map ptS)))]

def ls? : Sexp → Option LayerShapes
  | .list [.atom "ls", ly, .list (.atom "rects" :: rs), .list (.atom "polys" :: ps), .list (.atom "paths" :: pas)] => do
    let layer ← (match ly with
      | .atom "#f" => some none
      | .list [a, b] => do pure (some (← int? a, ← int? b))
      | _ => none)
    let rects ← rs.mapM (fun r => match r with
      | .list [.atom "pr", n, ll, w, h] => do pure (⟨← bytes? n, ← optPt? ll, ← int? w, ← int? h⟩ : PRect)
      | _ => none)
    let polys ← ps.mapM (fun p => match p with
      | .list (.atom "pp" :: n :: vs) => do pure (⟨← bytes? n, ← rpPts? vs⟩ : PPoly)
      | _ => none)
    let paths ← pas.mapM (fun p => match p with
      | .list (.atom "ppa" :: n :: w :: vs) => do pure (⟨← bytes? n, ← int? w, ← rpPts? vs⟩ : PPath)
      | _ => none)
    pure ⟨layer, rects, polys, paths⟩
  | _ => none

def pcellS (c : PCell) : Sexp :=
  let lay := match c.layout with
    | none => Sexp.atom "#f"
    | some l => .list [.atom "playout", ofBytes l.name,
        .list (.atom "insts" :: l.insts.map (fun i => .list [.atom "pi", ofBytes i.name,
            (match i.ref with | .none => .atom "#f" | .localRef n => .list [.atom "local", ofBytes n] | .external => .atom "external"),
            optPtS i.origin, ofBool i.refl, ofInt i.rot])),
        .list (.atom "shapes" :: l.shapes.map lsS),
        .list (.atom "annots" :: l.annotations.map (fun a => .list [.atom "pa", ofBytes a.1, optPtS a.2]))]
  let ab := match c.abs with
    | none => Sexp.atom "#f"
    | some a => .list [.atom "pabs", ofBytes a.name,
        (match a.outline with | none => .atom "#f" | some o => .list (.atom "pp" :: ofBytes o.net :: o.verts.map ptS)),
        .list (.atom "ports" :: a.ports.map (fun p => .list (.atom "pport" :: ofBytes p.net :: p.shapes.map lsS))),
        .list (.atom "blockages" :: a.blockages.map lsS)]
  .list [.atom "pcell", ofBytes c.name, lay, ab]
def plibS (p : PLib) : Sexp := .list (.atom "plib" :: ofBytes p.domain :: ofInt p.units :: p.cells.map pcellS)

def pcell? : Sexp → Option PCell
  | .list [.atom "pcell", n, lay, ab] => do
    let layout ← (match lay with
      | .atom "#f" => some none
      | .list [.atom "playout", ln, .list (.atom "insts" :: is), .list (.atom "shapes" :: ss), .list (.atom "annots" :: as)] => do
        let insts ← is.mapM (fun i => match i with
          | .list [.atom "pi", nm, r, o, rf, rot] => do
            let ref ← (match r with
              | .atom "#f" => some PRef.none
              | .atom "external" => some PRef.external
              | .list [.atom "local", x] => (bytes? x).map PRef.localRef
              | _ => none)
            pure (⟨← bytes? nm, ref, ← optPt? o, ← bool? rf, ← int? rot⟩ : PInst)
          | _ => none)
        let ann ← as.mapM (fun a => match a with
          | .list [.atom "pa", s, loc] => do pure ((← bytes? s, ← optPt? loc))
          | _ => none)
        pure (some (⟨← bytes? ln, insts, ← ss.mapM ls?, ann⟩ : PLayout))
      | _ => none)
    let abs ← (match ab with
      | .atom "#f" => some none
      | .list [.atom "pabs", an, o, .list (.atom "ports" :: ps), .list (.atom "blockages" :: bs)] => do
        let outline ← (match o with
          | .atom "#f" => some none
          | .list (.atom "pp" :: nn :: vs) => do pure (some (⟨← bytes? nn, ← rpPts? vs⟩ : PPoly))
          | _ => none)
        let ports ← ps.mapM (fun p => match p with
          | .list (.atom "pport" :: net :: lss) => do pure (⟨← bytes? net, ← lss.mapM ls?⟩ : PPort)
          | _ => none)
        pure (some (⟨← bytes? an, outline, ports, ← bs.mapM ls?⟩ : PAbs))
      | _ => none)
    pure ⟨← bytes? n, layout, abs⟩
  | _ => none
def plib? : Sexp → Option PLib
  | .list (.atom "plib" :: d :: u :: cells) => do pure ⟨← bytes? d, ← int? u, ← cells.mapM pcell?⟩
  | _ => none

def opRawProtoExport (args : List Sexp) : String :=
  match args with
  | [s] => match rlib? s with
    | some (tbl, lib) => (match exportLib tbl lib with | .ok p => s!"ok {plibS p}" | .err => "err")
    | none => "bad-op"
  | _ => "bad-op"
def opRawProtoImport (args : List Sexp) : String :=
  match args with
  | [s] => match plib? s with
    | some p => (match importLib p with | .ok l => s!"ok {rlibS l}" | .err => "err")
    | none => "bad-op"
  | _ => "bad-op"

end L21.Driver
