import L21.Model.LefState
import L21.Props.C11
/-
C11 — "… never panics, indexes inside a multi-byte character … including while building the
error report."

`Model/LefState.lean` models `LefParser::state` and the lexer bookkeeping (`line`, `linestart`,
`pos`) it reads.  Here:

* `c11_state_lexer_same_tokens`   the bookkeeping lexer yields exactly the tokens of `lex`
                                   (so every token theorem of `Props/C11.lean` applies to it);
* `c11_linestart_is_boundary`     at every parser position `linestart` is the byte length of a
                                   prefix of the text — the start of the text or the byte right
                                   behind a line feed;
* `c11_error_report_never_panics` for EVERY text and EVERY parser position, none of the three
                                   slices of `state()` is out of range or inside a character;
* `c11_error_line_bounded`        the reported line has at most 200 characters, none a line feed.
-/
namespace L21.LefLex

/-! ### byte slicing -/

theorem dropBytes_append (pre suf : List Char) : dropBytes (bytes pre) (pre ++ suf) = some suf := by
  induction pre with
  | nil => simp [bytes, dropBytes]
  | cons c r ih =>
    have hc := utf8Size_pos c
    rw [bytes_cons]
    obtain ⟨k, hk⟩ : ∃ k, c.utf8Size + bytes r = k + 1 := ⟨c.utf8Size + bytes r - 1, by omega⟩
    rw [hk]
    simp only [List.cons_append, dropBytes]
    have : c.utf8Size ≤ k + 1 := by omega
    simp only [this, if_true]
    have : k + 1 - c.utf8Size = bytes r := by omega
    rw [this]; exact ih

theorem takeBytes_append (mid suf : List Char) : takeBytes (bytes mid) (mid ++ suf) = some mid := by
  induction mid with
  | nil => simp [bytes, takeBytes]
  | cons c r ih =>
    have hc := utf8Size_pos c
    rw [bytes_cons]
    obtain ⟨k, hk⟩ : ∃ k, c.utf8Size + bytes r = k + 1 := ⟨c.utf8Size + bytes r - 1, by omega⟩
    rw [hk]
    simp only [List.cons_append, takeBytes]
    have : c.utf8Size ≤ k + 1 := by omega
    simp only [this, if_true]
    have : k + 1 - c.utf8Size = bytes r := by omega
    rw [this, ih]; rfl

theorem sliceBytes_of_isSub {src : List Char} {t : Tok} (h : IsSub 0 src t) :
    ∃ mid, mid ≠ [] ∧ sliceBytes t.start t.stop src = some mid := by
  obtain ⟨pre, mid, suf, e, hm, hs, he⟩ := h
  refine ⟨mid, hm, ?_⟩
  unfold sliceBytes
  have h1 : t.start ≤ t.stop := by omega
  simp only [h1, if_true]
  have h2 : t.start = bytes pre := by omega
  have h3 : t.stop - t.start = bytes mid := by omega
  rw [h2, e, List.append_assoc, dropBytes_append]
  simp only [Option.bind_some]
  rw [show t.stop - bytes pre = bytes mid by omega]
  exact takeBytes_append mid suf

/-! ### the bookkeeping lexer has the tokens of `lexFrom` -/

def projOut : Out (List STok × EndSt) → Out (List Tok)
  | .ok (ts, _) => .ok (ts.map (·.tok))
  | .err => .err

theorem lexStFrom_tokens (isWs : Char → Bool) (fuel pos line ls : Nat) (src : List Char) :
    projOut (lexStFrom isWs fuel pos line ls src) = lexFrom isWs fuel pos src := by
  fun_induction lexStFrom isWs fuel pos line ls src <;> simp_all [lexFrom, projOut] <;> grind [projOut]

/-- The bookkeeping lexer yields exactly the tokens of `lex`. -/
theorem c11_state_lexer_same_tokens (isWs : Char → Bool) (src : List Char) :
    projOut (lexSt isWs src) = lex isWs src :=
  lexStFrom_tokens isWs _ 0 1 0 src

/-! ### `linestart` is always the byte length of a prefix -/

def LsOk (pos ls0 : Nat) (src : List Char) (x : Nat) : Prop :=
  x = ls0 ∨ ∃ pre suf, src = pre ++ suf ∧ x = pos + bytes pre

def Good (pos ls : Nat) (src : List Char) : Out (List STok × EndSt) → Prop
  | .err => True
  | .ok (ts, e) => (∀ t ∈ ts, LsOk pos ls src t.linestart) ∧ LsOk pos ls src e.linestart ∧ e.pos = pos + bytes src

theorem LsOk.shift {pos ls x : Nat} {rest : List Char} (skipped : List Char)
    (h : LsOk (pos + bytes skipped) ls rest x) : LsOk pos ls (skipped ++ rest) x := by
  rcases h with h | ⟨pre, suf, e, hx⟩
  · exact Or.inl h
  · exact Or.inr ⟨skipped ++ pre, suf, by rw [e, List.append_assoc], by rw [hx, bytes_append]; omega⟩

theorem LsOk.shift_nl {pos ls x : Nat} {rest : List Char} (skipped : List Char)
    (h : LsOk (pos + bytes skipped) (pos + bytes skipped) rest x) : LsOk pos ls (skipped ++ rest) x := by
  rcases h with h | ⟨pre, suf, e, hx⟩
  · exact Or.inr ⟨skipped, rest, rfl, h⟩
  · exact Or.inr ⟨skipped ++ pre, suf, by rw [e, List.append_assoc], by rw [hx, bytes_append]; omega⟩

theorem Good.shift {pos ls : Nat} {rest : List Char} {r} (skipped : List Char)
    (h : Good (pos + bytes skipped) ls rest r) : Good pos ls (skipped ++ rest) r := by
  cases r with
  | err => trivial
  | ok p =>
    obtain ⟨ts, e⟩ := p
    obtain ⟨h1, h2, h3⟩ := h
    exact ⟨fun t ht => (h1 t ht).shift skipped, h2.shift skipped, by rw [h3, bytes_append]; omega⟩

theorem Good.shift_nl {pos ls : Nat} {rest : List Char} {r} (skipped : List Char)
    (h : Good (pos + bytes skipped) (pos + bytes skipped) rest r) : Good pos ls (skipped ++ rest) r := by
  cases r with
  | err => trivial
  | ok p =>
    obtain ⟨ts, e⟩ := p
    obtain ⟨h1, h2, h3⟩ := h
    exact ⟨fun t ht => (h1 t ht).shift_nl skipped, h2.shift_nl skipped, by rw [h3, bytes_append]; omega⟩

theorem Good.cons {pos ls : Nat} {src : List Char} {ts e} (t : STok) (ht : t.linestart = ls)
    (h : Good pos ls src (.ok (ts, e))) : Good pos ls src (.ok (t :: ts, e)) := by
  obtain ⟨h1, h2, h3⟩ := h
  refine ⟨?_, h2, h3⟩
  intro u hu
  rcases List.mem_cons.1 hu with rfl | hu
  · exact Or.inl ht
  · exact h1 u hu

theorem Good.step {pos ls pos' : Nat} {src rest : List Char} {r} (skipped : List Char)
    (hs : src = skipped ++ rest) (hp : pos' = pos + bytes skipped) (h : Good pos' ls rest r) :
    Good pos ls src r := by
  subst hs hp; exact h.shift skipped

theorem spanP_eq {p : Char → Bool} {l a b : List Char} (h : spanP p l = (a, b)) : l = a ++ b := by
  have := spanP_append p l; rw [h] at this; exact this.symm

theorem lexStFrom_good (isWs : Char → Bool) (fuel pos line ls : Nat) (src : List Char) :
    Good pos ls src (lexStFrom isWs fuel pos line ls src) := by
  fun_induction lexStFrom isWs fuel pos line ls src
  case case1 => trivial
  case case2 => exact ⟨by simp, Or.inl rfl, by simp [bytes]⟩
  case case3 c rest _ run pos' hnl ih =>
    have hr : rest = run.1 ++ run.2 := by simp [run, hnl]
    have hs : c :: rest = (c :: run.1) ++ run.2 := by rw [List.cons_append, ← hr]
    rw [hs]
    exact Good.shift_nl (c :: run.1) (by simpa [pos', bytes_cons, Nat.add_assoc] using ih)
  case case4 c rest _ run pos' hnl ih =>
    have hr : rest = run.1 ++ run.2 := by simp [run, hnl, spanP_append]
    have hs : c :: rest = (c :: run.1) ++ run.2 := by rw [List.cons_append, ← hr]
    exact Good.step (c :: run.1) hs (by simp [pos', bytes_cons, Nat.add_assoc]) ih
  case case5 c rest _ hc ts e hx ih =>
    rw [hx] at ih
    have h1 : c = ';' := by simpa using hc
    exact Good.cons _ rfl (Good.step [c] rfl (by simp [bytes, h1, utf8_semi]) ih)
  case case6 => trivial
  case case7 c rest _ _ hc body after hsp closing rest' hcl stop ts e hx ih =>
    rw [hx] at ih
    have h1 : c = '"' := by simpa using hc
    have hr := spanP_eq hsp
    have ha : after = closing ++ rest' := by
      cases after with
      | nil => simp at hcl; obtain ⟨rfl, rfl⟩ := hcl; rfl
      | cons q r => simp at hcl; obtain ⟨rfl, rfl⟩ := hcl; rfl
    refine Good.cons _ rfl (Good.step (c :: (body ++ closing)) ?_ ?_ ih)
    · rw [hr, ha]; simp
    · simp [stop, bytes_cons, bytes_append, h1, utf8_quote]; omega
  case case8 => trivial
  case case9 c rest _ _ _ hc body after hsp ih =>
    have h1 : c = '#' := by simpa using hc
    have hr := spanP_eq hsp
    exact Good.step (c :: body) (by rw [hr]; simp) (by simp [bytes_cons, h1, utf8_hash]; omega) ih
  case case10 c rest _ _ _ _ _ body after hsp stop ts e hx ih =>
    rw [hx] at ih
    have hr := spanP_eq hsp
    exact Good.cons _ rfl (Good.step (c :: body) (by rw [hr]; simp) (by simp [stop, bytes_cons]; omega) ih)
  case case11 => trivial
  case case12 c rest _ _ _ _ _ body after hsp stop ts e hx ih =>
    rw [hx] at ih
    have hr := spanP_eq hsp
    exact Good.cons _ rfl (Good.step (c :: body) (by rw [hr]; simp) (by simp [stop, bytes_cons]; omega) ih)
  case case13 => trivial

/-- At every parser position `linestart` is the byte length of a prefix of the text (a character
    boundary inside the text), and at end of input `pos` is the byte length of the whole text. -/
theorem c11_linestart_is_boundary (isWs : Char → Bool) (src : List Char) (ts : List STok) (e : EndSt)
    (h : lexSt isWs src = .ok (ts, e)) :
    (∀ t ∈ ts, ∃ pre suf, src = pre ++ suf ∧ t.linestart = bytes pre) ∧
    (∃ pre suf, src = pre ++ suf ∧ e.linestart = bytes pre) ∧ e.pos = bytes src := by
  have hg := lexStFrom_good isWs (src.length + 1) 0 1 0 src
  unfold lexSt at h
  rw [h] at hg
  obtain ⟨h1, h2, h3⟩ := hg
  have conv : ∀ x, LsOk 0 0 src x → ∃ pre suf, src = pre ++ suf ∧ x = bytes pre := by
    intro x hx
    rcases hx with rfl | ⟨pre, suf, e', hx⟩
    · exact ⟨[], src, rfl, by simp [bytes]⟩
    · exact ⟨pre, suf, e', by omega⟩
  exact ⟨fun t ht => conv _ (h1 t ht), conv _ h2, by omega⟩

theorem lineContentAt_some {src pre suf : List Char} (e : src = pre ++ suf) :
    lineContentAt src (bytes pre) = some ((suf.takeWhile (· != '\n')).take maxCharsInLine) := by
  unfold lineContentAt
  rw [e, dropBytes_append]; rfl

/-- **The error report never panics.**  For every text and every parser position — each token as
    the look-ahead, and end of input — the slices taken by `LefParser::state` (`txt(next_tok)` and
    `src[linestart..]`) are in range and on character boundaries. -/
theorem c11_error_report_never_panics (isWs : Char → Bool) (src : List Char) (rs : List (Option Report))
    (h : reports isWs src = .ok rs) : ∀ r ∈ rs, r ≠ none := by
  unfold reports at h
  cases hl : lexSt isWs src with
  | err => simp [hl] at h
  | ok p =>
    obtain ⟨ts, e⟩ := p
    simp only [hl] at h
    injection h with h; subst h
    obtain ⟨h1, ⟨pre, suf, he, hle⟩, _⟩ := c11_linestart_is_boundary isWs src ts e hl
    have htoks : lex isWs src = .ok (ts.map (·.tok)) := by
      rw [← c11_state_lexer_same_tokens, hl]; rfl
    intro r hr
    rcases List.mem_append.1 hr with hr | hr
    · obtain ⟨t, ht, rfl⟩ := List.mem_map.1 hr
      obtain ⟨mid, _, hsl⟩ := sliceBytes_of_isSub
        (c11_tokens_are_substrings isWs src _ htoks t.tok (List.mem_map_of_mem (f := (·.tok)) ht))
      obtain ⟨pre', suf', he', hls⟩ := h1 t ht
      simp [reportAt, hsl, hls, lineContentAt_some he']
    · simp at hr; subst hr
      simp [reportEnd, hle, lineContentAt_some he]

/-- the report builder is total: the lexer's step budget is never the reason for an error -/
theorem c11_reports_total (isWs : Char → Bool) (src : List Char) : ∃ rs, reports isWs src = .ok rs := by
  obtain ⟨ts, hts⟩ := c11_lex_total isWs src
  have := c11_state_lexer_same_tokens isWs src
  unfold reports
  cases hl : lexSt isWs src with
  | err => rw [hl, hts] at this; simp [projOut] at this
  | ok p => exact ⟨_, rfl⟩

/-- the reported line: at most 200 characters, none of them a line feed -/
theorem c11_error_line_bounded (isWs : Char → Bool) (src : List Char) (rs : List (Option Report))
    (h : reports isWs src = .ok rs) : ∀ rep, some rep ∈ rs →
    rep.lineContent.length ≤ 200 ∧ '\n' ∉ rep.lineContent := by
  have key : ∀ (ls : Nat) (lc : List Char), lineContentAt src ls = some lc → lc.length ≤ 200 ∧ '\n' ∉ lc := by
    intro ls lc hlc
    unfold lineContentAt at hlc
    cases hd : dropBytes ls src with
    | none => simp [hd] at hlc
    | some rest =>
      simp [hd] at hlc; subst hlc
      refine ⟨by simp [maxCharsInLine, List.length_take]; omega, ?_⟩
      intro hmem
      have hm2 := List.mem_of_mem_take hmem
      have hall : ∀ (l : List Char), ∀ x ∈ l.takeWhile (· != '\n'), x ≠ '\n' := by
        intro l
        induction l with
        | nil => simp
        | cons a l ih =>
          intro x hx
          simp only [List.takeWhile_cons] at hx
          split at hx
          · rcases List.mem_cons.1 hx with rfl | hx
            · simp_all
            · exact ih x hx
          · simp at hx
      exact hall _ _ hm2 rfl
  unfold reports at h
  cases hl : lexSt isWs src with
  | err => simp [hl] at h
  | ok p =>
    obtain ⟨ts, e⟩ := p
    simp only [hl] at h
    injection h with h; subst h
    intro rep hr
    rcases List.mem_append.1 hr with hr | hr
    · obtain ⟨t, _, ht⟩ := List.mem_map.1 hr
      unfold reportAt at ht
      split at ht
      · rename_i txt lc _ hlc
        injection ht with ht; subst ht
        exact key _ _ hlc
      · simp at ht
    · simp at hr
      unfold reportEnd at hr
      cases hlc : lineContentAt src e.linestart with
      | none => simp [hlc] at hr
      | some lc =>
        simp [hlc] at hr; subst hr
        exact key _ _ hlc

/-! non-vacuity: a text with a two-byte and a four-byte character before a line feed, a string
    literal holding a line feed, a comment -/
example : reports isWsUnicode "é𝄞 A\n\"x\ny\" # c\n ;".toList =
    .ok [some ⟨"é𝄞 A".toList, 1, "é𝄞".toList, 6⟩, some ⟨"é𝄞 A".toList, 1, "A".toList, 8⟩,
         some ⟨"\"x".toList, 2, "\"x\ny\"".toList, 14⟩, some ⟨" ;".toList, 3, ";".toList, 21⟩,
         some ⟨" ;".toList, 3, "EOF".toList, 21⟩] := by decide

end L21.LefLex
