import L21.Proofs.Gds
import L21.Proofs.GdsGrammar
/-
C02 — Bytes written for a library are a well-formed GDSII stream with that content.

The record tables are REGENERATED from gds21's source on every run (`L21/Gen/GdsTables.lean`);
the theorems below are re-checked against them.  `Spec.gdsSpecTable` is transcribed from the
GDSII manual.
-/
namespace L21.Gds
open L21

/-- record numbering = the manual's -/
theorem c02_numbering : Gen.gdsRecTypes = Spec.gdsSpecNumbers := by decide
theorem c02_datatypes : Gen.gdsDataTypes = Spec.gdsSpecDataTypes := by decide

/-- every (record type, data type, size rule) the writer uses is the one the manual assigns -/
theorem c02_table_pairs :
    Gen.gdsWriteTable.all (fun r => Spec.gdsSpecTable.any (fun s => s.1 == r.1 && s.2.2.1 == r.2.1 && s.2.2.2 == r.2.2.1)) = true := by
  decide

/-- … and the payload layout the writer emits is the one that data type and size rule imply -/
theorem c02_table_layouts : Gen.gdsWriteTable.all (fun r => Spec.layoutOk r.2.1 r.2.2.1 r.2.2.2) = true := by
  decide

theorem lookupWrite_layout (rt dt : Nat) (ls : LenSpec) (pk : PK) (h : lookupWrite rt = some (dt, ls, pk)) :
    Spec.layoutOk dt ls pk = true ∧
    Spec.gdsSpecTable.any (fun s => s.1 == rt && s.2.2.1 == dt && s.2.2.2 == ls) = true := by
  unfold lookupWrite at h
  cases hf : Gen.gdsWriteTable.find? (fun r => r.1 == rt) with
  | none => simp [hf] at h
  | some row =>
    simp [hf] at h
    have hm := List.mem_of_find?_eq_some hf
    have hp := List.find?_some hf
    have h1 := List.all_eq_true.1 c02_table_layouts row hm
    have h2 := List.all_eq_true.1 c02_table_pairs row hm
    obtain ⟨a, b, c, d⟩ := row
    simp at h hp
    obtain ⟨rfl, rfl, rfl⟩ := h
    subst hp
    exact ⟨h1, h2⟩

/-- Framing of one record: four header bytes (big-endian total length, record type, data type)
    followed by the payload; the length field is even, at least four, at most 65535, and equals the
    number of bytes actually present; the (record, data type, size rule) triple is the manual's. -/
theorem c02_framing_record (r : Rec) (bs : Bytes) (h : encRecord r = .ok bs) :
    ∃ dt ls body, bs = [bs.length / 256, bs.length % 256, r.rt, dt] ++ body ∧
      bs.length = 4 + body.length ∧ bs.length % 2 = 0 ∧ 4 ≤ bs.length ∧ bs.length ≤ 65535 ∧
      Spec.gdsSpecTable.any (fun s => s.1 == r.rt && s.2.2.1 == dt && s.2.2.2 == ls) = true := by
  unfold encRecord at h
  cases hl : lookupWrite r.rt with
  | none => simp [hl] at h
  | some row =>
    obtain ⟨dt, ls, pk⟩ := row
    simp only [hl] at h
    obtain ⟨hlay, hspec⟩ := lookupWrite_layout r.rt dt ls pk hl
    by_cases hf : payloadFits pk r.pl = true
    · simp only [hf, Bool.not_true, Bool.false_eq_true, if_false] at h
      by_cases hlen : 65535 < payloadLen ls r.pl + 4
      · simp [hlen] at h
      · simp only [hlen, if_false] at h
        cases hb : payloadBytes pk r.pl with
        | none => simp [hb] at h
        | some body =>
          simp only [hb] at h
          have hbl := payloadBytes_length dt ls pk r.pl body hlay hf hb
          have hbs : bs = [(payloadLen ls r.pl + 4) / 256, (payloadLen ls r.pl + 4) % 256, r.rt, dt] ++ body := by
            cases h; rfl
          have hlen' : bs.length = 4 + body.length := by rw [hbs]; simp; omega
          have heven : payloadLen ls r.pl % 2 = 0 := by
            cases pk <;> simp [Spec.layoutOk] at hlay <;> obtain ⟨_, rfl⟩ := hlay <;>
              cases hp : r.pl <;> simp [hp, payloadFits] at hf <;> simp [payloadLen] <;> omega
          refine ⟨dt, ls, body, ?_, hlen', ?_, ?_, ?_, hspec⟩
          · rw [hlen', hbl, Nat.add_comm 4]; exact hbs
          · omega
          · omega
          · omega
    · simp [hf] at h

/-- Framing of the whole stream: the bytes are the concatenation of the frames of the records
    the writer produced, each frame satisfying `c02_framing_record`. -/
theorem c02_framing (rs : List Rec) (bs : Bytes) (h : encRecords rs = .ok bs) :
    ∃ frames : List Bytes, bs = frames.flatten ∧ frames.length = rs.length ∧
      ∀ p ∈ rs.zip frames, encRecord p.1 = .ok p.2 := by
  induction rs generalizing bs with
  | nil => simp [encRecords] at h; subst h; exact ⟨[], rfl, rfl, by simp⟩
  | cons r rest ih =>
    simp only [encRecords] at h
    cases h1 : encRecord r with
    | err => simp [h1] at h
    | ok a =>
      cases h2 : encRecords rest with
      | err => simp [h1, h2] at h
      | ok b =>
        simp [h1, h2] at h; subst h
        obtain ⟨fr, e, hl, hall⟩ := ih b h2
        refine ⟨a :: fr, by simp [e], by simp [hl], ?_⟩
        intro p hp
        simp only [List.zip_cons_cons, List.mem_cons] at hp
        rcases hp with rfl | hp
        · exact h1
        · exact hall p hp

/-- The stream ends with the end-of-library record `00 04 04 00`. -/
theorem c02_ends_with_endlib (l : Library) (bs : Bytes) (h : enc l = .ok bs) :
    ∃ pre, bs = pre ++ [0, 4, 4, 0] := by
  unfold enc libRecs at h
  generalize hrs : ([⟨rHeader, int1 l.version⟩, ⟨rBgnLib, .ints l.dates⟩, ⟨rLibName, .str l.name⟩,
      ⟨rUnits, .reals [l.units.1, l.units.2]⟩] ++ l.structs.flatMap structRecs : List Rec) = rs at h
  clear hrs
  induction rs generalizing bs with
  | nil =>
    have : encRecord ⟨rEndLib, Payload.none⟩ = .ok [0, 4, 4, 0] := by decide
    simp [encRecords, this] at h; subst h; exact ⟨[], rfl⟩
  | cons r rest ih =>
    simp only [List.cons_append, encRecords] at h
    cases h1 : encRecord r with
    | err => simp [h1] at h
    | ok a =>
      cases h2 : encRecords (rest ++ [⟨rEndLib, Payload.none⟩]) with
      | err => simp [h1, h2] at h
      | ok b =>
        simp [h1, h2] at h; subst h
        obtain ⟨pre, e⟩ := ih b h2
        exact ⟨a ++ pre, by rw [e, List.append_assoc]⟩

/-- GRAMMAR, PROVED: for EVERY library, the sequence of record types the writer emits is a sentence of
    the manual's BNF (`Spec.gdsGrammar`, transcribed from the GDSII Stream Format Manual, not from
    the sources): HEADER BGNLIB LIBNAME UNITS {BGNSTR STRNAME {<element>}* ENDSTR}* ENDLIB with every
    element's records in the manual's order (optional records in their slots, STRANS before XY,
    BGNEXTN/ENDEXTN before XY, properties last). -/
theorem c02_grammar (l : Library) : Spec.gdsGrammar ((libRecs l).map (·.rt)) = true :=
  grammar_libRecs l

example : Spec.gdsGrammar [0, 1, 2, 3, 5, 6, 9, 13, 14, 16, 48, 49, 17, 7, 4] = false := by decide  -- extensions after XY: rejected
example : Spec.gdsGrammar [0, 1, 2, 3, 5, 6, 9, 13, 14, 48, 49, 16, 17, 7, 4] = true := by decide

end L21.Gds
