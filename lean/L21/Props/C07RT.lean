import L21.Proofs.RawGdsRT
/-
C07 — a whole cell exported to GDSII and imported back.
-/
namespace L21.RawGds
open L21.Geom L21.Gds

/-- **a whole cell without net names through GDSII and back**: name, every instance in order
    (target cell, location, reflection, angle), every shape in order on its layer and purpose with
    its points and width; no annotation appears -/
theorem c07_cell_roundtrip_nonets (known : List Bytes) (tbl : LabelTbl) (c : Cell) (s : Gds.Struct)
    (h : exportCell tbl c = .ok s) (hn : ∀ e ∈ c.elems, e.net = none) (hk : ∀ i ∈ c.insts, known.contains i.cell = true) :
    importStruct known s = .ok ⟨c.name, c.insts.map eraseName, c.elems.map stripE, []⟩ := by
  simp only [exportCell] at h
  cases h1 : exportInsts c.insts with
  | err => simp [h1] at h
  | ok is =>
    cases h2 : exportElems tbl c.elems with
    | err => simp [h1, h2] at h
    | ok es =>
      simp only [h1, h2, Gds.Out.ok.injEq] at h
      subst h
      simp only [importStruct]
      rw [importP1_insts known c.insts is {} es h1 hk, importP1_elems known tbl c.elems es _ h2 hn]
      simp


/-- **a whole cell through GDSII and back**, net names included: under label separation, every
    instance in order (target, location, reflection, angle), every shape in order on its layer and
    purpose with its points and width, every net name (lower-cased) on the shape that carried it, and
    no stray annotation -/
theorem c07_cell_roundtrip (known : List Bytes) (tbl : LabelTbl) (c : Cell) (s : Gds.Struct)
    (h : exportCell tbl c = .ok s) (hsep : sepOk [] c.elems = true) (hk : ∀ i ∈ c.insts, known.contains i.cell = true) :
    importStruct known s = .ok ⟨c.name, c.insts.map eraseName, c.elems.map finalE, []⟩ := by
  simp only [exportCell] at h
  cases h1 : exportInsts c.insts with
  | err => simp [h1] at h
  | ok is =>
    cases h2 : exportElems tbl c.elems with
    | err => simp [h1, h2] at h
    | ok es =>
      simp only [h1, h2, Gds.Out.ok.injEq] at h
      subst h
      simp only [importStruct]
      rw [importP1_insts known c.insts is {} es h1 hk, importP1_elems_nets known tbl c.elems es _ h2]
      have := fold_labels c.elems [] [] hsep
      simp only [List.nil_append] at this ⊢
      rw [this]


/-- **the label names its own shape and nothing else** (one step of the label pass) -/
theorem c07_label_names_one (pre post : List Elem) (e : Elem) (annots : List (Bytes × Pt)) (n : Bytes) (q : Pt)
    (hc : shapeContains e.shape q = true) (hnone : e.net = none) (hsep : ∀ x ∈ pre ++ post, hits e.layer q x = false) :
    applyText (pre ++ e :: post) annots (n, e.layer, q) = (pre ++ { e with net := some (lowerAscii n) } :: post, annots) :=
  applyText_names_one pre post e annots n q hc hnone hsep

/-- non-vacuity: a named rectangle next to an unnamed one on the same layer, and a named path on another -/
def demoElems : List Elem :=
  [⟨some [118, 100, 100], 1, 0, .rect ⟨0, 0⟩ ⟨4, 4⟩⟩, ⟨none, 1, 0, .rect ⟨10, 0⟩ ⟨14, 4⟩⟩, ⟨some [97], 2, 0, .path [⟨0, 0⟩, ⟨8, 0⟩] 2⟩]
example : sepOk [] demoElems = true := by decide
example : ∃ s, exportCell [(1, some 5), (2, some 5)] ⟨[99], [], demoElems, []⟩ = .ok s ∧
    importStruct [] s = .ok ⟨[99], [], demoElems.map finalE, []⟩ := by
  cases h : exportCell [(1, some 5), (2, some 5)] ⟨[99], [], demoElems, []⟩ with
  | ok s => exact ⟨s, rfl, c07_cell_roundtrip [] _ _ s h (by decide) (by intro i hi; cases hi)⟩
  | err => exact absurd h (by decide)

end L21.RawGds
