import L21.Proofs.GeomInv
import L21.Proofs.GeomCol
/-
C13 — "regardless of vertex order, orientation, starting vertex, … repeated vertices":
the containment query gives the same answer for every way of writing the same polygon down.
-/
namespace L21.Geom

/-- **C13, starting vertex** for the query itself -/
theorem c13_start_vertex (l1 l2 : List Pt) (p : Pt) : polyContains (l2 ++ l1) p = polyContains (l1 ++ l2) p := by
  rw [Bool.eq_iff_iff, c13_poly, c13_poly]; exact InClosed_rotate l1 l2 p

/-- **C13, orientation** for the query itself: clockwise or counter-clockwise vertex order -/
theorem c13_orientation (P : List Pt) (p : Pt) : polyContains P.reverse p = polyContains P p := by
  rw [Bool.eq_iff_iff, c13_poly, c13_poly]; exact InClosed_reverse P p

/-- **C13, repeated vertices** for the query itself -/
theorem c13_repeated_vertex (l1 l2 : List Pt) (v p : Pt) :
    polyContains (l1 ++ v :: v :: l2) p = polyContains (l1 ++ v :: l2) p := by
  rw [Bool.eq_iff_iff, c13_poly, c13_poly]; exact InClosed_dup l1 l2 v p

/-- **C13, collinear vertices** for the query itself: an extra vertex anywhere on an edge -/
theorem c13_collinear_vertex (l1 l2 : List Pt) (a m b p : Pt) (hm : onSeg a b m = true) :
    polyContains (l1 ++ a :: m :: b :: l2) p = polyContains (l1 ++ a :: b :: l2) p := by
  rw [Bool.eq_iff_iff, c13_poly, c13_poly]; exact InClosed_collinear l1 l2 a m b p hm

/-- … and on the closing edge -/
theorem c13_collinear_vertex_closing (l : List Pt) (a m b p : Pt) (hm : onSeg a b m = true) :
    polyContains (b :: l ++ [a, m]) p = polyContains (b :: l ++ [a]) p := by
  rw [Bool.eq_iff_iff, c13_poly, c13_poly]; exact InClosed_collinear_closing l a m b p hm

example : onSeg ⟨0,0⟩ ⟨10,5⟩ ⟨4,2⟩ = true ∧ polyContains [⟨0,0⟩, ⟨4,2⟩, ⟨10,5⟩, ⟨0,6⟩] ⟨3,3⟩ = polyContains [⟨0,0⟩, ⟨10,5⟩, ⟨0,6⟩] ⟨3,3⟩ := by decide

/-- non-vacuity: the three rewritings of one triangle, at an interior point, a boundary point and an outside point -/
example : polyContains [⟨0,0⟩, ⟨10,3⟩, ⟨0,6⟩] ⟨7,3⟩ = true ∧ polyContains [⟨0,6⟩, ⟨10,3⟩, ⟨0,0⟩] ⟨7,3⟩ = true ∧
    polyContains [⟨10,3⟩, ⟨10,3⟩, ⟨0,6⟩, ⟨0,0⟩] ⟨7,3⟩ = true ∧ polyContains [⟨0,6⟩, ⟨0,0⟩, ⟨10,3⟩] ⟨7,4⟩ = false := by decide

end L21.Geom
