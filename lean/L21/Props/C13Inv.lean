import L21.Proofs.GeomInv
/-
C13 — "regardless of vertex order, orientation, starting vertex, … repeated vertices":
the containment query gives the same answer for every way of writing the same polygon down.
(Inserting a vertex in the interior of an edge — collinear vertices — is not proved; see DESIGN.)
-/
namespace L21.Geom

/-- **C13, starting vertex** for the query itself -/
theorem c13_start_vertex (l1 l2 : List Pt) (p : Pt) : polyContains (l2 ++ l1) p = polyContains (l1 ++ l2) p := by
  rw [Bool.eq_iff_iff, c13_poly, c13_poly]; exact InClosed_rotate l1 l2 p

/-- **C13, orientation** for the query itself: clockwise or counter-clockwise vertex order -/
theorem c13_orientation (P : List Pt) (p : Pt) : polyContains P.reverse p = polyContains P p := by
  rw [Bool.eq_iff_iff, c13_poly, c13_poly]; exact InClosed_reverse P p

/-- **C13, repeated vertices** for the query itself -/
theorem c13_repeated_vertex (l1 l2 : List Pt) (v p : Pt) :
    polyContains (l1 ++ v :: v :: l2) p = polyContains (l1 ++ v :: l2) p := by
  rw [Bool.eq_iff_iff, c13_poly, c13_poly]; exact InClosed_dup l1 l2 v p

/-- non-vacuity: the three rewritings of one triangle, at an interior point, a boundary point and an outside point -/
example : polyContains [⟨0,0⟩, ⟨10,3⟩, ⟨0,6⟩] ⟨7,3⟩ = true ∧ polyContains [⟨0,6⟩, ⟨10,3⟩, ⟨0,0⟩] ⟨7,3⟩ = true ∧
    polyContains [⟨10,3⟩, ⟨10,3⟩, ⟨0,6⟩, ⟨0,0⟩] ⟨7,3⟩ = true ∧ polyContains [⟨0,6⟩, ⟨0,0⟩, ⟨10,3⟩] ⟨7,4⟩ = false := by decide

end L21.Geom
