import L21.Model.Layers
/-
The layer / purpose tables (`layout21raw::data::{Layer, Layers}`) as a state machine — invariants over EVERY history
of operations.  These tables sit under C06 / C07 / C14 / C16 (every import registers numbers in them, every export
looks numbers up), and a table has a history: it is shared between conversions and edited by users in between.

* `layer_num_persists` / `layer_num_after_history`: a purpose, once registered, never loses its number, whatever
  is registered afterwards (re-using its number for another purpose included) — its number is that of its LAST
  registration.  (Seeded changes C07-m12 / C14-m12 "keep the two lookups in sync" break exactly this.)
* `get_or_insert_fidelity`: on a well-formed table (`WF`: the number index points at layers of that number, every
  layer's two lookups are inverse to each other) `get_or_insert ln pn` returns a key and a purpose that look up
  to exactly (ln, pn) again, and leaves the table well-formed — for every history of `get_or_insert` calls
  (`get_or_insert_history`): what an importer registers, an exporter finds under the same numbers.
* `add_keeps_wf`: adding a layer whose lookups are inverse keeps the table well-formed, also when its number
  is already taken (the index then points at the new layer; the old one keeps its key).
-/
namespace L21.Layers

theorem amGet_insert_same {κ ν : Type} [DecidableEq κ] (m : List (κ × ν)) (k : κ) (v : ν) : amGet (amInsert m k v) k = some v := by
  induction m with
  | nil => simp [amInsert, amGet]
  | cons a r ih =>
    obtain ⟨k', v'⟩ := a
    by_cases h : k' = k
    · simp [amInsert, amGet, h]
    · simp [amInsert, amGet, h, ih]

theorem amGet_insert_other {κ ν : Type} [DecidableEq κ] (m : List (κ × ν)) (k k2 : κ) (v : ν) (h : k2 ≠ k) :
    amGet (amInsert m k v) k2 = amGet m k2 := by
  induction m with
  | nil => simp [amInsert, amGet, Ne.symm h]
  | cons a r ih =>
    obtain ⟨k', v'⟩ := a
    by_cases h1 : k' = k
    · subst h1; simp [amInsert, amGet, Ne.symm h]
    · by_cases h2 : k' = k2
      · subst h2; simp [amInsert, amGet, h1]
      · simp [amInsert, amGet, h1, h2, ih]

theorem addPurpose_eq (l l' : Layer) (m : Int) (q : Purpose) (h : l.addPurpose m q = some l') :
    purposeOk q m = true ∧ l' = { l with purps := amInsert l.purps m q, nums := amInsert l.nums q m } := by
  unfold Layer.addPurpose at h
  split at h
  · rename_i hok; exact ⟨hok, (Option.some.inj h).symm⟩
  · simp at h

/-- one registration: the purpose registered gets the number; every other purpose keeps what it had -/
theorem layer_num_after_add (l l' : Layer) (m : Int) (q p : Purpose) (h : l.addPurpose m q = some l') :
    l'.num p = if p = q then some m else l.num p := by
  obtain ⟨_, rfl⟩ := addPurpose_eq l l' m q h
  by_cases hp : p = q
  · subst hp; simp [Layer.num, amGet_insert_same]
  · simp [Layer.num, hp, amGet_insert_other _ _ _ _ hp]

theorem layer_purpose_after_add (l l' : Layer) (m n : Int) (q : Purpose) (h : l.addPurpose m q = some l') :
    l'.purpose n = if n = m then some q else l.purpose n := by
  obtain ⟨_, rfl⟩ := addPurpose_eq l l' m q h
  by_cases hn : n = m
  · subst hn; simp [Layer.purpose, amGet_insert_same]
  · simp [Layer.purpose, hn, amGet_insert_other _ _ _ _ hn]

/-- **a registered purpose never loses its number** -/
theorem layer_num_persists (l l' : Layer) (m : Int) (q p : Purpose) (h : l.addPurpose m q = some l') (hp : (l.num p).isSome = true) :
    (l'.num p).isSome = true := by
  rw [layer_num_after_add l l' m q p h]; split <;> simp [hp]

/-- a history of registrations (stops at the first refused one, as the `?` in the code does) -/
def addMany : Layer → List (Int × Purpose) → Option Layer
  | l, [] => some l
  | l, (m, q) :: rest => (l.addPurpose m q).bind fun l' => addMany l' rest

/-- the number of the last registration of `p` in a history -/
def lastReg (p : Purpose) : List (Int × Purpose) → Option Int → Option Int
  | [], d => d
  | (m, q) :: rest, d => lastReg p rest (if p = q then some m else d)

/-- **after ANY history of registrations a purpose has the number of its last registration** (or what it had before) -/
theorem layer_num_after_history : ∀ (ops : List (Int × Purpose)) (l l' : Layer) (p : Purpose), addMany l ops = some l' →
    l'.num p = lastReg p ops (l.num p) := by
  intro ops
  induction ops with
  | nil => intro l l' p h; simp only [addMany, Option.some.injEq] at h; subst h; rfl
  | cons a r ih =>
    intro l l' p h
    obtain ⟨m, q⟩ := a
    simp only [addMany] at h
    cases h1 : l.addPurpose m q with
    | none => simp [h1] at h
    | some l1 =>
      simp only [h1, Option.bind_some] at h
      rw [ih l1 l' p h, layer_num_after_add l l1 m q p h1]
      rfl

theorem lastReg_isSome (p : Purpose) : ∀ (ops : List (Int × Purpose)) (d : Option Int), d.isSome = true → (lastReg p ops d).isSome = true := by
  intro ops
  induction ops with
  | nil => intro d h; exact h
  | cons a r ih => intro d h; obtain ⟨m, q⟩ := a; simp only [lastReg]; apply ih; split <;> simp [h]

/-- … in particular it still HAS a number: nothing that holds this purpose becomes un-exportable -/
theorem layer_num_never_forgets (ops : List (Int × Purpose)) (l l' : Layer) (p : Purpose) (h : addMany l ops = some l')
    (hp : (l.num p).isSome = true) : (l'.num p).isSome = true := by
  rw [layer_num_after_history ops l l' p h]; exact lastReg_isSome p ops _ hp

/-! ### well-formed tables and `get_or_insert` -/

/-- the two lookups of a layer are inverse to each other, and an `Other(k)` purpose stands under number k only
    (`add_purpose` refuses anything else; the fields are private in the code) -/
def Layer.Good (l : Layer) : Prop :=
  (∀ n p, l.purpose n = some p ↔ l.num p = some n) ∧ (∀ n k, l.purpose n = some (.other k) → k = n)

/-- the number index points at layers of that number; every layer is `Good` -/
def WF (ls : Layers) : Prop :=
  (∀ n k, ls.keynum n = some k → ∃ l, ls.slots[k]? = some l ∧ l.layernum = n) ∧ (∀ l ∈ ls.slots, l.Good)

theorem good_empty (n : Int) (nm : Option Bytes) : (⟨n, nm, [], []⟩ : Layer).Good := by
  constructor
  · intro a b; simp [Layer.purpose, Layer.num, amGet]
  · intro a b; simp [Layer.purpose, amGet]

/-- registering a fresh purpose under a fresh number keeps a layer `Good` -/
theorem good_add_fresh (l l' : Layer) (n : Int) (p : Purpose) (hg : l.Good) (hn : l.purpose n = none) (hp : l.num p = none)
    (h : l.addPurpose n p = some l') : l'.Good := by
  obtain ⟨hb, ho⟩ := hg
  have hok := (addPurpose_eq l l' n p h).1
  constructor
  · intro n2 p2
    rw [layer_purpose_after_add l l' n n2 p h, layer_num_after_add l l' n p p2 h]
    by_cases h1 : n2 = n
    · subst h1
      by_cases h2 : p2 = p
      · subst h2; simp
      · simp only [if_true, h2, if_false]
        constructor
        · intro e; exact absurd (Option.some.inj e).symm h2
        · intro e; have := (hb n2 p2).2 e; rw [hn] at this; simp at this
    · by_cases h2 : p2 = p
      · subst h2
        simp only [h1, if_false, if_true]
        constructor
        · intro e; have := (hb n2 p2).1 e; rw [hp] at this; simp at this
        · intro e; exact absurd (Option.some.inj e).symm h1
      · simp only [h1, h2, if_false]; exact hb n2 p2
  · intro n2 k
    rw [layer_purpose_after_add l l' n n2 p h]
    by_cases h1 : n2 = n
    · subst h1
      simp only [if_true, Option.some.injEq]
      intro e; subst e
      simpa [purposeOk] using hok
    · simp only [h1, if_false]; exact ho n2 k

theorem add_keeps_wf (ls : Layers) (l : Layer) (h : WF ls) (hb : l.Good) : WF (ls.add l).1 := by
  obtain ⟨h1, h2⟩ := h
  refine ⟨?_, ?_⟩
  · intro n k hk
    simp only [Layers.add, Layers.keynum] at hk ⊢
    by_cases hn : n = l.layernum
    · subst hn
      rw [amGet_insert_same] at hk
      simp only [Option.some.injEq] at hk; subst hk
      exact ⟨l, by simp, rfl⟩
    · rw [amGet_insert_other _ _ _ _ hn] at hk
      obtain ⟨l0, hl0, hnum⟩ := h1 n k hk
      refine ⟨l0, ?_, hnum⟩
      have hlt : k < ls.slots.length := by
        rcases Nat.lt_or_ge k ls.slots.length with h | h
        · exact h
        · rw [List.getElem?_eq_none h] at hl0; simp at hl0
      rw [List.getElem?_append_left hlt]; exact hl0
  · intro x hx
    simp only [Layers.add, List.mem_append, List.mem_singleton] at hx
    rcases hx with hx | rfl
    · exact h2 x hx
    · exact hb

/-- **Import fidelity**: on a well-formed table `get_or_insert ln pn` returns a key and a purpose that look up to
    exactly (ln, pn) again, and the table stays well-formed. -/
theorem get_or_insert_fidelity (ls ls' : Layers) (ln pn : Int) (key : Nat) (q : Purpose) (h : WF ls)
    (hg : ls.getOrInsert ln pn = some (ls', key, q)) :
    WF ls' ∧ ∃ l, ls'.get key = some l ∧ l.layernum = ln ∧ l.num q = some pn := by
  unfold Layers.getOrInsert at hg
  have hstep : ∃ ls1 k1, ls.ensure ln = (ls1, k1) ∧ WF ls1 ∧ ∃ l1, ls1.slots[k1]? = some l1 ∧ l1.layernum = ln := by
    unfold Layers.ensure
    cases hk : ls.keynum ln with
    | some k =>
      obtain ⟨l1, hl1, hn1⟩ := h.1 ln k hk
      exact ⟨ls, k, rfl, h, l1, hl1, hn1⟩
    | none =>
      refine ⟨(ls.add ⟨ln, none, [], []⟩).1, (ls.add ⟨ln, none, [], []⟩).2, rfl, add_keeps_wf ls _ h (good_empty ln none), ⟨ln, none, [], []⟩, ?_, rfl⟩
      simp [Layers.add]
  obtain ⟨ls1, k1, he, hwf1, l1, hl1, hn1⟩ := hstep
  rw [he] at hg
  simp only [Layers.purposeAt, hl1] at hg
  have hgood : l1.Good := hwf1.2 l1 (List.mem_of_getElem? hl1)
  cases hp : l1.purpose pn with
  | some p =>
    simp only [hp, Option.some.injEq, Prod.mk.injEq] at hg
    obtain ⟨rfl, rfl, rfl⟩ := hg
    exact ⟨hwf1, l1, hl1, hn1, (hgood.1 pn _).1 hp⟩
  | none =>
    simp only [hp] at hg
    cases ha : l1.addPurpose pn (.other pn) with
    | none => simp [ha] at hg
    | some l2 =>
      simp only [ha, Option.some.injEq, Prod.mk.injEq] at hg
      obtain ⟨rfl, rfl, rfl⟩ := hg
      have hno : l1.num (.other pn) = none := by
        cases hx : l1.num (.other pn) with
        | none => rfl
        | some n =>
          have h1 := (hgood.1 n (.other pn)).2 hx
          have h2 := hgood.2 n pn h1
          subst h2
          rw [hp] at h1; simp at h1
      have hg2 : l2.Good := good_add_fresh l1 l2 pn (.other pn) hgood hp hno ha
      have hlt : k1 < ls1.slots.length := by
        rcases Nat.lt_or_ge k1 ls1.slots.length with h | h
        · exact h
        · rw [List.getElem?_eq_none h] at hl1; simp at hl1
      have hn2 : l2.layernum = ln := by
        obtain ⟨_, rfl⟩ := addPurpose_eq l1 l2 pn _ ha; exact hn1
      refine ⟨⟨?_, ?_⟩, l2, by simp [Layers.get, setSlot, hlt], hn2, ?_⟩
      · intro n k hk
        simp only [Layers.keynum] at hk
        obtain ⟨l0, hl0, hnum⟩ := hwf1.1 n k hk
        by_cases hkk : k = k1
        · subst hkk
          rw [hl1] at hl0; simp only [Option.some.injEq] at hl0; subst hl0
          exact ⟨l2, by simp [setSlot, hlt], by rw [hn2, ← hnum, hn1]⟩
        · exact ⟨l0, by simp [setSlot, List.getElem?_set, Ne.symm hkk, hl0], hnum⟩
      · intro x hx
        simp only [setSlot] at hx
        rcases List.mem_or_eq_of_mem_set hx with hx | rfl
        · exact hwf1.2 x hx
        · exact hg2
      · rw [layer_num_after_add l1 l2 pn (.other pn) (.other pn) ha]; simp

/-- a history of importer registrations -/
def getOrInsertMany : Layers → List (Int × Int) → Option (Layers × List (Nat × Purpose))
  | ls, [] => some (ls, [])
  | ls, (ln, pn) :: rest =>
    (ls.getOrInsert ln pn).bind fun (ls1, k, q) => (getOrInsertMany ls1 rest).map fun (ls2, out) => (ls2, (k, q) :: out)

/-- **every history of `get_or_insert` calls keeps the table well-formed** -/
theorem get_or_insert_history : ∀ (reqs : List (Int × Int)) (ls ls' : Layers) (out : List (Nat × Purpose)), WF ls →
    getOrInsertMany ls reqs = some (ls', out) → WF ls' := by
  intro reqs
  induction reqs with
  | nil => intro ls ls' out h hg; simp only [getOrInsertMany, Option.some.injEq, Prod.mk.injEq] at hg; rw [← hg.1]; exact h
  | cons a r ih =>
    intro ls ls' out h hg
    obtain ⟨ln, pn⟩ := a
    simp only [getOrInsertMany] at hg
    cases h1 : ls.getOrInsert ln pn with
    | none => simp [h1] at hg
    | some t =>
      obtain ⟨ls1, k, q⟩ := t
      simp only [h1, Option.bind_some] at hg
      cases h2 : getOrInsertMany ls1 r with
      | none => simp [h2] at hg
      | some t2 =>
        obtain ⟨ls2, o2⟩ := t2
        simp only [h2, Option.map_some, Option.some.injEq, Prod.mk.injEq] at hg
        rw [← hg.1]
        exact ih ls1 ls2 o2 (get_or_insert_fidelity ls ls1 ln pn k q h h1).1 h2

/-- the name index points at layers of that name -/
def WFN (ls : Layers) : Prop := ∀ s k, ls.keyname s = some k → ∃ l, ls.slots[k]? = some l ∧ l.name = some s

theorem nextnumGo_free (ls : Layers) : ∀ (f : Nat) (k n : Int), ls.nextnumGo f k = some n → ls.keynum n = none := by
  intro f
  induction f with
  | zero => intro k n h; simp [Layers.nextnumGo] at h
  | succ f ih =>
    intro k n h
    simp only [Layers.nextnumGo] at h
    split at h
    · rename_i hk
      simp only [Option.some.injEq] at h; subst h
      simpa [Layers.keynum, Option.isNone_iff_eq_none] using hk
    · exact ih _ _ h

theorem nextnum_free (ls : Layers) (n : Int) (h : ls.nextnum = some n) : ls.keynum n = none :=
  nextnumGo_free ls _ _ _ h

/-- **Layers are found by the name the LEF gives them, across every history**: `import_layer name` returns a key
    whose layer carries exactly that name, never disturbs the number or name of any layer created before (the new
    layer takes a number nobody has), and keeps both indices consistent. -/
theorem import_by_name_fidelity (ls ls' : Layers) (name : Bytes) (key : Nat) (h : WF ls) (hn : WFN ls)
    (hg : ls.importByName name = some (ls', key)) :
    WF ls' ∧ WFN ls' ∧ ls'.getName key = some name ∧ (∀ (k : Nat) (l : Layer), ls.slots[k]? = some l → ls'.slots[k]? = some l) ∧
    (∀ (m : Int) (k : Nat), ls.keynum m = some k → ls'.keynum m = some k) := by
  unfold Layers.importByName at hg
  cases hk : ls.keyname name with
  | some k =>
    simp only [hk, Option.some.injEq, Prod.mk.injEq] at hg
    obtain ⟨rfl, rfl⟩ := hg
    obtain ⟨l, hl, hname⟩ := hn name k hk
    exact ⟨h, hn, by simp [Layers.getName, Layers.get, hl, hname], fun _ _ h => h, fun _ _ h => h⟩
  | none =>
    simp only [hk] at hg
    cases hx : ls.nextnum with
    | none => simp [hx] at hg
    | some n =>
      simp only [hx, Option.some.injEq] at hg
      have hfree := nextnum_free ls n hx
      have hls : ls' = (ls.add ⟨n, some name, [], []⟩).1 := by rw [hg]
      have hkey : key = ls.slots.length := by
        have := congrArg Prod.snd hg; simpa [Layers.add] using this.symm
      subst hls
      refine ⟨add_keeps_wf ls _ h (good_empty n (some name)), ?_, ?_, ?_, ?_⟩
      · intro s k hsk
        simp only [Layers.add, Layers.keyname] at hsk ⊢
        by_cases hs : s = name
        · subst hs
          rw [amGet_insert_same] at hsk
          simp only [Option.some.injEq] at hsk; subst hsk
          exact ⟨⟨n, some s, [], []⟩, by simp, rfl⟩
        · rw [amGet_insert_other _ _ _ _ hs] at hsk
          obtain ⟨l0, hl0, hnm⟩ := hn s k hsk
          have hlt : k < ls.slots.length := by
            rcases Nat.lt_or_ge k ls.slots.length with h | h
            · exact h
            · rw [List.getElem?_eq_none h] at hl0; simp at hl0
          exact ⟨l0, by rw [List.getElem?_append_left hlt]; exact hl0, hnm⟩
      · subst hkey; simp [Layers.getName, Layers.get, Layers.add]
      · intro k l hl
        have hlt : k < ls.slots.length := by
          rcases Nat.lt_or_ge k ls.slots.length with h | h
          · exact h
          · rw [List.getElem?_eq_none h] at hl; simp at hl
        simp only [Layers.add]
        rw [List.getElem?_append_left hlt]; exact hl
      · intro m k hmk
        simp only [Layers.add, Layers.keynum] at hmk ⊢
        have hne : m ≠ n := by intro e; subst e; simp [Layers.keynum] at hfree; rw [hfree] at hmk; simp at hmk
        rw [amGet_insert_other _ _ _ _ hne]; exact hmk


/-- a later `get_or_insert` never changes what an earlier registration looks up to -/
theorem get_or_insert_preserves (ls ls' : Layers) (ln pn : Int) (key : Nat) (q : Purpose) (h : WF ls)
    (hg : ls.getOrInsert ln pn = some (ls', key, q)) (k : Nat) (p : Purpose) (spec : Int × Int)
    (hs : ls.layerspec k p = some spec) : ls'.layerspec k p = some spec := by
  unfold Layers.getOrInsert at hg
  -- step 1: `ensure` keeps every slot
  have hens : ∀ (k : Nat) (l : Layer), ls.slots[k]? = some l → (ls.ensure ln).1.slots[k]? = some l := by
    intro k l hl
    unfold Layers.ensure
    cases hk : ls.keynum ln with
    | some _ => simpa using hl
    | none =>
      have hlt : k < ls.slots.length := by
        rcases Nat.lt_or_ge k ls.slots.length with h | h
        · exact h
        · rw [List.getElem?_eq_none h] at hl; simp at hl
      simp only [Layers.add]
      rw [List.getElem?_append_left hlt]; exact hl
  have hwf1 : WF (ls.ensure ln).1 := by
    unfold Layers.ensure
    cases hk : ls.keynum ln with
    | some _ => simpa using h
    | none => exact add_keeps_wf ls _ h (good_empty ln none)
  generalize (ls.ensure ln).1 = ls1 at hg hens hwf1
  generalize (ls.ensure ln).2 = k1 at hg
  unfold Layers.layerspec at hs ⊢
  cases hl : ls.slots[k]? with
  | none => simp [hl] at hs
  | some l =>
    simp only [hl] at hs
    have hl1 := hens k l hl
    unfold Layers.purposeAt at hg
    cases hk1 : ls1.slots[k1]? with
    | none => simp [hk1] at hg
    | some l1 =>
      simp only [hk1] at hg
      cases hp : l1.purpose pn with
      | some p1 =>
        simp only [hp, Option.some.injEq, Prod.mk.injEq] at hg
        obtain ⟨rfl, _, _⟩ := hg
        simp only [hl1]; exact hs
      | none =>
        simp only [hp] at hg
        cases ha : l1.addPurpose pn (.other pn) with
        | none => simp [ha] at hg
        | some l2 =>
          simp only [ha, Option.some.injEq, Prod.mk.injEq] at hg
          obtain ⟨rfl, _, _⟩ := hg
          by_cases hkk : k = k1
          · subst hkk
            rw [hl1] at hk1; simp only [Option.some.injEq] at hk1; subst hk1
            have hlt : k < ls1.slots.length := by
              rcases Nat.lt_or_ge k ls1.slots.length with h | h
              · exact h
              · rw [List.getElem?_eq_none h] at hl1; simp at hl1
            simp only [setSlot, List.getElem?_set, hlt, if_true]
            have hgood : l.Good := hwf1.2 l (List.mem_of_getElem? hl1)
            have hnum : l2.num p = l.num p := by
              rw [layer_num_after_add l l2 pn (.other pn) p ha]
              by_cases hpe : p = .other pn
              · subst hpe
                -- `other pn` cannot have been registered: it would stand under pn, where nothing stands
                cases hx : l.num (.other pn) with
                | none => simp [hx] at hs
                | some n =>
                  have h1 := (hgood.1 n (.other pn)).2 hx
                  have h2 := hgood.2 n pn h1
                  subst h2; rw [hp] at h1; simp at h1
              · simp [hpe]
            have hln : l2.layernum = l.layernum := by obtain ⟨_, rfl⟩ := addPurpose_eq l l2 pn _ ha; rfl
            simp only [hnum, hln]; exact hs
          · simp only [setSlot, List.getElem?_set, Ne.symm hkk, if_false, hl1]
            simpa using hs

/-- **A whole import**: after ANY sequence of `get_or_insert` calls on a well-formed table, EVERY returned
    (key, purpose) still looks up — through `export_layerspec` — to exactly the numbers it was requested with:
    each shape comes out on the layer / datatype it came in on, whatever was registered in between. -/
theorem import_history_numbers : ∀ (reqs : List (Int × Int)) (ls ls' : Layers) (out : List (Nat × Purpose)), WF ls →
    getOrInsertMany ls reqs = some (ls', out) →
    out.length = reqs.length ∧ ∀ i (hi : i < reqs.length) (ho : i < out.length),
      ls'.layerspec out[i].1 out[i].2 = some reqs[i] := by
  intro reqs
  induction reqs with
  | nil =>
    intro ls ls' out _ hg
    simp only [getOrInsertMany, Option.some.injEq, Prod.mk.injEq] at hg
    obtain ⟨_, rfl⟩ := hg
    exact ⟨rfl, fun i hi => by simp at hi⟩
  | cons a r ih =>
    intro ls ls' out h hg
    obtain ⟨ln, pn⟩ := a
    simp only [getOrInsertMany] at hg
    cases h1 : ls.getOrInsert ln pn with
    | none => simp [h1] at hg
    | some t =>
      obtain ⟨ls1, k, q⟩ := t
      simp only [h1, Option.bind_some] at hg
      cases h2 : getOrInsertMany ls1 r with
      | none => simp [h2] at hg
      | some t2 =>
        obtain ⟨ls2, o2⟩ := t2
        simp only [h2, Option.map_some, Option.some.injEq, Prod.mk.injEq] at hg
        obtain ⟨rfl, rfl⟩ := hg
        obtain ⟨hwf1, l1, hl1, hn1, hq1⟩ := get_or_insert_fidelity ls ls1 ln pn k q h h1
        obtain ⟨hlen, hrest⟩ := ih ls1 ls2 o2 hwf1 h2
        refine ⟨by simp [hlen], ?_⟩
        intro i hi ho
        cases i with
        | zero =>
          simp only [List.getElem_cons_zero]
          -- the first registration survives every later one
          have hfirst : ls1.layerspec k q = some (ln, pn) := by
            simp only [Layers.layerspec, Layers.get] at hl1 ⊢
            simp [hl1, hq1, hn1]
          clear hrest hlen ih
          -- push it through the remaining history
          have hpush : ∀ (r : List (Int × Int)) (a b : Layers) (o : List (Nat × Purpose)), WF a → getOrInsertMany a r = some (b, o) →
              a.layerspec k q = some (ln, pn) → b.layerspec k q = some (ln, pn) := by
            intro r
            induction r with
            | nil => intro a b o _ hg hs; simp only [getOrInsertMany, Option.some.injEq, Prod.mk.injEq] at hg; rw [← hg.1]; exact hs
            | cons x r ih2 =>
              intro a b o hwa hg hs
              obtain ⟨ln2, pn2⟩ := x
              simp only [getOrInsertMany] at hg
              cases e1 : a.getOrInsert ln2 pn2 with
              | none => simp [e1] at hg
              | some t =>
                obtain ⟨a1, k2, q2⟩ := t
                simp only [e1, Option.bind_some] at hg
                cases e2 : getOrInsertMany a1 r with
                | none => simp [e2] at hg
                | some t2 =>
                  obtain ⟨a2, o2'⟩ := t2
                  simp only [e2, Option.map_some, Option.some.injEq, Prod.mk.injEq] at hg
                  rw [← hg.1]
                  exact ih2 a1 a2 o2' (get_or_insert_fidelity a a1 ln2 pn2 k2 q2 hwa e1).1 e2
                    (get_or_insert_preserves a a1 ln2 pn2 k2 q2 hwa e1 k q (ln, pn) hs)
          exact hpush r ls1 ls2 o2 hwf1 h2 hfirst
        | succ j =>
          simp only [List.getElem_cons_succ]
          exact hrest j (by simpa using hi) (by simpa using ho)


/-- a history of `import_layer` calls -/
def importByNameMany : Layers → List Bytes → Option (Layers × List Nat)
  | ls, [] => some (ls, [])
  | ls, s :: rest => (ls.importByName s).bind fun (ls1, k) => (importByNameMany ls1 rest).map fun (ls2, out) => (ls2, k :: out)

theorem getName_of_slot (ls : Layers) (k : Nat) (l : Layer) (h : ls.slots[k]? = some l) : ls.getName k = l.name := by
  simp [Layers.getName, Layers.get, h]

/-- **A whole LEF import**: after ANY sequence of `import_layer` calls on a well-formed layer set, every returned key
    still carries the name it was requested with — geometry lands on the layer named in the LEF, whatever other
    layers were created in between — and the layer set stays well-formed in both indices. -/
theorem import_names_history : ∀ (names : List Bytes) (ls ls' : Layers) (keys : List Nat), WF ls → WFN ls →
    importByNameMany ls names = some (ls', keys) →
    WF ls' ∧ WFN ls' ∧ keys.length = names.length ∧
    (∀ (k : Nat) (l : Layer), ls.slots[k]? = some l → ls'.slots[k]? = some l) ∧
    ∀ i (hi : i < names.length) (hk : i < keys.length), ls'.getName keys[i] = some names[i] := by
  intro names
  induction names with
  | nil =>
    intro ls ls' keys h hn hg
    simp only [importByNameMany, Option.some.injEq, Prod.mk.injEq] at hg
    obtain ⟨rfl, rfl⟩ := hg
    exact ⟨h, hn, rfl, fun _ _ h => h, fun i hi => by simp at hi⟩
  | cons s r ih =>
    intro ls ls' keys h hn hg
    simp only [importByNameMany] at hg
    cases h1 : ls.importByName s with
    | none => simp [h1] at hg
    | some t =>
      obtain ⟨ls1, k⟩ := t
      simp only [h1, Option.bind_some] at hg
      cases h2 : importByNameMany ls1 r with
      | none => simp [h2] at hg
      | some t2 =>
        obtain ⟨ls2, o2⟩ := t2
        simp only [h2, Option.map_some, Option.some.injEq, Prod.mk.injEq] at hg
        obtain ⟨rfl, rfl⟩ := hg
        obtain ⟨hwf1, hwn1, hname1, hkeep1, _⟩ := import_by_name_fidelity ls ls1 s k h hn h1
        obtain ⟨hwf2, hwn2, hlen, hkeep2, hrest⟩ := ih ls1 ls2 o2 hwf1 hwn1 h2
        refine ⟨hwf2, hwn2, by simp [hlen], fun k l hl => hkeep2 k l (hkeep1 k l hl), ?_⟩
        intro i hi hk
        cases i with
        | zero =>
          simp only [List.getElem_cons_zero]
          -- the slot of the first key is kept by everything that follows
          cases hs : ls1.slots[k]? with
          | none => simp [Layers.getName, Layers.get, hs] at hname1
          | some l =>
            rw [getName_of_slot ls1 k l hs] at hname1
            rw [getName_of_slot ls2 k l (hkeep2 k l hs)]; exact hname1
        | succ j =>
          simp only [List.getElem_cons_succ]
          exact hrest j (by simpa using hi) (by simpa using hk)


/-! non-vacuity: the empty table is well-formed; a purpose registered twice keeps its last number; the C07-m12 history -/
example : WF {} := ⟨by intro n k h; simp [Layers.keynum, amGet] at h, by intro l h; simp at h⟩
example : WFN {} := by intro s k h; simp [Layers.keyname, amGet] at h
example : (addMany ⟨68, none, [], []⟩ [(20, .other 20), (5, .label), (20, .drawing)]).bind (fun l => l.num (.other 20)) = some 20 := by decide

end L21.Layers
