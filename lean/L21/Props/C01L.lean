import L21.Proofs.GdsLazy
import L21.Props.C01
import L21.Props.C03
/-
C01 / C03 / C10 — the theorems about the reader hold for the reader AS THE CODE RUNS IT.

`Model/Gds.lean` reads eagerly (tokenise up to the first ENDLIB, then parse the record list);
gds21's `GdsParser` reads lazily with one record of look-ahead.  `c01_lazy_reader_is_model` closes
that modelling gap: the two agree on every byte string, value for value and error for error.  The
corollaries restate the headline theorems for `decLazy`.
-/
namespace L21.Gds

/-- The lazy, one-record-look-ahead reader and the eager model return the same result — library
    or error — for EVERY byte string. -/
theorem c01_lazy_reader_is_model (bs : Bytes) : decLazy bs = dec bs := decLazy_eq_dec bs

/-- C01 for the lazy reader: write then read returns the library that was written. -/
theorem c01_roundtrip_lazy (l : Library) (bs : Bytes) (h : enc l = .ok bs) (hshape : libOk l = true)
    (hrange : (libRecs l).all recOkB = true) : decLazy bs = .ok (canonLib l) := by
  rw [c01_lazy_reader_is_model]; exact c01_roundtrip l bs h hshape hrange

/-- C03 for the lazy reader: bytes after the end-of-library record are never looked at. -/
theorem c03_trailing_lazy (bs t : Bytes) (l : Library) (h : decLazy bs = .ok l) : decLazy (bs ++ t) = .ok l := by
  rw [c01_lazy_reader_is_model] at h ⊢; exact c03_trailing bs t l h

/-- C10 for the lazy reader: a stream that ends before its ENDLIB record is never accepted. -/
theorem c10_needs_endlib_lazy (bs : Bytes) (l : Library) (h : decLazy bs = .ok l) :
    ∃ recs pre pl, tokenize (bs.length / 4 + 1) bs = .ok recs ∧ recs = pre ++ [⟨rEndLib, pl⟩] := by
  rw [c01_lazy_reader_is_model] at h; exact c10_needs_endlib bs l h

/-! non-vacuity: the lazy reader itself, evaluated on a concrete stream (HEADER, BGNLIB, LIBNAME "a",
    UNITS, ENDLIB) and on a stream cut before ENDLIB -/
example : decLazy [0,6,0,2,0,3,0,28,1,2,0,0,0,0,0,0,0,0,0,0,0,0,0,0,0,0,0,0,0,0,0,0,0,0,0,6,2,6,97,0,0,20,3,5,62,65,137,55,75,198,167,240,57,68,184,47,160,155,90,84,0,4,4,0]
    = .ok ⟨[0x61], 3, [0,0,0,0,0,0,0,0,0,0,0,0], (0x3f50624dd2f1a9fc, 0x3e112e0be826d695), []⟩ := by decide
example : decLazy [0,6,0,2,0,3, 0,28,1,2] = .err := by decide

end L21.Gds
