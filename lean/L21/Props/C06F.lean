import L21.Proofs.GdsFlat
/-
C06 — "importing … yields a library whose cells, once flattened, contain exactly the shapes obtained
by flattening the GDSII data itself under GDSII semantics" — as one closed theorem.

`GdsFlat.flatten` (Spec/GdsFlatten.lean) is the specification: written from the GDSII document, it
never mentions the importer.  `RawGds.flattenCell` (Model/RawFlat.lean) is `Layout::flatten` on the
imported library.  `c06_flatten`: whenever the import succeeds and the specification defines the
flattened content of a structure (right-angle references, unit magnification, well-formed elements),
the cell of that name flattens to exactly that list — same shapes, same layers and datatypes, same
coordinates, same order, nothing dropped, nothing added — for every library, every hierarchy depth.
Errors are the other branch of the property: `c06_*` in Props/C06.lean.
-/
namespace L21.RawGds
open L21.Geom L21.Gds L21.Aff L21.GdsFlat

/-- **C06, closed form.** -/
theorem c06_flatten (g : Gds.Library) (lib : Lib) (hn : (g.structs.map (·.name)).Nodup)
    (h : importLib g = .ok lib) (depth : Nat) (name : Bytes) (fs : List FShape)
    (hspec : GdsFlat.flatten g.structs depth AffZ.id name = some fs) :
    flattenCell lib.cells depth AffZ.id name = some (fs.map classify) :=
  flatten_import g lib hn h depth AffZ.id name fs ortho_id hspec

/-- the same seen through any right-angle placement of the top structure -/
theorem c06_flatten_placed (g : Gds.Library) (lib : Lib) (hn : (g.structs.map (·.name)).Nodup)
    (h : importLib g = .ok lib) (depth : Nat) (loc : Pt) (refl : Bool) (q : Nat) (name : Bytes) (fs : List FShape)
    (hspec : GdsFlat.flatten g.structs depth (AffZ.ofInstance loc refl q) name = some fs) :
    flattenCell lib.cells depth (AffZ.ofInstance loc refl q) name = some (fs.map classify) :=
  flatten_import g lib hn h depth _ name fs (ortho_ofInstance loc refl q) hspec

/-- the presentation step keeps layer, datatype and every coordinate: a polygon stays the polygon, and
    only a four-vertex axis-parallel rectangle cycle is presented as the rectangle on its first and third corner -/
theorem c06_classify_keeps (l d : Int) (pts : List Pt) :
    (classify (.poly l d pts)).1 = l ∧ (classify (.poly l d pts)).2.1 = d ∧
    ((classify (.poly l d pts)).2.2 = .polygon pts ∨
      ∃ a b c e, pts = [a, b, c, e] ∧ isRectCycle a b c e = true ∧ (classify (.poly l d pts)).2.2 = .rect a c) := by
  refine ⟨rfl, rfl, ?_⟩
  simp only [classify]
  match pts with
  | [a, b, c, e] =>
    simp only [boundaryShape]
    split
    · rename_i hc
      right
      refine ⟨a, b, c, e, rfl, ?_, rfl⟩
      simp only [isRectCycle, Bool.or_eq_true, Bool.and_eq_true, decide_eq_true_eq]
      rcases hc with ⟨h1, h2, h3, h4⟩ | ⟨h1, h2, h3, h4⟩
      · exact Or.inl ⟨⟨⟨h1, h2⟩, h3⟩, h4⟩
      · exact Or.inr ⟨⟨⟨h1, h2⟩, h3⟩, h4⟩
    · left; rfl
  | [] => left; rfl
  | [_] => left; rfl
  | [_, _] => left; rfl
  | [_, _, _] => left; rfl
  | _ :: _ :: _ :: _ :: _ :: _ => left; rfl

/-! non-vacuity: structure `b` holds a rectangle boundary and a path; `a` places `b` reflected and
    rotated by 90°, and a 2 × 1 array of `b`; the import succeeds, the specification is defined, and both
    sides are evaluated -/
def demoG : Gds.Library :=
  ⟨[0x6c], 3, List.replicate 12 0, (0x3f50624dd2f1a9fc, 0x3e112e0be826d695),
   [⟨[0x61], List.replicate 12 0,
      [.sref [0x62] [100, 200] (some ⟨true, false, false, none, some 0x4056800000000000⟩) ⟨none, none, []⟩,
       .aref [0x62] [0, 0, 60, 0, 0, 40] 2 1 none ⟨none, none, []⟩]⟩,
    ⟨[0x62], List.replicate 12 0,
      [.boundary 5 0 [0, 0, 10, 0, 10, 4, 0, 4, 0, 0] ⟨none, none, []⟩,
       .path 6 1 [0, 0, 8, 0] (some 2) none none none ⟨none, none, []⟩]⟩]⟩

/-- `importLib` with the dependency order supplied: what `importLib` computes once `Dep.order` has answered -/
theorem importLib_of_order (g : Gds.Library) (u : Nat) (order : List Nat) (cs : List Cell)
    (hu : importUnits g.units.2 = some u)
    (hd : g.structs.any (fun s => s.elems.any (fun e => (refsOf e).any (fun n => !(g.structs.map (·.name)).contains n))) = false)
    (ho : Dep.order (fun i => match g.structs[i]? with
      | some s => s.elems.flatMap (fun e => (refsOf e).map (fun n => g.structs.length - 1 - structIndex g.structs.reverse n))
      | none => []) (g.structs.length + 1) (List.range g.structs.length) = .ok order)
    (hc : importStructs [] (order.filterMap (fun i => g.structs[i]?)) = .ok cs) :
    importLib g = .ok ⟨g.name, u, cs⟩ := by
  unfold importLib
  simp only [hu, hd, Bool.false_eq_true, if_false]
  split
  · rename_i order' ho'
    have e : Dep.Res.ok order' = Dep.Res.ok order := ho'.symm.trans ho
    injection e with e; subst e
    rw [hc]
  · rename_i hne
    exact absurd ho (hne order)

theorem order_two (adj : Nat → List Nat) (h0 : adj 0 = [1, 1]) (h1 : adj 1 = []) : Dep.order adj 3 [0, 1] = .ok [1, 0] := by
  simp [Dep.order, Dep.pushAll, Dep.push, h0, h1]

def demoCells : List Cell :=
  [⟨[98], [], [⟨none, 5, 0, .rect ⟨0, 0⟩ ⟨10, 4⟩⟩, ⟨none, 6, 1, .path [⟨0, 0⟩, ⟨8, 0⟩] 2⟩], []⟩,
   ⟨[97], [⟨[], [98], ⟨100, 200⟩, true, some 4636033603912859648⟩, ⟨[98, 91, 48, 93, 91, 48, 93], [98], ⟨0, 0⟩, false, none⟩,
           ⟨[98, 91, 49, 93, 91, 48, 93], [98], ⟨30, 0⟩, false, none⟩], [], []⟩]

theorem demo_import : importLib demoG = .ok ⟨[0x6c], 1, demoCells⟩ :=
  importLib_of_order demoG 1 [1, 0] demoCells (by decide) (by decide) (order_two _ (by decide) (by decide)) (by decide +kernel)

/-- the hypotheses of `c06_flatten` are met by `demoG`, the specification defines six shapes for `a`
    (one rectangle and one path per placement: rotated-and-reflected at (100,200), and at the two
    lattice points), and the theorem's conclusion is the evaluated flatten of the imported library -/
example : ∃ fs, GdsFlat.flatten demoG.structs 3 AffZ.id [0x61] = some fs ∧ fs.length = 6 ∧
    flattenCell demoCells 3 AffZ.id [0x61] = some (fs.map classify) ∧
    fs.map classify = [(5, 0, .rect ⟨100, 200⟩ ⟨104, 210⟩), (6, 1, .path [⟨100, 200⟩, ⟨100, 208⟩] 2),
      (5, 0, .rect ⟨0, 0⟩ ⟨10, 4⟩), (6, 1, .path [⟨0, 0⟩, ⟨8, 0⟩] 2),
      (5, 0, .rect ⟨30, 0⟩ ⟨40, 4⟩), (6, 1, .path [⟨30, 0⟩, ⟨38, 0⟩] 2)] := by
  cases hf : GdsFlat.flatten demoG.structs 3 AffZ.id [0x61] with
  | none => exact absurd hf (by decide +kernel)
  | some fs =>
    have hc := c06_flatten demoG _ (by decide +kernel) demo_import 3 [0x61] fs hf
    refine ⟨fs, rfl, ?_, hc, ?_⟩
    · have : GdsFlat.flatten demoG.structs 3 AffZ.id [0x61] = some fs := hf
      revert this; revert fs; decide +kernel
    · have : GdsFlat.flatten demoG.structs 3 AffZ.id [0x61] = some fs := hf
      revert this; revert fs; decide +kernel

end L21.RawGds
