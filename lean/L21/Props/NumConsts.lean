import L21.Gen.NumConsts
import L21.Model.LefEnum
import L21.Model.LefRaw
import L21.Model.RawLef
/-
Numeric tables of the LEF paths, REGENERATED from the source on every run (`Gen/NumConsts.lean`), against the
constants the hand-written models use.  A change of one of these numbers in the code breaks the obligation here
(and the correspondence of the property whose model uses it).
-/
namespace L21

/-- C04 / C05: the legal DATABASE MICRONS values of the reader model are the source's -/
theorem c04_dbu_table_is_source : LefEnum.legalDbu = Gen.legalDbuSrc := by decide

/-- C16: the importer model's raw units per micron is the source's `dist_scale` -/
theorem c16_dist_scale_is_source : LefRaw.unitsPerMicron = Gen.lefImportDistScaleSrc := by decide

/-- C20 (raw → LEF model): the unit table of `exportUnits` is the source's `match`, filtered by the source's
    legal DATABASE MICRONS list, in the order of the `Units` enum -/
theorem c20_lef_units_from_source :
    Gen.lefExportScaleSrc.map (·.1) = ["Micro", "Nano", "Angstrom", "Pico"] ∧
    ∀ u, u < 4 → RawLef.exportUnits u =
      (match Gen.lefExportScaleSrc[u]? with
       | some (_, sc) => if Gen.legalDbuSrc.contains sc then .ok sc else .err
       | none => .err) := by decide

/-- C16: `LefImporter::import_layer` makes exactly the calls `Layers.importByName` models, in that order:
    look the name up, else take the next free number, build a layer of that number and name, add it -/
theorem c16_import_layer_calls : Gen.lefImportLayerCalls = ["keyname", "nextnum", "Layer::new", "add"] := by decide

end L21
