import L21.Proofs.LefRTLib
import L21.Proofs.LefDec
import L21.Proofs.LefImage
import L21.Proofs.LefLexRT
/-
C05 — LEF write-then-read returns the library that was written: statement level.

`wLib` is the writer model (`LefWriter::write_lib` … `write_geom`, token level, tied to
`LefLibrary::to_string` by the `lef.wtokens` correspondence) and `libBody` the reader model
(`LefParser::parse_lib` …, tied to `LefLibrary::from_str`/`open` by the `lef.parse`
correspondence).  The theorems say: for EVERY library (any number of macros, pins, ports,
geometries, vias, sites, property definitions, extensions, any decimals) that meets the
well-formedness predicate `libOk`, whatever token sequence the writer emits is parsed by the reader
back to exactly that library; and every decimal rust_decimal can hold prints to a text that reads
back as the same (mantissa, scale).
-/
namespace L21.Lef
open L21.LefLex L21.LefEnum L21.Gen

/-- **C05, token level.**  write → read is the identity on well-formed libraries. -/
theorem c05_write_read_tokens (l : Lib) (toks : List Tok) (hw : wLib l = some toks) (h : libOk l = true) :
    libBody (toks.length + 1) ⟨58, 1⟩ {} toks = some l := lib_roundtrip l toks hw h

/-- **C05, per macro**, at any session version admitting the macro's SOURCE statement. -/
theorem c05_macro_write_read (ver : Dec) (m : Macro) (toks T : List Tok) (hw : wMacro ver m = some toks) (h : macroOk m = true) :
    macro_ ver (toks ++ T) = some (m, T) := by
  have hg : (m.source.isSome && v5p4.lt ver) = false := by
    cases hb : (m.source.isSome && v5p4.lt ver) with
    | false => rfl
    | true => simp [wMacro, hb] at hw
  have := wMacro_eq ver m hg
  rw [hw] at this
  cases Option.some.inj this
  refine macro_w ver m T h ?_
  intro hs
  cases hv : v5p4.lt ver with
  | false => rfl
  | true => simp [hs, hv] at hg

/-- **C05, decimals.**  `Display` then `from_str` is the identity on every representable decimal
    (|mantissa| < 2^96, scale ≤ 28): exact value AND scale, so trailing zeros survive. -/
theorem c05_decimal_text_roundtrip (d : Dec) (h : decWf d) : parseDecText (decText d) = some d :=
  parseDecText_decText d h

/-- the `decOk` side conditions inside `libOk` hold for every representable decimal -/
theorem c05_decOk_of_wf (d : Dec) (h : decWf d) : decOk d = true := by
  simp [decOk, parseDecText_decText d h]

/-- version gates: the writer refuses exactly the statements the reader would refuse -/
theorem c05_writer_gate_matches_reader (l : Lib) (toks : List Tok) (hw : wLib l = some toks) :
    (l.namesCaseSensitive.isSome = true → v5p4.lt (l.version.getD ⟨58, 1⟩) = false) ∧
    (∀ m ∈ l.macros, m.source.isSome = true → v5p4.lt (l.version.getD ⟨58, 1⟩) = false) :=
  (wLib_eq l toks hw).2

/-- **C05, the reader's image.**  Every library the reader model returns — for ANY token sequence,
    valid LEF or not — is well-formed (all of `libOk` except the condition on extension data) and is
    accepted by the writer model: "writing it succeeds". -/
theorem c05_reader_image_writable (ts : List Tok) (l : Lib) (h : libBody (ts.length + 1) ⟨58, 1⟩ {} ts = some l) :
    libOkNoExt l = true ∧ ∃ toks, wLib l = some toks := by
  have h0 : lInv ⟨58, 1⟩ {} := by
    refine ⟨by decide, rfl, ?_, ?_⟩
    · intro h; cases h
    · intro m hm; cases hm
  obtain ⟨ver', hok, _, hn, hs⟩ := libBody_img _ _ _ _ _ h h0
  subst_vars
  exact ⟨hok, wLib_some l hn hs⟩

/-- **C05 at full strength, token level** (partial only in the side condition on extension data):
    for every token sequence the reader accepts, the library it returns is written by the writer
    and read back equal.  `hext` says that re-lexing each BEGINEXT block's stored data gives its
    tokens back; it is decidable, checked by the run, and not derived from the lexer theorems. -/
theorem c05_read_write_read_partial (ts : List Tok) (l : Lib) (h : libBody (ts.length + 1) ⟨58, 1⟩ {} ts = some l)
    (hext : l.extensions.all extOk = true) :
    ∃ toks, wLib l = some toks ∧ libBody (toks.length + 1) ⟨58, 1⟩ {} toks = some l := by
  obtain ⟨hok, toks, hw⟩ := c05_reader_image_writable ts l h
  exact ⟨toks, hw, lib_roundtrip l toks hw (libOk_of_noExt l hok hext)⟩

/-- … and without extensions no side condition is left -/
theorem c05_read_write_read_noext (ts : List Tok) (l : Lib) (h : libBody (ts.length + 1) ⟨58, 1⟩ {} ts = some l)
    (hext : l.extensions = []) :
    ∃ toks, wLib l = some toks ∧ libBody (toks.length + 1) ⟨58, 1⟩ {} toks = some l :=
  c05_read_write_read_partial ts l h (by simp [hext])

/-! non-vacuity: a library with every kind of definition meets the hypotheses -/
/-- **C05, text level.**  Whatever white space, line breaks, indentation and comments separate the
    writer's tokens in the text — `L` is ANY layout of them — reading the text gives back the library.
    `L.ok` holds the lexical side conditions: every name, number and string the writer prints is a
    single LEF lexeme of its type (`tokWf`: a name holds no white space and does not start a comment
    or a string, a string holds no `"`), and words are followed by white space.  That the real
    writer's text is such a layout of the model's tokens is the `lef.wtokens` correspondence. -/
theorem c05_write_read_text (l : Lib) (toks : List Tok) (hw : wLib l = some toks) (h : libOk l = true)
    (L : LefLexRT.Layout) (hL : L.ok = true) (hi : L.items.map (·.1) = toks) : parse L.text = some l := by
  rw [LefLexRT.parse_layout L hL, hi]
  exact lib_roundtrip l toks hw h

/-- extension data: token texts joined by one blank each re-lex to those tokens (the `hext`
    condition of `c05_read_write_read_partial` holds for every block of lexemes without ENDEXT) -/
theorem c05_ext_relex (n : Str) (ts : List Tok) (hwf : ts.all LefLexRT.tokWf = true) (hend : ts.all (fun t => !isEndExt t) = true) :
    extOk (n, extJoin ts) = true := by
  have hl : extTokens (extJoin ts) = ts := by
    have := LefLexRT.tokens_layout ⟨⟨[], []⟩, ts.map fun t => (t, ⟨[' '], []⟩)⟩ (by
      simp only [LefLexRT.Layout.ok, LefLexRT.Sep.ok, LefLexRT.segsOk, List.all_nil, Bool.and_true, Bool.true_and]
      clear hend
      induction ts with
      | nil => rfl
      | cons t r ih =>
        simp only [List.all_cons, Bool.and_eq_true] at hwf
        simp [LefLexRT.itemsOk, hwf.1, LefLexRT.Sep.ok, LefLexRT.segsOk, LefLexRT.gapOk, ih hwf.2]
        decide)
    have ht : (LefLexRT.Layout.text ⟨⟨[], []⟩, ts.map fun t => (t, ⟨[' '], []⟩)⟩) = extJoin ts := by
      simp only [LefLexRT.Layout.text, LefLexRT.Sep.text, LefLexRT.segsText, List.append_nil, List.nil_append]
      clear hwf hend this
      induction ts with
      | nil => rfl
      | cons t r ih => simp [LefLexRT.itemsText, extJoin, LefLexRT.Sep.text, LefLexRT.segsText] at ih ⊢; exact ih
    rw [ht] at this
    simp [extTokens, this, List.map_map, Function.comp_def]
  simp [extOk, hl, hend]

def demoPin : Pin :=
  { name := ['A'], ports := [⟨none, [⟨['M', '1'], [.shape (.rect none ⟨⟨0, 0⟩, ⟨0, 0⟩⟩ ⟨⟨15, 1⟩, ⟨-2, 0⟩⟩),
        .iterate (.polygon (some ⟨1, 0⟩) [⟨⟨0, 0⟩, ⟨0, 0⟩⟩, ⟨⟨1, 0⟩, ⟨0, 0⟩⟩, ⟨⟨1, 0⟩, ⟨1, 0⟩⟩]) ⟨⟨2, 0⟩, ⟨3, 0⟩, ⟨5, 1⟩, ⟨5, 1⟩⟩], [], none, none, none⟩]⟩],
    direction := some ("Output", true), use_ := some "Signal", shape := none, antennaModel := none, antennaAttrs := [],
    taperRule := none, supplySensitivity := none, groundSensitivity := none, mustJoin := none, netExpr := none,
    properties := [⟨['k'], ['v']⟩] }
def demoMacro : Macro :=
  { name := ['I', 'N', 'V'], pins := [demoPin], obs := [], cls := some ("Core", some "Spacer", false), foreign := none,
    origin := some ⟨⟨0, 0⟩, ⟨0, 0⟩⟩, size := some (⟨1380, 3⟩, ⟨272, 2⟩), symmetry := some ["X", "Y"], site := some ['u', 'n', 'i', 't'],
    source := none, eeq := none, fixedMask := true, properties := [], density := none }
def demoLib : Lib :=
  { macros := [demoMacro],
    sites := [⟨['u', 'n', 'i', 't'], "Core", (⟨46, 2⟩, ⟨272, 2⟩), some ["Y"]⟩],
    vias := [⟨['v', '1'], true, .fixed (some ⟨5, 1⟩) [⟨['M', '1'], [.rect none ⟨⟨-1, 0⟩, ⟨-1, 0⟩⟩ ⟨⟨1, 0⟩, ⟨1, 0⟩⟩]⟩]⟩],
    version := some ⟨57, 1⟩, busBitChars := some ('[', ']'), dividerChar := some '/',
    units := some { dbu := some 2000, time := some ⟨1, 0⟩ }, mfgGrid := some ⟨5, 3⟩,
    propDefs := [.real "Macro" ['p'] (some ⟨10, 1⟩) (some (⟨0, 0⟩, ⟨2, 0⟩))],
    extensions := [(['"', 't', 'a', 'g', '"'], ['a', ' ', 'b', ' '])] }

example : libOk demoLib = true ∧ (wLib demoLib).isSome = true := by decide +kernel
example : decWf ⟨-123400, 4⟩ := by unfold decWf; decide
/-- the demo library is itself in the reader's image: reading its written form returns it -/
example : ∃ toks, wLib demoLib = some toks ∧ libBody (toks.length + 1) ⟨58, 1⟩ {} toks = some demoLib :=
  match h : wLib demoLib with
  | some toks => ⟨toks, rfl, lib_roundtrip demoLib toks h (by decide +kernel)⟩
  | none => absurd h (by decide +kernel)

end L21.Lef
