import L21.Model.RawProto
import L21.Props.C17
/-
C14 — Raw layout survives the trip through the protobuf schema (model-level theorems; the
whole-library round trip is checked on every run by correspondence and by the oracle).
-/
namespace L21.RawProto
open L21.Geom

/-- a rectangle comes back as the same region, with corners named (min,min) / (max,max) -/
theorem c14_rect_roundtrip (net : Bytes) (p0 p1 : Pt) :
    importRects [exportRect net p0 p1] =
      .ok [(net, .rect ⟨min p0.x p1.x, min p0.y p1.y⟩ ⟨max p0.x p1.x, max p0.y p1.y⟩)] := by
  simp only [importRects, exportRect]
  have e1 : min p0.x p1.x + (max p0.x p1.x - min p0.x p1.x) = max p0.x p1.x := by omega
  have e2 : min p0.y p1.y + (max p0.y p1.y - min p0.y p1.y) = max p0.y p1.y := by omega
  rw [e1, e2]

/-- … and a second trip is the identity on it -/
theorem c14_rect_second_trip (net : Bytes) (p0 p1 : Pt) :
    exportRect net ⟨min p0.x p1.x, min p0.y p1.y⟩ ⟨max p0.x p1.x, max p0.y p1.y⟩ = exportRect net p0 p1 := by
  simp only [exportRect]
  congr 1
  · congr 2 <;> omega
  · omega
  · omega

/-- the same set of points is covered -/
theorem c14_rect_same_region (p0 p1 q : Pt) :
    rectContains ⟨min p0.x p1.x, min p0.y p1.y⟩ ⟨max p0.x p1.x, max p0.y p1.y⟩ q = rectContains p0 p1 q := by
  simp only [rectContains]
  have a1 : min (min p0.x p1.x) (max p0.x p1.x) = min p0.x p1.x := by omega
  have a2 : max (min p0.x p1.x) (max p0.x p1.x) = max p0.x p1.x := by omega
  have a3 : min (min p0.y p1.y) (max p0.y p1.y) = min p0.y p1.y := by omega
  have a4 : max (min p0.y p1.y) (max p0.y p1.y) = max p0.y p1.y := by omega
  rw [a1, a2, a3, a4]

/-- net names: a named shape keeps its name, an unnamed one stays unnamed -/
theorem c14_net_roundtrip (n : Option Bytes) (h : n ≠ some []) : optNet (netStr n) = n := by
  cases n with
  | none => simp [netStr, optNet]
  | some b =>
    have hb : b ≠ [] := fun e => h (by rw [e])
    simp [netStr, optNet, hb]

/-- path and polygon shapes go through unchanged -/
theorem c14_path_roundtrip (net : Bytes) (pts : List Pt) (w : Nat) :
    importPaths [⟨net, (w : Int), pts⟩] = .ok [(net, .path pts w)] := by
  simp [importPaths]

/-- exported cells are listed after the cells they instantiate: the order used by the exporter
    is the C17 orderer's, so every instantiated cell's index occurs strictly earlier -/
theorem c14_export_order (cells : List Cell) (order : List Nat)
    (h : Dep.order (cellAdj cells) (cells.length + 1) (List.range cells.length) = .ok order) :
    order.Nodup ∧ (∀ i, i < cells.length → i ∈ order) ∧
    (∀ l1 x l2, order = l1 ++ x :: l2 → ∀ d ∈ cellAdj cells x, d ∈ l1) := by
  obtain ⟨h1, h2, h3⟩ := Dep.c17_sound (cellAdj cells) _ _ _ h
  refine ⟨h1, ?_, h3⟩
  intro i hi
  exact (h2 i).2 ⟨i, List.mem_range.2 hi, Dep.Reach.refl i⟩

/-- a cyclic instance hierarchy is an export error, never a message -/
theorem c14_cycle_is_error (tbl : LayerTbl) (l : Lib)
    (h : Dep.order (cellAdj l.cells) (l.cells.length + 1) (List.range l.cells.length) = .cycle) :
    exportLib tbl l = .err := by
  unfold exportLib
  by_cases hu : l.units = 3
  · simp [hu]
  · simp [hu, h]

/-- picometre units, which the schema cannot express, are an error -/
theorem c14_pico_is_error (tbl : LayerTbl) (l : Lib) (h : l.units = 3) : exportLib tbl l = .err := by
  simp [exportLib, h]

/-- import of an instance of an undefined (or not-yet-defined) cell is an error -/
theorem c14_undefined_reference (known : List Bytes) (i : PInst) (rest : List PInst) (n : Bytes)
    (hr : i.ref = .localRef n) (hn : known.contains n = false) : importInsts known (i :: rest) = .err := by
  have hn' : ¬ n ∈ known := by
    intro hm; have := List.contains_iff_mem.2 hm; rw [hn] at this; exact absurd this (by simp)
  simp only [importInsts, hr]
  cases i.origin <;> cases importInsts known rest <;> simp [hn']

/-- missing mandatory sub-messages are errors -/
theorem c14_missing_fields (known : List Bytes) (i : PInst) (rest : List PInst)
    (h : i.ref = .none ∨ i.ref = .external ∨ i.origin = none) : importInsts known (i :: rest) = .err := by
  simp only [importInsts]
  rcases h with h | h | h
  · simp [h]
  · simp [h]
  · cases hr : i.ref <;> simp [h]

theorem c14_layerless_shapes (ls : LayerShapes) (h : ls.layer = none) : importLayerShapes ls = .err := by
  simp [importLayerShapes, h]

/-! non-vacuity -/
example : importRects [exportRect [1] ⟨3, -50⟩ ⟨1, -11⟩] = .ok [([1], .rect ⟨1, -50⟩ ⟨3, -11⟩)] := by decide

end L21.RawProto
