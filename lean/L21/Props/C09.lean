import L21.Model.Place
import L21.Props.C17
/-
C09 — Relative placement puts each instance exactly where its relation says.
-/
namespace L21.Place

def Side.opposite : Side → Side
  | .top => .bottom | .bottom => .top | .left => .right | .right => .left

/-- For every side, every orthogonal alignment, both reflections of the placed instance and
    any separation: the placed instance's bounding box touches the reference box on the requested
    side at the requested separation (its opposite edge sits at `ref.edge side ± sep`) and is flush
    with the reference on the alignment edge. -/
theorem c09_touch (ref : Box) (sx sy : Int) (rh rv : Bool) (side align : Side) (sep : Int)
    (horth : align.horiz ≠ side.horiz) :
    let p := resolve ref sx sy rh rv side align sep
    let b := bboxOf p.1 p.2 sx sy rh rv
    b.side side.opposite = ref.side side + (match side with | .top | .right => sep | .left | .bottom => -sep) ∧
    b.side align = ref.side align := by
  cases side <;> cases align <;> simp [Side.horiz] at horth <;>
    cases rh <;> cases rv <;>
    simp [resolve, bboxOf, Box.side, Side.horiz, Side.opposite] <;> omega

/-- the reference's reflection enters only through its bounding box -/
theorem c09_ref_reflection (x y sx sy : Int) (rh rv : Bool) :
    (bboxOf x y sx sy rh rv).x1 - (bboxOf x y sx sy rh rv).x0 = sx ∧
    (bboxOf x y sx sy rh rv).y1 - (bboxOf x y sx sy rh rv).y0 = sy := by
  cases rh <;> cases rv <;> simp [bboxOf] <;> omega

/-- after placement every listed instance has an absolute location, exactly once -/
theorem placeAll_keys (cells : List (Int × Int)) (insts : List Inst) :
    ∀ (order : List Nat) (done out : List (Nat × Int × Int)), placeAll cells insts order done = .ok out →
      out.map (·.1) = done.map (·.1) ++ order := by
  intro order
  induction order with
  | nil => intro done out h; simp [placeAll] at h; subst h; simp
  | cons i rest ih =>
    intro done out h
    simp only [placeAll] at h
    cases hp : placeOne cells insts done i with
    | err => simp [hp] at h
    | ok p =>
      obtain ⟨x, y⟩ := p
      simp only [hp] at h
      have := ih _ _ h
      simp [this]

theorem c09_all_abs (cells : List (Int × Int)) (insts : List Inst) (out : List (Nat × Int × Int))
    (h : run cells insts = .ok out) :
    (out.map (·.1)).Nodup ∧ ∀ i, i < insts.length → i ∈ out.map (·.1) := by
  unfold run at h
  cases ho : Dep.order (adj insts) (insts.length + 1) (List.range insts.length) with
  | ok order =>
    simp only [ho] at h
    have hk := placeAll_keys cells insts order [] out h
    simp at hk
    obtain ⟨h1, h2, _⟩ := Dep.c17_sound (adj insts) _ _ _ ho
    rw [hk]
    refine ⟨h1, ?_⟩
    intro i hi
    exact (h2 i).2 ⟨i, List.mem_range.2 hi, Dep.Reach.refl i⟩
  | cycle => simp [ho] at h
  | fuel => simp [ho] at h

/-- cyclic or self-referential relations are reported as errors -/
theorem c09_cycle (cells : List (Int × Int)) (insts : List Inst)
    (hc : ∃ i, i < insts.length ∧ ∃ x, Dep.Reach (adj insts) i x ∧ ∃ d ∈ adj insts x, Dep.Reach (adj insts) d x) :
    run cells insts = .err := by
  unfold run
  cases ho : Dep.order (adj insts) (insts.length + 1) (List.range insts.length) with
  | ok order =>
    obtain ⟨i, hi, x, rx, d, hd, rd⟩ := hc
    exact absurd ho (Dep.c17_cycle_error (adj insts) _ _ ⟨i, List.mem_range.2 hi, x, rx, d, hd, rd⟩ order)
  | cycle => rfl
  | fuel => rfl

/-- when the reference is placed, an instance's location is a function of the reference's
    location only — not of anything else placed so far (basis of order-independence) -/
theorem c09_depends_only_on_reference (cells : List (Int × Int)) (insts : List Inst)
    (done done' : List (Nat × Int × Int)) (i to : Nat) (side align : Side) (sep : Sep) (c : Nat) (rh rv : Bool)
    (hi : insts[i]? = some ⟨c, .rel to side align sep, rh, rv⟩)
    (hsame : done.find? (fun d => d.1 == to) = done'.find? (fun d => d.1 == to)) :
    placeOne cells insts done i = placeOne cells insts done' i := by
  simp only [placeOne, hi, hsame]

/-! ### arrays -/

theorem c09_array_count (cell count : Nat) (sx sy : Int) : (flattenArr (.leaf cell count sx sy)).length = count := by
  simp [flattenArr]

/-- an array instance expands to `count` copies at successive multiples of the pitch, mirrored
    according to the array's reflection about its origin, then moved to its location -/
theorem c09_array (cell count : Nat) (sx sy x y : Int) (rh rv : Bool) (k : Nat) (hk : k < count) :
    (flattenArrInst (.leaf cell count sx sy) x y rh rv)[k]? =
      some ⟨cell, (if rh then -((k : Int) * sx) else (k : Int) * sx) + x,
                  (if rv then -((k : Int) * sy) else (k : Int) * sy) + y, rh, rv⟩ := by
  simp [flattenArrInst, flattenArr, placeChild, hk]

/-- nested arrays: the outer array places mirrored/translated copies of the flattened inner array -/
theorem c09_array_nested (inner : ArrDef) (count : Nat) (sx sy : Int) :
    flattenArr (.nested inner count sx sy) =
      (List.range count).flatMap (fun (k : Nat) => flattenArrInst inner ((k : Int) * sx) ((k : Int) * sy) false false) := by
  simp [flattenArr, flattenArrInst]

theorem c09_mirror_involutive (c : Child) (rh rv : Bool) :
    placeChild 0 0 rh rv (placeChild 0 0 rh rv c) = c := by
  cases rh <;> cases rv <;> cases c <;> simp [placeChild]

/-! non-vacuity -/
-- a 3×7 cell placed to the right of a reference at the origin, top-aligned, itself reflected horizontally
example : resolve (bboxOf 0 0 3 7 false false) 3 7 true false .right .top 2 = (8, 0) := by decide
example : run [(3, 7)] [⟨0, .rel 1 .right .bottom .none, false, false⟩, ⟨0, .abs 0 0, false, false⟩] = .ok [(1, 0, 0), (0, 3, 0)] := by
  simp [run, Dep.order, Dep.pushAll, Dep.push, adj, placeAll, placeOne, sepValue, resolve, bboxOf, Box.side, Side.horiz, List.range, List.range.loop]

end L21.Place
