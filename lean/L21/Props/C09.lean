import L21.Model.Place
import L21.Props.C17
/-
C09 — Relative placement puts each instance exactly where its relation says.
-/
namespace L21.Place

def Side.opposite : Side → Side
  | .top => .bottom | .bottom => .top | .left => .right | .right => .left

/-- For every side, every orthogonal alignment, both reflections of the placed instance and
    any separation: the placed instance's bounding box touches the reference box on the requested
    side at the requested separation (its opposite edge sits at `ref.edge side ± sep`) and is flush
    with the reference on the alignment edge. -/
theorem c09_touch (ref : Box) (sx sy : Int) (rh rv : Bool) (side align : Side) (sep : Int)
    (horth : align.horiz ≠ side.horiz) :
    let p := resolve ref sx sy rh rv side align sep
    let b := bboxOf p.1 p.2 sx sy rh rv
    b.side side.opposite = ref.side side + (match side with | .top | .right => sep | .left | .bottom => -sep) ∧
    b.side align = ref.side align := by
  cases side <;> cases align <;> simp [Side.horiz] at horth <;>
    cases rh <;> cases rv <;>
    simp [resolve, bboxOf, Box.side, Side.horiz, Side.opposite] <;> omega

/-- the reference's reflection enters only through its bounding box -/
theorem c09_ref_reflection (x y sx sy : Int) (rh rv : Bool) :
    (bboxOf x y sx sy rh rv).x1 - (bboxOf x y sx sy rh rv).x0 = sx ∧
    (bboxOf x y sx sy rh rv).y1 - (bboxOf x y sx sy rh rv).y0 = sy := by
  cases rh <;> cases rv <;> simp [bboxOf] <;> omega

/-- after placement every listed instance has an absolute location, exactly once -/
theorem placeAll_keys (cells : List (Int × Int)) (insts : List Inst) :
    ∀ (order : List Nat) (done out : List (Nat × Int × Int)), placeAll cells insts order done = .ok out →
      out.map (·.1) = done.map (·.1) ++ order := by
  intro order
  induction order with
  | nil => intro done out h; simp [placeAll] at h; subst h; simp
  | cons i rest ih =>
    intro done out h
    simp only [placeAll] at h
    cases hp : placeOne cells insts done i with
    | err => simp [hp] at h
    | ok p =>
      obtain ⟨x, y⟩ := p
      simp only [hp] at h
      have := ih _ _ h
      simp [this]

theorem c09_all_abs (cells : List (Int × Int)) (insts : List Inst) (out : List (Nat × Int × Int))
    (h : run cells insts = .ok out) :
    (out.map (·.1)).Nodup ∧ ∀ i, i < insts.length → i ∈ out.map (·.1) := by
  unfold run at h
  cases ho : Dep.order (adj insts) (insts.length + 1) (List.range insts.length) with
  | ok order =>
    simp only [ho] at h
    have hk := placeAll_keys cells insts order [] out h
    simp at hk
    obtain ⟨h1, h2, _⟩ := Dep.c17_sound (adj insts) _ _ _ ho
    rw [hk]
    refine ⟨h1, ?_⟩
    intro i hi
    exact (h2 i).2 ⟨i, List.mem_range.2 hi, Dep.Reach.refl i⟩
  | cycle => simp [ho] at h
  | fuel => simp [ho] at h

/-- cyclic or self-referential relations are reported as errors -/
theorem c09_cycle (cells : List (Int × Int)) (insts : List Inst)
    (hc : ∃ i, i < insts.length ∧ ∃ x, Dep.Reach (adj insts) i x ∧ ∃ d ∈ adj insts x, Dep.Reach (adj insts) d x) :
    run cells insts = .err := by
  unfold run
  cases ho : Dep.order (adj insts) (insts.length + 1) (List.range insts.length) with
  | ok order =>
    obtain ⟨i, hi, x, rx, d, hd, rd⟩ := hc
    exact absurd ho (Dep.c17_cycle_error (adj insts) _ _ ⟨i, List.mem_range.2 hi, x, rx, d, hd, rd⟩ order)
  | cycle => rfl
  | fuel => rfl

/-- when the reference is placed, an instance's location is a function of the reference's
    location only — not of anything else placed so far (basis of order-independence) -/
theorem c09_depends_only_on_reference (cells : List (Int × Int)) (insts : List Inst)
    (done done' : List (Nat × Int × Int)) (i to : Nat) (side align : Side) (sep : Sep) (c : Nat) (rh rv : Bool)
    (hi : insts[i]? = some ⟨c, .rel to side align sep, rh, rv⟩)
    (hsame : done.find? (fun d => d.1 == to) = done'.find? (fun d => d.1 == to)) :
    placeOne cells insts done i = placeOne cells insts done' i := by
  simp only [placeOne, hi, hsame]

/-- the location a relation graph assigns to an instance, as a relation: absolute locations are
    themselves; a relative location is `resolve` applied to the location of the reference. Nothing
    here mentions an order of processing or of listing. -/
inductive Placed (cells : List (Int × Int)) (insts : List Inst) : Nat → Int × Int → Prop where
  | abs (i c : Nat) (x y : Int) (rh rv : Bool) (h : insts[i]? = some ⟨c, .abs x y, rh, rv⟩) : Placed cells insts i (x, y)
  | rel (i c to : Nat) (side align : Side) (sep : Sep) (rh rv : Bool) (r : Inst) (rx ry sx sy rsx rsy sv : Int)
      (h : insts[i]? = some ⟨c, .rel to side align sep, rh, rv⟩) (hr : insts[to]? = some r)
      (hp : Placed cells insts to (rx, ry)) (hc : cells[c]? = some (sx, sy)) (hrc : cells[r.cell]? = some (rsx, rsy))
      (hs : sepValue cells side.horiz sep = .ok sv) (ha : align.horiz ≠ side.horiz) :
      Placed cells insts i (resolve (bboxOf rx ry rsx rsy r.rh r.rv) sx sy rh rv side align sv)

theorem Placed_unique (cells : List (Int × Int)) (insts : List Inst) (i : Nat) (p q : Int × Int)
    (hp : Placed cells insts i p) (hq : Placed cells insts i q) : p = q := by
  induction hp generalizing q with
  | abs i c x y rh rv h =>
    cases hq with
    | abs _ c' x' y' rh' rv' h' => rw [h] at h'; cases h'; rfl
    | rel _ c' to' side' align' sep' rh' rv' r' rx' ry' sx' sy' rsx' rsy' sv' h' => rw [h] at h'; cases h'
  | rel i c to side align sep rh rv r rx ry sx sy rsx rsy sv h hr hp hc hrc hs ha ih =>
    cases hq with
    | abs _ c' x' y' rh' rv' h' => rw [h] at h'; cases h'
    | rel _ c' to' side' align' sep' rh' rv' r' rx' ry' sx' sy' rsx' rsy' sv' h' hr' hp' hc' hrc' hs' ha' =>
      rw [h] at h'; cases h'
      rw [hr] at hr'; cases hr'
      have := ih _ hp'; cases this
      rw [hc] at hc'; cases hc'
      rw [hrc] at hrc'; cases hrc'
      rw [hs] at hs'; cases hs'
      rfl


def AllPlaced (cells : List (Int × Int)) (insts : List Inst) (done : List (Nat × Int × Int)) : Prop :=
  ∀ d ∈ done, Placed cells insts d.1 (d.2.1, d.2.2)

theorem placeOne_sound (cells : List (Int × Int)) (insts : List Inst) (done : List (Nat × Int × Int)) (i : Nat) (p : Int × Int)
    (hd : AllPlaced cells insts done) (h : placeOne cells insts done i = .ok p) : Placed cells insts i p := by
  unfold placeOne at h
  split at h
  · cases h
  · rename_i inst hi
    obtain ⟨c, loc, rh, rv⟩ := inst
    cases loc with
    | abs x y =>
      simp only [Out.ok.injEq] at h
      subst h
      exact Placed.abs i c x y rh rv hi
    | rel to side align sep =>
      simp only at h
      split at h
      · rename_i r k rx ry sx sy hr hf hc
        split at h
        · rename_i rsx rsy sv hrc hs
          split at h
          · cases h
          · rename_i ha
            simp only [Out.ok.injEq] at h
            subst h
            have hmem := List.mem_of_find?_eq_some hf
            have hkey := List.find?_some hf
            simp only [beq_iff_eq] at hkey
            have hp := hd _ hmem
            simp only at hp hkey
            subst hkey
            exact Placed.rel i c k side align sep rh rv r rx ry sx sy rsx rsy sv hi hr hp hc hrc hs ha
        · cases h
      · cases h

theorem placeAll_sound (cells : List (Int × Int)) (insts : List Inst) : ∀ (order : List Nat) (done out : List (Nat × Int × Int)),
    AllPlaced cells insts done → placeAll cells insts order done = .ok out → AllPlaced cells insts out := by
  intro order
  induction order with
  | nil => intro done out hd h; simp [placeAll] at h; subst h; exact hd
  | cons i rest ih =>
    intro done out hd h
    simp only [placeAll] at h
    cases hp : placeOne cells insts done i with
    | err => simp [hp] at h
    | ok p =>
      obtain ⟨x, y⟩ := p
      simp only [hp] at h
      refine ih _ _ ?_ h
      intro d hdm
      rcases List.mem_append.1 hdm with h1 | h1
      · exact hd d h1
      · simp only [List.mem_singleton] at h1; subst h1
        exact placeOne_sound cells insts done i (x, y) hd hp


/-- **the placement is intrinsic**: every location `place_layout` returns is the one the relation
    graph assigns (`Placed`) — a statement that mentions no order at all -/
theorem c09_result_intrinsic (cells : List (Int × Int)) (insts : List Inst) (out : List (Nat × Int × Int))
    (h : run cells insts = .ok out) : ∀ d ∈ out, Placed cells insts d.1 (d.2.1, d.2.2) := by
  unfold run at h
  split at h
  · exact placeAll_sound cells insts _ [] out (by intro d hd; cases hd) h
  · cases h

/-- **order independence, processing order**: whatever two orders the instances are resolved in
    (any two lists for which resolution succeeds — not only the dependency order the code computes),
    every instance gets the same location -/
theorem c09_order_indep (cells : List (Int × Int)) (insts : List Inst) (o1 o2 : List Nat) (out1 out2 : List (Nat × Int × Int))
    (h1 : placeAll cells insts o1 [] = .ok out1) (h2 : placeAll cells insts o2 [] = .ok out2)
    (i : Nat) (p q : Int × Int) (hp : (i, p) ∈ out1) (hq : (i, q) ∈ out2) : p = q :=
  Placed_unique cells insts i p q
    (placeAll_sound cells insts o1 [] out1 (by intro d hd; cases hd) h1 _ hp)
    (placeAll_sound cells insts o2 [] out2 (by intro d hd; cases hd) h2 _ hq)

/-- an instance with its reference renumbered by `f` -/
def renameInst (f : Nat → Nat) (inst : Inst) : Inst :=
  { inst with loc := match inst.loc with
      | .rel to side align sep => .rel (f to) side align sep
      | l => l }

/-- the relation graph's answer is carried along any renumbering of the instances -/
theorem Placed_rename (cells : List (Int × Int)) (insts insts' : List Inst) (f : Nat → Nat)
    (hmap : ∀ i inst, insts[i]? = some inst → insts'[f i]? = some (renameInst f inst))
    (i : Nat) (p : Int × Int) (h : Placed cells insts i p) : Placed cells insts' (f i) p := by
  induction h with
  | abs i c x y rh rv h => exact Placed.abs (f i) c x y rh rv (by simpa [renameInst] using hmap i _ h)
  | rel i c to side align sep rh rv r rx ry sx sy rsx rsy sv h hr hp hc hrc hs ha ih =>
    exact Placed.rel (f i) c (f to) side align sep rh rv (renameInst f r) rx ry sx sy rsx rsy sv
      (by simpa [renameInst] using hmap i _ h) (hmap to r hr) ih hc (by simpa [renameInst] using hrc) hs ha

/-- **order independence, listing order**: list the same instances in another order (`f` says where
    each went, references renumbered accordingly); if both layouts are placed, instance `i` of the
    first and instance `f i` of the second are at the same location -/
theorem c09_listing_indep (cells : List (Int × Int)) (insts insts' : List Inst) (f : Nat → Nat)
    (hmap : ∀ i inst, insts[i]? = some inst → insts'[f i]? = some (renameInst f inst))
    (out out' : List (Nat × Int × Int)) (h : run cells insts = .ok out) (h' : run cells insts' = .ok out')
    (i : Nat) (p q : Int × Int) (hp : (i, p) ∈ out) (hq : (f i, q) ∈ out') : p = q :=
  Placed_unique cells insts' (f i) p q
    (Placed_rename cells insts insts' f hmap i p (c09_result_intrinsic cells insts out h _ hp))
    (c09_result_intrinsic cells insts' out' h' _ hq)

/-- non-vacuity: two instances listed in both orders -/
example : run [(4, 2)] [⟨0, .abs 10 20, false, false⟩, ⟨0, .rel 0 .right .bottom .none, false, false⟩] = .ok [(0, 10, 20), (1, 14, 20)] ∧
    run [(4, 2)] [⟨0, .rel 1 .right .bottom .none, false, false⟩, ⟨0, .abs 10 20, false, false⟩] = .ok [(1, 10, 20), (0, 14, 20)] := by
  constructor <;> simp [run, Dep.order, Dep.pushAll, Dep.push, adj, placeAll, placeOne, sepValue, resolve, bboxOf, Box.side, Side.horiz, List.range, List.range.loop]

/-! ### arrays -/

theorem c09_array_count (cell count : Nat) (sx sy : Int) : (flattenArr (.leaf cell count sx sy)).length = count := by
  simp [flattenArr]

/-- an array instance expands to `count` copies at successive multiples of the pitch, mirrored
    according to the array's reflection about its origin, then moved to its location -/
theorem c09_array (cell count : Nat) (sx sy x y : Int) (rh rv : Bool) (k : Nat) (hk : k < count) :
    (flattenArrInst (.leaf cell count sx sy) x y rh rv)[k]? =
      some ⟨cell, (if rh then -((k : Int) * sx) else (k : Int) * sx) + x,
                  (if rv then -((k : Int) * sy) else (k : Int) * sy) + y, rh, rv⟩ := by
  simp [flattenArrInst, flattenArr, placeChild, hk]

/-- nested arrays: the outer array places mirrored/translated copies of the flattened inner array -/
theorem c09_array_nested (inner : ArrDef) (count : Nat) (sx sy : Int) :
    flattenArr (.nested inner count sx sy) =
      (List.range count).flatMap (fun (k : Nat) => flattenArrInst inner ((k : Int) * sx) ((k : Int) * sy) false false) := by
  simp [flattenArr, flattenArrInst]

theorem c09_mirror_involutive (c : Child) (rh rv : Bool) :
    placeChild 0 0 rh rv (placeChild 0 0 rh rv c) = c := by
  cases rh <;> cases rv <;> cases c <;> simp [placeChild]

/-! non-vacuity -/
-- a 3×7 cell placed to the right of a reference at the origin, top-aligned, itself reflected horizontally
example : resolve (bboxOf 0 0 3 7 false false) 3 7 true false .right .top 2 = (8, 0) := by decide
example : run [(3, 7)] [⟨0, .rel 1 .right .bottom .none, false, false⟩, ⟨0, .abs 0 0, false, false⟩] = .ok [(1, 0, 0), (0, 3, 0)] := by
  simp [run, Dep.order, Dep.pushAll, Dep.push, adj, placeAll, placeOne, sepValue, resolve, bboxOf, Box.side, Side.horiz, List.range, List.range.loop]

end L21.Place
