import L21.Model.Aff
import Mathlib.Tactic.Ring
/-
C12 — Instance transforms compose like the geometric operations they name (exact layer:
the eight right-angle orientations, integer coordinates).
-/
namespace L21.Aff
open L21.Geom

theorem cosQ_sinQ (q : Nat) : (cosQ q = 1 ∧ sinQ q = 0) ∨ (cosQ q = 0 ∧ sinQ q = 1) ∨
    (cosQ q = -1 ∧ sinQ q = 0) ∨ (cosQ q = 0 ∧ sinQ q = -1) := by
  unfold cosQ sinQ
  have : q % 4 = 0 ∨ q % 4 = 1 ∨ q % 4 = 2 ∨ q % 4 = 3 := by omega
  rcases this with h | h | h | h <;> simp [h]

/-- Placing with (location, reflection, angle) = translate ∘ rotate ∘ reflect, built from the
    library's own elementary transforms with its own `cascade`. -/
theorem c12_from_instance (loc : Pt) (refl : Bool) (q : Nat) :
    AffZ.ofInstance loc refl q =
      (AffZ.translate loc.x loc.y).cascade ((AffZ.rot q).cascade (if refl then AffZ.reflX else AffZ.id)) := by
  cases refl <;> simp [AffZ.ofInstance, AffZ.translate, AffZ.rot, AffZ.cascade, AffZ.reflX, AffZ.id]

/-- … and it moves a point by reflecting first, then rotating, then translating. -/
theorem c12_from_instance_apply (loc : Pt) (refl : Bool) (q : Nat) (p : Pt) :
    (AffZ.ofInstance loc refl q).apply p =
      (AffZ.translate loc.x loc.y).apply ((AffZ.rot q).apply ((if refl then AffZ.reflX else AffZ.id).apply p)) := by
  cases refl <;> simp [AffZ.ofInstance, AffZ.translate, AffZ.rot, AffZ.apply, AffZ.reflX, AffZ.id] <;> ring_nf <;> trivial

/-- Nesting composes exactly: the cascaded transform applied to a point is the parent applied
    to the child's image. -/
theorem c12_cascade_apply (p c : AffZ) (pt : Pt) : (p.cascade c).apply pt = p.apply (c.apply pt) := by
  simp only [AffZ.cascade, AffZ.apply, Pt.mk.injEq]
  constructor <;> ring

theorem c12_cascade_assoc (p c g : AffZ) : (p.cascade c).cascade g = p.cascade (c.cascade g) := by
  simp only [AffZ.cascade, AffZ.mk.injEq]
  refine ⟨?_, ?_, ?_, ?_, ?_, ?_⟩ <;> ring

theorem c12_cascade_id (t : AffZ) : AffZ.id.cascade t = t ∧ t.cascade AffZ.id = t := by
  cases t; simp [AffZ.cascade, AffZ.id]

/-- Reflected placements are mirror images (determinant −1), unreflected ones rotations (+1);
    determinants multiply under nesting, so an odd number of reflections on a path mirrors. -/
theorem c12_det_instance (loc : Pt) (refl : Bool) (q : Nat) :
    (AffZ.ofInstance loc refl q).det = if refl then -1 else 1 := by
  rcases cosQ_sinQ q with ⟨h1, h2⟩ | ⟨h1, h2⟩ | ⟨h1, h2⟩ | ⟨h1, h2⟩ <;>
    cases refl <;> simp [AffZ.ofInstance, AffZ.det, h1, h2]

theorem c12_det_cascade (p c : AffZ) : (p.cascade c).det = p.det * c.det := by
  simp only [AffZ.cascade, AffZ.det]; ring

/-- Right-angle placements are rigid: they preserve squared distances (no scaling, no drift). -/
theorem c12_isometry (loc : Pt) (refl : Bool) (q : Nat) (u v : Pt) :
    let t := AffZ.ofInstance loc refl q
    ((t.apply u).x - (t.apply v).x) ^ 2 + ((t.apply u).y - (t.apply v).y) ^ 2 =
      (u.x - v.x) ^ 2 + (u.y - v.y) ^ 2 := by
  rcases cosQ_sinQ q with ⟨h1, h2⟩ | ⟨h1, h2⟩ | ⟨h1, h2⟩ | ⟨h1, h2⟩ <;>
    cases refl <;> simp [AffZ.ofInstance, AffZ.apply, h1, h2] <;> ring

/-! ### flattening a hierarchy of any depth -/

theorem flattenInsts_congr (f g : AffZ → Nat → Option (List (List Pt))) (t : AffZ) (is : List Inst)
    (h : ∀ i ∈ is, f (t.cascade (AffZ.ofInstance i.loc i.refl i.q)) i.cell = g (t.cascade (AffZ.ofInstance i.loc i.refl i.q)) i.cell) :
    flattenInsts f t is = flattenInsts g t is := by
  induction is with
  | nil => rfl
  | cons i rest ih =>
    simp only [flattenInsts]
    rw [h i (by simp), ih (fun j hj => h j (List.mem_cons_of_mem _ hj))]

/-- Flattening under a parent transform `t` is the image under `t` of flattening in the
    cell's own frame — for every hierarchy and every depth.  Hence each flattened shape is
    the image of its points under the composition of the placements on its path. -/
theorem c12_flatten (cells : List Cell) : ∀ (fuel : Nat) (t : AffZ) (ci : Nat),
    flatten cells fuel t ci = (flatten cells fuel AffZ.id ci).map (fun shapes => shapes.map (fun e => e.map t.apply)) := by
  intro fuel
  induction fuel with
  | zero => intro t ci; simp [flatten]
  | succ fuel ih =>
    intro t ci
    simp only [flatten]
    cases hc : cells[ci]? with
    | none => simp
    | some c =>
      simp only
      -- the instance loop, generalised over the instance list
      have key : ∀ (is : List Inst),
          flattenInsts (flatten cells fuel) t is =
            (flattenInsts (flatten cells fuel) AffZ.id is).map (fun shapes => shapes.map (fun e => e.map t.apply)) := by
        intro is
        induction is with
        | nil => simp [flattenInsts]
        | cons i rest ihr =>
          simp only [flattenInsts]
          rw [ihr, ih (t.cascade (AffZ.ofInstance i.loc i.refl i.q)) i.cell,
              ih (AffZ.id.cascade (AffZ.ofInstance i.loc i.refl i.q)) i.cell]
          rw [(c12_cascade_id _).1]
          cases h1 : flatten cells fuel AffZ.id i.cell with
          | none => simp
          | some a =>
            cases h2 : flattenInsts (flatten cells fuel) AffZ.id rest with
            | none => simp
            | some b =>
              simp only [Option.map_some]
              congr 1
              simp only [List.map_append, List.map_map]
              congr 1
              apply List.map_congr_left; intro e _
              simp only [Function.comp, List.map_map]
              apply List.map_congr_left; intro p _
              simp only [Function.comp]
              rw [c12_cascade_apply]
      rw [key c.insts]
      cases h2 : flattenInsts (flatten cells fuel) AffZ.id c.insts with
      | none => simp
      | some b =>
        simp only [Option.map_some]
        congr 1
        simp only [List.map_append, List.map_map]
        congr 1
        apply List.map_congr_left; intro e _
        simp only [Function.comp, List.map_map]
        apply List.map_congr_left; intro p _
        simp [AffZ.id, AffZ.apply]

/-! ### non-vacuity -/
-- the historical failure: reflect + 90° placed at (10,20) maps (3,1) to (11,23)
example : (AffZ.ofInstance ⟨10, 20⟩ true 1).apply ⟨3, 1⟩ = ⟨11, 23⟩ := by decide
-- a two-level hierarchy
example : flatten [⟨[], [⟨1, ⟨10, 0⟩, true, 1⟩]⟩, ⟨[[⟨3, 1⟩]], []⟩] 3 AffZ.id 0 = some [[⟨11, 3⟩]] := by decide

end L21.Aff
