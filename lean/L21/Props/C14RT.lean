import L21.Proofs.RawProtoRT
/-
C14 — a whole layout through the protobuf schema and back.
-/
namespace L21.RawProto
open L21.Geom

/-- **no element is dropped, duplicated or moved to another layer** (the grouping law on its own) -/
theorem c14_elements_roundtrip (es : List Elem) (he : es.all elemOkI = true) :
    ∃ out, importElems (groupElems es []) = .ok out ∧ out.Perm (es.map normElem) := by
  obtain ⟨h1, h2⟩ := groupElems_perm es [] (by rfl) (by simp) he
  exact ⟨F (groupElems es []), importElems_ok _ h1, by simpa [F] using h2⟩

/-- **one layout through the schema and back**: name, instances (in order) and annotations (in
    order) come back; the elements come back as the same multiset, each on its layer and purpose
    with its net, points and width -/
theorem c14_layout_roundtrip (known : List Bytes) (l : Layout)
    (hi : ∀ i ∈ l.insts, known.contains i.cell = true) (he : l.elems.all elemOkI = true) :
    ∃ es, importLayout known (exportLayout l) = .ok ⟨l.name, l.insts.map normInst, es, l.annotations⟩ ∧
      es.Perm (l.elems.map normElem) := by
  obtain ⟨h1, h2⟩ := groupElems_perm l.elems [] (by rfl) (by simp) he
  refine ⟨F (groupElems l.elems []), ?_, by simpa [F] using h2⟩
  simp only [importLayout, exportLayout, importInsts_export known l.insts hi, importElems_ok _ h1, importAnnots_export, F]


/-- non-vacuity: two layers, three kinds, a repeated key, a named and an unnamed shape -/
example : importElems (groupElems [⟨some [110], 1, 0, .rect ⟨5, 5⟩ ⟨0, 0⟩⟩, ⟨none, 2, 0, .path [⟨0, 0⟩, ⟨4, 0⟩] 2⟩,
      ⟨none, 1, 0, .polygon [⟨0, 0⟩, ⟨3, 0⟩, ⟨0, 3⟩]⟩, ⟨none, 1, 0, .rect ⟨1, 1⟩ ⟨2, 2⟩⟩] []) =
    .ok [⟨some [110], 1, 0, .rect ⟨0, 0⟩ ⟨5, 5⟩⟩, ⟨none, 1, 0, .rect ⟨1, 1⟩ ⟨2, 2⟩⟩, ⟨none, 1, 0, .polygon [⟨0, 0⟩, ⟨3, 0⟩, ⟨0, 3⟩]⟩,
      ⟨none, 2, 0, .path [⟨0, 0⟩, ⟨4, 0⟩] 2⟩] := by decide

end L21.RawProto
