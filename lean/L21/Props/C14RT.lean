import L21.Proofs.RawProtoRT
import L21.Proofs.RawProtoBack
/-
C14 — a whole layout through the protobuf schema and back.
-/
namespace L21.RawProto
open L21.Geom

/-- **no element is dropped, duplicated or moved to another layer** (the grouping law on its own) -/
theorem c14_elements_roundtrip (es : List Elem) (he : es.all elemOkI = true) :
    ∃ out, importElems (groupElems es []) = .ok out ∧ out.Perm (es.map normElem) := by
  obtain ⟨h1, h2⟩ := groupElems_perm es [] (by rfl) (by simp) he
  exact ⟨F (groupElems es []), importElems_ok _ h1, by simpa [F] using h2⟩

/-- **one layout through the schema and back**: name, instances (in order) and annotations (in
    order) come back; the elements come back as the same multiset, each on its layer and purpose
    with its net, points and width -/
theorem c14_layout_roundtrip (known : List Bytes) (l : Layout)
    (hi : ∀ i ∈ l.insts, known.contains i.cell = true) (he : l.elems.all elemOkI = true) :
    ∃ es, importLayout known (exportLayout l) = .ok ⟨l.name, l.insts.map normInst, es, l.annotations⟩ ∧
      es.Perm (l.elems.map normElem) := by
  obtain ⟨h1, h2⟩ := groupElems_perm l.elems [] (by rfl) (by simp) he
  refine ⟨F (groupElems l.elems []), ?_, by simpa [F] using h2⟩
  simp only [importLayout, exportLayout, importInsts_export known l.insts hi, importElems_ok _ h1, importAnnots_export, F]


/-- **the converse trip, one layout**: a message layout in the form the exporter writes (local
    references to known cells with origins, groups with distinct (layer, purpose) keys, none empty,
    rectangles with a corner and non-negative sizes, non-negative path widths, annotations with a
    location) converts to raw and back to exactly the same message -/
theorem c14_proto_layout_roundtrip (known : List Bytes) (p : PLayout)
    (hi : p.insts.all (pinstOk known) = true) (hg : p.shapes.all groupCanon = true)
    (hk : (p.shapes.map (·.layer)).Nodup) (ha : p.annotations.all (fun a => a.2.isSome) = true) :
    ∃ l, importLayout known p = .ok l ∧ exportLayout l = p := by
  obtain ⟨is, h1, h1'⟩ := importInsts_back known p.insts hi
  obtain ⟨as, h3, h3'⟩ := importAnnots_back p.annotations ha
  have hok : p.shapes.all groupOk = true := by
    rw [List.all_eq_true] at hg ⊢; intro g hgm; exact groupCanon_ok g (hg g hgm)
  refine ⟨⟨p.name, is, F p.shapes, as⟩, by simp [importLayout, h1, importElems_ok _ hok, h3, F], ?_⟩
  simp only [exportLayout, h1', h3']
  have := regroup p.shapes [] hg (by simpa using hk)
  simp only [List.nil_append] at this
  rw [this]


/-- non-vacuity of the converse: a two-group message layout is its own round trip -/
example : ∃ l, importLayout [[66]] ⟨[76], [⟨[105], .localRef [66], some ⟨3, 4⟩, true, 90⟩],
      [⟨some (1, 0), [⟨[110], some ⟨0, 0⟩, 5, 5⟩], [⟨[], [⟨0, 0⟩, ⟨3, 0⟩, ⟨0, 3⟩]⟩], []⟩, ⟨some (2, 0), [], [], [⟨[], 2, [⟨0, 0⟩, ⟨4, 0⟩]⟩]⟩],
      [([116], some ⟨1, 1⟩)]⟩ = .ok l ∧ exportLayout l = ⟨[76], [⟨[105], .localRef [66], some ⟨3, 4⟩, true, 90⟩],
      [⟨some (1, 0), [⟨[110], some ⟨0, 0⟩, 5, 5⟩], [⟨[], [⟨0, 0⟩, ⟨3, 0⟩, ⟨0, 3⟩]⟩], []⟩, ⟨some (2, 0), [], [], [⟨[], 2, [⟨0, 0⟩, ⟨4, 0⟩]⟩]⟩],
      [([116], some ⟨1, 1⟩)]⟩ :=
  c14_proto_layout_roundtrip _ _ (by decide) (by decide) (by decide) (by decide)

/-- non-vacuity: two layers, three kinds, a repeated key, a named and an unnamed shape -/
example : importElems (groupElems [⟨some [110], 1, 0, .rect ⟨5, 5⟩ ⟨0, 0⟩⟩, ⟨none, 2, 0, .path [⟨0, 0⟩, ⟨4, 0⟩] 2⟩,
      ⟨none, 1, 0, .polygon [⟨0, 0⟩, ⟨3, 0⟩, ⟨0, 3⟩]⟩, ⟨none, 1, 0, .rect ⟨1, 1⟩ ⟨2, 2⟩⟩] []) =
    .ok [⟨some [110], 1, 0, .rect ⟨0, 0⟩ ⟨5, 5⟩⟩, ⟨none, 1, 0, .rect ⟨1, 1⟩ ⟨2, 2⟩⟩, ⟨none, 1, 0, .polygon [⟨0, 0⟩, ⟨3, 0⟩, ⟨0, 3⟩]⟩,
      ⟨none, 2, 0, .path [⟨0, 0⟩, ⟨4, 0⟩] 2⟩] := by decide

end L21.RawProto
