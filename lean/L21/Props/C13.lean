import L21.Proofs.Geom
/-
C13 — Point-in-shape answers agree with exact geometry.

Exact geometry is stated with integer cross products: `onSeg a b p` (p collinear with a,b and
inside their coordinate ranges = p on the closed segment) and the winding number `wn` (signed
count of edges crossing the rightward ray, half-open in y).  `InClosed P p` — on the boundary or
non-zero winding — is the closed region covered by the polygon (for simple polygons: boundary
plus interior; that identification is the Jordan-curve content listed in the trusted base and
cross-examined on every run by an independent even-odd/rational oracle in the harness).
-/
namespace L21.Geom

/-- rectangle: the inclusive min/max test, in every corner order -/
theorem c13_rect (p0 p1 p : Pt) :
    rectContains p0 p1 p = true ↔
      (min p0.x p1.x ≤ p.x ∧ p.x ≤ max p0.x p1.x) ∧ (min p0.y p1.y ≤ p.y ∧ p.y ≤ max p0.y p1.y) := by
  simp [rectContains, and_assoc]

def InClosed (P : List Pt) (p : Pt) : Prop := onBoundary P p = true ∨ wn P p ≠ 0

/-- The bounding-box shortcut never changes the answer: the query is true exactly on the
    boundary and where the winding number is non-zero, for every vertex list and every point. -/
theorem c13_poly (P : List Pt) (p : Pt) : polyContains P p = true ↔ InClosed P p := by
  unfold polyContains InClosed
  cases hb : inBBox P p with
  | true => simp
  | false =>
    have hw := wn_outside hb
    have hnb : onBoundary P p = false := by
      cases hob : onBoundary P p with
      | false => rfl
      | true =>
        unfold onBoundary at hob
        rw [List.any_eq_true] at hob
        obtain ⟨e, he, hs⟩ := hob
        have := onSeg_in_bbox he hs
        rw [hb] at this; exact absurd this (by simp)
    simp [hw, hnb]

/-- every point of every edge (so every vertex) is inside: the region is closed -/
theorem c13_poly_boundary (P : List Pt) (p : Pt) (e : Pt × Pt) (he : e ∈ edges P)
    (h : onSeg e.1 e.2 p = true) : polyContains P p = true := by
  rw [c13_poly]; left
  unfold onBoundary; rw [List.any_eq_true]; exact ⟨e, he, h⟩

theorem onSeg_self_left (a b : Pt) : onSeg a b a = true := by
  simp [onSeg, cross]

theorem edgesFrom_first_mem (first : Pt) : ∀ (L : List Pt) (v : Pt), v ∈ L → ∃ e ∈ edgesFrom first L, e.1 = v := by
  intro L
  induction L with
  | nil => intro v h; simp at h
  | cons a rest ih =>
    intro v hv
    cases rest with
    | nil => simp at hv; subst hv; exact ⟨(v, first), by simp [edgesFrom], rfl⟩
    | cons b r =>
      rcases List.mem_cons.1 hv with rfl | hv'
      · exact ⟨(v, b), by simp [edgesFrom], rfl⟩
      · obtain ⟨e, he, h1⟩ := ih v hv'
        exact ⟨e, by simp only [edgesFrom]; exact List.mem_cons_of_mem _ he, h1⟩

/-- vertices are inside -/
theorem c13_poly_vertex (P : List Pt) (v : Pt) (hv : v ∈ P) : polyContains P v = true := by
  cases P with
  | nil => simp at hv
  | cons a rest =>
    obtain ⟨e, he, h1⟩ := edgesFrom_first_mem a (a :: rest) v hv
    apply c13_poly_boundary (a :: rest) v e (by simpa [edges] using he)
    rw [← h1]; exact onSeg_self_left _ _

/-- the interior of the strict outside: a point outside the bounding box is outside -/
theorem c13_poly_far (P : List Pt) (p : Pt) (h : inBBox P p = false) : polyContains P p = false := by
  simp [polyContains, h]

/-! ### Manhattan paths -/

def consec : List Pt → List (Pt × Pt)
  | [] => []
  | [_] => []
  | a :: b :: rest => (a, b) :: consec (b :: rest)

def Manhattan (pts : List Pt) : Prop := ∀ e ∈ consec pts, e.1.x = e.2.x ∨ e.1.y = e.2.y

/-- p is within half the width (laterally) of segment a–c and between its ends -/
def segHit (w : Nat) (p : Pt) (e : Pt × Pt) : Prop :=
  let h : Int := (w : Int) / 2
  if e.1.x = e.2.x then
    (e.1.x - h ≤ p.x ∧ p.x ≤ e.1.x + h) ∧ (min e.1.y e.2.y ≤ p.y ∧ p.y ≤ max e.1.y e.2.y)
  else
    (e.1.y - h ≤ p.y ∧ p.y ≤ e.1.y + h) ∧ (min e.1.x e.2.x ≤ p.x ∧ p.x ≤ max e.1.x e.2.x)

theorem pathSegs_spec (w : Nat) (p : Pt) : ∀ (pts : List Pt), Manhattan pts →
    ∃ b, pathSegs w p pts = .ok b ∧ (b = true ↔ ∃ e ∈ consec pts, segHit w p e) := by
  intro pts
  induction pts with
  | nil => intro _; exact ⟨false, rfl, by simp [consec]⟩
  | cons a rest ih =>
    intro hm
    cases rest with
    | nil => exact ⟨false, rfl, by simp [consec]⟩
    | cons c r =>
      have hm' : Manhattan (c :: r) := by
        intro e he; exact hm e (by simp only [consec]; exact List.mem_cons_of_mem _ he)
      obtain ⟨b', hb', hiff⟩ := ih hm'
      have hac := hm (a, c) (by simp [consec])
      have hw : (0 : Int) ≤ (w : Int) / 2 := Int.ediv_nonneg (Int.natCast_nonneg w) (by omega)
      simp only [pathSegs]
      by_cases hx : a.x = c.x
      · simp only [hx, if_true]
        by_cases hit : rectContains ⟨c.x - (w : Int) / 2, a.y⟩ ⟨c.x + (w : Int) / 2, c.y⟩ p = true
        · refine ⟨true, by simp [hit], ?_⟩
          simp only [true_iff]
          refine ⟨(a, c), by simp [consec], ?_⟩
          rw [c13_rect] at hit
          simp only [segHit, hx, if_true]
          simp only at hit
          omega
        · simp only [hit]
          refine ⟨b', by simpa using hb', ?_⟩
          rw [hiff]
          constructor
          · rintro ⟨e, he, hh⟩; exact ⟨e, by simp only [consec]; exact List.mem_cons_of_mem _ he, hh⟩
          · rintro ⟨e, he, hh⟩
            simp only [consec, List.mem_cons] at he
            rcases he with rfl | he
            · exfalso; apply hit
              rw [c13_rect]
              simp only [segHit, hx, if_true] at hh
              simp only
              omega
            · exact ⟨e, he, hh⟩
      · have hy : a.y = c.y := by rcases hac with h | h; exact absurd h hx; exact h
        simp only [hx, if_false, hy, if_true]
        by_cases hit : rectContains ⟨a.x, c.y - (w : Int) / 2⟩ ⟨c.x, c.y + (w : Int) / 2⟩ p = true
        · refine ⟨true, by simp [hit], ?_⟩
          simp only [true_iff]
          refine ⟨(a, c), by simp [consec], ?_⟩
          rw [c13_rect] at hit
          simp only [segHit, hx, if_false, hy]
          simp only at hit
          omega
        · simp only [hit]
          refine ⟨b', by simpa using hb', ?_⟩
          rw [hiff]
          constructor
          · rintro ⟨e, he, hh⟩; exact ⟨e, by simp only [consec]; exact List.mem_cons_of_mem _ he, hh⟩
          · rintro ⟨e, he, hh⟩
            simp only [consec, List.mem_cons] at he
            rcases he with rfl | he
            · exfalso; apply hit
              rw [c13_rect]
              simp only [segHit, hx, if_false, hy] at hh
              simp only
              omega
            · exact ⟨e, he, hh⟩

/-- Manhattan path: never panics, and answers true exactly for the points laterally within
    ⌊w/2⌋ of one of its segments, between that segment's end points (flush ends). -/
theorem c13_path (pts : List Pt) (w : Nat) (p : Pt) (hne : pts ≠ []) (hm : Manhattan pts) :
    ∃ b, pathContains pts w p = .ok b ∧ (b = true ↔ ∃ e ∈ consec pts, segHit w p e) := by
  have _ := hne
  exact pathSegs_spec w p pts hm

/-! ### non-vacuity / regression witnesses -/

-- the two historical failures of the unrepaired code (both outside points)
example : polyContains [⟨2,0⟩, ⟨4,0⟩, ⟨4,4⟩, ⟨0,4⟩, ⟨1,2⟩] ⟨0,2⟩ = false := by decide
example : polyContains [⟨0,0⟩, ⟨10,3⟩, ⟨0,6⟩] ⟨7,4⟩ = false := by decide
example : polyContains [⟨0,0⟩, ⟨10,3⟩, ⟨0,6⟩] ⟨7,3⟩ = true ∧ wn [⟨0,0⟩, ⟨10,3⟩, ⟨0,6⟩] ⟨7,3⟩ = 1 := by decide
-- clockwise orientation gives winding −1, still inside
example : wn [⟨0,0⟩, ⟨0,6⟩, ⟨10,3⟩] ⟨7,3⟩ = -1 := by decide
example : Manhattan [⟨0,0⟩, ⟨4,0⟩, ⟨4,5⟩] := by
  intro e he; simp [consec] at he; rcases he with rfl | rfl <;> simp

end L21.Geom
