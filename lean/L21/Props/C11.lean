import L21.Model.LefLex
/-
C11 — The LEF reader never crashes or hangs on any input text (lexer level).

Every slice of the source the reader takes is `src[tok.start .. tok.stop]` for a lexer token (or
the current line for the error report).  `c11_tokens_are_substrings` shows that for EVERY text —
any script, any Unicode classification of its characters — each token's (start, stop) pair is the
byte range of a contiguous, non-empty run of whole characters of the source: the slice can never
start or end inside a multi-byte character or run past the end.  `c11_lex_total` shows that the
lexer's step budget (one step per character, plus one) is never the reason for an error.
The parser and writer are not modelled; they are exercised by fault enumeration (see DESIGN).
-/
namespace L21.LefLex

theorem spanP_append (p : Char → Bool) : ∀ (l : List Char), (spanP p l).1 ++ (spanP p l).2 = l := by
  intro l
  induction l with
  | nil => rfl
  | cons c rest ih =>
    simp only [spanP]
    split
    · simp [ih]
    · simp

theorem bytes_append (a b : List Char) : bytes (a ++ b) = bytes a + bytes b := by
  simp [bytes, List.map_append, List.sum_append]

theorem bytes_cons (c : Char) (l : List Char) : bytes (c :: l) = c.utf8Size + bytes l := by
  simp [bytes]

theorem utf8_semi : ';'.utf8Size = 1 := by decide
theorem utf8_quote : '"'.utf8Size = 1 := by decide
theorem utf8_hash : '#'.utf8Size = 1 := by decide

theorem utf8Size_pos (c : Char) : 0 < c.utf8Size := by
  have := Char.utf8Size_pos c; omega

/-- a token occupies exactly the bytes of a contiguous non-empty run of characters of `src`,
    which starts at byte offset `pos` -/
def IsSub (pos : Nat) (src : List Char) (t : Tok) : Prop :=
  ∃ pre mid suf, src = pre ++ mid ++ suf ∧ mid ≠ [] ∧ t.start = pos + bytes pre ∧ t.stop = t.start + bytes mid

theorem IsSub.shift {pos : Nat} {src : List Char} {t : Tok} (skipped : List Char)
    (h : IsSub (pos + bytes skipped) src t) : IsSub pos (skipped ++ src) t := by
  obtain ⟨pre, mid, suf, e, hm, hs, he⟩ := h
  exact ⟨skipped ++ pre, mid, suf, by rw [e]; simp [List.append_assoc], hm, by rw [hs, bytes_append]; omega, he⟩

theorem lexFrom_sub (isWs : Char → Bool) : ∀ (fuel pos : Nat) (src : List Char) (ts : List Tok),
    lexFrom isWs fuel pos src = .ok ts → ∀ t ∈ ts, IsSub pos src t := by
  intro fuel
  induction fuel with
  | zero => intro pos src ts h; simp [lexFrom] at h
  | succ f ih =>
    intro pos src ts h t ht
    cases src with
    | nil => simp [lexFrom] at h; subst h; simp at ht
    | cons c rest =>
      simp only [lexFrom] at h
      split at h
      · -- whitespace / newline
        rename_i hws
        generalize hrun : (if c == '\n' then (([] : List Char), rest) else spanP (fun d => isAsciiWs d && d != '\n') rest) = run at h
        have hrun' : run.1 ++ run.2 = rest := by
          rw [← hrun]; split
          · rfl
          · exact spanP_append _ _
        have := ih _ _ _ h t ht
        have hsh := IsSub.shift (c :: run.1) (by rw [bytes_cons]; rw [show pos + (c.utf8Size + bytes run.1) = pos + c.utf8Size + bytes run.1 by omega]; exact this)
        rw [show (c :: run.1) ++ run.2 = c :: rest by simp [hrun']] at hsh
        exact hsh
      · split at h
        · -- semicolon
          rename_i _ hsemi
          have hc : c = ';' := by simpa using hsemi
          cases hl : lexFrom isWs f (pos + 1) rest with
          | err => simp [hl] at h
          | ok ts' =>
            simp [hl] at h; subst h
            rcases List.mem_cons.1 ht with rfl | ht'
            · exact ⟨[], [c], rest, by simp, by simp, by simp [bytes], by subst hc; simp [bytes, utf8_semi]⟩
            · have := ih _ _ _ hl t ht'
              have hsh := IsSub.shift [c] (by rw [show bytes [c] = 1 by subst hc; simp [bytes, utf8_semi]]; exact this)
              simpa using hsh
        · split at h
          · -- string literal
            rename_i _ _ hq
            have hc : c = '"' := by simpa using hq
            have hsp := spanP_append (fun d => d != '"') rest
            generalize hb : spanP (fun d => d != '"') rest = sp at h hsp
            obtain ⟨body, after⟩ := sp
            have fin : ∀ (closing rest' : List Char) (ts' : List Tok), closing ++ rest' = after →
                lexFrom isWs f (pos + 1 + bytes body + bytes closing) rest' = .ok ts' →
                t ∈ (⟨.string, pos, pos + 1 + bytes body + bytes closing⟩ : Tok) :: ts' → IsSub pos (c :: rest) t := by
              intro closing rest' ts' hcl hl ht2
              have hsrc : c :: rest = (c :: body ++ closing) ++ rest' := by
                rw [← hsp, ← hcl]; simp [List.append_assoc]
              have hby : bytes (c :: body ++ closing) = 1 + bytes body + bytes closing := by
                subst hc; simp [bytes, List.map_append, List.sum_append, utf8_quote]; omega
              rcases List.mem_cons.1 ht2 with rfl | ht'
              · refine ⟨[], c :: body ++ closing, rest', by simpa using hsrc, by simp, by simp [bytes], ?_⟩
                simp only; rw [hby]; omega
              · have := ih _ _ _ hl t ht'
                have hsh := IsSub.shift (c :: body ++ closing) (by
                  rw [hby, show pos + (1 + bytes body + bytes closing) = pos + 1 + bytes body + bytes closing by omega]
                  exact this)
                rw [← hsrc] at hsh; exact hsh
            cases after with
            | nil =>
              simp only at h
              cases hl : lexFrom isWs f (pos + 1 + bytes body + bytes []) [] with
              | err => simp [hl] at h
              | ok ts' =>
                simp [hl] at h; subst h
                exact fin [] [] ts' rfl hl ht
            | cons q r =>
              simp only at h
              cases hl : lexFrom isWs f (pos + 1 + bytes body + bytes [q]) r with
              | err => simp [hl] at h
              | ok ts' =>
                simp [hl] at h; subst h
                exact fin [q] r ts' rfl hl ht
          · split at h
            · -- comment
              rename_i _ _ _ hh
              have hc : c = '#' := by simpa using hh
              have hsp := spanP_append (fun d => d != '\n') rest
              generalize hb : spanP (fun d => d != '\n') rest = sp at h hsp
              obtain ⟨body, after⟩ := sp
              have := ih _ _ _ h t ht
              have hsh := IsSub.shift (c :: body) (by
                rw [show bytes (c :: body) = 1 + bytes body by subst hc; simp [bytes, utf8_hash]]
                rw [show pos + (1 + bytes body) = pos + 1 + bytes body by omega]; exact this)
              rw [show (c :: body) ++ after = c :: rest by simp [hsp]] at hsh
              exact hsh
            · -- number-ish or name: same shape
              have key : ∀ (tt : TT) (ts' : List Tok) (body after : List Char), body ++ after = rest →
                  lexFrom isWs f (pos + c.utf8Size + bytes body) after = .ok ts' →
                  t ∈ (⟨tt, pos, pos + c.utf8Size + bytes body⟩ : Tok) :: ts' → IsSub pos (c :: rest) t := by
                intro tt ts' body after hsp hl ht2
                rcases List.mem_cons.1 ht2 with rfl | ht'
                · exact ⟨[], c :: body, after, by simp [hsp], by simp, by simp [bytes], by simp [bytes_cons]; omega⟩
                · have := ih _ _ _ hl t ht'
                  have hsh := IsSub.shift (c :: body) (by
                    rw [bytes_cons, show pos + (c.utf8Size + bytes body) = pos + c.utf8Size + bytes body by omega]; exact this)
                  rw [show (c :: body) ++ after = c :: rest by simp [hsp]] at hsh
                  exact hsh
              split at h
              · have hsp := spanP_append (fun d => !isWs d) rest
                generalize hb : spanP (fun d => !isWs d) rest = sp at h hsp
                obtain ⟨body, after⟩ := sp
                cases hl : lexFrom isWs f (pos + c.utf8Size + bytes body) after with
                | err => simp [hl] at h
                | ok ts' =>
                  simp [hl] at h; subst h
                  exact key _ ts' body after hsp hl ht
              · have hsp := spanP_append (fun d => !isWs d) rest
                generalize hb : spanP (fun d => !isWs d) rest = sp at h hsp
                obtain ⟨body, after⟩ := sp
                cases hl : lexFrom isWs f (pos + c.utf8Size + bytes body) after with
                | err => simp [hl] at h
                | ok ts' =>
                  simp [hl] at h; subst h
                  exact key _ ts' body after hsp hl ht

/-- Every token of every text is the byte range of a contiguous non-empty run of whole characters:
    no slice starts or ends inside a multi-byte character, or beyond the end of the text. -/
theorem c11_tokens_are_substrings (isWs : Char → Bool) (src : List Char) (ts : List Tok)
    (h : lex isWs src = .ok ts) : ∀ t ∈ ts, IsSub 0 src t :=
  lexFrom_sub isWs _ 0 src ts h

theorem c11_token_bounds (isWs : Char → Bool) (src : List Char) (ts : List Tok)
    (h : lex isWs src = .ok ts) : ∀ t ∈ ts, t.start < t.stop ∧ t.stop ≤ bytes src := by
  intro t ht
  obtain ⟨pre, mid, suf, e, hm, hs, he⟩ := c11_tokens_are_substrings isWs src ts h t ht
  have hpos : 0 < bytes mid := by
    cases mid with
    | nil => exact absurd rfl hm
    | cons c r => rw [bytes_cons]; have := utf8Size_pos c; omega
  rw [e, bytes_append, bytes_append]
  omega

theorem spanP_snd_length (p : Char → Bool) : ∀ (l : List Char), (spanP p l).2.length ≤ l.length := by
  intro l
  induction l with
  | nil => simp [spanP]
  | cons c rest ih =>
    simp only [spanP]
    split
    · simp only [List.length_cons]; omega
    · simp

/-- The lexer's step budget (one step per character, plus one) always suffices, and since every
    character now starts some token the lexer is total: it returns a token list for EVERY text and
    terminates within `length + 1` steps (each step consumes at least one character). -/
theorem lexFrom_total (isWs : Char → Bool) : ∀ (fuel pos : Nat) (src : List Char),
    src.length < fuel → ∃ ts, lexFrom isWs fuel pos src = .ok ts := by
  intro fuel
  induction fuel with
  | zero => intro pos src h; omega
  | succ f ih =>
    intro pos src h
    cases src with
    | nil => exact ⟨[], by simp [lexFrom]⟩
    | cons c rest =>
      simp only [List.length_cons] at h
      have hr : rest.length < f := by omega
      simp only [lexFrom]
      split
      · split
        · exact ih _ _ hr
        · exact ih _ _ (by have := spanP_snd_length (fun d => isAsciiWs d && d != '\n') rest; omega)
      · split
        · obtain ⟨ts, e⟩ := ih (pos + 1) rest hr
          exact ⟨_, by rw [e]⟩
        · split
          · have hl := spanP_snd_length (fun d => d != '"') rest
            generalize spanP (fun d => d != '"') rest = sp at hl
            obtain ⟨body, after⟩ := sp
            cases after with
            | nil =>
              obtain ⟨ts, e⟩ := ih (pos + 1 + bytes body + bytes ([] : List Char)) [] (by simp; omega)
              exact ⟨_, by simp only []; rw [e]⟩
            | cons q r =>
              obtain ⟨ts, e⟩ := ih (pos + 1 + bytes body + bytes [q]) r (by first | (simp at hl ⊢; omega) | (simp at hl; omega))
              exact ⟨_, by simp only []; rw [e]⟩
          · split
            · have hl := spanP_snd_length (fun d => d != '\n') rest
              generalize spanP (fun d => d != '\n') rest = sp at hl
              obtain ⟨body, after⟩ := sp
              exact ih _ _ (by first | (simp at hl ⊢; omega) | (simp at hl; omega))
            · split
              · have hl := spanP_snd_length (fun d => !isWs d) rest
                generalize spanP (fun d => !isWs d) rest = sp at hl
                obtain ⟨body, after⟩ := sp
                obtain ⟨ts, e⟩ := ih (pos + c.utf8Size + bytes body) after (by first | (simp at hl ⊢; omega) | (simp at hl; omega))
                exact ⟨_, by simp only []; rw [e]⟩
              · have hl := spanP_snd_length (fun d => !isWs d) rest
                generalize spanP (fun d => !isWs d) rest = sp at hl
                obtain ⟨body, after⟩ := sp
                obtain ⟨ts, e⟩ := ih (pos + c.utf8Size + bytes body) after (by first | (simp at hl ⊢; omega) | (simp at hl; omega))
                exact ⟨_, by simp only []; rw [e]⟩

theorem c11_lex_total (isWs : Char → Bool) (src : List Char) : ∃ ts, lex isWs src = .ok ts :=
  lexFrom_total isWs _ 0 src (by omega)

/-! non-vacuity: the historical crashers lex to well-placed tokens -/
example : lex isWsUnicode "é".toList = .ok [⟨.name, 0, 2⟩] := by decide
example : lex isWsUnicode "# ü\nA ;".toList = .ok [⟨.name, 5, 6⟩, ⟨.semi, 7, 8⟩] := by decide

end L21.LefLex

