import L21.Proofs.LefDec
/-
C04 — "every number is kept as the exact decimal written, however it is spelled (leading sign,
leading dot, trailing zeros)": the decimal reader on EVERY spelling of the LEF number syntax.
-/
namespace L21.Lef
open L21.LefLex L21.LefEnum

/-- the optional sign of a number as written -/
def signChars : Option Bool → List Char
  | none => []
  | some true => ['-']
  | some false => ['+']

theorem signSplit_sign (sg : Option Bool) (c : Char) (r : List Char) (hc : c ≠ '-' ∧ c ≠ '+') :
    signSplit (signChars sg ++ c :: r) = (sg == some true, c :: r) := by
  cases sg with
  | none =>
    simp only [signChars, List.nil_append]
    unfold signSplit
    split
    · rename_i heq; simp at heq; exact absurd heq.1 hc.1
    · rename_i heq; simp at heq; exact absurd heq.1 hc.2
    · rfl
  | some b => cases b <;> rfl

/-- **every spelling**: optional sign, integer digits (possibly none: leading dot), optional point
    and fraction digits (possibly with trailing zeros) — the value read is exactly
    (± the digits read as one integer, the number of fraction digits written) -/
theorem c04_decimal_every_spelling (sg : Option Bool) (ip fp : List Char)
    (hdi : ∀ c ∈ ip, isDigit c = true) (hdf : ∀ c ∈ fp, isDigit c = true)
    (hne : ip ≠ [] ∨ fp ≠ []) (hfl : fp.length ≤ 28) (hm : dval (ip ++ fp) < 2 ^ 96) :
    parseDecText (signChars sg ++ ip ++ (if fp = [] then [] else '.' :: fp)) =
      some ⟨if sg = some true then -(dval (ip ++ fp) : Int) else dval (ip ++ fp), fp.length⟩ := by
  -- the body after the sign starts with a digit or with the point
  have hbody : ∃ c r, ip ++ (if fp = [] then [] else '.' :: fp) = c :: r ∧ c ≠ '-' ∧ c ≠ '+' := by
    cases ip with
    | cons a b => exact ⟨a, _, rfl, (digit_not_sign a (hdi a (by simp))).1, (digit_not_sign a (hdi a (by simp))).2.1⟩
    | nil =>
      have : fp ≠ [] := by rcases hne with h | h; exact absurd rfl h; exact h
      exact ⟨'.', fp, by simp [this], by decide, by decide⟩
  obtain ⟨c, r, hcr, hc1, hc2⟩ := hbody
  have hspan1 : spanP isDigit (ip ++ (if fp = [] then [] else '.' :: fp)) = (ip, if fp = [] then [] else '.' :: fp) := by
    apply spanP_all _ _ _ hdi
    split
    · left; rfl
    · right; exact ⟨'.', fp, rfl, by decide⟩
  have hspan2 : spanP isDigit fp = (fp, []) := by
    have := spanP_all isDigit fp [] hdf (Or.inl rfl)
    simpa using this
  have hemp : (ip.isEmpty && fp.isEmpty) = false := by
    rcases hne with h | h
    · cases ip with | nil => exact absurd rfl h | cons a b => rfl
    · cases fp with | nil => exact absurd rfl h | cons a b => simp
  have h1 : ¬ (fp.length > 28) := by omega
  have h2 : ¬ (dval (ip ++ fp) ≥ 2 ^ 96) := by omega
  unfold parseDecText
  rw [List.append_assoc, hcr, signSplit_sign sg c r ⟨hc1, hc2⟩, ← hcr]
  unfold parseUnsigned parseCore
  simp only [hspan1]
  by_cases hf : fp = []
  · subst hf
    have hip : ip ≠ [] := by rcases hne with h | h; exact h; exact absurd rfl h
    simp only [if_true, fracSpan, List.isEmpty_nil, Bool.not_true, Bool.false_eq_true, if_false, hemp, h1, h2]
    cases sg with
    | none => simp [hip]
    | some b => cases b <;> simp [hip]
  · simp only [hf, if_false, fracSpan, hspan2, List.isEmpty_nil, Bool.not_true, Bool.false_eq_true, hemp, h1, h2]
    cases sg with
    | none => simp
    | some b => cases b <;> simp

/-- trailing zeros change the scale, not the value: mantissa × 10^k at scale + k -/
theorem c04_trailing_zeros (ds : List Char) (k : Nat) : dval (ds ++ List.replicate k '0') = dval ds * 10 ^ k := by
  induction k with
  | zero => simp
  | succ k ih =>
    have : List.replicate (k + 1) '0' = List.replicate k '0' ++ ['0'] := by simp [List.replicate_succ']
    rw [this, ← List.append_assoc]
    simp only [dval, List.foldl_append, List.foldl_cons, List.foldl_nil] at ih ⊢
    rw [ih]
    simp [dig, Nat.pow_succ, Nat.mul_assoc]

/-- leading zeros change nothing -/
theorem c04_leading_zeros (ds : List Char) (k : Nat) : dval (List.replicate k '0' ++ ds) = dval ds := dval_zeros k ds

/-- non-vacuity: `+.50`, `-007.`, `12.3400` -/
example : parseDecText "+.50".toList = some ⟨50, 2⟩ ∧ parseDecText "-007".toList = some ⟨-7, 0⟩ ∧
    parseDecText "12.3400".toList = some ⟨123400, 4⟩ := by decide

end L21.Lef
