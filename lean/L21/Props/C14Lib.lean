import L21.Proofs.RawProtoLib
/-
C14 — the whole library through the protobuf schema and back (property theorems; the proofs are in
Proofs/RawProtoLib.lean).
-/
namespace L21.RawProto
open L21.Geom

/-- **C14, whole library.**  If export succeeds, every instance names an existing cell and the
    numbers are in range, importing the exported message returns the library's name and units and
    its cells in the exporter's dependency order (C17), each with its name, its layout (instances and
    annotations in order, elements as the same multiset — `layoutEq`) and its abstract view (ports
    with their nets, per layer the same shapes grouped by kind — `normAbs`). -/
theorem c14_library (tbl : LayerTbl) (l : Lib) (p : PLib) (hu : l.units ≤ 3)
    (hp : exportLib tbl l = .ok p) (hnd : noDangling l.cells) (hrng : ∀ c ∈ l.cells, cellRangeOk tbl c) :
    ∃ order cs', Dep.order (cellAdj l.cells) (l.cells.length + 1) (List.range l.cells.length) = .ok order ∧
      importLib p = .ok ⟨l.name, l.units, cs'⟩ ∧ cellsEq cs' (order.filterMap (fun i => l.cells[i]?)) :=
  c14_library_roundtrip_full tbl l p hu hp hnd hrng

/-- **C14, abstract views.** -/
theorem c14_abstract (tbl : LayerTbl) (a : Abstract) (pa : PAbs) (h : exportAbs tbl a = .ok pa) (hok : absOk tbl a = true) :
    importAbs pa = .ok (normAbs a) := c14_abstract_roundtrip tbl a pa h hok

/-- non-vacuity: a cell with a layout and an abstract, instantiated by a second cell listed FIRST -/
def demoA : Cell :=
  ⟨[65], some ⟨[65], [], [⟨some [110], 1, 0, .rect ⟨4, 4⟩ ⟨0, 0⟩⟩, ⟨none, 1, 0, .path [⟨0, 0⟩, ⟨9, 0⟩] 2⟩], [([116], ⟨1, 1⟩)]⟩,
    some ⟨[65], [⟨0, 0⟩, ⟨9, 0⟩, ⟨9, 9⟩], [⟨[112], [(1, [.rect ⟨0, 0⟩ ⟨1, 1⟩]), (2, [.polygon [⟨0, 0⟩, ⟨1, 0⟩, ⟨0, 1⟩], .rect ⟨2, 2⟩ ⟨1, 1⟩])]⟩], [(1, [])]⟩⟩
def demoB : Cell := ⟨[84], some ⟨[84], [⟨[105], [65], ⟨5, 6⟩, true, some 90⟩], [], []⟩, none⟩
def demoLibP : Lib := ⟨[76], 1, [demoB, demoA]⟩
def demoTbl : LayerTbl := [(1, some 7, some 8), (2, some 7, some 8)]

example : noDangling demoLibP.cells := by
  intro c hc lay hl i hi
  simp only [demoLibP, List.mem_cons, List.mem_singleton, List.not_mem_nil, or_false] at hc
  rcases hc with rfl | rfl
  · simp only [demoB, Option.some.injEq] at hl; subst hl
    simp only [List.mem_singleton] at hi; subst hi
    exact ⟨demoA, List.mem_cons_of_mem _ List.mem_cons_self, rfl⟩
  · simp only [demoA, Option.some.injEq] at hl; subst hl; cases hi

example : ∀ c ∈ demoLibP.cells, cellRangeOk demoTbl c := by
  intro c hc
  simp only [demoLibP, List.mem_cons, List.mem_singleton, List.not_mem_nil, or_false] at hc
  rcases hc with rfl | rfl
  · exact ⟨by intro lay hl; cases hl; rfl, by intro a ha; cases ha⟩
  · exact ⟨by intro lay hl; cases hl; decide, by intro a ha; cases ha; decide⟩

/-- the same cells in dependency order export and come back (the cell-list theorem on its own) -/
example : ∃ pcs cs', exportCells demoTbl [demoA, demoB] = .ok pcs ∧ importCells [] pcs = .ok cs' ∧ cellsEq cs' [demoA, demoB] := by
  cases h : exportCells demoTbl [demoA, demoB] with
  | ok pcs =>
    have hc : condList demoTbl [] [demoA, demoB] := by
      refine ⟨?_, ?_, ?_, ?_, trivial⟩
      · intro l hl; cases hl
        constructor
        · intro i hi; cases hi
        · decide
      · intro a ha; cases ha; decide
      · intro l hl; cases hl
        constructor
        · intro i hi; simp only [List.mem_singleton] at hi; subst hi; decide
        · rfl
      · intro a ha; cases ha
    obtain ⟨cs', h1, h2⟩ := importCells_export demoTbl _ pcs [] h hc
    exact ⟨pcs, cs', rfl, h1, h2⟩
  | err => exact absurd h (by decide)

/-! ### the converse direction and abstract purpose numbers — a NEGATIVE result (known finding
    `c14-abstract-purpose-*`): the raw abstract keeps the layer number of a port / blockage group only,
    so two messages that differ in the purpose number alone import to the same raw abstract, and no
    exporter can give both back.  Witnesses = the pinned cases replayed on the real code by the run. -/
def absP101 : PAbs := ⟨[99, 48], some ⟨[], [⟨0, 0⟩, ⟨10, 0⟩, ⟨10, 10⟩, ⟨0, 10⟩]⟩, [], [⟨some (2, 101), [⟨[], some ⟨1, 1⟩, 2, 2⟩], [], []⟩]⟩
def absP100 : PAbs := ⟨[99, 48], some ⟨[], [⟨0, 0⟩, ⟨10, 0⟩, ⟨10, 10⟩, ⟨0, 10⟩]⟩, [], [⟨some (2, 100), [⟨[], some ⟨1, 1⟩, 2, 2⟩], [], []⟩]⟩
theorem c14_converse_fails_on_second_purpose_number :
    absP101 ≠ absP100 ∧ importAbs absP101 = importAbs absP100 ∧ (∃ a, importAbs absP101 = .ok a) := by
  refine ⟨by decide, by decide, ?_⟩
  cases h : importAbs absP101 with
  | ok a => exact ⟨a, rfl⟩
  | err => exact absurd h (by decide)
/-- hence no re-export, whatever layer table it is given, returns both messages -/
theorem c14_converse_no_exporter (tbl : LayerTbl) :
    ¬ (∀ a r, importAbs a = .ok r → a = absP101 ∨ a = absP100 → exportAbs tbl r = .ok a) := by
  intro h
  obtain ⟨hne, heq, r, hr⟩ := c14_converse_fails_on_second_purpose_number
  have h1 := h absP101 r hr (Or.inl rfl)
  have h2 := h absP100 r (heq ▸ hr) (Or.inr rfl)
  rw [h1] at h2
  exact hne (Out.ok.inj h2)

end L21.RawProto
