import L21.Model.TProto
import L21.Props.C17
/-
C19 — Gridded-layout libraries survive the trip through their protobuf schema.

`c19_roundtrip`: for EVERY library whose reachable cells have distinct names and valid outlines,
if the dependency orderer returns `ord` then importing the exported message succeeds and yields
the library name, and exactly the cells of `ord` in that order, each with its name, outline steps,
metal count, instances (name, location, both reflections, target = the SAME cell, now referred to
by its position), assignments and cuts.  Dependencies-first (`c17_sound`) is what makes every
reference resolvable.  The `c19_err_*` theorems: a message with any mandatory sub-message removed,
an undefined / external cell reference or a relative placement is an error (`none`), for every
context.  Abstract ports are outside the model.
-/
namespace L21.TProto
open L21.Dep

/-! ### element level -/
theorem imNat_ofNat (n : Nat) : imNat (n : Int) = some n := by
  simp [imNat]

theorem im_ex_cross (c : Cross) : imCross (exCross c) = some c := by
  cases c with | mk t x =>
  cases t; cases x
  simp [imCross, exCross, exRef, imRef, imNat_ofNat]

theorem im_ex_assign (a : Assign) : imAssign (exAssign a) = some a := by
  cases a
  simp [imAssign, exAssign, im_ex_cross]

theorem im_outline (x y : List Int) (m : Nat) (h : outlineOk x y = true) :
    imOutline ⟨x, y, m⟩ = some (x, y, m) := by
  simp [imOutline, imNat_ofNat, h]

theorem mapM_map_some {α β γ : Type} (g : α → β) (h : β → Option γ) (k : α → γ) :
    ∀ (l : List α), (∀ a ∈ l, h (g a) = some (k a)) → (l.map g).mapM h = some (l.map k) := by
  intro l
  induction l with
  | nil => intro _; rfl
  | cons a r ih =>
    intro hh
    simp only [List.map_cons, List.mapM_cons]
    rw [hh a (by simp), ih (fun b hb => hh b (by simp [hb]))]
    rfl

/-! ### name look-up -/
theorem lookupFrom_not_mem (n : Bytes) : ∀ (ms : List Bytes) (i : Nat) (best : Option Nat),
    n ∉ ms → lookupFrom n ms i best = best := by
  intro ms
  induction ms with
  | nil => intros; rfl
  | cons m r ih =>
    intro i best h
    simp only [List.mem_cons, not_or] at h
    simp only [lookupFrom]
    have : (m == n) = false := by simpa using fun e => h.1 e.symm
    rw [this, ih _ _ h.2]; rfl

theorem lookupFrom_split (n : Bytes) : ∀ (pre post : List Bytes) (i : Nat) (best : Option Nat),
    n ∉ post → lookupFrom n (pre ++ n :: post) i best = some (i + pre.length) := by
  intro pre
  induction pre with
  | nil =>
    intro post i best h
    simp [lookupFrom, lookupFrom_not_mem n post _ _ h]
  | cons m r ih =>
    intro post i best h
    simp only [List.cons_append, lookupFrom, List.length_cons]
    rw [ih post (i + 1) _ h]
    congr 1; omega

/-- with distinct names, a name is looked up to the position of its cell -/
theorem lookup_map_idxOf {f : Nat → Bytes} : ∀ (l : List Nat) (j : Nat), j ∈ l → (l.map f).Nodup →
    lookup (l.map f) (f j) = some (l.idxOf j) := by
  intro l j hj hn
  obtain ⟨pre, post, rfl, hpre⟩ : ∃ pre post, l = pre ++ j :: post ∧ j ∉ pre := by
    obtain ⟨s, t, e, hs⟩ := List.eq_append_cons_of_mem hj
    exact ⟨s, t, e, hs⟩
  simp only [List.map_append, List.map_cons] at hn ⊢
  have hpost : f j ∉ post.map f := by
    have := (List.nodup_append.1 hn).2.1
    exact (List.nodup_cons.1 this).1
  unfold lookup
  rw [lookupFrom_split (f j) (pre.map f) (post.map f) 0 none hpost]
  simp [List.idxOf_append, hpre]

/-! ### cell level -/
def renumInst (ord : List Nat) (i : Inst) : Inst := { i with cell := ord.idxOf i.cell }
def renumLayout (ord : List Nat) (l : Layout) : Layout := { l with insts := l.insts.map (renumInst ord) }
def renumCell (ord : List Nat) (c : Cell) : Cell := { c with layout := c.layout.map (renumLayout ord) }

theorem im_ex_inst (tbl : List Cell) (names : List Bytes) (i : Inst) (k : Nat)
    (h : lookup names (cellName tbl i.cell) = some k) :
    imInst names (exInst tbl i) = some { i with cell := k } := by
  simp [imInst, exInst, h]

def cellOutlinesOk (c : Cell) : Prop :=
  (∀ l, c.layout = some l → outlineOk l.ox l.oy = true) ∧ (∀ a, c.abs = some a → outlineOk a.ox a.oy = true)

theorem im_ex_cell (tbl : List Cell) (names : List Bytes) (ord : List Nat) (c : Cell)
    (ho : cellOutlinesOk c)
    (hl : ∀ l, c.layout = some l → ∀ i ∈ l.insts, lookup names (cellName tbl i.cell) = some (ord.idxOf i.cell)) :
    imCell names (exCell tbl c) = some (renumCell ord c) := by
  cases c with | mk name layout abs =>
  have habs : imAbsOpt (abs.map exAbs) = some abs := by
    cases abs with
    | none => rfl
    | some a =>
      have := ho.2 a rfl
      cases a
      simp [imAbsOpt, exAbs, imAbs, im_outline _ _ _ this]
  cases layout with
  | none =>
    simp [imCell, exCell, imLayoutOpt, habs, renumCell]
  | some l =>
    have hok := ho.1 l rfl
    have hins : (l.insts.map (exInst tbl)).mapM (imInst names) = some (l.insts.map (renumInst ord)) :=
      mapM_map_some _ _ _ l.insts (fun i hi => by
        rw [im_ex_inst tbl names i _ (hl l rfl i hi)]; rfl)
    have has : (l.assigns.map exAssign).mapM imAssign = some (l.assigns.map id) :=
      mapM_map_some _ _ _ l.assigns (fun a _ => im_ex_assign a)
    have hcu : (l.cuts.map exCross).mapM imCross = some (l.cuts.map id) :=
      mapM_map_some _ _ _ l.cuts (fun a _ => im_ex_cross a)
    simp only [List.map_id] at has hcu
    have hlay : imLayout names (exLayout tbl l) = some (renumLayout ord l) := by
      cases l
      simp only [imLayout, exLayout] at *
      simp [im_outline _ _ _ hok, hins, has, hcu, renumLayout]
    simp [imCell, exCell, imLayoutOpt, hlay, habs, renumCell]

/-! ### library level -/
structure WF (tbl : List Cell) (ord : List Nat) : Prop where
  outlines : ∀ i ∈ ord, cellOutlinesOk (getC tbl i)
  names : (ord.map (cellName tbl)).Nodup

theorem renumCell_name (ord : List Nat) (c : Cell) : (renumCell ord c).name = c.name := rfl

theorem imCells_export (tbl : List Cell) (ord : List Nat) (wf : WF tbl ord) (hnd : ord.Nodup)
    (hdeps : ∀ l1 x l2, ord = l1 ++ x :: l2 → ∀ d ∈ deps tbl x, d ∈ l1) :
    ∀ (l2 l1 : List Nat), ord = l1 ++ l2 →
      imCells (l2.map fun i => exCell tbl (getC tbl i)) (l1.map fun i => renumCell ord (getC tbl i))
        = some (ord.map fun i => renumCell ord (getC tbl i)) := by
  intro l2
  induction l2 with
  | nil => intro l1 e; simp at e; subst e; simp [imCells]
  | cons x r ih =>
    intro l1 e
    simp only [List.map_cons, imCells]
    have hnames : (l1.map fun i => renumCell ord (getC tbl i)).map (·.name) = l1.map (cellName tbl) := by
      simp [List.map_map, Function.comp_def, renumCell_name, cellName]
    have hl1nd : (l1.map (cellName tbl)).Nodup := by
      have := wf.names; rw [e, List.map_append] at this
      exact (List.nodup_append.1 this).1
    have hx : x ∈ ord := by rw [e]; simp
    have hcell : imCell (l1.map (cellName tbl)) (exCell tbl (getC tbl x)) = some (renumCell ord (getC tbl x)) := by
      apply im_ex_cell tbl _ ord _ (wf.outlines x hx)
      intro l hl i hi
      have hd : i.cell ∈ deps tbl x := by
        simp only [deps, hl]; exact List.mem_map_of_mem hi
      have hin : i.cell ∈ l1 := hdeps l1 x r e i.cell hd
      rw [lookup_map_idxOf l1 i.cell hin hl1nd]
      congr 1
      rw [e, List.idxOf_append, if_pos hin]
    rw [hnames, hcell]
    have := ih (l1 ++ [x]) (by rw [e]; simp)
    simpa using this

/-- The round trip, for every library, every listing order and every sharing structure. -/
theorem c19_roundtrip (lib : Lib) (fuel : Nat) (ord : List Nat)
    (hord : Dep.order (deps lib.table) fuel lib.items = .ok ord) (wf : WF lib.table ord) :
    exportLib' lib fuel = some (exportOrdered lib ord) ∧
    importLib (exportOrdered lib ord) =
      some ⟨lib.name, ord.map (fun i => renumCell ord (getC lib.table i)), List.range ord.length⟩ := by
  obtain ⟨hnd, _, hdeps⟩ := c17_sound (deps lib.table) fuel lib.items ord hord
  refine ⟨by simp [exportLib', hord], ?_⟩
  have := imCells_export lib.table ord wf hnd hdeps ord [] (by simp)
  simp only [List.map_nil] at this
  simp [importLib, exportOrdered, this]

/-- what survives, read off the result: the k-th imported cell is the k-th cell of the dependency
    order — same name, outline steps, metal count, assignments, cuts, abstract; its instances keep
    name, location and both reflections, and point to the imported copy of the same target -/
theorem c19_cell_content (ord : List Nat) (c : Cell) :
    (renumCell ord c).name = c.name ∧ (renumCell ord c).abs = c.abs ∧
    (∀ l, c.layout = some l → ∃ l', (renumCell ord c).layout = some l' ∧
      l'.name = l.name ∧ l'.ox = l.ox ∧ l'.oy = l.oy ∧ l'.metals = l.metals ∧ l'.assigns = l.assigns ∧ l'.cuts = l.cuts ∧
      l'.insts.length = l.insts.length ∧
      ∀ k (hk : k < l.insts.length), ∃ i', l'.insts[k]? = some i' ∧ i'.name = l.insts[k].name ∧ i'.x = l.insts[k].x ∧
        i'.y = l.insts[k].y ∧ i'.rh = l.insts[k].rh ∧ i'.rv = l.insts[k].rv ∧ i'.cell = ord.idxOf l.insts[k].cell) := by
  refine ⟨rfl, rfl, ?_⟩
  intro l hl
  refine ⟨renumLayout ord l, by simp [renumCell, hl], rfl, rfl, rfl, rfl, rfl, rfl, by simp [renumLayout], ?_⟩
  intro k hk
  exact ⟨renumInst ord l.insts[k], by simp [renumLayout, hk], rfl, rfl, rfl, rfl, rfl, rfl⟩

/-! ### malformed messages are errors, in every context -/
theorem c19_err_no_outline (names : List Bytes) (p : PLayout) (h : p.outline = none) : imLayout names p = none := by
  simp [imLayout, h]
theorem c19_err_bad_outline (names : List Bytes) (p : PLayout) (o : POutline) (h : p.outline = some o)
    (hb : outlineOk o.x o.y = false ∨ o.metals < 0) : imLayout names p = none := by
  have : imOutline o = none := by
    unfold imOutline imNat
    rcases hb with hb | hb
    · by_cases hm : o.metals ≥ 0 <;> simp [hm, hb]
    · have : ¬ o.metals ≥ 0 := by omega
      simp [this]
  simp [imLayout, h, this]
theorem c19_err_inst_no_cell (names : List Bytes) (p : PInst) (h : p.cell = none ∨ p.cell = some none ∨ p.cell = some (some .ext)) :
    imInst names p = none := by
  rcases h with h | h | h <;> simp [imInst, h]
theorem c19_err_inst_undefined (names : List Bytes) (p : PInst) (n : Bytes) (h : p.cell = some (some (.loc n)))
    (hu : n ∉ names) : imInst names p = none := by
  have : lookup names n = none := lookupFrom_not_mem n names 0 none hu
  simp [imInst, h, this]
theorem c19_err_inst_no_loc (names : List Bytes) (p : PInst) (h : p.loc = none ∨ p.loc = some none ∨ p.loc = some (some .rel)) :
    imInst names p = none := by
  unfold imInst
  rcases h with h | h | h
  all_goals
    cases hc : p.cell with
    | none => simp
    | some r =>
      cases r with
      | none => simp
      | some to =>
        cases to with
        | ext => simp
        | loc n => cases hl : lookup names n <;> simp [h, hl]
theorem c19_err_assign (a : PAssign) (h : a.at_ = none) : imAssign a = none := by simp [imAssign, h]
theorem c19_err_cross (c : PCross) (h : c.track = none ∨ c.cross = none) : imCross c = none := by
  rcases h with h | h
  · simp [imCross, h]
  · cases ht : c.track <;> simp [imCross, h, ht]
/-- an error anywhere in a layout is an error of the whole library (nothing is skipped silently) -/
theorem c19_err_propagates_inst (names : List Bytes) (p : PLayout) (i : PInst) (hi : i ∈ p.insts)
    (he : imInst names i = none) : imLayout names p = none := by
  have : p.insts.mapM (imInst names) = none := by
    have gen : ∀ (l : List PInst), i ∈ l → l.mapM (imInst names) = none := by
      intro l
      induction l with
      | nil => intro h; simp at h
      | cons a r ih =>
        intro h
        simp only [List.mapM_cons]
        rcases List.mem_cons.1 h with rfl | h'
        · simp [he]
        · cases imInst names a <;> simp [ih h']
    exact gen _ hi
  unfold imLayout
  cases p.outline with
  | none => simp
  | some o => cases imOutline o <;> simp [this]
theorem c19_err_propagates_layout (names : List Bytes) (p : PCell) (l : PLayout) (h : p.layout = some l)
    (he : imLayout names l = none) : imCell names p = none := by
  simp [imCell, imLayoutOpt, h, he]
theorem c19_err_propagates_cell (p : PCell) (ps : List PCell) (acc : List Cell)
    (he : imCell (acc.map (·.name)) p = none) : imCells (p :: ps) acc = none := by
  simp [imCells, he]

/-! ### non-vacuity: a diamond listed users-first, with reflections, is exported dependencies-first
    and comes back intact -/
def leaf (n : Nat) : Cell := ⟨[n], some ⟨[], [4, 2], [1, 3], 2, [], [⟨[1], ⟨⟨1, 2⟩, ⟨2, 3⟩⟩⟩], [⟨⟨0, 1⟩, ⟨1, 0⟩⟩]⟩, none⟩
def user (n : Nat) (ts : List Nat) : Cell :=
  ⟨[n], some ⟨[], [9], [9], 3, ts.map (fun t => ⟨[t], t, -1, 2, true, false⟩), [], []⟩, some ⟨[7], [9], [9], 3⟩⟩
def demo : Lib := ⟨[42], [user 10 [1, 2], user 11 [3], user 12 [3], leaf 13], [0, 1, 2, 3]⟩
example : Dep.order (deps demo.table) 5 demo.items = .ok [3, 1, 2, 0] := by
  simp [Dep.order, Dep.pushAll, Dep.push, deps, getC, demo, user, leaf]
example : ((exportLib' demo 5).bind importLib).map
      (fun l => l.table.map fun c => (c.name, (c.layout.map fun l => l.insts.map (·.cell)).getD [])) =
    some [([13], []), ([11], [0]), ([12], [0]), ([10], [1, 2])] := by
  simp [exportLib', Dep.order, Dep.pushAll, Dep.push, deps, getC, demo, user, leaf, exportOrdered, exCell, exLayout, exInst,
    exAssign, exCross, exRef, exAbs, cellName, importLib, imCells, imCell, imLayout, imLayoutOpt, imAbsOpt, imOutline, imNat,
    outlineOk, imInst, lookup, lookupFrom, imAssign, imCross, imRef, imAbs]
/-- the hypotheses of `c19_roundtrip` are satisfiable by that library -/
example : WF demo.table [3, 1, 2, 0] :=
  ⟨by intro i hi; simp at hi; rcases hi with rfl | rfl | rfl | rfl <;>
        simp [cellOutlinesOk, getC, demo, user, leaf, outlineOk],
   by simp [cellName, getC, demo, user, leaf]⟩

end L21.TProto
