import L21.Model.Determ
import L21.Gen.HashSites
/-
C20 — Conversions are deterministic (model level).

`c20_pi_independent`: whatever order the hash map yields its entries in, the exporters see the
same list.  `c20_sites_covered`: the list of hash-container iteration sites in the conversion
code, REGENERATED from the source on every run, contains nothing but the sites inspected and
accounted for below — a new iteration over a hash container breaks this obligation.
What no theorem can exhibit is the runtime source of the order (per-map RandomState, per-process
seeds, pointer hashing); that part is exercised: repeated in-process conversions and two separate
processes must produce identical output (see harness c20.rs and the runner's double run).
-/
namespace L21.Determ

theorem eq_of_same_key {α : Type} {m : List (Int × α)} (hk : (m.map (·.1)).Nodup) {a b : Int × α}
    (ha : a ∈ m) (hb : b ∈ m) (h : a.1 = b.1) : a = b := by
  induction m with
  | nil => simp at ha
  | cons x rest ih =>
    simp only [List.map_cons, List.nodup_cons] at hk
    rcases List.mem_cons.1 ha with rfl | ha' <;> rcases List.mem_cons.1 hb with rfl | hb'
    · rfl
    · exact absurd (List.mem_map_of_mem (f := (·.1)) hb') (by rw [← h]; exact hk.1)
    · exact absurd (List.mem_map_of_mem (f := (·.1)) ha') (by rw [h]; exact hk.1)
    · exact ih hk.2 ha' hb'

/-- The exported order does not depend on the hash map's iteration order: any two iterations
    (permutations of the same entries, one entry per key) sort to the same list. -/
theorem c20_pi_independent {α : Type} (m1 m2 : List (Int × α)) (hp : m1.Perm m2)
    (hk : (m1.map (·.1)).Nodup) : sortEntries m1 = sortEntries m2 := by
  unfold sortEntries
  have htrans : ∀ (a b c : Int × α), decide (a.1 ≤ b.1) = true → decide (b.1 ≤ c.1) = true → decide (a.1 ≤ c.1) = true := by
    intro a b c h1 h2; simp at *; omega
  have htotal : ∀ (a b : Int × α), (decide (a.1 ≤ b.1) || decide (b.1 ≤ a.1)) = true := by
    intro a b; simp; omega
  have s1 := List.pairwise_mergeSort htrans htotal m1
  have s2 := List.pairwise_mergeSort htrans htotal m2
  have p1 := List.mergeSort_perm m1 (fun a b => decide (a.1 ≤ b.1))
  have p2 := List.mergeSort_perm m2 (fun a b => decide (a.1 ≤ b.1))
  refine List.Perm.eq_of_pairwise ?_ s1 s2 (p1.trans (hp.trans p2.symm))
  intro a b ha hb hab hba
  simp at hab hba
  have ha' : a ∈ m1 := p1.mem_iff.1 ha
  have hb' : b ∈ m1 := hp.mem_iff.2 (p2.mem_iff.1 hb)
  exact eq_of_same_key hk ha' hb' (by omega)

/-- the output is ordered by layer number -/
theorem c20_sorted {α : Type} (m : List (Int × α)) : (sortEntries m).Pairwise (fun a b => a.1 ≤ b.1) := by
  unfold sortEntries
  have := List.pairwise_mergeSort (le := fun (a b : Int × α) => decide (a.1 ≤ b.1))
    (by intro a b c h1 h2; simp at *; omega) (by intro a b; simp; omega) m
  exact this.imp (by intro a b h; simpa using h)

/-- and nothing is lost or invented -/
theorem c20_same_entries {α : Type} (m : List (Int × α)) : (sortEntries m).Perm m :=
  List.mergeSort_perm m _

/-- Iteration sites inspected by hand (file:function:container:how). Each is either an iteration
    over a `Vec` that merely shares its name with a hash-typed field, or goes through
    `Layers::sorted` / an explicit sort before anything order-dependent happens. -/
def accountedSites : List String := [
  "layout21raw/src/gds.rs:export_abstract_port:shapes:iter",            -- Vec<Shape> of one (sorted) layer entry
  "layout21raw/src/proto.rs:export_abstract:blockages:for",             -- local Vec from Layers::sorted
  "layout21raw/src/proto.rs:export_abstract_blockages:shapes:iter",     -- &[Shape]
  "layout21raw/src/proto.rs:export_abstract_port:shapes:iter",          -- Vec<Shape> of one (sorted) layer entry
  "layout21raw/src/proto.rs:import_abstract:blockages:iter",            -- prost Vec<LayerShapes>
  "layout21raw/src/proto.rs:import_abstract_port:shapes:iter",          -- prost Vec<LayerShapes>
  "layout21raw/src/proto.rs:import_layout:shapes:for",                  -- prost Vec<LayerShapes>
  "layout21raw/src/proto.rs:from_proto:layers:for",                     -- prost Vec<LayerInfo>
  "layout21raw/src/proto.rs:from_proto:layers_by_number:values",        -- keys() collected and sorted before use
  "layout21raw/src/lef.rs:export_abstract:blockages:for",               -- local Vec from Layers::sorted
  "layout21raw/src/lef.rs:export_layer_shapes:shapes:for",              -- &Vec<Shape>
  "layout21raw/src/data.rs:sorted:map:iter",                            -- Layers::sorted itself: sorts by layer number
  "layout21tetris/src/conv/raw.rs:export_cell_layer_period:blockages:iter"  -- Vec of (start, stop, instance)
]

theorem c20_sites_covered : Gen.hashIterSites.all (fun s => accountedSites.contains s) = true := by decide

/-! non-vacuity -/
example : sortEntries [(30, 1), (2, 2), (7, 3)] = sortEntries [(7, 3), (30, 1), (2, 2)] :=
  c20_pi_independent _ _ (by decide) (by decide)

end L21.Determ
