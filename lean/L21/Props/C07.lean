import L21.Model.RawGds
import L21.Props.C13
/-
C07 — Raw layout exported to GDSII and imported back is unchanged (model-level theorems; the whole
library round trip is checked by correspondence and by the oracle on every generated library).
-/
namespace L21.RawGds
open L21.Geom L21.Gds

/-- an open path stays open: exactly the path's points are written, in order, with its width -/
theorem c07_path_open (layer dt : Int) (pts : List Pt) (w : Nat) (g : Gds.Elem)
    (h : exportShape layer dt (.path pts w) = .ok g) :
    g = .path layer dt (pts.flatMap ptXY) (some (w : Int)) none none none noCommon := by
  simp only [exportShape] at h
  split at h
  · cases h; rfl
  · simp at h

theorem pairUp_flatMap (pts : List Pt) : pairUp (pts.flatMap ptXY) = pts := by
  induction pts with
  | nil => rfl
  | cons p rest ih => simp [List.flatMap_cons, ptXY, pairUp, ih]

/-- … and comes back with the same points and width -/
theorem c07_path_roundtrip (known : List Bytes) (acc : Pass1) (layer dt : Int) (pts : List Pt) (w : Nat) :
    importElem known acc (.path layer dt (pts.flatMap ptXY) (some (w : Int)) none none none noCommon) =
      .ok { acc with elems := acc.elems ++ [⟨none, layer, dt, .path pts w⟩] } := by
  simp [importElem, pairUp_flatMap]

/-- a rectangle is written as its five-point boundary and recognised again as the same rectangle -/
theorem c07_rect_roundtrip (known : List Bytes) (acc : Pass1) (layer dt : Int) (p0 p1 : Pt) :
    importElem known acc (.boundary layer dt [p0.x, p0.y, p1.x, p0.y, p1.x, p1.y, p0.x, p1.y, p0.x, p0.y] noCommon) =
      .ok { acc with elems := acc.elems ++ [⟨none, layer, dt, .rect p0 p1⟩] } := by
  simp [importElem, pairUp, boundaryShape]

/-- every unit survives: what the exporter writes is what the importer recognises -/
theorem c07_units (u : Nat) (h : u ≤ 3) : importUnits (unitBits u).2 = some u := by
  have : u = 0 ∨ u = 1 ∨ u = 2 ∨ u = 3 := by omega
  rcases this with rfl | rfl | rfl | rfl <;> decide

/-- instance orientation survives: reflection and angle are written into STRANS and read back -/
theorem c07_orientation_roundtrip (i : Inst) (g : Gds.Elem) (h : exportInst i = .ok g) :
    ∃ st, g = .sref i.cell [i.loc.x, i.loc.y] st noCommon ∧ importStrans st false = .ok (i.refl, i.angle) := by
  simp only [exportInst] at h
  split at h
  · cases h
    refine ⟨_, rfl, ?_⟩
    by_cases hc : (i.refl || i.angle.isSome) = true
    · simp [hc, importStrans]
    · simp only [hc]
      simp at hc
      simp [importStrans, hc.1, hc.2]
  · simp at h

theorem half_between (a b : Int) : min a b ≤ half (a + b) ∧ half (a + b) ≤ max a b := by
  unfold half
  by_cases h : 0 ≤ a + b
  · rw [Int.tdiv_eq_ediv_of_nonneg h]; omega
  · have hn : a + b = -(-(a + b)) := by omega
    rw [hn, Int.neg_tdiv, Int.tdiv_eq_ediv_of_nonneg (by omega)]; omega

/-- the label the exporter emits for a named rectangle lies inside it -/
theorem c07_label_inside_rect (p0 p1 q : Pt) (h : labelLocation (.rect p0 p1) = .ok q) :
    rectContains p0 p1 q = true := by
  simp only [labelLocation] at h
  cases h
  rw [c13_rect]
  have hx := half_between p0.x p1.x
  have hy := half_between p0.y p1.y
  exact ⟨⟨hx.1, hx.2⟩, ⟨hy.1, hy.2⟩⟩

/-- the label of a named polygon lies inside it (whenever a label location is found at all) -/
theorem c07_label_inside_polygon (pts : List Pt) (q : Pt) (h : labelLocation (.polygon pts) = .ok q) :
    polyContains pts q = true := by
  simp only [labelLocation] at h
  cases pts with
  | nil => simp at h
  | cons p0 rest =>
    simp only at h
    split at h
    · rename_i hc; cases h; exact hc
    · split at h
      · rename_i q' hf
        cases h
        have := List.find?_some hf
        simpa using this
      · simp at h

/-- the label of a path lies on its first segment, hence inside the path (Manhattan first segment) -/
theorem c07_label_inside_path (a b : Pt) (rest : List Pt) (w : Nat) (q : Pt)
    (hm : a.x = b.x ∨ a.y = b.y) (h : labelLocation (.path (a :: b :: rest) w) = .ok q) :
    pathContains (a :: b :: rest) w q = Geom.Out.ok true := by
  simp only [labelLocation] at h
  cases h
  have hx := half_between a.x b.x
  have hy := half_between a.y b.y
  have hw : (0 : Int) ≤ (w : Int) / 2 := Int.ediv_nonneg (Int.natCast_nonneg w) (by omega)
  simp only [pathContains, pathSegs]
  by_cases hxe : a.x = b.x
  · have hit : rectContains ⟨a.x - (w : Int) / 2, a.y⟩ ⟨a.x + (w : Int) / 2, b.y⟩ ⟨half (a.x + b.x), half (a.y + b.y)⟩ = true := by
      rw [c13_rect]; simp only; omega
    rw [if_pos hxe, if_pos hit]
  · have hye : a.y = b.y := by rcases hm with h | h; exact absurd h hxe; exact h
    have hit : rectContains ⟨a.x, a.y - (w : Int) / 2⟩ ⟨b.x, a.y + (w : Int) / 2⟩ ⟨half (a.x + b.x), half (a.y + b.y)⟩ = true := by
      rw [c13_rect]; simp only; omega
    rw [if_neg hxe, if_pos hye, if_pos hit]

/-! non-vacuity -/
example : labelLocation (.rect ⟨-3, 0⟩ ⟨0, 5⟩) = .ok ⟨-1, 2⟩ := by decide
-- a U-shape: the bounding-box centre is outside, a neighbour of the first vertex is used
example : labelLocation (.polygon [⟨0,0⟩, ⟨0,10⟩, ⟨2,10⟩, ⟨2,2⟩, ⟨8,2⟩, ⟨8,10⟩, ⟨10,10⟩, ⟨10,0⟩]) = .ok ⟨0, 1⟩ := by decide

end L21.RawGds
