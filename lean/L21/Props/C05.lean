import L21.Props.C04
import L21.Model.LefLex
/-
C05 — LEF write-then-read returns the library that was written (keyword / token layer).

Every keyword and enumerated value the writer emits is `to_str` (= `Display`) of an entry of a
regenerated `enumstr!` table.  For EVERY entry of EVERY table:

* `c05_keyword_roundtrip`: reading what the writer printed — lexing, upper-casing, first-match
  lookup — returns the variant that was written;
* `c05_keywords_lex_as_one_name`: the printed keyword is lexed as exactly one Name token
  covering all of it (never a number, never split), so the token stream the reader sees is the
  one the writer intended.
The statement grammar of the writer and rust_decimal's Display/FromStr pair are not modelled; the
whole-library round trip is decided by the oracle on libraries in the image of the reader.
-/
namespace L21.LefEnum
open L21.Gen L21.LefLex

theorem upper_canonical : ∀ (s : List Char), s.all canonicalChar = true → upper s = s := by
  intro s
  induction s with
  | nil => intro _; rfl
  | cons c r ih =>
    intro h
    simp only [List.all_cons, Bool.and_eq_true] at h
    simp only [upper, List.map_cons]
    rw [upperC_canonical c h.1]
    congr 1
    exact ih h.2

theorem c05_keyword_roundtrip : ∀ t ∈ lefEnums, ∀ p ∈ t.2,
    ∃ s, toStr t.2 p.1 = some s ∧ parse t.2 s.toList = some p.1 := by
  intro t ht p hp
  obtain ⟨h1, h2⟩ := c04_enum_no_shadowing t ht p hp
  refine ⟨p.2, h1, ?_⟩
  unfold parse
  rw [upper_canonical _ (c04_enum_strings_canonical t ht p hp).2]
  simpa using h2

def lexesAsOneName (s : String) : Bool :=
  lex isWsUnicode s.toList == .ok [⟨.name, 0, s.toList.length⟩]

theorem all_keywords_one_name : lefEnums.all (fun t => t.2.all (fun p => lexesAsOneName p.2)) = true := by
  decide +kernel

theorem c05_keywords_lex_as_one_name : ∀ t ∈ lefEnums, ∀ p ∈ t.2,
    lex isWsUnicode p.2.toList = .ok [⟨.name, 0, p.2.toList.length⟩] := by
  intro t ht p hp
  have h := List.all_eq_true.1 (List.all_eq_true.1 all_keywords_one_name t ht) p hp
  simpa [lexesAsOneName] using h

example : lexesAsOneName "ANTENNAPARTIALMETALSIDEAREA" = true := by decide +kernel
example : lexesAsOneName "R90" = true := by decide +kernel
example : lexesAsOneName "9R" = true := by decide +kernel  -- a name: not a number
example : lexesAsOneName "90" = false := by decide +kernel   -- would be a number

end L21.LefEnum
