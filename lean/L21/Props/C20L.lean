import L21.Model.RawLef
import L21.Props.C20K
/-
C20 — determinism lifted to the raw → LEF exporter (`Model/RawLef.lean`): whatever order each per-layer hash
map (every port's shapes, the blockages) yields its entries in, `LefExporter::export` returns the same LEF
library — the same macros, pins, layers and geometries in the same order, or the same refusal / panic.
-/
namespace L21.RawLef
open L21.Determ L21.RawProto

/-- the same ports, each with its shape map iterated in some order (keys distinct) -/
inductive PortsSame : List HPort → List HPort → Prop
  | nil : PortsSame [] []
  | cons {p q : HPort} {ps qs : List HPort} : p.net = q.net → p.shapes.Perm q.shapes → (p.shapes.map (·.1)).Nodup →
      PortsSame ps qs → PortsSame (p :: ps) (q :: qs)

/-- two states of the same abstract that differ only in the iteration order of their hash maps -/
def SameUpToIteration (a b : HAbs) : Prop :=
  a.name = b.name ∧ a.blockages.Perm b.blockages ∧ (a.blockages.map (·.1)).Nodup ∧ PortsSame a.ports b.ports

inductive AbsSame : List HAbs → List HAbs → Prop
  | nil : AbsSame [] []
  | cons {a b : HAbs} {as bs : List HAbs} : SameUpToIteration a b → AbsSame as bs → AbsSame (a :: as) (b :: bs)

theorem exportMap_order_free (names : LKey → Option Bytes) (m1 m2 : List (LKey × List Shape)) (hp : m1.Perm m2)
    (hk : (m1.map (·.1)).Nodup) : exportMap names m1 = exportMap names m2 := by
  unfold exportMap; rw [c20_sorted_key_independent _ _ hp hk]

theorem exportPorts_order_free (names : LKey → Option Bytes) (ps qs : List HPort) (h : PortsSame ps qs) :
    exportPorts names ps = exportPorts names qs := by
  induction h with
  | nil => rfl
  | cons h1 h2 h3 _ ih =>
    simp only [exportPorts, exportPort]
    rw [ih, h1, exportMap_order_free names _ _ h2 h3]

/-- **The exported LEF macro does not depend on hash-map iteration order.** -/
theorem c20_lef_abstract_order_free (names : LKey → Option Bytes) (a b : HAbs) (h : SameUpToIteration a b) :
    exportAbstract names a = exportAbstract names b := by
  obtain ⟨hn, hb, hbk, hp⟩ := h
  unfold exportAbstract
  rw [exportPorts_order_free names _ _ hp, exportMap_order_free names _ _ hb hbk, hn]

/-- **The exported LEF library does not depend on hash-map iteration order** — every abstract of the library,
    every port, every map, every pair of iteration orders; refusals and the `unimplemented!` path included. -/
theorem c20_lef_export_order_free (names : LKey → Option Bytes) (units : Nat) (as bs : List HAbs) (h : AbsSame as bs) :
    exportLib names units as = exportLib names units bs := by
  have : exportAbstracts names as = exportAbstracts names bs := by
    induction h with
    | nil => rfl
    | cons h1 _ ih => simp only [exportAbstracts]; rw [ih, c20_lef_abstract_order_free names _ _ h1]
  unfold exportLib; rw [this]

/-- what the exporter does NOT do (recorded as a theorem about the model, tied to the code by `c20.abs2lef`):
    coordinates are written as the raw integers — one LEF geometry per rectangle / polygon, points unchanged -/
theorem lef_export_keeps_points (ss : List Shape) (gs : List LShape) (h : exportShapes ss = .ok gs) :
    gs.length = ss.length ∧ ∀ i (hi : i < ss.length) (hj : i < gs.length),
      (match ss[i], gs[i] with
       | .rect a b, .rect c d => a = c ∧ b = d
       | .polygon ps, .polygon qs => ps = qs
       | _, _ => False) := by
  induction ss generalizing gs with
  | nil => simp only [exportShapes, Res.ok.injEq] at h; subst h; simp
  | cons s r ih =>
    simp only [exportShapes] at h
    cases hs : exportShape s with
    | err => rw [hs] at h; simp [Res.bind] at h
    | panic => rw [hs] at h; simp [Res.bind] at h
    | ok g =>
      rw [hs] at h
      cases hr : exportShapes r with
      | err => rw [hr] at h; simp [Res.bind] at h
      | panic => rw [hr] at h; simp [Res.bind] at h
      | ok gr =>
        rw [hr] at h
        simp only [Res.bind, Res.ok.injEq] at h
        subst h
        obtain ⟨hl, hpt⟩ := ih gr hr
        refine ⟨by simp [hl], ?_⟩
        intro i hi hj
        cases i with
        | zero =>
          cases s <;> simp [exportShape] at hs <;> subst hs <;> simp
        | succ k => simpa using hpt k (by simpa using hi) (by simpa using hj)

/-! non-vacuity: two layers sharing number 67 (named differently) and a third layer, iterated in two orders -/
def exNames : LKey → Option Bytes := fun k => some [0x4c, k.2]
example : exportAbstract exNames ⟨[0x61], [⟨[0x70], [((68, 2), []), ((67, 1), []), ((67, 0), [.rect ⟨0, 0⟩ ⟨1, 1⟩])]⟩], [((67, 1), []), ((67, 0), [])]⟩ =
    exportAbstract exNames ⟨[0x61], [⟨[0x70], [((67, 0), [.rect ⟨0, 0⟩ ⟨1, 1⟩]), ((68, 2), []), ((67, 1), [])]⟩], [((67, 0), []), ((67, 1), [])]⟩ :=
  c20_lef_abstract_order_free _ _ _ ⟨rfl, by decide, by decide, PortsSame.cons rfl (by decide) (by decide) PortsSame.nil⟩

end L21.RawLef
