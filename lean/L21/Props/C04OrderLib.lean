import L21.Props.C04Order
import L21.Proofs.LefRTLib
import L21.Props.C04L
/-
C04 — statement ORDER at LIBRARY level (reader model).

Library statements are not freely permutable: the reader carries a session VERSION that gates
NAMESCASESENSITIVE and MACRO SOURCE (5.4 and below only) and refuses a VERSION above 5.4 that follows such
statements.  `runL` is that session as a fold with guards over an arbitrary statement sequence (each MACRO given as
an arbitrary statement sequence with arbitrarily ordered pins, `Props/C04Order.lean`).

* `c04_lib_any_order`: for EVERY statement sequence the session admits, in whatever order and with whatever
  repetition, the reader model returns exactly the library the session builds — every statement lands in its
  field, every definition (VIA, SITE, MACRO, extension, property definition) is appended in the order written;
* `c04_lib_any_order_noend`: the same without `END LIBRARY` when the session version is ≥ 5.6;
* `runL_fixed`: once the version is fixed, every order of statements that are admissible at that version is
  admitted, and the result is the plain fold `applyL`;
* `c04_lib_fold_fields`: that fold field by field (scalars: last statement of the kind; lists: in order);
* `c04_lib_reads_back`: a library rendered as `VERSION` first (if any), then its statements in ANY interleaving
  (`RendersL`), is read back to exactly that library.
-/
namespace L21.Lef
open L21.LefLex L21.LefEnum L21.Gen

/-! ## UNITS sub-statements in any order -/

inductive UStmt where
  | time (d : Dec) | cap (d : Dec) | res (d : Dec) | power (d : Dec) | current (d : Dec) | voltage (d : Dec)
  | freq (d : Dec) | dbu (v : Int)

def wUStmt : UStmt → List Tok
  | .time d => [kw "Time", kw "Nanoseconds", num d, semiTok]
  | .cap d => [kw "Capacitance", kw "Picofarads", num d, semiTok]
  | .res d => [kw "Resistance", kw "Ohms", num d, semiTok]
  | .power d => [kw "Power", kw "Milliwatts", num d, semiTok]
  | .current d => [kw "Current", kw "Milliamps", num d, semiTok]
  | .voltage d => [kw "Voltage", kw "Volts", num d, semiTok]
  | .freq d => [kw "Frequency", kw "Megahertz", num d, semiTok]
  | .dbu v => [kw "Database", kw "Microns", num ⟨v, 0⟩, semiTok]

def ustmtOk : UStmt → Bool
  | .dbu v => dbuOk v
  | .time d | .cap d | .res d | .power d | .current d | .voltage d | .freq d => decOk d

def applyU (u : Units) : UStmt → Units
  | .time d => { u with time := some d }
  | .cap d => { u with cap := some d }
  | .res d => { u with res := some d }
  | .power d => { u with power := some d }
  | .current d => { u with current := some d }
  | .voltage d => { u with voltage := some d }
  | .freq d => { u with freq := some d }
  | .dbu v => { u with dbu := some v }

theorem unitsBody_stmt (f : Nat) (u : Units) (s : UStmt) (T : List Tok) (h : ustmtOk s = true) :
    unitsBody (f + 1) u (wUStmt s ++ T) = unitsBody f (applyU u s) T := by
  cases s with
  | time d => exact un_time f u d T h
  | cap d => exact un_cap f u d T h
  | res d => exact un_res f u d T h
  | power d => exact un_power f u d T h
  | current d => exact un_current f u d T h
  | voltage d => exact un_voltage f u d T h
  | freq d => exact un_freq f u d T h
  | dbu v => exact un_dbu f u v T h

theorem unitsBody_stmts (T : List Tok) : ∀ (ss : List UStmt) (u : Units) (f : Nat), ss.length ≤ f → ss.all ustmtOk = true →
    unitsBody f u (ss.flatMap wUStmt ++ T) = unitsBody (f - ss.length) (ss.foldl applyU u) T := by
  intro ss
  induction ss with
  | nil => intro u f _ _; simp
  | cons s r ih =>
    intro u f hf hok
    obtain ⟨n, rfl⟩ : ∃ n, f = n + 1 := ⟨f - 1, by simp at hf; omega⟩
    simp only [List.all_cons, Bool.and_eq_true] at hok
    simp only [List.flatMap_cons, List.append_assoc, List.foldl_cons]
    rw [unitsBody_stmt n u s _ hok.1, ih _ n (by simp at hf; omega) hok.2]
    simp [Nat.add_sub_add_right]

theorem flatMap_wUStmt_length (ss : List UStmt) : ss.length ≤ (ss.flatMap wUStmt).length :=
  flatMap_len_le wUStmt (by intro a; cases a <;> simp [wUStmt]) ss

/-- **UNITS sub-statements in every order, every repetition** are read to the fold of their updates -/
theorem c04_units_any_order (ss : List UStmt) (T : List Tok) (F : Nat) (h : ss.all ustmtOk = true)
    (hF : (ss.flatMap wUStmt).length + 1 ≤ F) :
    unitsBody F {} (ss.flatMap wUStmt ++ kw "End" :: kw "Units" :: T) = some (ss.foldl applyU {}, T) := by
  have hl := flatMap_wUStmt_length ss
  rw [unitsBody_stmts _ ss {} F (by omega) h]
  obtain ⟨g, hg⟩ : ∃ g, F - ss.length = g + 1 := ⟨F - ss.length - 1, by omega⟩
  rw [hg, un_end]

inductive LStmt where
  | unitsS (us : List UStmt)
  | version (d : Dec)
  | busbit (p : Char × Char)
  | divider (c : Char)
  | ncs (e : String)
  | nowire (e : String)
  | units (u : Units)
  | mfg (d : Dec)
  | ums (e : String)
  | clearance (e : String)
  | propdefs (ds : List PropDef)
  | fixedMask
  | via (v : ViaDef)
  | site (s : Site)
  | macro (n : Str) (ss : List MStmt)
  | ext (e : Str × Str)

def wLStmt : LStmt → List Tok
  | .version d => [kw "Version", num d, semiTok]
  | .busbit p => [kw "BusBitChars", strTok ['"', p.1, p.2, '"'], semiTok]
  | .divider c => [kw "DividerChar", strTok ['"', c, '"'], semiTok]
  | .ncs e => [kw "NamesCaseSensitive", en "LefOnOff" e, semiTok]
  | .nowire e => [kw "NoWireExtensionAtPin", en "LefOnOff" e, semiTok]
  | .units u => wUnits u
  | .unitsS us => kw "Units" :: (us.flatMap wUStmt ++ [kw "End", kw "Units"])
  | .mfg d => [kw "ManufacturingGrid", num d, semiTok]
  | .ums e => [kw "UseMinSpacing", kw "Obs", en "LefOnOff" e, semiTok]
  | .clearance e => [kw "ClearanceMeasure", en "LefClearanceStyle" e, semiTok]
  | .propdefs ds => kw "PropertyDefinitions" :: (ds.flatMap wPropDef ++ [kw "End", kw "PropertyDefinitions"])
  | .fixedMask => [kw "FixedMask", semiTok]
  | .via v => wViaToks v
  | .site s => wSite s
  | .macro n ss => wMacroStmts n ss
  | .ext e => wExt e

/-- the update a statement makes (no guard) -/
def applyL (lib : Lib) : LStmt → Lib
  | .version d => { lib with version := some d }
  | .busbit p => { lib with busBitChars := some p }
  | .divider c => { lib with dividerChar := some c }
  | .ncs e => { lib with namesCaseSensitive := some e }
  | .nowire e => { lib with noWireExt := some e }
  | .units u => { lib with units := some u }
  | .unitsS us => { lib with units := some (us.foldl applyU {}) }
  | .mfg d => { lib with mfgGrid := some d }
  | .ums e => { lib with useMinSpacing := some e }
  | .clearance e => { lib with clearance := some e }
  | .propdefs ds => { lib with propDefs := lib.propDefs ++ ds }
  | .fixedMask => { lib with fixedMask := true }
  | .via v => { lib with vias := lib.vias ++ [v] }
  | .site s => { lib with sites := lib.sites ++ [s] }
  | .macro n ss => { lib with macros := lib.macros ++ [ss.foldl applyM (emptyMacro n)] }
  | .ext e => { lib with extensions := lib.extensions ++ [e] }

/-- is the statement admissible when the session version is `ver` and `lib` has been read so far -/
def guardL (ver : Dec) (lib : Lib) : LStmt → Bool
  | .version d => decOk d && versionOk d && !(v5p4.lt d && (lib.namesCaseSensitive.isSome || lib.macros.any (·.source.isSome)))
  | .ncs e => isVariant "LefOnOff" e && !(v5p4.lt ver)
  | .nowire e => isVariant "LefOnOff" e
  | .units u => unitsOk u
  | .unitsS us => us.all ustmtOk
  | .mfg d => decOk d
  | .ums e => isVariant "LefOnOff" e
  | .clearance e => isVariant "LefClearanceStyle" e
  | .propdefs ds => ds.all pdOk
  | .via v => viaOk v
  | .site s => siteOk s
  | .macro _ ss => ss.all (mstmtOk ver)
  | .ext e => extOk e
  | _ => true

/-- the session version after the statement -/
def verAfter (ver : Dec) : LStmt → Dec
  | .version d => d
  | _ => ver

/-- the reader's session over a statement sequence: `none` as soon as a guard refuses -/
def runL : Dec → Lib → List LStmt → Option (Dec × Lib)
  | ver, lib, [] => some (ver, lib)
  | ver, lib, s :: r => if guardL ver lib s then runL (verAfter ver s) (applyL lib s) r else none

theorem wLStmt_length (s : LStmt) : 1 ≤ (wLStmt s).length := by
  cases s <;> simp [wLStmt, wUnits, wViaToks, wSite, wMacroStmts, wExt]

theorem flatMap_wLStmt_length (ss : List LStmt) : ss.length ≤ (ss.flatMap wLStmt).length :=
  flatMap_len_le wLStmt wLStmt_length ss

/-- VERSION with the reader's exact guard (`lb_version` assumes more than the reader checks) -/
theorem lb_version' (f : Nat) (ver : Dec) (lib : Lib) (d : Dec) (T : List Tok) (h : decOk d = true) (hv : versionOk d = true)
    (hg : (v5p4.lt d && (lib.namesCaseSensitive.isSome || lib.macros.any (·.source.isSome))) = false) :
    libBody (f + 1) ver lib (kw "Version" :: num d :: semiTok :: T) = libBody f d { lib with version := some d } T := by
  cases hlt : v5p4.lt d with
  | true => rw [hlt, Bool.true_and] at hg; exact lb_version f ver lib d T h hv hg
  | false => rw [libBody]; simp [peekKey_kw "Version" _ k_Version, number_num d _ h, semi_semiTok, hv, hlt]

theorem lb_macro_stmts (f : Nat) (ver : Dec) (lib : Lib) (n : Str) (ss : List MStmt) (T : List Tok) (h : ss.all (mstmtOk ver) = true) :
    libBody (f + 1) ver lib (wMacroStmts n ss ++ T) =
      libBody f ver { lib with macros := lib.macros ++ [ss.foldl applyM (emptyMacro n)] } T := by
  have hp := c04_macro_any_order ver n ss T h
  have hpk : peekKey (wMacroStmts n ss ++ T) = some "Macro" := by
    simp only [wMacroStmts, List.cons_append]; exact peekKey_kw _ _ k_Macro
  have hl : T.length < (wMacroStmts n ss ++ T).length := by
    simp only [wMacroStmts, List.length_append, List.length_cons, List.cons_append]; omega
  have hne : (wMacroStmts n ss ++ T).isEmpty = false := by simp [wMacroStmts]
  generalize wMacroStmts n ss ++ T = ts at hp hpk hl hne
  rw [libBody]; simp [hpk, hp, hl, hne]

theorem lb_units_stmts (f : Nat) (ver : Dec) (lib : Lib) (us : List UStmt) (T : List Tok) (h : us.all ustmtOk = true) :
    libBody (f + 1) ver lib (kw "Units" :: (us.flatMap wUStmt ++ [kw "End", kw "Units"]) ++ T) =
      libBody f ver { lib with units := some (us.foldl applyU {}) } T := by
  have heq : kw "Units" :: (us.flatMap wUStmt ++ [kw "End", kw "Units"]) ++ T =
      kw "Units" :: (us.flatMap wUStmt ++ kw "End" :: kw "Units" :: T) := by simp
  rw [heq]
  generalize hts : kw "Units" :: (us.flatMap wUStmt ++ kw "End" :: kw "Units" :: T) = ts
  have hpk : peekKey ts = some "Units" := by subst hts; exact peekKey_kw _ _ k_Units
  have htl : ts.tail = us.flatMap wUStmt ++ kw "End" :: kw "Units" :: T := by subst hts; rfl
  have hl : T.length < ts.length := by subst hts; simp only [List.length_cons, List.length_append]; omega
  have hne : ts.isEmpty = false := by subst hts; rfl
  have hu := c04_units_any_order us T (ts.length + 1) h (by subst hts; simp only [List.length_cons, List.length_append]; omega)
  rw [← htl] at hu
  rw [libBody]; simp [hpk, hu, hl, hne]

/-- one library statement: if the session admits it, the reader model makes exactly its update -/
theorem libBody_stmt (f : Nat) (ver : Dec) (lib : Lib) (s : LStmt) (T : List Tok) (h : guardL ver lib s = true) :
    libBody (f + 1) ver lib (wLStmt s ++ T) = libBody f (verAfter ver s) (applyL lib s) T := by
  cases s with
  | version d =>
    simp only [guardL, Bool.and_eq_true, Bool.not_eq_true'] at h
    exact lb_version' f ver lib d T h.1.1 h.1.2 h.2
  | busbit p => exact lb_busbit f ver lib p T
  | divider c => exact lb_divider f ver lib c T
  | ncs e =>
    simp only [guardL, Bool.and_eq_true, Bool.not_eq_true'] at h
    exact lb_ncs f ver lib e T h.1 h.2
  | nowire e => exact lb_nowire f ver lib e T h
  | units u => exact lb_units f ver lib u T h
  | unitsS us => exact lb_units_stmts f ver lib us T h
  | mfg d => exact lb_mfg f ver lib d T h
  | ums e => exact lb_ums f ver lib e T h
  | clearance e => exact lb_clearance f ver lib e T h
  | propdefs ds => simpa [wLStmt, applyL, verAfter] using lb_propdefs f ver lib ds T h
  | fixedMask => exact lb_fixedmask f ver lib T
  | via v =>
    have := lb_vias ver T [v] lib (f + 1) (by simp) (by simpa [guardL] using h)
    simpa [wLStmt, applyL, verAfter] using this
  | site s =>
    have := lb_sites ver T [s] lib (f + 1) (by simp) (by simpa [guardL] using h)
    simpa [wLStmt, applyL, verAfter] using this
  | «macro» n ss => exact lb_macro_stmts f ver lib n ss T h
  | ext e => exact lb_ext f ver lib e T h

theorem libBody_stmts (T : List Tok) : ∀ (ss : List LStmt) (ver : Dec) (lib : Lib) (f : Nat) (v' : Dec) (l' : Lib), ss.length ≤ f →
    runL ver lib ss = some (v', l') →
    libBody f ver lib (ss.flatMap wLStmt ++ T) = libBody (f - ss.length) v' l' T := by
  intro ss
  induction ss with
  | nil => intro ver lib f v' l' _ h; simp only [runL, Option.some.injEq, Prod.mk.injEq] at h; obtain ⟨rfl, rfl⟩ := h; simp
  | cons s r ih =>
    intro ver lib f v' l' hf h
    obtain ⟨n, rfl⟩ : ∃ n, f = n + 1 := ⟨f - 1, by simp at hf; omega⟩
    simp only [runL] at h
    split at h
    · rename_i hg
      simp only [List.flatMap_cons, List.append_assoc]
      rw [libBody_stmt n ver lib s _ hg, ih _ _ n v' l' (by simp at hf; omega) h]
      simp [Nat.add_sub_add_right]
    · exact absurd h (by simp)

/-- the tokens of a library whose statements come in the given order, closed by END LIBRARY -/
def wLibStmts (ss : List LStmt) : List Tok := ss.flatMap wLStmt ++ [kw "End", kw "Library"]

/-- **Every admitted order, every repetition, at library level**: whatever sequence of library statements the
    reader's session admits, the reader model returns exactly the library that session builds. -/
theorem c04_lib_any_order (ss : List LStmt) (ver : Dec) (lib : Lib) (v' : Dec) (l' : Lib) (T : List Tok)
    (h : runL ver lib ss = some (v', l')) :
    libBody ((wLibStmts ss ++ T).length + 1) ver lib (wLibStmts ss ++ T) = some l' := by
  have hl := flatMap_wLStmt_length ss
  have hsplit : wLibStmts ss ++ T = ss.flatMap wLStmt ++ kw "End" :: kw "Library" :: T := by simp [wLibStmts]
  rw [hsplit]
  have hb := libBody_stmts (kw "End" :: kw "Library" :: T) ss ver lib
    ((ss.flatMap wLStmt ++ kw "End" :: kw "Library" :: T).length + 1) v' l'
    (by simp only [List.length_append, List.length_cons]; omega) h
  obtain ⟨g, hg⟩ : ∃ g, (ss.flatMap wLStmt ++ kw "End" :: kw "Library" :: T).length + 1 - ss.length = g + 1 :=
    ⟨(ss.flatMap wLStmt ++ kw "End" :: kw "Library" :: T).length - ss.length, by simp only [List.length_append, List.length_cons]; omega⟩
  rw [hg, lb_end] at hb
  exact hb

/-- from version 5.6 on, END LIBRARY may be missing -/
theorem c04_lib_any_order_noend (ss : List LStmt) (ver : Dec) (lib : Lib) (v' : Dec) (l' : Lib)
    (h : runL ver lib ss = some (v', l')) (hv : v5p6.le v' = true) :
    libBody ((ss.flatMap wLStmt).length + 1) ver lib (ss.flatMap wLStmt) = some l' := by
  have hl := flatMap_wLStmt_length ss
  have hb := libBody_stmts [] ss ver lib ((ss.flatMap wLStmt).length + 1) v' l' (by omega) h
  simp only [List.append_nil] at hb
  obtain ⟨g, hg⟩ : ∃ g, (ss.flatMap wLStmt).length + 1 - ss.length = g + 1 := ⟨(ss.flatMap wLStmt).length - ss.length, by omega⟩
  rw [hb, hg, libBody]
  simp [hv]

/-- a non-VERSION statement that is admissible at session version `v` whatever has been read -/
def okAt (v : Dec) : LStmt → Bool
  | .version _ => false
  | s => guardL v {} s

theorem guardL_of_okAt (v : Dec) (lib : Lib) (s : LStmt) (h : okAt v s = true) : guardL v lib s = true ∧ verAfter v s = v := by
  cases s <;> simp_all [okAt, guardL, verAfter]

/-- with the version fixed, EVERY order of statements admissible at that version is admitted; the session is the
    plain fold of the updates -/
theorem runL_fixed (v : Dec) : ∀ (ss : List LStmt) (lib : Lib), ss.all (okAt v) = true → runL v lib ss = some (v, ss.foldl applyL lib) := by
  intro ss
  induction ss with
  | nil => intro lib _; rfl
  | cons s r ih =>
    intro lib h
    simp only [List.all_cons, Bool.and_eq_true] at h
    obtain ⟨hg, hv⟩ := guardL_of_okAt v lib s h.1
    simp only [runL, hg, if_true, hv, List.foldl_cons]
    exact ih _ h.2

def LStmt.busbit? : LStmt → Option (Char × Char) | .busbit d => some d | _ => none
def LStmt.divider? : LStmt → Option Char | .divider d => some d | _ => none
def LStmt.ncs? : LStmt → Option String | .ncs d => some d | _ => none
def LStmt.nowire? : LStmt → Option String | .nowire d => some d | _ => none
def LStmt.units? : LStmt → Option Units | .units d => some d | .unitsS us => some (us.foldl applyU {}) | _ => none
def LStmt.mfg? : LStmt → Option Dec | .mfg d => some d | _ => none
def LStmt.ums? : LStmt → Option String | .ums d => some d | _ => none
def LStmt.clearance? : LStmt → Option String | .clearance d => some d | _ => none
def LStmt.version? : LStmt → Option Dec | .version d => some d | _ => none
def LStmt.propdefs? : LStmt → Option (List PropDef) | .propdefs d => some d | _ => none
def LStmt.fixedMask? : LStmt → Option Unit | .fixedMask => some () | _ => none
def LStmt.via? : LStmt → Option ViaDef | .via d => some d | _ => none
def LStmt.site? : LStmt → Option Site | .site d => some d | _ => none
def LStmt.macro? : LStmt → Option Macro | .macro n ss => some (ss.foldl applyM (emptyMacro n)) | _ => none
def LStmt.ext? : LStmt → Option (Str × Str) | .ext d => some d | _ => none

/-- the fold field by field -/
def collectL (l : Lib) (ss : List LStmt) : Lib :=
  { macros := l.macros ++ ss.filterMap LStmt.macro?
    sites := l.sites ++ ss.filterMap LStmt.site?
    vias := l.vias ++ ss.filterMap LStmt.via?
    version := lastO (ss.filterMap LStmt.version?) l.version
    namesCaseSensitive := lastO (ss.filterMap LStmt.ncs?) l.namesCaseSensitive
    noWireExt := lastO (ss.filterMap LStmt.nowire?) l.noWireExt
    busBitChars := lastO (ss.filterMap LStmt.busbit?) l.busBitChars
    dividerChar := lastO (ss.filterMap LStmt.divider?) l.dividerChar
    units := lastO (ss.filterMap LStmt.units?) l.units
    fixedMask := l.fixedMask || (ss.filterMap LStmt.fixedMask?).length != 0
    clearance := lastO (ss.filterMap LStmt.clearance?) l.clearance
    extensions := l.extensions ++ ss.filterMap LStmt.ext?
    mfgGrid := lastO (ss.filterMap LStmt.mfg?) l.mfgGrid
    useMinSpacing := lastO (ss.filterMap LStmt.ums?) l.useMinSpacing
    propDefs := l.propDefs ++ (ss.filterMap LStmt.propdefs?).flatten }

theorem c04_lib_fold_fields : ∀ (ss : List LStmt) (l : Lib), ss.foldl applyL l = collectL l ss := by
  intro ss
  induction ss with
  | nil => intro l; simp [collectL]
  | cons s r ih =>
    intro l
    rw [List.foldl_cons, ih]
    cases s <;> simp [collectL, applyL, List.filterMap_cons, LStmt.busbit?, LStmt.divider?, LStmt.ncs?, LStmt.nowire?, LStmt.units?,
      LStmt.mfg?, LStmt.ums?, LStmt.clearance?, LStmt.version?, LStmt.propdefs?, LStmt.fixedMask?, LStmt.via?, LStmt.site?,
      LStmt.macro?, LStmt.ext?]

/-- `ss` (no VERSION statement in it) says exactly the library `l` apart from its version: definitions in order,
    each present scalar once, property definitions split over any number of blocks, in ANY interleaving -/
def RendersL (ss : List LStmt) (l : Lib) : Prop :=
  ss.filterMap LStmt.macro? = l.macros ∧ ss.filterMap LStmt.site? = l.sites ∧ ss.filterMap LStmt.via? = l.vias ∧
  ss.filterMap LStmt.ext? = l.extensions ∧ (ss.filterMap LStmt.propdefs?).flatten = l.propDefs ∧
  ss.filterMap LStmt.version? = [] ∧
  ss.filterMap LStmt.ncs? = l.namesCaseSensitive.toList ∧ ss.filterMap LStmt.nowire? = l.noWireExt.toList ∧
  ss.filterMap LStmt.busbit? = l.busBitChars.toList ∧ ss.filterMap LStmt.divider? = l.dividerChar.toList ∧
  ss.filterMap LStmt.units? = l.units.toList ∧ ss.filterMap LStmt.clearance? = l.clearance.toList ∧
  ss.filterMap LStmt.mfg? = l.mfgGrid.toList ∧ ss.filterMap LStmt.ums? = l.useMinSpacing.toList ∧
  ((ss.filterMap LStmt.fixedMask?).length != 0) = l.fixedMask

theorem c04_lib_renders (l : Lib) (ss : List LStmt) (h : RendersL ss l) :
    ss.foldl applyL { version := l.version } = l := by
  rw [c04_lib_fold_fields]
  obtain ⟨h1, h2, h3, h4, h5, h6, h7, h8, h9, h10, h11, h12, h13, h14, h15⟩ := h
  unfold collectL
  rw [h1, h2, h3, h4, h5, h6, h7, h8, h9, h10, h11, h12, h13, h14, h15]
  cases l; simp

/-- the session's start: LEF's default version 5.8, nothing read -/
def startVer : Dec := ⟨58, 1⟩

/-- **A library is read back exactly from every rendering `[VERSION v ;] <its statements in any interleaving> END LIBRARY`**
    whose statements are admissible at that version (macros as arbitrary statement sequences with arbitrarily
    ordered pins; PROPERTYDEFINITIONS split over any number of blocks). -/
theorem c04_lib_reads_back (l : Lib) (ss : List LStmt) (T : List Tok)
    (hver : ∀ d, l.version = some d → (decOk d && versionOk d) = true)
    (hok : ss.all (okAt (l.version.getD startVer)) = true) (h : RendersL ss l) :
    libBody ((wLibStmts (l.version.toList.map .version ++ ss) ++ T).length + 1) startVer {}
      (wLibStmts (l.version.toList.map .version ++ ss) ++ T) = some l := by
  apply c04_lib_any_order _ startVer {} (l.version.getD startVer) l T
  cases hv : l.version with
  | none =>
    simp only [Option.toList_none, List.map_nil, List.nil_append, Option.getD_none]
    rw [hv] at hok
    rw [runL_fixed startVer ss {} hok]
    have := c04_lib_renders l ss h
    rw [hv] at this
    simp only [Option.some.injEq, Prod.mk.injEq, true_and]
    exact this
  | some d =>
    have hd := hver d hv
    simp only [Bool.and_eq_true] at hd
    simp only [Option.toList_some, List.map_cons, List.map_nil, List.cons_append, List.nil_append, Option.getD_some]
    rw [hv] at hok
    simp only [Option.getD_some] at hok
    have hg : guardL startVer {} (.version d) = true := by simp [guardL, hd.1, hd.2]
    simp only [runL, hg, if_true, verAfter, applyL]
    rw [runL_fixed d ss _ hok]
    have := c04_lib_renders l ss h
    rw [hv] at this
    simp only [Option.some.injEq, Prod.mk.injEq, true_and]
    exact this

/-- **Text level**: EVERY text that lays out — with any white space, line breaks and comments — the statements of a
    sequence the reader's session admits, in that order, is read to the library the session builds: C04's "reading
    that text yields exactly that library" for statement order AND lexical layout together. -/
theorem c04_text_any_order (L : LefLexRT.Layout) (hL : L.ok = true) (ss : List LStmt) (v' : Dec) (l' : Lib)
    (hitems : L.items.map (·.1) = wLibStmts ss) (hrun : runL startVer {} ss = some (v', l')) :
    parse L.text = some l' := by
  rw [c04_parse_layout L hL, hitems]
  have := c04_lib_any_order ss startVer {} v' l' [] hrun
  simpa [startVer] using this

/-- … in particular every text that lays out a rendering `[VERSION] + statements in any interleaving + END LIBRARY` of a
    library is read back to exactly that library -/
theorem c04_text_reads_back (L : LefLexRT.Layout) (hL : L.ok = true) (l : Lib) (ss : List LStmt)
    (hver : ∀ d, l.version = some d → (decOk d && versionOk d) = true)
    (hok : ss.all (okAt (l.version.getD startVer)) = true) (h : RendersL ss l)
    (hitems : L.items.map (·.1) = wLibStmts (l.version.toList.map .version ++ ss)) :
    parse L.text = some l := by
  rw [c04_parse_layout L hL, hitems]
  have := c04_lib_reads_back l ss [] hver hok h
  simpa [startVer] using this

/-! non-vacuity: a library with a macro whose SIZE comes after its PIN, a site between two header statements, read in an
    order the writer never produces -/
def exStmts : List LStmt :=
  [.version ⟨57, 1⟩, .macro ['m'] [.pin ['a'] [.use "Signal"], .size (⟨1, 0⟩, ⟨2, 0⟩)], .divider '/', .fixedMask]
def exLib : Lib :=
  { version := some ⟨57, 1⟩, dividerChar := some '/', fixedMask := true,
    macros := [{ (emptyMacro ['m']) with size := some (⟨1, 0⟩, ⟨2, 0⟩), pins := [{ (emptyPin ['a']) with use_ := some "Signal" }] }] }
example : libBody ((wLibStmts exStmts ++ []).length + 1) startVer {} (wLibStmts exStmts ++ []) = some exLib :=
  c04_lib_any_order exStmts startVer {} ⟨57, 1⟩ exLib [] (by decide +kernel)

end L21.Lef
