import L21.Proofs.RawGdsLib
/-
C07 — the whole library exported to GDSII and imported back.
-/
namespace L21.RawGds
open L21.Geom L21.Gds

/-- **a whole library raw → GDSII → raw**: if export succeeds, cell names are distinct, every instance
    names a cell of the library and labels are separated in every cell, then — whenever the
    importer's dependency order exists (the instance graph is acyclic) — importing the exported
    library returns its name, its units and its cells in that dependency order, each one as
    `c07_cell_roundtrip` describes.  The exporter lists cells in the library's own order; the importer
    resolves references by name to the last structure of that name: the proof shows the two agree. -/
theorem c07_library (tbl : LabelTbl) (l : Lib) (g : Gds.Library) (hexp : exportLib tbl l = .ok g) (hu : l.units ≤ 3)
    (hnames : (l.cells.map (·.name)).Nodup) (hsep : ∀ c ∈ l.cells, sepOk [] c.elems = true)
    (hnd : ∀ c ∈ l.cells, ∀ i ∈ c.insts, i.cell ∈ l.cells.map (·.name)) (order : List Nat)
    (ho : Dep.order (structAdj g.structs) (g.structs.length + 1) (List.range g.structs.length) = .ok order) :
    importLib g = .ok ⟨l.name, l.units, (order.filterMap (fun i => l.cells[i]?)).map finalCell⟩ := by
  simp only [exportLib] at hexp
  cases hc : exportCells tbl l.cells with
  | err => simp [hc] at hexp
  | ok ss =>
    simp only [hc, Gds.Out.ok.injEq] at hexp
    subst hexp
    obtain ⟨hlen, hget⟩ := exportCells_get tbl l.cells ss hc
    -- every reference of every exported structure names a structure
    have hgsnames : ∀ n, n ∈ l.cells.map (·.name) → n ∈ ss.map (·.name) := by
      intro n hn
      obtain ⟨c, hcm, rfl⟩ := List.mem_map.1 hn
      obtain ⟨i, hi, hci⟩ := List.getElem_of_mem hcm
      obtain ⟨s, hs, he⟩ := hget i c (by simp [hi, hci])
      exact List.mem_map.2 ⟨s, List.mem_of_getElem? hs, (exportCell_refs tbl c s he).1⟩
    have hdang : ss.any (fun s => s.elems.any (fun e => (refsOf e).any (fun n => !(ss.map (·.name)).contains n))) = false := by
      rw [List.any_eq_false]
      intro s hs
      obtain ⟨i, hi, hsi⟩ := List.getElem_of_mem hs
      have hil : i < l.cells.length := by omega
      obtain ⟨s', hs', he⟩ := hget i l.cells[i] (by simp [hil])
      have : s' = s := by simp [hi] at hs'; rw [← hs', hsi]
      subst this
      obtain ⟨_, hrefs⟩ := exportCell_refs tbl l.cells[i] s' he
      simp only [Bool.not_eq_true, List.any_eq_false]
      intro e hem n hne
      have hn : n ∈ s'.elems.flatMap refsOf := List.mem_flatMap.2 ⟨e, hem, hne⟩
      rw [hrefs] at hn
      obtain ⟨inst, hinst, rfl⟩ := List.mem_map.1 hn
      have := hgsnames _ (hnd _ (List.getElem_mem hil) inst hinst)
      simp [this]
    obtain ⟨hnodup, _, hord⟩ := Dep.c17_sound (structAdj ss) _ _ _ ho
    have himp := importStructs_ordered tbl l.cells ss order hlen hget hnames hsep hnd hord hnodup order [] [] (by simp)
      (by intro d hd; cases hd) (by intro n hn; simp at hn)
    rw [importLib_eq]
    simp only [c07_units l.units hu, hdang, Bool.false_eq_true, if_false, ho, himp]


/-- every unit, as part of the library statement -/
example : ∀ u, u ≤ 3 → importUnits (unitBits u).2 = some u := c07_units

end L21.RawGds
