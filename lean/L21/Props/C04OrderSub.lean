import L21.Props.C04Order
/-
C04 — sub-statement ORDER inside SITE definitions and generated VIA (VIARULE) bodies (reader model).
Same form as `Props/C04Order.lean`: every sequence, any order, any repetition, is read to the fold of the
per-statement updates; a SITE needs its CLASS and SIZE somewhere in the sequence, a generated via its four
mandatory statements — exactly what the reader checks at END.
-/
namespace L21.Lef
open L21.LefLex L21.LefEnum L21.Gen

/-! ## SITE -/
inductive SStmt where
  | cls (e : String)
  | symmetry (ss : List String)
  | size (sz : Dec × Dec)

def wSStmt : SStmt → List Tok
  | .cls e => [kw "Class", en "LefSiteClass" e, semiTok]
  | .symmetry ss => wSymmetry ss
  | .size sz => [kw "Size", num sz.1, kw "By", num sz.2, semiTok]

def sstmtOk : SStmt → Bool
  | .cls e => isVariant "LefSiteClass" e
  | .symmetry ss => symOk ss
  | .size sz => sizeOk sz

def applyS (b : SiteB) : SStmt → SiteB
  | .cls e => { b with cls := some e }
  | .symmetry ss => { b with symmetry := some ss }
  | .size sz => { b with size := some sz }

theorem siteBody_stmt (name : Str) (f : Nat) (b : SiteB) (s : SStmt) (T : List Tok) (h : sstmtOk s = true) :
    siteBody name (f + 1) b (wSStmt s ++ T) = siteBody name f (applyS b s) T := by
  cases s with
  | cls e => exact sb_class name f b e T h
  | symmetry ss => exact sb_symmetry name f b ss T h
  | size sz => exact sb_size name f b sz T h

theorem siteBody_stmts (name : Str) (T : List Tok) : ∀ (ss : List SStmt) (b : SiteB) (f : Nat), ss.length ≤ f → ss.all sstmtOk = true →
    siteBody name f b (ss.flatMap wSStmt ++ T) = siteBody name (f - ss.length) (ss.foldl applyS b) T := by
  intro ss
  induction ss with
  | nil => intro b f _ _; simp
  | cons s r ih =>
    intro b f hf hok
    obtain ⟨n, rfl⟩ : ∃ n, f = n + 1 := ⟨f - 1, by simp at hf; omega⟩
    simp only [List.all_cons, Bool.and_eq_true] at hok
    simp only [List.flatMap_cons, List.append_assoc, List.foldl_cons]
    rw [siteBody_stmt name n b s _ hok.1, ih _ n (by simp at hf; omega) hok.2]
    simp [Nat.add_sub_add_right]

theorem flatMap_wSStmt_length (ss : List SStmt) : ss.length ≤ (ss.flatMap wSStmt).length := by
  induction ss with
  | nil => simp
  | cons a r ih =>
    have : 1 ≤ (wSStmt a).length := by cases a <;> simp [wSStmt, wSymmetry]
    simp only [List.flatMap_cons, List.length_append, List.length_cons]; omega

/-- **SITE sub-statements in every order**: whenever the sequence contains a CLASS and a SIZE (the reader refuses the
    block otherwise), the site read is the fold's: last CLASS, last SIZE, last SYMMETRY (if any). -/
theorem c04_site_any_order (name : Str) (ss : List SStmt) (T : List Tok) (h : ss.all sstmtOk = true)
    (c : String) (sz : Dec × Dec) (sym : Option (List String)) (hf : ss.foldl applyS {} = ⟨some c, some sz, sym⟩) :
    site (kw "Site" :: ident name :: (ss.flatMap wSStmt ++ kw "End" :: ident name :: T)) = some (⟨name, c, sz, sym⟩, T) := by
  have hl := flatMap_wSStmt_length ss
  unfold site
  simp only [expectKey_kw "Site" _ k_Site, getName_ident, Option.bind_eq_bind, Option.bind_some]
  rw [siteBody_stmts name _ ss {} _ (by simp only [List.length_append, List.length_cons]; omega) h, hf]
  obtain ⟨g, hg⟩ : ∃ g, (ss.flatMap wSStmt ++ kw "End" :: ident name :: T).length + 1 - ss.length = g + 1 :=
    ⟨(ss.flatMap wSStmt ++ kw "End" :: ident name :: T).length - ss.length, by simp only [List.length_append, List.length_cons]; omega⟩
  rw [hg, sb_end]

/-! ## generated VIA (VIARULE) body -/
inductive GStmt where
  | cutSize (v : Dec × Dec)
  | layers (v : Str × Str × Str)
  | cutSpacing (v : Dec × Dec)
  | enclosure (v : Dec × Dec × Dec × Dec)
  | rowcol (v : Dec × Dec)
  | origin (v : Pt)
  | offset (v : Dec × Dec × Dec × Dec)

def wGStmt : GStmt → List Tok
  | .cutSize v => [kw "CutSize", num v.1, num v.2, semiTok]
  | .layers v => [kw "Layers", ident v.1, ident v.2.1, ident v.2.2, semiTok]
  | .cutSpacing v => [kw "CutSpacing", num v.1, num v.2, semiTok]
  | .enclosure v => [kw "Enclosure", num v.1, num v.2.1, num v.2.2.1, num v.2.2.2, semiTok]
  | .rowcol v => [kw "RowCol", num v.1, num v.2, semiTok]
  | .origin v => kw "Origin" :: (wPt v ++ [semiTok])
  | .offset v => [kw "Offset", num v.1, num v.2.1, num v.2.2.1, num v.2.2.2, semiTok]

def gstmtOk : GStmt → Bool
  | .cutSize v | .cutSpacing v | .rowcol v => d2Ok v
  | .layers _ => true
  | .enclosure v | .offset v => d4Ok v
  | .origin v => ptOk v

def applyG (g : GenB) : GStmt → GenB
  | .cutSize v => { g with cutSize := some v }
  | .layers v => { g with layers := some v }
  | .cutSpacing v => { g with cutSpacing := some v }
  | .enclosure v => { g with enclosure := some v }
  | .rowcol v => { g with rowcol := some v }
  | .origin v => { g with origin := some v }
  | .offset v => { g with offset := some v }

theorem genViaBody_stmt (f : Nat) (g : GenB) (s : GStmt) (T : List Tok) (h : gstmtOk s = true) :
    genViaBody (f + 1) g (wGStmt s ++ T) = genViaBody f (applyG g s) T := by
  cases s with
  | cutSize v => exact gv_cutsize f g v T h
  | layers v => exact gv_layers f g v T
  | cutSpacing v => exact gv_cutspacing f g v T h
  | enclosure v => exact gv_enclosure f g v T h
  | rowcol v => exact gv_rowcol f g v T h
  | origin v => simpa [wGStmt, applyG] using gv_origin f g v T h
  | offset v => exact gv_offset f g v T h

/-- **Generated-via statements in every order, every repetition**: read to the fold of their updates, up to the END
    that closes the via (left in place for `parse_via`). -/
theorem c04_genvia_any_order (T : List Tok) : ∀ (ss : List GStmt) (g : GenB) (f : Nat), ss.length + 1 ≤ f → ss.all gstmtOk = true →
    genViaBody f g (ss.flatMap wGStmt ++ kw "End" :: T) = some (ss.foldl applyG g, kw "End" :: T) := by
  intro ss
  induction ss with
  | nil =>
    intro g f hf _
    obtain ⟨n, rfl⟩ : ∃ n, f = n + 1 := ⟨f - 1, by omega⟩
    simpa using gv_end n g T
  | cons s r ih =>
    intro g f hf hok
    obtain ⟨n, rfl⟩ : ∃ n, f = n + 1 := ⟨f - 1, by simp at hf; omega⟩
    simp only [List.all_cons, Bool.and_eq_true] at hok
    simp only [List.flatMap_cons, List.append_assoc, List.foldl_cons]
    rw [genViaBody_stmt n g s _ hok.1, ih _ n (by simp at hf; omega) hok.2]

/-! non-vacuity -/
example : site (kw "Site" :: ident ['s'] :: ([SStmt.size (⟨1, 0⟩, ⟨2, 0⟩), .cls "Core"].flatMap wSStmt ++ kw "End" :: ident ['s'] :: [])) =
    some (⟨['s'], "Core", (⟨1, 0⟩, ⟨2, 0⟩), none⟩, []) :=
  c04_site_any_order _ _ _ (by decide +kernel) _ _ _ rfl

end L21.Lef
