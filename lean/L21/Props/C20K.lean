import L21.Model.RawProto
import L21.Props.C20
/-
C20 — determinism, with the code's own sort key and lifted to a converter.

`Layers::sorted` orders the entries of a per-layer `HashMap<LayerKey, _>` by
`(layer number, LayerKey)`: two layers may share a number (li1 / mcon on 67 in the crate's own
layer set), and then the slot-map key decides.  `Props/C20.lean` proves order-independence for a
number-only key under "one entry per number"; here the key is the pair, keys are only assumed
DISTINCT (which slot-map keys are), and the statement is lifted to the raw → protobuf abstract
exporter: whatever order each hash map yields its entries in, the exported message is the same.
-/
namespace L21.Determ

/-! `LKey`, `lkLe`, `sortedK` (the sort key of `Layers::sorted`: layer number, then slot-map key) live in `Model/Determ.lean` -/

theorem lkLe_trans (a b c : LKey) : lkLe a b = true → lkLe b c = true → lkLe a c = true := by
  simp only [lkLe, Bool.or_eq_true, Bool.and_eq_true, decide_eq_true_eq]; omega

theorem lkLe_total (a b : LKey) : (lkLe a b || lkLe b a) = true := by
  simp only [lkLe, Bool.or_eq_true, Bool.and_eq_true, decide_eq_true_eq]; omega

theorem lkLe_antisymm (a b : LKey) : lkLe a b = true → lkLe b a = true → a = b := by
  simp only [lkLe, Bool.or_eq_true, Bool.and_eq_true, decide_eq_true_eq]
  intro h1 h2
  have : a.1 = b.1 ∧ a.2 = b.2 := by omega
  exact Prod.ext this.1 this.2

theorem eq_of_same_lkey {α : Type} {m : List (LKey × α)} (hk : (m.map (·.1)).Nodup) {a b : LKey × α}
    (ha : a ∈ m) (hb : b ∈ m) (h : a.1 = b.1) : a = b := by
  induction m with
  | nil => simp at ha
  | cons x rest ih =>
    simp only [List.map_cons, List.nodup_cons] at hk
    rcases List.mem_cons.1 ha with rfl | ha' <;> rcases List.mem_cons.1 hb with rfl | hb'
    · rfl
    · exact absurd (List.mem_map_of_mem (f := (·.1)) hb') (by rw [← h]; exact hk.1)
    · exact absurd (List.mem_map_of_mem (f := (·.1)) ha') (by rw [h]; exact hk.1)
    · exact ih hk.2 ha' hb'

/-- Any two iteration orders of one hash map — permutations of the same entries, keys distinct, layer
    numbers possibly shared — sort to the same list under the code's (number, key) order. -/
theorem c20_sorted_key_independent {α : Type} (m1 m2 : List (LKey × α)) (hp : m1.Perm m2)
    (hk : (m1.map (·.1)).Nodup) : sortedK m1 = sortedK m2 := by
  unfold sortedK
  have htrans : ∀ (a b c : LKey × α), lkLe a.1 b.1 = true → lkLe b.1 c.1 = true → lkLe a.1 c.1 = true :=
    fun a b c => lkLe_trans a.1 b.1 c.1
  have htotal : ∀ (a b : LKey × α), (lkLe a.1 b.1 || lkLe b.1 a.1) = true := fun a b => lkLe_total a.1 b.1
  have s1 := List.pairwise_mergeSort htrans htotal m1
  have s2 := List.pairwise_mergeSort htrans htotal m2
  have p1 := List.mergeSort_perm m1 (fun a b => lkLe a.1 b.1)
  have p2 := List.mergeSort_perm m2 (fun a b => lkLe a.1 b.1)
  refine List.Perm.eq_of_pairwise ?_ s1 s2 (p1.trans (hp.trans p2.symm))
  intro a b ha hb hab hba
  have ha' : a ∈ m1 := p1.mem_iff.1 ha
  have hb' : b ∈ m1 := hp.mem_iff.2 (p2.mem_iff.1 hb)
  exact eq_of_same_lkey hk ha' hb' (lkLe_antisymm _ _ hab hba)

/-- a number-only sort does NOT have this property once two layers share a number: the seeded
    changes C20-m1 / C20-m7 ("sort by layer number only") are exactly this counterexample -/
theorem c20_number_only_is_order_dependent :
    ∃ (m1 m2 : List (LKey × Nat)), m1.Perm m2 ∧ (m1.map (·.1)).Nodup ∧
      m1.mergeSort (fun a b => decide (a.1.1 ≤ b.1.1)) ≠ m2.mergeSort (fun a b => decide (a.1.1 ≤ b.1.1)) :=
  ⟨[((67, 0), 1), ((67, 1), 2)], [((67, 1), 2), ((67, 0), 1)], by decide, by decide, by
    rw [List.mergeSort_of_pairwise (by decide), List.mergeSort_of_pairwise (by decide)]; decide⟩

end L21.Determ

namespace L21.RawProto
open L21.Determ L21.Geom

/-- an abstract as the code holds it: per-layer HASH MAPS, given in the order an iteration yields -/
structure HPort where
  net : Bytes
  shapes : List (LKey × List Shape)

structure HAbstract where
  name : Bytes
  outline : List Pt
  ports : List HPort
  blockages : List (LKey × List Shape)

/-- what the exporters do with a hash map: `Layers::sorted`, then the layer NUMBER names the entry -/
def viewMap (m : List (LKey × List Shape)) : List (Int × List Shape) := (sortedK m).map (fun e => (e.1.1, e.2))

def HAbstract.view (a : HAbstract) : Abstract :=
  ⟨a.name, a.outline, a.ports.map (fun p => ⟨p.net, viewMap p.shapes⟩), viewMap a.blockages⟩

/-- `ProtoExporter::export_abstract` on hash maps -/
def exportAbsH (tbl : LayerTbl) (a : HAbstract) : Out PAbs := exportAbs tbl a.view

/-- the same ports, each with its shape map iterated in some order (keys distinct) -/
inductive PortsSame : List HPort → List HPort → Prop
  | nil : PortsSame [] []
  | cons {p q : HPort} {ps qs : List HPort} : p.net = q.net → p.shapes.Perm q.shapes → (p.shapes.map (·.1)).Nodup →
      PortsSame ps qs → PortsSame (p :: ps) (q :: qs)

/-- two states of the same abstract that differ only in the iteration order of their hash maps -/
def SameUpToIteration (a b : HAbstract) : Prop :=
  a.name = b.name ∧ a.outline = b.outline ∧ a.blockages.Perm b.blockages ∧ (a.blockages.map (·.1)).Nodup ∧
  PortsSame a.ports b.ports

/-- **The exported abstract does not depend on hash-map iteration order** — for every abstract, every
    layer table, every pair of iteration orders of every map (blockages and each port's shapes). -/
theorem c20_export_abstract_order_free (tbl : LayerTbl) (a b : HAbstract) (h : SameUpToIteration a b) :
    exportAbsH tbl a = exportAbsH tbl b := by
  obtain ⟨hn, ho, hb, hbk, hp⟩ := h
  have hv : a.view = b.view := by
    unfold HAbstract.view
    have e1 : viewMap a.blockages = viewMap b.blockages := by
      unfold viewMap; rw [c20_sorted_key_independent _ _ hb hbk]
    have e2 : ∀ (ps qs : List HPort), PortsSame ps qs →
        ps.map (fun p => (⟨p.net, viewMap p.shapes⟩ : Port)) = qs.map (fun p => ⟨p.net, viewMap p.shapes⟩) := by
      intro ps qs hpq
      induction hpq with
      | nil => rfl
      | cons h1 h2 h3 _ ih =>
        simp only [List.map_cons]
        rw [ih]
        congr 1
        unfold viewMap
        rw [h1, c20_sorted_key_independent _ _ h2 h3]
    have e2 := e2 _ _ hp
    rw [hn, ho, e1, e2]
  unfold exportAbsH; rw [hv]

/-! non-vacuity: two layers sharing number 67 and a third layer, iterated in two orders -/
example : exportAbsH [(67, some 16, some 17), (68, some 16, some 17)]
      ⟨[0x61], [], [⟨[0x70], [((68, 2), []), ((67, 1), []), ((67, 0), [])]⟩], [((67, 1), []), ((67, 0), [])]⟩ =
    exportAbsH [(67, some 16, some 17), (68, some 16, some 17)]
      ⟨[0x61], [], [⟨[0x70], [((67, 0), []), ((68, 2), []), ((67, 1), [])]⟩], [((67, 0), []), ((67, 1), [])]⟩ :=
  c20_export_abstract_order_free _ _ _ ⟨rfl, rfl, by decide, by decide,
    PortsSame.cons rfl (by decide) (by decide) PortsSame.nil⟩

end L21.RawProto
