import L21.Props.C06
/-
C06 — whole-structure statements: nothing dropped or reordered, importability is element-wise, and
the label rule.
-/
namespace L21.RawGds
open L21.Gds L21.Geom

/-- what one GDSII element contributes to its cell under GDSII semantics (when it is importable):
    placements, shapes, labels -/
def contrib (known : List Bytes) (e : Gds.Elem) : Out Pass1 := importElem known {} e

theorem importElem_append (known : List Bytes) (acc : Pass1) (e : Gds.Elem) :
    importElem known acc e = (match contrib known e with
      | .ok c => .ok ⟨acc.insts ++ c.insts, acc.elems ++ c.elems, acc.texts ++ c.texts⟩
      | .err => .err) := by
  unfold contrib
  cases e <;> simp only [importElem]
  all_goals (repeat' split) <;> simp_all <;> (try subst_vars) <;> (try simp)

/-- **nothing is dropped, nothing is reordered**: the first pass over a structure succeeds exactly
    when every element is importable, and then the cell's placements, shapes and labels are the
    concatenation, in element order, of what each element contributes on its own -/
theorem c06_struct_pass1 (known : List Bytes) : ∀ (es : List Gds.Elem) (acc r : Pass1),
    importElemsP1 known acc es = .ok r →
    ∃ cs : List Pass1, es.map (contrib known) = cs.map Gds.Out.ok ∧
      r.insts = acc.insts ++ cs.flatMap (·.insts) ∧ r.elems = acc.elems ++ cs.flatMap (·.elems) ∧
      r.texts = acc.texts ++ cs.flatMap (·.texts) := by
  intro es
  induction es with
  | nil => intro acc r h; simp only [importElemsP1, Gds.Out.ok.injEq] at h; subst h; exact ⟨[], rfl, by simp, by simp, by simp⟩
  | cons e rest ih =>
    intro acc r h
    simp only [importElemsP1] at h
    rw [importElem_append] at h
    cases hc : contrib known e with
    | err => simp [hc] at h
    | ok c =>
      simp only [hc] at h
      obtain ⟨cs, hf, h1, h2, h3⟩ := ih _ _ h
      exact ⟨c :: cs, by simp [hc, hf], by simp [h1], by simp [h2], by simp [h3]⟩

/-- an element that cannot be imported makes the whole structure an error (it is never skipped) -/
theorem c06_struct_error (known : List Bytes) (es1 es2 : List Gds.Elem) (e : Gds.Elem) (acc : Pass1)
    (he : contrib known e = .err) : importElemsP1 known acc (es1 ++ e :: es2) = .err := by
  induction es1 generalizing acc with
  | nil => simp only [List.nil_append, importElemsP1]; rw [importElem_append]; simp [he]
  | cons x r ih =>
    simp only [List.cons_append, importElemsP1]
    cases importElem known acc x with
    | err => rfl
    | ok a => exact ih a

/-- **the label rule**: a text whose location lies in a shape of its layer gives its (lower-cased)
    string as net name to every such shape that has no name yet, and is not kept as an annotation;
    a text that lies in no shape of its layer is kept as an annotation and changes no shape -/
theorem c06_label_rule (elems : List Elem) (annots : List (Bytes × Pt)) (s : Bytes) (layer : Int) (loc : Pt) :
    let hit := fun (e : Elem) => e.layer == layer && shapeContains e.shape loc
    (elems.any hit = true →
      (applyText elems annots (s, layer, loc)).2 = annots ∧
      (applyText elems annots (s, layer, loc)).1 = elems.map (fun e => if hit e && e.net.isNone then { e with net := some (lowerAscii s) } else e)) ∧
    (elems.any hit = false →
      (applyText elems annots (s, layer, loc)).1 = elems ∧ (applyText elems annots (s, layer, loc)).2 = annots ++ [(s, loc)]) := by
  intro hit
  constructor
  · intro h
    have : elems.any (fun e => e.layer == layer && shapeContains e.shape loc) = true := h
    simp only [applyText, this, if_true]
    simp [hit]
  · intro h
    have : elems.any (fun e => e.layer == layer && shapeContains e.shape loc) = false := h
    simp [applyText, this]

/-- a label never changes a shape's layer, purpose or geometry, and never removes or adds a shape -/
theorem c06_label_keeps_shapes (elems : List Elem) (annots : List (Bytes × Pt)) (t : Bytes × Int × Pt) :
    (applyText elems annots t).1.map (fun e => (e.layer, e.purpose, e.shape)) = elems.map (fun e => (e.layer, e.purpose, e.shape)) := by
  obtain ⟨s, layer, loc⟩ := t
  simp only [applyText]
  split
  · simp only [List.map_map]
    apply List.map_congr_left
    intro e _
    simp only [Function.comp]
    split <;> rfl
  · rfl


/-- non-vacuity: a boundary, a reference and a label in one structure -/
example : importElemsP1 [[66]] {} [.boundary 1 0 [0,0, 4,0, 4,4, 0,4, 0,0] ⟨none, none, []⟩, .sref [66] [7, 8] none ⟨none, none, []⟩,
      .text [78] 1 0 [1, 1] none none none none ⟨none, none, []⟩] =
    .ok ⟨[⟨[], [66], ⟨7, 8⟩, false, none⟩], [⟨none, 1, 0, .rect ⟨0, 0⟩ ⟨4, 4⟩⟩], [([78], 1, ⟨1, 1⟩)]⟩ := by rfl

end L21.RawGds
