import L21.Proofs.LefLexRT
/-
C04 / C05 — the step from TEXT to tokens, for every layout.

A `Layout` is a token list with a separator after every token and one in front: each separator is
any run of white space (every Unicode White_Space character, line breaks included) interleaved
with any number of `#` comments.  `tokWf` says a (type, text) pair is a LEF lexeme of that type.
The lexer model (tied to `LefLexer` by the `lef.lex` correspondence, to `from_str` by `lef.parse`)
returns exactly the laid-out tokens — so what the reader returns depends on the token sequence
alone: not on line breaks, indentation, blank lines, comments, or where statements are split.
-/
namespace L21.Lef
open L21.LefLex L21.LefEnum L21.LefLexRT

/-- **every layout lexes to its tokens** -/
theorem c04_layout_tokens (L : Layout) (h : L.ok = true) : tokens L.text = some (L.items.map (·.1)) :=
  tokens_layout L h

/-- **white space and comments are immaterial**: two layouts of the same token sequence are read
    to the same result (the same library, or both refused) -/
theorem c04_layout_independent (L1 L2 : Layout) (h1 : L1.ok = true) (h2 : L2.ok = true)
    (he : L1.items.map (·.1) = L2.items.map (·.1)) : parse L1.text = parse L2.text :=
  parse_layout_indep L1 L2 h1 h2 he

/-- the reader on a laid-out text = the statement-level reader on the tokens -/
theorem c04_parse_layout (L : Layout) (h : L.ok = true) :
    parse L.text = libBody ((L.items.map (·.1)).length + 1) ⟨58, 1⟩ {} (L.items.map (·.1)) :=
  parse_layout L h

/-! non-vacuity: `VERSION 5.8 ;` once on one line, once spread over lines with a comment, a tab and a
    no-break space -/
def lA : Layout := ⟨⟨[], []⟩, [(⟨.name, "VERSION".toList⟩, ⟨[' '], []⟩), (⟨.number, "5.8".toList⟩, ⟨[' '], []⟩), (⟨.semi, [';']⟩, ⟨['\n'], []⟩)]⟩
def lB : Layout := ⟨⟨['\n', '\t'], [("a comment ; VERSION 1".toList, [' ', ' '])]⟩,
  [(⟨.name, "VERSION".toList⟩, ⟨['\n'], [("x".toList, [])]⟩), (⟨.number, "5.8".toList⟩, ⟨[' '], []⟩), (⟨.semi, [';']⟩, ⟨[], []⟩)]⟩
example : lA.ok = true ∧ lB.ok = true ∧ lA.items.map (·.1) = lB.items.map (·.1) := by decide
example : lA.text = "VERSION 5.8 ;\n".toList := by decide
example : lB.text = "\n\t#a comment ; VERSION 1\n  VERSION\n#x\n5.8 ;".toList := by decide

end L21.Lef
