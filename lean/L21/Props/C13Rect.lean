import L21.Proofs.GeomRect
import L21.Props.C13Inv
/-
C13 — `Rect::to_poly`: a rectangle and its polygon form answer every containment query alike.
-/
namespace L21.Geom

/-- **a rectangle and its four-point polygon answer every query alike**, whichever two opposite
    corners name the rectangle -/
theorem c13_rect_as_polygon (p0 p1 p : Pt) : polyContains (rectPoly p0 p1) p = rectContains p0 p1 p := by
  obtain ⟨x0, y0⟩ := p0
  obtain ⟨x1, y1⟩ := p1
  rw [Bool.eq_iff_iff, rectContains_iff]
  simp only
  rcases Int.le_total x0 x1 with hx | hx <;> rcases Int.le_total y0 y1 with hy | hy
  · rw [c13_poly, InClosed_rectPoly_norm x0 y0 x1 y1 p hx hy]; omega
  · -- y swapped: the polygon is the reverse of the normalised one
    have : rectPoly ⟨x0, y0⟩ ⟨x1, y1⟩ = (rectPoly ⟨x0, y1⟩ ⟨x1, y0⟩).reverse := rfl
    rw [this, c13_orientation, c13_poly, InClosed_rectPoly_norm x0 y1 x1 y0 p hx hy]; omega
  · -- x swapped: rotate by two, then reverse
    have : rectPoly ⟨x0, y0⟩ ⟨x1, y1⟩ = [⟨x0, y0⟩, ⟨x1, y0⟩] ++ [⟨x1, y1⟩, ⟨x0, y1⟩] := rfl
    rw [this, ← c13_start_vertex]
    have h2 : ([⟨x1, y1⟩, ⟨x0, y1⟩] ++ [⟨x0, y0⟩, ⟨x1, y0⟩] : List Pt) = (rectPoly ⟨x1, y0⟩ ⟨x0, y1⟩).reverse := rfl
    rw [h2, c13_orientation, c13_poly, InClosed_rectPoly_norm x1 y0 x0 y1 p hx hy]; omega
  · have : rectPoly ⟨x0, y0⟩ ⟨x1, y1⟩ = [⟨x0, y0⟩, ⟨x1, y0⟩] ++ [⟨x1, y1⟩, ⟨x0, y1⟩] := rfl
    rw [this, ← c13_start_vertex]
    have h2 : ([⟨x1, y1⟩, ⟨x0, y1⟩] ++ [⟨x0, y0⟩, ⟨x1, y0⟩] : List Pt) = rectPoly ⟨x1, y1⟩ ⟨x0, y0⟩ := rfl
    rw [h2, c13_poly, InClosed_rectPoly_norm x1 y1 x0 y0 p hx hy]; omega


example : rectPoly ⟨5, 7⟩ ⟨1, 2⟩ = [⟨5, 7⟩, ⟨1, 7⟩, ⟨1, 2⟩, ⟨5, 2⟩] ∧ polyContains (rectPoly ⟨5, 7⟩ ⟨1, 2⟩) ⟨1, 7⟩ = true ∧
    polyContains (rectPoly ⟨5, 7⟩ ⟨1, 2⟩) ⟨0, 7⟩ = false := by decide

end L21.Geom
