import L21.Proofs.Tetris
/-
C08 — Compiled gridded layouts realise exactly their tracks, cuts, vias and nets.

Model: `L21/Model/Tetris.lean` (one cell against one stack; `none` = an error is reported).
Theorems, for EVERY stack, cell, layer and period:

* `c08_track_positions`  — the coordinate the compiler uses for signal track `idx` (for crossings,
  cuts, vias, nets) is the coordinate at which that track is instantiated, in flipped periods too;
* `c08_period_tiles`     — after all blockages, cuts and net assignments every rail and signal track
  of the period is a chain of segments from 0 to the outline edge without gap or overlap, at the
  position and width the stack gives it;
* `c08_no_unrequested_gap` / `c08_blocks_present` — its cut / blocked segments are exactly spans that
  were requested (instances reaching the layer and touching the period, cuts on that track);
* `c08_vias`             — every via comes from one assignment whose bottom track is in the period,
  on the stack's via layer from that metal, of the stack's size around the crossing;
* `c08_nets`             — a wire piece carries a net only if an assignment of that net crosses it;
  rails never carry anything but their rail name (by construction of `trackElems`);
* `c08_elems`            — the emitted metal rectangles are exactly the wire / rail segments of those
  tracks at the track's position and width.
-/
namespace L21.Tetris

/-! ### track positions -/
theorem periodSignals_isSig (m : Metal) : ∀ t ∈ m.periodSignals, t.1 = .sig := by
  intro t ht
  have := (List.mem_filter.1 ht).2
  simpa [isSig] using this

theorem c08_track_positions (m : Metal) (p k : Nat) (hk : k < m.periodSignals.length) :
    ((m.periodTracks p).filter isSig)[k]? =
      (m.trackPos (p * m.periodSignals.length + k)).map fun sw => (TT.sig, sw.1, sw.2) := by
  have hn : m.periodSignals.length ≠ 0 := by omega
  have hdiv : (p * m.periodSignals.length + k) / m.periodSignals.length = p := by
    rw [Nat.mul_comm, Nat.mul_add_div (by omega), Nat.div_eq_of_lt hk]; omega
  have hmod : (p * m.periodSignals.length + k) % m.periodSignals.length = k := by
    rw [Nat.mul_comm, Nat.mul_add_mod, Nat.mod_eq_of_lt hk]
  rw [periodSignals_of_period]
  unfold Metal.trackPos
  simp only [hn, if_false]
  rw [hdiv, hmod]
  split
  · -- flipped period
    have hidx : m.periodSignals.length - 1 - k < m.periodSignals.length := by omega
    rw [List.getElem?_map, List.getElem?_reverse (by simpa using hk), List.getElem?_map, List.length_map,
      List.getElem?_eq_getElem hidx]
    have hs := periodSignals_isSig m _ (List.getElem_mem hidx)
    generalize m.periodSignals[m.periodSignals.length - 1 - k] = t at hs
    obtain ⟨tt, s, w⟩ := t
    simp only at hs; subst hs
    simp only [Option.map_some, mirrorT, shiftT, Option.some.injEq, Prod.mk.injEq, true_and, and_true]
    omega
  · rw [List.getElem?_map, List.getElem?_eq_getElem hk]
    have hs := periodSignals_isSig m _ (List.getElem_mem hk)
    generalize m.periodSignals[k] = t at hs
    obtain ⟨tt, s, w⟩ := t
    simp only at hs; subst hs
    simp only [Option.map_some, shiftT, Option.some.injEq, Prod.mk.injEq, true_and, and_true]
    omega

/-! ### one period -/
def Period.tracks (pd : Period) : List Track := pd.rails ++ pd.signals

/-- well-formedness the tiling argument needs: cut sizes and instance sizes are not negative -/
structure WF (st : Stack) (c : Cell) (m : Metal) : Prop where
  px : st.px > 0
  py : st.py > 0
  cutsize : m.cutsize ≥ 0
  insts : ∀ i ∈ c.insts, i.w ≥ 0 ∧ i.h ≥ 0

theorem instSpan_le (st : Stack) (c : Cell) (m : Metal) (wf : WF st c m) (i : Inst) (hi : i ∈ c.insts) :
    (instSpan st m i).1 ≤ (instSpan st m i).2 := by
  have ⟨hw, hh⟩ := wf.insts i hi
  have hx := wf.px
  have hy := wf.py
  unfold instSpan
  cases m.horiz <;> simp only [Bool.false_eq_true, if_false, if_true]
  · cases i.rv <;> simp only [Bool.false_eq_true, if_false, if_true] <;>
      apply Int.mul_le_mul_of_nonneg_right <;> omega
  · cases i.rh <;> simp only [Bool.false_eq_true, if_false, if_true] <;>
      apply Int.mul_le_mul_of_nonneg_right <;> omega

/-- an invariant of single tracks that every operation preserves lifts to the whole period -/
theorem blockAll_inv (Q : Track → Prop) (s e : Int)
    (step : ∀ t t', (t.withSegs fun sg => cutOrBlock sg s e .block) = some t' → Q t → Q t') :
    ∀ (l l' : List Track), blockAll l s e = some l' → (∀ t ∈ l, Q t) → ∀ t' ∈ l', Q t' := by
  intro l l' h hq t' ht'
  obtain ⟨t, ht, e'⟩ := mapM_some_mem _ l l' h t' ht'
  exact step t t' e' (hq t ht)

theorem modifyNth_inv (Q : Track → Prop) (f : Track → Option Track) (step : ∀ t t', f t = some t' → Q t → Q t')
    (l l' : List Track) (i : Nat) (h : modifyNth l i f = some l') (hq : ∀ t ∈ l, Q t) : ∀ t' ∈ l', Q t' := by
  intro t' ht'
  rcases modifyNth_mem f l l' i h t' ht' with h1 | ⟨t, ht, e⟩
  · exact hq t' h1
  · exact step t t' e (hq t ht)

/-! requests actually made while compiling period `p` of `layer` -/
/-- spans that are cut or blocked: an instance that reaches the layer and touches the period blocks
    its own extent; a cut of this layer and period removes `cutsize` around its crossing -/
def Requested (st : Stack) (c : Cell) (layer : Nat) (m : Metal) (p : Nat) (s e : Int) (tp : SegT) : Prop :=
  (tp = .block ∧ ∃ i ∈ layerInsts c layer, instIntersects st m p i = true ∧ s = (instSpan st m i).1 ∧ e = (instSpan st m i).2) ∨
  (tp = .cut ∧ ∃ x ∈ periodCuts c layer m p, ∃ loc, crossXY st x = some loc ∧
      s = along m.horiz loc - m.cutsize.tdiv 2 ∧ e = along m.horiz loc + m.cutsize.tdiv 2)

/-- positions at which a net is assigned: the crossing of an assignment of the cell -/
def NetReq (st : Stack) (c : Cell) (m : Metal) (pos : Int) (net : Bytes) : Prop :=
  ∃ a ∈ c.assigns, a.1 = net ∧ ∃ loc, crossXY st a.2 = some loc ∧ pos = along m.horiz loc

/-- a track invariant preserved by blocking / cutting a requested span `s ≤ e` -/
structure PresCut (Q : Track → Prop) (R : Int → Int → SegT → Prop) : Prop where
  cut : ∀ (t : Track) (segs : List Seg) (s e : Int) (tp : SegT), s ≤ e → R s e tp →
    cutOrBlock t.segs s e tp = some segs → Q t → Q { t with segs := segs }
/-- a track invariant preserved by setting a requested net -/
structure PresNet (Q : Track → Prop) (R : Int → Bytes → Prop) : Prop where
  net : ∀ (t : Track) (segs : List Seg) (pos : Int) (net : Bytes), R pos net →
    setNet pos net t.segs = some segs → Q t → Q { t with segs := segs }

def Period.All (pd : Period) (Q : Track → Prop) : Prop := ∀ t ∈ pd.tracks, Q t

theorem withSegs_cut_inv {Q : Track → Prop} {R : Int → Int → SegT → Prop} (hQ : PresCut Q R) (s e : Int) (tp : SegT)
    (hle : s ≤ e) (hr : R s e tp) (t t' : Track)
    (h : (t.withSegs fun sg => cutOrBlock sg s e tp) = some t') (hq : Q t) : Q t' := by
  unfold Track.withSegs at h
  cases hc : cutOrBlock t.segs s e tp with
  | none => simp [hc] at h
  | some segs => simp [hc] at h; subst h; exact hQ.cut t segs s e tp hle hr hc hq

theorem applyBlockStep_inv {Q : Track → Prop} (st : Stack) (c : Cell) (layer : Nat) (m : Metal) (p : Nat)
    (hQ : PresCut Q (Requested st c layer m p)) (wf : WF st c m)
    (pd pd' : Period) (i : Inst) (hi : i ∈ layerInsts c layer)
    (h : applyBlockStep st m p pd i = some pd') (hq : pd.All Q) : pd'.All Q := by
  unfold applyBlockStep at h
  split at h
  · rename_i hint
    have hle := instSpan_le st c m wf i (List.mem_filter.1 hi).1
    have hreq : Requested st c layer m p (instSpan st m i).1 (instSpan st m i).2 .block :=
      Or.inl ⟨rfl, i, hi, hint, rfl, rfl⟩
    cases hr : blockAll pd.rails (instSpan st m i).1 (instSpan st m i).2 with
    | none => simp [hr] at h
    | some rl =>
      cases hg : blockAll pd.signals (instSpan st m i).1 (instSpan st m i).2 with
      | none => simp [hr, hg] at h
      | some sg =>
        simp [hr, hg] at h; subst h
        intro t ht
        simp only [Period.tracks, List.mem_append] at ht
        rcases ht with ht | ht
        · exact blockAll_inv Q _ _ (withSegs_cut_inv hQ _ _ _ hle hreq) pd.rails rl hr
            (fun t ht => hq t (by simp [Period.tracks, ht])) t ht
        · exact blockAll_inv Q _ _ (withSegs_cut_inv hQ _ _ _ hle hreq) pd.signals sg hg
            (fun t ht => hq t (by simp [Period.tracks, ht])) t ht
  · simp at h; subst h; exact hq

theorem modify_signals_inv {Q : Track → Prop} (f : Track → Option Track) (step : ∀ t t', f t = some t' → Q t → Q t')
    (pd : Period) (i : Nat) (g : List Track) (hm : modifyNth pd.signals i f = some g) (hq : pd.All Q) :
    ({ pd with signals := g } : Period).All Q := by
  intro t ht
  simp only [Period.tracks, List.mem_append] at ht
  rcases ht with ht | ht
  · exact hq t (by simp [Period.tracks, ht])
  · exact modifyNth_inv Q f step pd.signals g i hm (fun t ht => hq t (by simp [Period.tracks, ht])) t ht

theorem cutStep_inv {Q : Track → Prop} (st : Stack) (c : Cell) (layer : Nat) (m : Metal) (p : Nat)
    (hQ : PresCut Q (Requested st c layer m p)) (wf : WF st c m)
    (pd pd' : Period) (x : Cross) (hx : x ∈ periodCuts c layer m p)
    (h : cutStep st m pd x = some pd') (hq : pd.All Q) : pd'.All Q := by
  unfold cutStep at h
  split at h
  · simp at h
  · cases hxy : crossXY st x with
    | none => simp [hxy] at h
    | some loc =>
      simp only [hxy] at h
      cases hm : modifyNth pd.signals (x.track.track % pd.signals.length) (cutTrack m (along m.horiz loc)) with
      | none => simp [hm] at h
      | some g =>
        simp [hm] at h; subst h
        have hcs : m.cutsize.tdiv 2 ≥ 0 := Int.tdiv_nonneg wf.cutsize (by omega)
        have hreq : Requested st c layer m p (along m.horiz loc - m.cutsize.tdiv 2) (along m.horiz loc + m.cutsize.tdiv 2) .cut :=
          Or.inr ⟨rfl, x, hx, loc, hxy, rfl, rfl⟩
        exact modify_signals_inv _ (fun t t' e hq => withSegs_cut_inv hQ _ _ _ (by omega) hreq t t' e hq) pd _ g hm hq

theorem assignTrack_inv {Q : Track → Prop} (st : Stack) (c : Cell) (m : Metal) (hQ : PresNet Q (NetReq st c m))
    (a : Bytes × Cross) (ha : a ∈ c.assigns)
    (tr : Nat) (pd pd' : Period) (h : assignTrack st m a.1 a.2 tr pd = some pd') (hq : pd.All Q) : pd'.All Q := by
  unfold assignTrack at h
  split at h
  · simp at h
  · cases hx : crossXY st a.2 with
    | none => simp [hx] at h
    | some loc =>
      simp only [hx] at h
      cases hm : modifyNth pd.signals (tr % pd.signals.length) (fun t => t.withSegs (setNet (along m.horiz loc) a.1)) with
      | none => simp [hm] at h
      | some g =>
        simp [hm] at h; subst h
        refine modify_signals_inv _ ?_ pd _ g hm hq
        intro t t' e hq
        unfold Track.withSegs at e
        cases hc : setNet (along m.horiz loc) a.1 t.segs with
        | none => simp [hc] at e
        | some segs =>
          simp [hc] at e; subst e
          exact hQ.net t segs _ _ ⟨a, ha, rfl, loc, hx, rfl⟩ hc hq

theorem periodBots_mem (c : Cell) (layer : Nat) (m : Metal) (p : Nat) (ab : (Bytes × Cross) × Nat)
    (h : ab ∈ periodBots c layer m p) : ab.1 ∈ c.assigns ∧
      ∃ top bot, assignTopBot ab.1.2 = some (top, bot) ∧ inPeriod m p layer bot = true ∧ ab.2 = bot.track := by
  simp only [periodBots, List.mem_filterMap] at h
  obtain ⟨a, ha, e⟩ := h
  cases htb : assignTopBot a.2 with
  | none => simp [htb] at e
  | some tb =>
    obtain ⟨top, bot⟩ := tb
    simp only [htb] at e
    split at e
    · rename_i hin
      simp at e; subst e
      exact ⟨ha, top, bot, htb, hin, rfl⟩
    · simp at e

theorem periodTops_mem (c : Cell) (layer : Nat) (m : Metal) (p : Nat) (ab : (Bytes × Cross) × Nat)
    (h : ab ∈ periodTops c layer m p) : ab.1 ∈ c.assigns := by
  simp only [periodTops, List.mem_filterMap] at h
  obtain ⟨a, ha, e⟩ := h
  cases htb : assignTopBot a.2 with
  | none => simp [htb] at e
  | some tb =>
    obtain ⟨top, bot⟩ := tb
    simp only [htb] at e
    split at e
    · simp at e; subst e; exact ha
    · simp at e

theorem viaStep_inv {Q : Track → Prop} (st : Stack) (c : Cell) (layer : Nat) (m : Metal) (hQ : PresNet Q (NetReq st c m))
    (acc acc' : Period × List Elem) (ab : (Bytes × Cross) × Nat) (hab : ab.1 ∈ c.assigns)
    (h : viaStep st layer m acc ab = some acc') (hq : acc.1.All Q) : acc'.1.All Q := by
  unfold viaStep at h
  cases hv : viaFrom st layer with
  | none => simp [hv] at h
  | some x =>
    obtain ⟨vi, v⟩ := x
    simp only [hv] at h
    cases ha : assignTrack st m ab.1.1 ab.1.2 ab.2 acc.1 with
    | none => simp [ha] at h
    | some pd =>
      simp only [ha] at h
      cases hl : crossXY st ab.1.2 with
      | none => simp [hl] at h
      | some loc =>
        simp [hl] at h; subst h
        exact assignTrack_inv st c m hQ ab.1 hab _ _ _ ha hq

/-- Every stage of `compilePeriod` preserves its invariant: `Q1` through blockages and cuts
    (the requests being exactly those of this layer and period), `Q2` through net assignments. -/
theorem compilePeriod_inv {Q1 Q2 : Track → Prop} (st : Stack) (c : Cell) (layer : Nat) (m : Metal)
    (span : Int) (p : Nat) (wf : WF st c m)
    (hQ1 : PresCut Q1 (Requested st c layer m p)) (hQ2 : PresNet Q2 (NetReq st c m)) (bridge : ∀ t, Q1 t → Q2 t)
    (h0 : (period0 m span p).All Q1)
    (r : Period × List Elem) (h : compilePeriod st c layer m span p = some r) : r.1.All Q2 := by
  unfold compilePeriod at h
  cases h1 : applyBlocks st m p (layerInsts c layer) (period0 m span p) with
  | none => simp [h1] at h
  | some pd1 =>
    have q1 : pd1.All Q1 := foldlM_inv_mem (applyBlockStep st m p) (fun pd => pd.All Q1) _ _ pd1
      (fun acc x acc' hx e hq => applyBlockStep_inv st c layer m p hQ1 wf acc acc' x hx e hq) h1 h0
    simp only [h1] at h
    cases h2 : applyCuts st m (periodCuts c layer m p) pd1 with
    | none => simp [h2] at h
    | some pd2 =>
      have q2 : pd2.All Q1 := foldlM_inv_mem (cutStep st m) (fun pd => pd.All Q1) _ pd1 pd2
        (fun acc x acc' hx e hq => cutStep_inv st c layer m p hQ1 wf acc acc' x hx e hq) h2 q1
      have q2' : pd2.All Q2 := fun t ht => bridge t (q2 t ht)
      simp only [h2] at h
      cases h3 : (periodBots c layer m p).foldlM (viaStep st layer m) (pd2, []) with
      | none => simp [h3] at h
      | some acc3 =>
        have q3 : acc3.1.All Q2 := foldlM_inv_mem (viaStep st layer m) (fun acc => acc.1.All Q2) _ (pd2, []) acc3
          (fun acc x acc' hx e hq => viaStep_inv st c layer m hQ2 acc acc' x (periodBots_mem c layer m p x hx).1 e hq) h3 q2'
        simp only [h3] at h
        cases h4 : (periodTops c layer m p).foldlM (topStep st m) acc3.1 with
        | none => simp [h4] at h
        | some pd4 =>
          simp [h4] at h; subst h
          exact foldlM_inv_mem (topStep st m) (fun pd => pd.All Q2) _ acc3.1 pd4
            (fun acc x acc' hx e hq => assignTrack_inv st c m hQ2 x.1 (periodTops_mem c layer m p x hx) _ acc acc' e hq) h4 q3

/-! ### the tiling theorem -/
/-- the track's segments tile [0, span] and the track sits where the stack puts a track of period `p` -/
def TileQ (m : Metal) (span : Int) (p : Nat) (t : Track) : Prop :=
  Chain 0 t.segs span ∧ ∃ x ∈ m.periodTracks p, t.start = x.2.1 ∧ t.width = x.2.2

theorem period0_mem (m : Metal) (span : Int) (p : Nat) (t : Track) (ht : t ∈ (period0 m span p).tracks) :
    ∃ x ∈ m.periodTracks p, t = mkTrack span x := by
  simp only [Period.tracks, period0, List.mem_append, List.mem_map, List.mem_filter] at ht
  rcases ht with ⟨x, ⟨hx, _⟩, rfl⟩ | ⟨x, ⟨hx, _⟩, rfl⟩ <;> exact ⟨x, hx, rfl⟩

/-- After all blockages, cuts and net assignments every rail and signal track of the period is a
    chain of segments from 0 to the outline edge without gap or overlap, at a position and width
    that the stack defines for that period. -/
theorem c08_period_tiles (st : Stack) (c : Cell) (layer : Nat) (m : Metal) (span : Int) (p : Nat)
    (wf : WF st c m) (hspan : 0 ≤ span) (r : Period × List Elem)
    (h : compilePeriod st c layer m span p = some r) :
    ∀ t ∈ r.1.tracks, Chain 0 t.segs span ∧ ∃ x ∈ m.periodTracks p, t.start = x.2.1 ∧ t.width = x.2.2 := by
  refine compilePeriod_inv (Q1 := TileQ m span p) (Q2 := TileQ m span p) st c layer m span p wf
    ⟨fun t segs s e tp hle _ hc hq => ⟨cutOrBlock_chain t.segs 0 span s e tp segs hle hq.1 hc, hq.2⟩⟩
    ⟨fun t segs pos net _ hc hq => ⟨chain_of_shape segs t.segs 0 span (setNet_shape pos net t.segs segs hc) hq.1, hq.2⟩⟩
    (fun _ h => h) ?_ r h
  intro t ht
  obtain ⟨x, hx, rfl⟩ := period0_mem m span p t ht
  exact ⟨⟨rfl, hspan, rfl⟩, x, hx, rfl, rfl⟩

/-! ### cut and blocked segments are requested spans; nets sit on assigned crossings -/
theorem setNet_mem (pos : Int) (net : Bytes) (segs out : List Seg) (h : setNet pos net segs = some out) :
    ∀ s' ∈ out, s' ∈ segs ∨ (s'.tp = .wire (some net) ∧ s'.start ≤ pos ∧ pos ≤ s'.stop) := by
  intro s' hs'
  rcases setNet_effect pos net segs out h with e | ⟨pre, s, post, e1, _, e3, e4, e5⟩
  · left; rw [← e]; exact hs'
  · subst e5
    simp only [List.mem_append, List.mem_cons] at hs'
    rcases hs' with h1 | rfl | h1
    · left; simp [e1, h1]
    · right; exact ⟨rfl, e3, e4⟩
    · left; simp [e1, h1]

/-- every cut or blocked segment of a final track is a span that was requested for it -/
theorem c08_no_unrequested_gap (st : Stack) (c : Cell) (layer : Nat) (m : Metal) (span : Int) (p : Nat)
    (wf : WF st c m) (r : Period × List Elem) (h : compilePeriod st c layer m span p = some r) :
    ∀ t ∈ r.1.tracks, ∀ s ∈ t.segs, isGap s = true → Requested st c layer m p s.start s.stop s.tp := by
  let Q : Track → Prop := fun t => ∀ s ∈ t.segs, isGap s = true → Requested st c layer m p s.start s.stop s.tp
  refine compilePeriod_inv (Q1 := Q) (Q2 := Q) st c layer m span p wf ⟨?_⟩ ⟨?_⟩ (fun _ h => h) ?_ r h
  · intro t segs s e tp _ hr hc hq x hx hg
    rcases (cutOrBlock_gaps t.segs segs s e tp hc).2.2 x hx hg with h1 | rfl
    · exact hq x h1 hg
    · exact hr
  · intro t segs pos net _ hc hq x hx hg
    rcases setNet_mem pos net t.segs segs hc x hx with h1 | ⟨h1, _⟩
    · exact hq x h1 hg
    · simp [isGap, h1] at hg
  · intro t ht
    obtain ⟨x, _, rfl⟩ := period0_mem m span p t ht
    intro s hs hg
    simp only [mkTrack, List.mem_singleton] at hs
    subst hs
    obtain ⟨tt, a, b⟩ := x
    cases tt <;> simp [isGap] at hg

/-- a wire piece carries a net only if an assignment of the cell with that net crosses the piece -/
theorem c08_nets (st : Stack) (c : Cell) (layer : Nat) (m : Metal) (span : Int) (p : Nat)
    (wf : WF st c m) (r : Period × List Elem) (h : compilePeriod st c layer m span p = some r) :
    ∀ t ∈ r.1.tracks, ∀ s ∈ t.segs, ∀ n, s.tp = .wire (some n) →
      ∃ a ∈ c.assigns, a.1 = n ∧ ∃ loc, crossXY st a.2 = some loc ∧
        s.start ≤ along m.horiz loc ∧ along m.horiz loc ≤ s.stop := by
  let Q1 : Track → Prop := fun t => ∀ s ∈ t.segs, ∀ n, s.tp ≠ .wire (some n)
  let Q2 : Track → Prop := fun t => ∀ s ∈ t.segs, ∀ n, s.tp = .wire (some n) →
      ∃ a ∈ c.assigns, a.1 = n ∧ ∃ loc, crossXY st a.2 = some loc ∧ s.start ≤ along m.horiz loc ∧ along m.horiz loc ≤ s.stop
  refine compilePeriod_inv (Q1 := Q1) (Q2 := Q2) st c layer m span p wf ⟨?_⟩ ⟨?_⟩ ?_ ?_ r h
  · -- cutting never creates a net: the pieces of a split segment keep its (net-less) type
    intro t segs s e tp _ hr hc hq x hx n hn
    have htp : tp = .cut ∨ tp = .block := by rcases hr with ⟨h1, _⟩ | ⟨h1, _⟩ <;> simp [h1]
    exact cutOrBlock_keeps_nonet t.segs segs s e tp htp hc hq x hx n hn
  · intro t segs pos net hr hc hq x hx n hn
    rcases setNet_mem pos net t.segs segs hc x hx with h1 | ⟨h1, h2, h3⟩
    · exact hq x h1 n hn
    · rw [h1] at hn
      simp only [SegT.wire.injEq, Option.some.injEq] at hn
      subst hn
      obtain ⟨a, ha, e1, loc, e2, e3⟩ := hr
      exact ⟨a, ha, e1, loc, e2, by omega, by omega⟩
  · intro t hq s hs n hn; exact absurd hn (hq s hs n)
  · intro t ht
    obtain ⟨x, _, rfl⟩ := period0_mem m span p t ht
    intro s hs n
    simp only [mkTrack, List.mem_singleton] at hs
    subst hs
    obtain ⟨tt, a, b⟩ := x
    cases tt <;> simp

/-! ### every requested span is there -/
/-- a cut / blocked segment, once made, stays through every later operation on that track -/
theorem gap_persists_cut (g : Seg) (hg : isGap g = true) (t : Track) (segs : List Seg) (s e : Int) (tp : SegT)
    (hc : cutOrBlock t.segs s e tp = some segs) (hq : g ∈ t.segs) : g ∈ segs :=
  (cutOrBlock_gaps t.segs segs s e tp hc).2.1 g hq hg

theorem gap_persists_net (g : Seg) (hg : isGap g = true) (t : Track) (segs : List Seg) (pos : Int) (net : Bytes)
    (hc : setNet pos net t.segs = some segs) (hq : g ∈ t.segs) : g ∈ segs := by
  rcases setNet_effect pos net t.segs segs hc with e | ⟨pre, s, post, e1, ⟨n, e2⟩, _, _, e5⟩
  · rw [e]; exact hq
  · subst e5
    rw [e1] at hq
    simp only [List.mem_append, List.mem_cons] at hq ⊢
    rcases hq with h | rfl | h
    · exact Or.inl h
    · simp [isGap, e2] at hg
    · exact Or.inr (Or.inr h)

theorem modifyNth_get (f : Track → Option Track) : ∀ (l l' : List Track) (i : Nat), modifyNth l i f = some l' →
    (∃ t t', l[i]? = some t ∧ f t = some t' ∧ l'[i]? = some t') ∧ ∀ j, j ≠ i → l'[j]? = l[j]? := by
  intro l
  induction l with
  | nil => intro l' i h; simp [modifyNth] at h
  | cons a r ih =>
    intro l' i h
    cases i with
    | zero =>
      simp only [modifyNth] at h
      cases hf : f a with
      | none => simp [hf] at h
      | some b =>
        simp [hf] at h; subst h
        refine ⟨⟨a, b, rfl, hf, rfl⟩, ?_⟩
        intro j hj
        cases j with
        | zero => exact absurd rfl hj
        | succ k => rfl
    | succ k =>
      simp only [modifyNth] at h
      cases hr : modifyNth r k f with
      | none => simp [hr] at h
      | some o =>
        simp [hr] at h; subst h
        obtain ⟨⟨t, t', e1, e2, e3⟩, e4⟩ := ih o k hr
        refine ⟨⟨t, t', by simpa using e1, e2, by simpa using e3⟩, ?_⟩
        intro j hj
        cases j with
        | zero => rfl
        | succ j' => simpa using e4 j' (by omega)

/-- "signal track number `k` of the period contains segment `g`" -/
def HasAt (k : Nat) (g : Seg) (pd : Period) : Prop := ∃ t, pd.signals[k]? = some t ∧ g ∈ t.segs

theorem hasAt_modify (k : Nat) (g : Seg) (f : Track → Option Track) (keep : ∀ t t', f t = some t' → g ∈ t.segs → g ∈ t'.segs)
    (pd : Period) (i : Nat) (l' : List Track) (hm : modifyNth pd.signals i f = some l') (h : HasAt k g pd) :
    HasAt k g { pd with signals := l' } := by
  obtain ⟨t, ht, hg⟩ := h
  obtain ⟨⟨u, u', e1, e2, e3⟩, e4⟩ := modifyNth_get f pd.signals l' i hm
  by_cases hk : k = i
  · subst hk
    rw [ht] at e1
    simp only [Option.some.injEq] at e1
    subst e1
    exact ⟨u', e3, keep t u' e2 hg⟩
  · exact ⟨t, by rw [show ({ pd with signals := l' } : Period).signals = l' from rfl, e4 k hk]; exact ht, hg⟩

theorem withSegs_keep_cut (g : Seg) (hg : isGap g = true) (s e : Int) (tp : SegT) (t t' : Track)
    (h : (t.withSegs fun sg => cutOrBlock sg s e tp) = some t') (hq : g ∈ t.segs) : g ∈ t'.segs := by
  unfold Track.withSegs at h
  cases hc : cutOrBlock t.segs s e tp with
  | none => simp [hc] at h
  | some segs => simp [hc] at h; subst h; exact gap_persists_cut g hg t segs s e tp hc hq

theorem withSegs_keep_net (g : Seg) (hg : isGap g = true) (pos : Int) (net : Bytes) (t t' : Track)
    (h : t.withSegs (setNet pos net) = some t') (hq : g ∈ t.segs) : g ∈ t'.segs := by
  unfold Track.withSegs at h
  cases hc : setNet pos net t.segs with
  | none => simp [hc] at h
  | some segs => simp [hc] at h; subst h; exact gap_persists_net g hg t segs pos net hc hq

theorem cutStep_hasAt (st : Stack) (m : Metal) (k : Nat) (g : Seg) (hg : isGap g = true) (pd pd' : Period) (x : Cross)
    (h : cutStep st m pd x = some pd') (hq : HasAt k g pd) : HasAt k g pd' := by
  unfold cutStep at h
  split at h
  · simp at h
  · cases hxy : crossXY st x with
    | none => simp [hxy] at h
    | some loc =>
      simp only [hxy] at h
      cases hm : modifyNth pd.signals (x.track.track % pd.signals.length) (cutTrack m (along m.horiz loc)) with
      | none => simp [hm] at h
      | some l' =>
        simp [hm] at h; subst h
        exact hasAt_modify k g _ (fun t t' e hq => withSegs_keep_cut g hg _ _ _ t t' e hq) pd _ l' hm hq

theorem assignTrack_hasAt (st : Stack) (m : Metal) (k : Nat) (g : Seg) (hg : isGap g = true) (net : Bytes) (at_ : Cross)
    (tr : Nat) (pd pd' : Period) (h : assignTrack st m net at_ tr pd = some pd') (hq : HasAt k g pd) : HasAt k g pd' := by
  unfold assignTrack at h
  split at h
  · simp at h
  · cases hxy : crossXY st at_ with
    | none => simp [hxy] at h
    | some loc =>
      simp only [hxy] at h
      cases hm : modifyNth pd.signals (tr % pd.signals.length) (fun t => t.withSegs (setNet (along m.horiz loc) net)) with
      | none => simp [hm] at h
      | some l' =>
        simp [hm] at h; subst h
        exact hasAt_modify k g _ (fun t t' e hq => withSegs_keep_net g hg _ _ t t' e hq) pd _ l' hm hq

theorem viaStep_hasAt (st : Stack) (layer : Nat) (m : Metal) (k : Nat) (g : Seg) (hg : isGap g = true)
    (acc acc' : Period × List Elem) (ab : (Bytes × Cross) × Nat)
    (h : viaStep st layer m acc ab = some acc') (hq : HasAt k g acc.1) : HasAt k g acc'.1 := by
  unfold viaStep at h
  cases hv : viaFrom st layer with
  | none => simp [hv] at h
  | some x =>
    obtain ⟨vi, v⟩ := x
    simp only [hv] at h
    cases ha : assignTrack st m ab.1.1 ab.1.2 ab.2 acc.1 with
    | none => simp [ha] at h
    | some pd =>
      simp only [ha] at h
      cases hl : crossXY st ab.1.2 with
      | none => simp [hl] at h
      | some loc =>
        simp [hl] at h; subst h
        exact assignTrack_hasAt st m k g hg _ _ _ _ _ ha hq

theorem applyBlocks_len (st : Stack) (m : Metal) (p : Nat) : ∀ (insts : List Inst) (pd pd' : Period),
    applyBlocks st m p insts pd = some pd' → pd'.signals.length = pd.signals.length := by
  intro insts
  induction insts with
  | nil => intro pd pd' h; simp [applyBlocks] at h; subst h; rfl
  | cons i rest ih =>
    intro pd pd' h
    simp only [applyBlocks, List.foldlM_cons] at h
    cases hs : applyBlockStep st m p pd i with
    | none => simp [hs] at h
    | some pd1 =>
      simp [hs] at h
      have := ih pd1 pd' h
      unfold applyBlockStep at hs
      split at hs
      · cases hr : blockAll pd.rails (instSpan st m i).1 (instSpan st m i).2 with
        | none => simp [hr] at hs
        | some rl =>
          cases hg : blockAll pd.signals (instSpan st m i).1 (instSpan st m i).2 with
          | none => simp [hr, hg] at hs
          | some sg =>
            simp [hr, hg] at hs; subst hs
            have := mapM_some_length _ pd.signals sg hg
            simp_all
      · simp at hs; subst hs; exact this

/-- the cut segment a successful `cutStep` has just made, on the track it names -/
theorem cutStep_makes (st : Stack) (m : Metal) (pd pd' : Period) (x : Cross) (h : cutStep st m pd x = some pd') :
    ∃ loc, crossXY st x = some loc ∧
      HasAt (x.track.track % pd.signals.length)
        ⟨.cut, along m.horiz loc - m.cutsize.tdiv 2, along m.horiz loc + m.cutsize.tdiv 2⟩ pd' ∧
      pd'.signals.length = pd.signals.length := by
  unfold cutStep at h
  split at h
  · simp at h
  · cases hxy : crossXY st x with
    | none => simp [hxy] at h
    | some loc =>
      simp only [hxy] at h
      cases hm : modifyNth pd.signals (x.track.track % pd.signals.length) (cutTrack m (along m.horiz loc)) with
      | none => simp [hm] at h
      | some l' =>
        simp [hm] at h; subst h
        obtain ⟨⟨u, u', e1, e2, e3⟩, e4⟩ := modifyNth_get _ pd.signals l' _ hm
        refine ⟨loc, rfl, ⟨u', e3, ?_⟩, ?_⟩
        · unfold cutTrack Track.withSegs at e2
          cases hc : cutOrBlock u.segs (along m.horiz loc - m.cutsize.tdiv 2) (along m.horiz loc + m.cutsize.tdiv 2) .cut with
          | none => simp [hc] at e2
          | some segs => simp [hc] at e2; subst e2; exact (cutOrBlock_gaps u.segs segs _ _ _ hc).1
        · -- same number of tracks: every index keeps an element
          show l'.length = pd.signals.length
          apply Nat.le_antisymm
          · apply Nat.le_of_not_lt; intro hlt
            have h1 : l'[pd.signals.length]? ≠ none := by
              rw [Ne, List.getElem?_eq_none_iff]; omega
            by_cases hk : pd.signals.length = x.track.track % pd.signals.length
            · have : x.track.track % pd.signals.length < pd.signals.length := Nat.mod_lt _ (by omega)
              omega
            · rw [e4 _ hk] at h1; simp at h1
          · apply Nat.le_of_not_lt; intro hlt
            have hk : l'.length ≠ x.track.track % pd.signals.length ∨ True := Or.inr trivial
            by_cases hk : l'.length = x.track.track % pd.signals.length
            · rw [← hk] at e3; simp at e3
            · have := e4 l'.length hk
              rw [List.getElem?_eq_none_iff.2 (Nat.le_refl _)] at this
              have h2 := List.getElem?_eq_none_iff.1 this.symm
              omega

theorem applyCuts_present (st : Stack) (m : Metal) : ∀ (cuts : List Cross) (pd pd' : Period),
    applyCuts st m cuts pd = some pd' → pd'.signals.length = pd.signals.length ∧
      ∀ x ∈ cuts, ∃ loc, crossXY st x = some loc ∧
        HasAt (x.track.track % pd.signals.length)
          ⟨.cut, along m.horiz loc - m.cutsize.tdiv 2, along m.horiz loc + m.cutsize.tdiv 2⟩ pd' := by
  intro cuts
  induction cuts with
  | nil => intro pd pd' h; simp [applyCuts] at h; subst h; exact ⟨rfl, by intro x hx; simp at hx⟩
  | cons x rest ih =>
    intro pd pd' h
    simp only [applyCuts, List.foldlM_cons] at h
    cases hs : cutStep st m pd x with
    | none => simp [hs] at h
    | some pd1 =>
      simp [hs] at h
      obtain ⟨loc, e1, e2, e3⟩ := cutStep_makes st m pd pd1 x hs
      obtain ⟨i1, i2⟩ := ih pd1 pd' h
      refine ⟨by omega, ?_⟩
      intro y hy
      rcases List.mem_cons.1 hy with rfl | hy
      · refine ⟨loc, e1, ?_⟩
        -- made by this step, kept by all the later ones
        have keep : ∀ (l : List Cross) (a b : Period), l.foldlM (cutStep st m) a = some b →
            HasAt (y.track.track % pd.signals.length) ⟨.cut, along m.horiz loc - m.cutsize.tdiv 2, along m.horiz loc + m.cutsize.tdiv 2⟩ a →
            HasAt (y.track.track % pd.signals.length) ⟨.cut, along m.horiz loc - m.cutsize.tdiv 2, along m.horiz loc + m.cutsize.tdiv 2⟩ b :=
          fun l a b hf hq => foldlM_inv (cutStep st m) _ (fun acc z acc' e hq => cutStep_hasAt st m _ _ (by simp [isGap]) acc acc' z e hq) l a b hf hq
        exact keep rest pd1 pd' h e2
      · obtain ⟨loc', f1, f2⟩ := i2 y hy
        exact ⟨loc', f1, by rw [← e3]; exact f2⟩

/-- Every cut requested on this layer and period is a segment of the signal track it names, in the
    final period (it survives all later cuts and net assignments). -/
theorem c08_cuts_present (st : Stack) (c : Cell) (layer : Nat) (m : Metal) (span : Int) (p : Nat)
    (r : Period × List Elem) (h : compilePeriod st c layer m span p = some r) :
    ∀ x ∈ periodCuts c layer m p, ∃ loc, crossXY st x = some loc ∧
      HasAt (x.track.track % (period0 m span p).signals.length)
        ⟨.cut, along m.horiz loc - m.cutsize.tdiv 2, along m.horiz loc + m.cutsize.tdiv 2⟩ r.1 := by
  unfold compilePeriod at h
  cases h1 : applyBlocks st m p (layerInsts c layer) (period0 m span p) with
  | none => simp [h1] at h
  | some pd1 =>
    simp only [h1] at h
    cases h2 : applyCuts st m (periodCuts c layer m p) pd1 with
    | none => simp [h2] at h
    | some pd2 =>
      simp only [h2] at h
      cases h3 : (periodBots c layer m p).foldlM (viaStep st layer m) (pd2, []) with
      | none => simp [h3] at h
      | some acc3 =>
        simp only [h3] at h
        cases h4 : (periodTops c layer m p).foldlM (topStep st m) acc3.1 with
        | none => simp [h4] at h
        | some pd4 =>
          simp [h4] at h; subst h
          obtain ⟨len2, pres⟩ := applyCuts_present st m _ pd1 pd2 h2
          intro x hx
          obtain ⟨loc, e1, e2⟩ := pres x hx
          -- lengths are preserved by the assignment stages as well: carried by HasAt itself below
          have k3 : ∀ k g, isGap g = true → HasAt k g pd2 → HasAt k g acc3.1 := fun k g hg hq =>
            foldlM_inv (viaStep st layer m) (fun acc => HasAt k g acc.1)
              (fun acc z acc' e hq => viaStep_hasAt st layer m k g hg acc acc' z e hq) _ (pd2, []) acc3 h3 hq
          have k4 : ∀ k g, isGap g = true → HasAt k g acc3.1 → HasAt k g pd4 := fun k g hg hq =>
            foldlM_inv (topStep st m) (fun pd => HasAt k g pd)
              (fun acc z acc' e hq => assignTrack_hasAt st m k g hg _ _ _ acc acc' e hq) _ acc3.1 pd4 h4 hq
          have hfin := k4 _ _ (by simp [isGap]) (k3 _ _ (by simp [isGap]) e2)
          rw [← applyBlocks_len st m p _ _ pd1 h1]
          exact ⟨loc, e1, hfin⟩

/-! blocked spans -/
def blockSeg (st : Stack) (m : Metal) (i : Inst) : Seg := ⟨.block, (instSpan st m i).1, (instSpan st m i).2⟩

theorem applyBlockStep_keep (st : Stack) (m : Metal) (p : Nat) (g : Seg) (hg : isGap g = true) (pd pd' : Period) (i : Inst)
    (h : applyBlockStep st m p pd i = some pd') (hq : pd.All fun t => g ∈ t.segs) : pd'.All fun t => g ∈ t.segs := by
  unfold applyBlockStep at h
  split at h
  · cases hr : blockAll pd.rails (instSpan st m i).1 (instSpan st m i).2 with
    | none => simp [hr] at h
    | some rl =>
      cases hs : blockAll pd.signals (instSpan st m i).1 (instSpan st m i).2 with
      | none => simp [hr, hs] at h
      | some sg =>
        simp [hr, hs] at h; subst h
        intro t ht
        simp only [Period.tracks, List.mem_append] at ht
        rcases ht with ht | ht
        · exact blockAll_inv _ _ _ (fun t t' e hq => withSegs_keep_cut g hg _ _ _ t t' e hq) pd.rails rl hr
            (fun t ht => hq t (by simp [Period.tracks, ht])) t ht
        · exact blockAll_inv _ _ _ (fun t t' e hq => withSegs_keep_cut g hg _ _ _ t t' e hq) pd.signals sg hs
            (fun t ht => hq t (by simp [Period.tracks, ht])) t ht
  · simp at h; subst h; exact hq

theorem applyBlockStep_makes (st : Stack) (m : Metal) (p : Nat) (pd pd' : Period) (i : Inst)
    (hint : instIntersects st m p i = true) (h : applyBlockStep st m p pd i = some pd') :
    pd'.All fun t => blockSeg st m i ∈ t.segs := by
  unfold applyBlockStep at h
  simp only [hint, if_true] at h
  cases hr : blockAll pd.rails (instSpan st m i).1 (instSpan st m i).2 with
  | none => simp [hr] at h
  | some rl =>
    cases hs : blockAll pd.signals (instSpan st m i).1 (instSpan st m i).2 with
    | none => simp [hr, hs] at h
    | some sg =>
      simp [hr, hs] at h; subst h
      have made : ∀ (l l' : List Track), blockAll l (instSpan st m i).1 (instSpan st m i).2 = some l' →
          ∀ t' ∈ l', blockSeg st m i ∈ t'.segs := by
        intro l l' hb t' ht'
        obtain ⟨t, _, e⟩ := mapM_some_mem _ l l' hb t' ht'
        unfold Track.withSegs at e
        cases hc : cutOrBlock t.segs (instSpan st m i).1 (instSpan st m i).2 .block with
        | none => simp [hc] at e
        | some segs => simp [hc] at e; subst e; exact (cutOrBlock_gaps t.segs segs _ _ _ hc).1
      intro t ht
      simp only [Period.tracks, List.mem_append] at ht
      rcases ht with ht | ht
      · exact made pd.rails rl hr t ht
      · exact made pd.signals sg hs t ht

theorem applyBlocks_present (st : Stack) (m : Metal) (p : Nat) : ∀ (insts : List Inst) (pd pd' : Period),
    applyBlocks st m p insts pd = some pd' →
      ∀ i ∈ insts, instIntersects st m p i = true → pd'.All fun t => blockSeg st m i ∈ t.segs := by
  intro insts
  induction insts with
  | nil => intro pd pd' _ i hi; simp at hi
  | cons j rest ih =>
    intro pd pd' h i hi hint
    simp only [applyBlocks, List.foldlM_cons] at h
    cases hs : applyBlockStep st m p pd j with
    | none => simp [hs] at h
    | some pd1 =>
      simp [hs] at h
      rcases List.mem_cons.1 hi with rfl | hi
      · have made := applyBlockStep_makes st m p pd pd1 i hint hs
        exact foldlM_inv (applyBlockStep st m p) (fun pd => pd.All fun t => blockSeg st m i ∈ t.segs)
          (fun acc z acc' e hq => applyBlockStep_keep st m p _ (by simp [isGap, blockSeg]) acc acc' z e hq) rest pd1 pd' h made
      · exact ih pd1 pd' h i hi hint

/-- Every instance that reaches the layer and touches the period blocks its own extent on EVERY
    track (rails and signals) of the period, and the blocked segment survives to the end. -/
theorem c08_blocks_present (st : Stack) (c : Cell) (layer : Nat) (m : Metal) (span : Int) (p : Nat)
    (r : Period × List Elem) (h : compilePeriod st c layer m span p = some r) :
    ∀ i ∈ layerInsts c layer, instIntersects st m p i = true → ∀ t ∈ r.1.tracks, blockSeg st m i ∈ t.segs := by
  intro i hi hint
  have hg : isGap (blockSeg st m i) = true := by simp [isGap, blockSeg]
  unfold compilePeriod at h
  cases h1 : applyBlocks st m p (layerInsts c layer) (period0 m span p) with
  | none => simp [h1] at h
  | some pd1 =>
    have q1 := applyBlocks_present st m p _ _ pd1 h1 i hi hint
    simp only [h1] at h
    cases h2 : applyCuts st m (periodCuts c layer m p) pd1 with
    | none => simp [h2] at h
    | some pd2 =>
      simp only [h2] at h
      have stepCut : ∀ (acc : Period) (x : Cross) (acc' : Period), cutStep st m acc x = some acc' →
          (acc.All fun t => blockSeg st m i ∈ t.segs) → acc'.All fun t => blockSeg st m i ∈ t.segs := by
        intro acc x acc' e hq
        unfold cutStep at e
        split at e
        · simp at e
        · cases hxy : crossXY st x with
          | none => simp [hxy] at e
          | some loc =>
            simp only [hxy] at e
            cases hm : modifyNth acc.signals (x.track.track % acc.signals.length) (cutTrack m (along m.horiz loc)) with
            | none => simp [hm] at e
            | some l' =>
              simp [hm] at e; subst e
              exact modify_signals_inv _ (fun t t' e hq => withSegs_keep_cut _ hg _ _ _ t t' e hq) acc _ l' hm hq
      have stepAssign : ∀ (net : Bytes) (at_ : Cross) (tr : Nat) (acc acc' : Period), assignTrack st m net at_ tr acc = some acc' →
          (acc.All fun t => blockSeg st m i ∈ t.segs) → acc'.All fun t => blockSeg st m i ∈ t.segs := by
        intro net at_ tr acc acc' e hq
        unfold assignTrack at e
        split at e
        · simp at e
        · cases hxy : crossXY st at_ with
          | none => simp [hxy] at e
          | some loc =>
            simp only [hxy] at e
            cases hm : modifyNth acc.signals (tr % acc.signals.length) (fun t => t.withSegs (setNet (along m.horiz loc) net)) with
            | none => simp [hm] at e
            | some l' =>
              simp [hm] at e; subst e
              exact modify_signals_inv _ (fun t t' e hq => withSegs_keep_net _ hg _ _ t t' e hq) acc _ l' hm hq
      have q2 := foldlM_inv (cutStep st m) (fun pd => pd.All fun t => blockSeg st m i ∈ t.segs) stepCut _ pd1 pd2 h2 q1
      cases h3 : (periodBots c layer m p).foldlM (viaStep st layer m) (pd2, []) with
      | none => simp [h3] at h
      | some acc3 =>
        simp only [h3] at h
        have q3 : acc3.1.All fun t => blockSeg st m i ∈ t.segs := by
          refine foldlM_inv (viaStep st layer m) (fun acc => acc.1.All fun t => blockSeg st m i ∈ t.segs) ?_ _ (pd2, []) acc3 h3 q2
          intro acc ab acc' e hq
          unfold viaStep at e
          cases hv : viaFrom st layer with
          | none => simp [hv] at e
          | some x =>
            obtain ⟨vi, v⟩ := x
            simp only [hv] at e
            cases ha : assignTrack st m ab.1.1 ab.1.2 ab.2 acc.1 with
            | none => simp [ha] at e
            | some pd =>
              simp only [ha] at e
              cases hl : crossXY st ab.1.2 with
              | none => simp [hl] at e
              | some loc => simp [hl] at e; subst e; exact stepAssign _ _ _ _ _ ha hq
        cases h4 : (periodTops c layer m p).foldlM (topStep st m) acc3.1 with
        | none => simp [h4] at h
        | some pd4 =>
          simp [h4] at h; subst h
          exact foldlM_inv (topStep st m) (fun pd => pd.All fun t => blockSeg st m i ∈ t.segs)
            (fun acc z acc' e hq => stepAssign _ _ _ acc acc' e hq) _ acc3.1 pd4 h4 q3

/-! ### vias -/
theorem viaFold_spec (st : Stack) (layer : Nat) (m : Metal) : ∀ (l : List ((Bytes × Cross) × Nat)) (acc acc' : Period × List Elem),
    l.foldlM (viaStep st layer m) acc = some acc' →
      ∃ vs, acc'.2 = acc.2 ++ vs ∧ vs.length = l.length ∧
        ∀ k (hk : k < l.length), ∃ vi v loc, viaFrom st layer = some (vi, v) ∧ crossXY st l[k].1.2 = some loc ∧
          vs[k]? = some (viaElem vi v l[k].1.1 loc) := by
  intro l
  induction l with
  | nil => intro acc acc' h; simp at h; subst h; exact ⟨[], by simp, rfl, by intro k hk; simp at hk⟩
  | cons ab rest ih =>
    intro acc acc' h
    simp only [List.foldlM_cons] at h
    cases hs : viaStep st layer m acc ab with
    | none => simp [hs] at h
    | some acc1 =>
      simp [hs] at h
      obtain ⟨vs, e1, e2, e3⟩ := ih acc1 acc' h
      unfold viaStep at hs
      cases hv : viaFrom st layer with
      | none => simp [hv] at hs
      | some x =>
        obtain ⟨vi, v⟩ := x
        simp only [hv] at hs
        cases ha : assignTrack st m ab.1.1 ab.1.2 ab.2 acc.1 with
        | none => simp [ha] at hs
        | some pd =>
          simp only [ha] at hs
          cases hl : crossXY st ab.1.2 with
          | none => simp [hl] at hs
          | some loc =>
            simp [hl] at hs; subst hs
            refine ⟨viaElem vi v ab.1.1 loc :: vs, by simp [e1], by simp [e2], ?_⟩
            intro k hk
            cases k with
            | zero => exact ⟨vi, v, loc, rfl, hl, rfl⟩
            | succ j =>
              obtain ⟨vi', v', loc', f1, f2, f3⟩ := e3 j (by simp at hk; omega)
              exact ⟨vi', v', loc', by rw [hv] at f1; exact f1, by simpa using f2, by simpa using f3⟩

/-- One via per assignment whose bottom track lies in the period, in order: on the stack's via layer
    from this metal, with the assignment's net, `size/2` to each side of the crossing. -/
theorem c08_vias (st : Stack) (c : Cell) (layer : Nat) (m : Metal) (span : Int) (p : Nat)
    (r : Period × List Elem) (h : compilePeriod st c layer m span p = some r) :
    r.2.length = (periodBots c layer m p).length ∧
    ∀ k (hk : k < (periodBots c layer m p).length), ∃ vi v loc, viaFrom st layer = some (vi, v) ∧
      crossXY st (periodBots c layer m p)[k].1.2 = some loc ∧
      r.2[k]? = some (viaElem vi v (periodBots c layer m p)[k].1.1 loc) := by
  unfold compilePeriod at h
  cases h1 : applyBlocks st m p (layerInsts c layer) (period0 m span p) with
  | none => simp [h1] at h
  | some pd1 =>
    simp only [h1] at h
    cases h2 : applyCuts st m (periodCuts c layer m p) pd1 with
    | none => simp [h2] at h
    | some pd2 =>
      simp only [h2] at h
      cases h3 : (periodBots c layer m p).foldlM (viaStep st layer m) (pd2, []) with
      | none => simp [h3] at h
      | some acc3 =>
        simp only [h3] at h
        cases h4 : (periodTops c layer m p).foldlM (topStep st m) acc3.1 with
        | none => simp [h4] at h
        | some pd4 =>
          simp [h4] at h; subst h
          obtain ⟨vs, e1, e2, e3⟩ := viaFold_spec st layer m _ (pd2, []) acc3 h3
          simp only [List.nil_append] at e1
          rw [e1]
          exact ⟨e2, e3⟩

/-- the via rectangle is symmetric about the crossing and, for even sizes, has exactly the stack's size -/
theorem c08_via_centred (vi : Nat) (v : Via) (net : Bytes) (loc : Int × Int) :
    let e := viaElem vi v net loc
    e.x0 + e.x1 = 2 * loc.1 ∧ e.y0 + e.y1 = 2 * loc.2 ∧
    (v.sx % 2 = 0 → e.x1 - e.x0 = v.sx) ∧ (v.sy % 2 = 0 → e.y1 - e.y0 = v.sy) ∧ e.via = true ∧ e.net = some net := by
  simp only [viaElem]
  refine ⟨by omega, by omega, ?_, ?_, by simp⟩
  · intro h
    have := Int.mul_tdiv_cancel' (Int.dvd_of_emod_eq_zero h)
    omega
  · intro h
    have := Int.mul_tdiv_cancel' (Int.dvd_of_emod_eq_zero h)
    omega

/-! ### from tracks to emitted rectangles -/
/-- a metal rectangle emitted for a track is one of its wire or rail segments, at the track's
    position and width; cut and blocked segments emit nothing; rails carry their rail name -/
theorem trackElems_mem (layer : Nat) (horiz : Bool) (t : Track) (e : Elem) (he : e ∈ trackElems layer horiz t) :
    ∃ s ∈ t.segs, isGap s = false ∧ e.via = false ∧ e.layer = layer ∧
      (e.net = match s.tp with | .wire n => n | .rail true => some [86, 68, 68] | .rail false => some [86, 83, 83] | _ => none) ∧
      (if horiz then (e.x0, e.y0, e.x1, e.y1) = (s.start, t.start, s.stop, t.start + t.width)
       else (e.x0, e.y0, e.x1, e.y1) = (t.start, s.start, t.start + t.width, s.stop)) := by
  simp only [trackElems, List.mem_filterMap] at he
  obtain ⟨s, hs, e1⟩ := he
  refine ⟨s, hs, ?_⟩
  cases hst : s.tp with
  | cut => simp [hst] at e1
  | block => simp [hst] at e1
  | wire n =>
    simp only [hst, Option.some.injEq] at e1
    subst e1
    cases horiz <;> simp [isGap, hst]
  | rail k =>
    cases k <;> simp only [hst, Option.some.injEq] at e1 <;> subst e1 <;> cases horiz <;> simp [isGap, hst]

theorem periodElems_mem (layer : Nat) (m : Metal) (r : Period × List Elem) (e : Elem) (he : e ∈ periodElems layer m r) :
    e ∈ r.2 ∨ ∃ t ∈ r.1.tracks, e ∈ trackElems layer m.horiz t := by
  simp only [periodElems, List.mem_append, List.mem_flatMap] at he
  rcases he with (h | ⟨t, ht, h⟩) | ⟨t, ht, h⟩
  · exact Or.inl h
  · exact Or.inr ⟨t, by simp [Period.tracks, ht], h⟩
  · exact Or.inr ⟨t, by simp [Period.tracks, ht], h⟩

/-- Every element the compiler emits for a layer is a via of some period (see `c08_vias`) or a wire /
    rail segment of a final track of some period of that layer (see `c08_period_tiles`,
    `c08_no_unrequested_gap`, `c08_nets`). Nothing else is emitted. -/
theorem c08_elems (st : Stack) (c : Cell) (layer : Nat) (es : List Elem) (h : compileLayer st c layer = some es) :
    ∃ m, st.metals[layer]? = some m ∧ ∀ e ∈ es, ∃ p r,
      compilePeriod st c layer m (layerSpan st c m) p = some r ∧
      (e ∈ r.2 ∨ ∃ t ∈ r.1.tracks, e ∈ trackElems layer m.horiz t) := by
  unfold compileLayer at h
  cases hm : st.metals[layer]? with
  | none => simp [hm] at h
  | some m =>
    refine ⟨m, rfl, ?_⟩
    simp only [hm] at h
    split at h
    · simp at h
    · cases hp : (List.range ((layerBreadth st c m).tdiv m.pitch).toNat).mapM
          (fun p => (compilePeriod st c layer m (layerSpan st c m) p).map (periodElems layer m)) with
      | none => simp [hp] at h
      | some ps =>
        simp [hp] at h; subst h
        intro e he
        obtain ⟨pe, hpe, hin⟩ := List.mem_flatten.1 he
        obtain ⟨p, _, e1⟩ := mapM_some_mem _ _ ps hp pe hpe
        cases hc : compilePeriod st c layer m (layerSpan st c m) p with
        | none => simp [hc] at e1
        | some r =>
          simp [hc] at e1; subst e1
          exact ⟨p, r, hc, periodElems_mem layer m r e hin⟩

theorem c08_compile_layers (st : Stack) (c : Cell) (es : List Elem) (h : compile st c = some es) :
    stackOk st = true ∧ cellOk st c = true ∧
    ∀ e ∈ es, ∃ layer, layer < c.metals ∧ ∃ el, compileLayer st c layer = some el ∧ e ∈ el := by
  unfold compile at h
  split at h
  · simp at h
  · rename_i h1
    split at h
    · simp at h
    · rename_i h2
      refine ⟨by simpa using h1, by simpa using h2, ?_⟩
      cases hl : (List.range c.metals).mapM (compileLayer st c) with
      | none => simp [hl] at h
      | some ls =>
        simp [hl] at h; subst h
        intro e he
        obtain ⟨el, hel, hin⟩ := List.mem_flatten.1 he
        obtain ⟨layer, hlayer, e1⟩ := mapM_some_mem _ _ ls hl el hel
        exact ⟨layer, by simpa using hlayer, el, e1, hin⟩

/-! ### non-vacuity -/
def demoMetalH : Metal := ⟨true, 20, 0, 0, true, false, [.one ⟨.gap, 20⟩, .one ⟨.sig, 20⟩, .one ⟨.gap, 10⟩, .one ⟨.sig, 40⟩, .one ⟨.gap, 30⟩]⟩
def demoMetalV : Metal := ⟨false, 10, 0, 0, false, false, [.rep [⟨.sig, 20⟩, ⟨.gap, 40⟩] 2]⟩
def demoStack : Stack := ⟨120, 120, [demoMetalH, demoMetalV], [⟨some 0, 10, 10⟩]⟩
def demoCell : Cell := ⟨2, 2, 2, [⟨2, 1, true, false, 1, 1, 1⟩], [⟨⟨0, 2⟩, ⟨1, 0⟩⟩], [([97], ⟨⟨1, 2⟩, ⟨0, 3⟩⟩)]⟩

-- an asymmetric pattern, flipped in period 1: track 2 (first of period 1) is the mirror image of track 1
example : demoMetalH.trackPos 1 = some (50, 40) := by decide
example : demoMetalH.trackPos 2 = some (150, 40) := by decide
example : demoMetalH.trackPos 3 = some (200, 20) := by decide
example : ((demoMetalH.periodTracks 1).filter isSig) = [(.sig, 150, 40), (.sig, 200, 20)] := by decide
example : WF demoStack demoCell demoMetalH := ⟨by decide, by decide, by decide, by decide⟩
-- the whole cell compiles: a cut, a reflected instance blocking [120,240] of period 1, a via with net "a"
example : (compile demoStack demoCell).isSome = true := by decide +kernel
example : ((compile demoStack demoCell).map fun es => (es.filter (·.via)).map fun e => (e.net, e.x0, e.y0, e.x1, e.y1)) =
    some [(some [97], 125, 205, 135, 215)] := by decide +kernel

end L21.Tetris
