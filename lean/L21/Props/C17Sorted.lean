import L21.Model.Dep
import L21.Model.RawProto
import L21.Model.Place
import L21.Model.RawGds
import L21.Model.TProto
/-
C17 / C14 / C19 — a listing that already has dependencies first is a FIXED POINT of the orderers.

`c17_sorted_listing_is_kept`: if the listed items are distinct and every dependency of an item stands earlier
in the listing, the orderer returns exactly that listing (no error, no reordering, nothing added).  This is
the order half of C14's converse clause ("a protobuf library whose cells are listed before their users
converts to raw and back to an equal message") and of C19's ("cells exported after the cells they
instantiate"): re-exporting an imported library lists the cells in the order the message had them
(`c14_reexport_keeps_cell_order`).
-/
namespace L21.Dep

/-- dependencies that are all done already: the loop changes nothing -/
theorem pushAll_done (adj : Nat → List Nat) (f : Nat) (stack pending : List Nat) :
    ∀ ds : List Nat, (∀ d ∈ ds, d ∈ stack) → pushAll adj (f + 1) ds stack pending = .ok stack := by
  intro ds
  induction ds with
  | nil => intro _; simp [pushAll]
  | cons d r ih =>
    intro h
    have hd : d ∈ stack := h d (by simp)
    rw [pushAll, push]
    simp only [hd, if_true]
    exact ih (fun x hx => h x (by simp [hx]))

theorem pushAll_sorted (adj : Nat → List Nat) (f : Nat) :
    ∀ (ys stack : List Nat), (stack ++ ys).Nodup →
      (∀ pre x post, ys = pre ++ x :: post → ∀ d ∈ adj x, d ∈ stack ++ pre) →
      pushAll adj (f + 2) ys stack [] = .ok (stack ++ ys) := by
  intro ys
  induction ys with
  | nil => intro stack _ _; simp [pushAll]
  | cons y r ih =>
    intro stack hnd hdeps
    have hy : y ∉ stack := by
      intro hm
      have := List.nodup_append.1 hnd
      exact this.2.2 y hm y (by simp) rfl
    have hdy : ∀ d ∈ adj y, d ∈ stack := by
      intro d hd; simpa using hdeps [] y r rfl d hd
    rw [pushAll, push]
    simp only [hy, if_false, List.not_mem_nil, pushAll_done adj f stack [y] (adj y) hdy]
    have := ih (stack ++ [y]) (by simpa [List.append_assoc] using hnd) (by
      intro pre x post hr d hd
      have := hdeps (y :: pre) x post (by simp [hr]) d hd
      simpa [List.append_assoc] using this)
    simpa [List.append_assoc] using this

/-- **A listing with dependencies first is returned unchanged** (any recursion budget ≥ 2). -/
theorem c17_sorted_listing_is_kept (adj : Nat → List Nat) (f : Nat) (items : List Nat) (hnd : items.Nodup)
    (hdeps : ∀ i (hi : i < items.length), ∀ d ∈ adj items[i], d ∈ items.take i) :
    order adj (f + 2) items = .ok items := by
  have := pushAll_sorted adj f items [] (by simpa using hnd) (by
    intro pre x post hr d hd
    have hi : pre.length < items.length := by rw [hr]; simp
    have hx : items[pre.length] = x := by simp [hr]
    have := hdeps pre.length hi d (by rw [hx]; exact hd)
    simpa [hr] using this)
  simpa [order] using this

/-! non-vacuity: 0 ← 1 ← 2, 0 ← 2 listed as 0 1 2 -/
example : order (adjOf [[], [0], [1, 0]]) 4 [0, 1, 2] = .ok [0, 1, 2] :=
  c17_sorted_listing_is_kept _ 2 _ (by decide) (by decide)

/-- the form every embedded orderer uses: nodes `0 … n-1` listed in index order, every dependency a smaller index -/
theorem c17_range_sorted (adj : Nat → List Nat) (n : Nat) (h : ∀ i, i < n → ∀ d ∈ adj i, d < i) :
    order adj (n + 1) (List.range n) = .ok (List.range n) := by
  cases n with
  | zero => simp [order, pushAll]
  | succ m =>
    have := c17_sorted_listing_is_kept adj m (List.range (m + 1)) List.nodup_range (by
      intro i hi d hd
      simp only [List.length_range] at hi
      simp only [List.getElem_range] at hd
      have hlt := h i hi d hd
      rw [List.take_range, List.mem_range]
      exact Nat.lt_min.2 ⟨hlt, by omega⟩)
    simpa using this

end L21.Dep

namespace L21.RawProto

theorem range_filterMap_getElem {α : Type} : ∀ (l : List α), (List.range l.length).filterMap (fun i => l[i]?) = l := by
  intro l
  induction l with
  | nil => rfl
  | cons a r ih =>
    rw [List.length_cons, List.range_succ_eq_map, List.filterMap_cons]
    simp only [List.getElem?_cons_zero, List.filterMap_map]
    simpa [Function.comp_def] using ih

/-- every instance of every cell refers to a cell listed EARLIER (by first occurrence of the name) -/
def ListedBeforeUsers (cells : List Cell) : Prop :=
  ∀ i, i < cells.length → ∀ d ∈ cellAdj cells i, d < i

/-- **Re-export keeps the cell order of a library whose cells are listed before their users**: the exporter's
    dependency order of such a library is the listing itself, so the exported message has the cells in the
    order given — for an imported message, the order the message had. -/
theorem c14_reexport_keeps_cell_order (tbl : LayerTbl) (l : Lib) (h : ListedBeforeUsers l.cells) (hu : l.units ≠ 3) :
    exportLib tbl l = (match exportCells tbl l.cells with | .ok cs => .ok ⟨l.name, (l.units : Int), cs⟩ | .err => .err) := by
  have hord : Dep.order (cellAdj l.cells) (l.cells.length + 1) (List.range l.cells.length) = .ok (List.range l.cells.length) := by
    cases hn : l.cells.length with
    | zero => simp [Dep.order, Dep.pushAll]
    | succ n =>
      have := Dep.c17_sorted_listing_is_kept (cellAdj l.cells) n (List.range (n + 1)) List.nodup_range (by
        intro i hi d hd
        simp only [List.length_range] at hi
        simp only [List.getElem_range] at hd
        have hlt := h i (by rw [hn]; exact hi) d hd
        rw [List.take_range, List.mem_range]
        exact Nat.lt_min.2 ⟨hlt, by omega⟩)
      simpa using this
  unfold exportLib
  simp only [hu, if_false, hord]
  have hmap : (List.range l.cells.length).filterMap (fun i => l.cells[i]?) = l.cells := by
    exact range_filterMap_getElem l.cells
  rw [hmap]
  cases exportCells tbl l.cells <;> rfl

end L21.RawProto

namespace L21.Place

/-- C09 / C17: a placement program whose relative placements all refer to EARLIER instances is resolved in its
    listing order (the placer's dependency order is the listing itself). -/
theorem c09_sorted_program_in_listing_order (cells : List (Int × Int)) (insts : List Inst)
    (h : ∀ i, i < insts.length → ∀ d ∈ adj insts i, d < i) :
    run cells insts = placeAll cells insts (List.range insts.length) [] := by
  unfold run; rw [Dep.c17_range_sorted (adj insts) insts.length h]

end L21.Place

namespace L21.TProto

/-- C19 / C17: a gridded-layout library whose registered cells are listed after the cells they instantiate (distinct items,
    every dependency an earlier item; at least one cell in the table) is exported in exactly that order — the export
    of a library that was IMPORTED from a message lists the cells as the message did. -/
theorem c19_listed_order_is_export_order (lib : Lib) (hne : 1 ≤ lib.table.length) (hnd : lib.items.Nodup)
    (hdeps : ∀ i (hi : i < lib.items.length), ∀ d ∈ deps lib.table lib.items[i], d ∈ lib.items.take i) :
    exportLib lib = some (exportOrdered lib lib.items) := by
  unfold exportLib exportLib'
  obtain ⟨n, hn⟩ : ∃ n, lib.table.length + 1 = n + 2 := ⟨lib.table.length - 1, by omega⟩
  rw [hn, Dep.c17_sorted_listing_is_kept (deps lib.table) n lib.items hnd hdeps]

end L21.TProto
