import L21.Proofs.GdsFloat
/-
C15 — The GDSII real-number codec is exact over the format's range.

Property theorems only (helpers: `L21/Proofs/GdsFloat.lean`).  Doubles and GDSII reals are
64-bit patterns; the meaning of a pattern is given by `f64Val` / `gdsVal` below as an exact
dyadic `(sign, mantissa, exponent)` triple, compared by cross-multiplication, so no
floating point and no rationals are needed to state exactness.
-/
namespace L21.GdsFloat

/-- `-0.0` and `+0.0` are the same double for the library's `==`; encode maps both to the all-zero real. -/
def canonZero (x : Nat) : Nat := if x % 2 ^ 63 = 0 then 0 else x

/-- x is ±0, or a normal double with 16^-65 ≤ |x| < 16^63 (i.e. 2^-260 ≤ |x| < 2^252).
    This is the whole representable range; it contains the property's 16^-64 ≤ |x| < 16^63. -/
def InRange (x : Nat) : Prop :=
  (f64Exp x = 0 ∧ f64Frac x = 0) ∨ (763 ≤ f64Exp x ∧ f64Exp x ≤ 1274)

/-- GDS real is normalised: all-zero, or the top hex digit of the mantissa is non-zero. -/
def Normalised (g : Nat) : Prop := g = 0 ∨ 2 ^ 52 ≤ gMant g

/-- Exact dyadic value `mant * 2^(exp - bias)`, as a pair; doubles use bias 1075, GDS reals
    `exp = 4*e` with bias 4*64+56 = 312.  Two dyadics `a·2^p` and `b·2^q` (offset exponents)
    are equal iff `a·2^q' = b·2^p'` after cross-multiplication. -/
def dyadicEq (a p b q : Nat) : Prop := a * 2 ^ q = b * 2 ^ p

/-- mantissa and offset binary exponent of a finite non-zero normal double: value = m·2^(e-1075) -/
def f64Mant (x : Nat) : Nat := 2 ^ 52 + f64Frac x

/-! ### encode then decode is the identity on the GDSII range -/

theorem c15_encode_total (x : Nat) (hr : InRange x) : ∃ g, encodeBits x = some g := by
  unfold InRange at hr
  unfold encodeBits
  rcases hr with ⟨h1, h2⟩ | ⟨h1, h2⟩
  · exact ⟨0, by simp [h1, h2]⟩
  · have b : ¬ (f64Exp x = 0) := by omega
    have c : ¬ (f64Exp x = 2047) := by omega
    have d : ¬ ((f64Exp x + 5) / 4 < 192) := by omega
    have e : ¬ (319 < (f64Exp x + 5) / 4) := by omega
    simp [b, c, d, e]

/-- NaN, infinities, IEEE subnormals and magnitudes ≥ 16^63 are errors. -/
theorem c15_encode_rejects (x : Nat)
    (hr : f64Exp x = 2047 ∨ 1274 < f64Exp x ∨ (f64Exp x = 0 ∧ f64Frac x ≠ 0)) : encodeBits x = none := by
  unfold encodeBits
  rcases hr with h | h | ⟨h, h'⟩
  · simp [h]
  · have b : ¬ (f64Exp x = 0) := by omega
    by_cases c : f64Exp x = 2047
    · simp [c]
    · have d : ¬ ((f64Exp x + 5) / 4 < 192) := by omega
      have e : 319 < (f64Exp x + 5) / 4 := by omega
      simp [b, c, d, e]
  · simp [h, h']

/-- Shape of a successful encoding: zero, normalised, or (below 16^-65) exact denormalised. -/
theorem encodeBits_some (x g : Nat) (h : encodeBits x = some g) :
    (f64Exp x = 0 ∧ f64Frac x = 0 ∧ g = 0) ∨
    (763 ≤ f64Exp x ∧ f64Exp x ≤ 1274 ∧
      g = f64Sign x * 2 ^ 63 + ((f64Exp x + 5) / 4 - 192) * 2 ^ 56
            + (2 ^ 52 + f64Frac x) * 2 ^ ((f64Exp x + 5) % 4)) ∨
    (0 < f64Exp x ∧ f64Exp x < 763 ∧ 4 * (192 - (f64Exp x + 5) / 4) < 56 ∧
      (2 ^ 52 + f64Frac x) * 2 ^ ((f64Exp x + 5) % 4) % 2 ^ (4 * (192 - (f64Exp x + 5) / 4)) = 0 ∧
      g = f64Sign x * 2 ^ 63 +
          (2 ^ 52 + f64Frac x) * 2 ^ ((f64Exp x + 5) % 4) / 2 ^ (4 * (192 - (f64Exp x + 5) / 4))) := by
  unfold encodeBits at h
  by_cases b : f64Exp x = 0
  · by_cases f : f64Frac x = 0
    · simp [b, f] at h; exact Or.inl ⟨b, f, h.symm⟩
    · simp [b, f] at h
  · by_cases c : f64Exp x = 2047
    · simp [c] at h
    · by_cases d : (f64Exp x + 5) / 4 < 192
      · simp only [b, c, d, false_and, if_false, if_true] at h
        split at h
        · rename_i hc
          simp at h
          exact Or.inr (Or.inr ⟨by omega, by omega, hc.1, hc.2, h.symm⟩)
        · simp at h
      · by_cases e : 319 < (f64Exp x + 5) / 4
        · simp [b, c, d, e] at h
        · simp [b, c, d, e] at h
          exact Or.inr (Or.inl ⟨by omega, by omega, h.symm⟩)

theorem InRange_of_some_not_tiny (x g : Nat) (h : encodeBits x = some g) (hn : 763 ≤ f64Exp x ∨ f64Exp x = 0) :
    InRange x := by
  rcases encodeBits_some x g h with ⟨h1, h2, _⟩ | ⟨h1, h2, _⟩ | ⟨h1, h2, _⟩
  · exact Or.inl ⟨h1, h2⟩
  · exact Or.inr ⟨h1, h2⟩
  · omega

theorem c15_decode_encode (x g : Nat) (hx : x < 2 ^ 64) (hr : InRange x) (h : encodeBits x = some g) :
    decodeBits g = canonZero x := by
  rcases encodeBits_some x g h with ⟨h1, h2, rfl⟩ | ⟨h1, h2, rfl⟩ | ⟨h1, h2, _⟩
  · have hz : x % 2 ^ 63 = 0 := by
      have := f64_fields x hx; omega
    simp [canonZero, hz, decodeBits, gMant, gSign]
  · have hfr := f64Frac_lt x
    have hs := f64Sign_lt x
    have hsh : (f64Exp x + 5) % 4 ≤ 3 := by omega
    have hm : (2 ^ 52 + f64Frac x) * 2 ^ ((f64Exp x + 5) % 4) < 2 ^ 56 := by
      have : (f64Exp x + 5) % 4 = 0 ∨ (f64Exp x + 5) % 4 = 1 ∨ (f64Exp x + 5) % 4 = 2 ∨ (f64Exp x + 5) % 4 = 3 := by omega
      rcases this with e | e | e | e <;> rw [e] <;> omega
    have hm0 : (2 ^ 52 + f64Frac x) * 2 ^ ((f64Exp x + 5) % 4) ≠ 0 := by
      have := Nat.two_pow_pos ((f64Exp x + 5) % 4)
      exact Nat.mul_ne_zero (by omega) (by omega)
    obtain ⟨gs, ge, gm⟩ := g_mk_fields (f64Sign x) ((f64Exp x + 5) / 4 - 192)
      ((2 ^ 52 + f64Frac x) * 2 ^ ((f64Exp x + 5) % 4)) hs (by omega) hm
    unfold decodeBits
    simp only [gs, ge, gm, hm0, if_false]
    rw [u64ToF64Bits_shift _ _ hfr hsh]
    obtain ⟨fe, ff⟩ := f64_mk_fields0 (52 + (f64Exp x + 5) % 4 + 1023) (f64Frac x) (by omega) hfr
    rw [fe, ff]
    have hnz : ¬ (x % 2 ^ 63 = 0) := by
      have := f64_fields x hx; omega
    simp only [canonZero, hnz, if_false]
    have := f64_fields x hx
    omega
  · unfold InRange at hr; omega

/-! ### the encoding is the normalised representation with exactly the input's value -/

theorem c15_encode_normalised (x g : Nat) (hr : InRange x) (h : encodeBits x = some g) : Normalised g := by
  rcases encodeBits_some x g h with ⟨_, _, rfl⟩ | ⟨h1, h2, rfl⟩ | ⟨h1, h2, _⟩
  · exact Or.inl rfl
  · right
    have hfr := f64Frac_lt x
    have hs := f64Sign_lt x
    have hm : (2 ^ 52 + f64Frac x) * 2 ^ ((f64Exp x + 5) % 4) < 2 ^ 56 := by
      have : (f64Exp x + 5) % 4 = 0 ∨ (f64Exp x + 5) % 4 = 1 ∨ (f64Exp x + 5) % 4 = 2 ∨ (f64Exp x + 5) % 4 = 3 := by omega
      rcases this with e | e | e | e <;> rw [e] <;> omega
    obtain ⟨_, _, gm⟩ := g_mk_fields (f64Sign x) ((f64Exp x + 5) / 4 - 192)
      ((2 ^ 52 + f64Frac x) * 2 ^ ((f64Exp x + 5) % 4)) hs (by omega) hm
    rw [gm]
    have := Nat.two_pow_pos ((f64Exp x + 5) % 4)
    calc 2 ^ 52 ≤ (2 ^ 52 + f64Frac x) := by omega
      _ = (2 ^ 52 + f64Frac x) * 1 := by omega
      _ ≤ (2 ^ 52 + f64Frac x) * 2 ^ ((f64Exp x + 5) % 4) := Nat.mul_le_mul_left _ (by omega)
  · unfold InRange at hr; omega

/-- Exactness, for EVERY successful encoding of a non-zero double (in range or below it):
    `x = ±m53·2^(be-1075)` and `g = ±m56·2^(4·e16 - 312)` have the same sign and the same
    magnitude, stated without negative exponents as `m56 · 2^(4·e16 + 763) = m53 · 2^be`
    (both sides multiplied by 2^1075).  So the writer is never silently lossy. -/
theorem c15_encode_exact (x g : Nat) (h : encodeBits x = some g) (hnz : f64Exp x ≠ 0) :
    gSign g = f64Sign x ∧
    gMant g * 2 ^ (4 * gExp g + 763) = f64Mant x * 2 ^ f64Exp x := by
  have hfr := f64Frac_lt x
  have hs := f64Sign_lt x
  have hm : (2 ^ 52 + f64Frac x) * 2 ^ ((f64Exp x + 5) % 4) < 2 ^ 56 := by
    have : (f64Exp x + 5) % 4 = 0 ∨ (f64Exp x + 5) % 4 = 1 ∨ (f64Exp x + 5) % 4 = 2 ∨ (f64Exp x + 5) % 4 = 3 := by omega
    rcases this with e | e | e | e <;> rw [e] <;> omega
  rcases encodeBits_some x g h with ⟨h1, _, _⟩ | ⟨h1, h2, rfl⟩ | ⟨h1, h2, h3, h4, rfl⟩
  · exact absurd h1 hnz
  · obtain ⟨gs, ge, gm⟩ := g_mk_fields (f64Sign x) ((f64Exp x + 5) / 4 - 192)
      ((2 ^ 52 + f64Frac x) * 2 ^ ((f64Exp x + 5) % 4)) hs (by omega) hm
    refine ⟨gs, ?_⟩
    rw [gm, ge]
    unfold f64Mant
    rw [Nat.mul_assoc, ← Nat.pow_add]
    congr 2
    omega
  · generalize hM : (2 ^ 52 + f64Frac x) * 2 ^ ((f64Exp x + 5) % 4) = M at *
    generalize hR : 4 * (192 - (f64Exp x + 5) / 4) = r at *
    have hpos : 0 < 2 ^ r := Nat.two_pow_pos r
    have hdiv : M / 2 ^ r * 2 ^ r = M := by
      have := Nat.div_add_mod M (2 ^ r); rw [h4] at this
      rw [Nat.mul_comm]; omega
    have hq : M / 2 ^ r < 2 ^ 56 := Nat.lt_of_le_of_lt (Nat.div_le_self _ _) hm
    have hgf := g_mk_fields (f64Sign x) 0 (M / 2 ^ r) hs (by omega) hq
    simp only [Nat.zero_mul, Nat.add_zero] at hgf
    obtain ⟨gs, ge, gm⟩ := hgf
    refine ⟨gs, ?_⟩
    rw [gm, ge]
    have hr763 : r ≤ 763 := by omega
    have e1 : 2 ^ (4 * 0 + 763) = 2 ^ r * 2 ^ (763 - r) := by
      rw [← Nat.pow_add]; congr 1; omega
    rw [e1, ← Nat.mul_assoc, hdiv, ← hM]
    unfold f64Mant
    rw [Nat.mul_assoc, ← Nat.pow_add]
    have e2 : (f64Exp x + 5) % 4 + (763 - r) = f64Exp x := by omega
    rw [e2]

/-! ### decoding a normalised real; re-encoding -/

private theorem be_bound1 (sh e : Nat) (hsh : sh ≤ 3) (he : e < 128) : 52 + sh + 1023 + 4 * e - 312 < 2048 := by omega
private theorem be_bound2 (e : Nat) (he : e < 128) : 53 - 1 + 1023 + 4 * e - 312 < 2048 := by omega
private theorem be_bound3 (k e : Nat) (hk : k ≤ 3) (he : e < 128) : 53 + k - 1 + 1023 + 4 * e - 312 < 2048 := by omega


/-- Decoding a normalised real with at most 53 significant bits and re-encoding gives the same bytes.
    "At most 53 significant bits" for a normalised mantissa (2^52 ≤ m < 2^56) is stated as
    `m = a · 2^sh` with `2^52 ≤ a < 2^53`, `sh ≤ 3`. -/
theorem c15_encode_decode (g a sh : Nat) (hg : g < 2 ^ 64) (ha : 2 ^ 52 ≤ a) (ha' : a < 2 ^ 53)
    (hsh : sh ≤ 3) (hm : gMant g = a * 2 ^ sh) (hm56 : a * 2 ^ sh < 2 ^ 56) :
    encodeBits (decodeBits g) = some g := by
  have hgf := g_fields g hg
  have hne : gMant g ≠ 0 := by
    rw [hm]; have := Nat.two_pow_pos sh; exact Nat.mul_ne_zero (by omega) (by omega)
  have hge : gExp g < 128 := by unfold gExp; omega
  have hgs : gSign g < 2 := by unfold gSign; omega
  unfold decodeBits
  simp only [hne, if_false]
  have hfr : a - 2 ^ 52 < 2 ^ 52 := by omega
  have hu := u64ToF64Bits_shift (a - 2 ^ 52) sh hfr hsh
  rw [show 2 ^ 52 + (a - 2 ^ 52) = a by omega] at hu
  rw [hm, hu]
  obtain ⟨fe, ff⟩ := f64_mk_fields0 (52 + sh + 1023) (a - 2 ^ 52) (by omega) hfr
  rw [fe, ff]
  have hb2 : 52 + sh + 1023 + 4 * gExp g - 312 < 2048 := be_bound1 _ _ hsh hge
  obtain ⟨xs, xe, xf⟩ := f64_mk_fields (gSign g) (52 + sh + 1023 + 4 * gExp g - 312) (a - 2 ^ 52)
    hgs hb2 hfr
  unfold encodeBits
  simp only [xs, xe, xf]
  have c1 : ¬ (52 + sh + 1023 + 4 * gExp g - 312 = 0 ∧ a - 2 ^ 52 = 0) := by omega
  have c2 : ¬ (52 + sh + 1023 + 4 * gExp g - 312 = 0) := by omega
  have c3 : ¬ (52 + sh + 1023 + 4 * gExp g - 312 = 2047) := by omega
  have c4 : ¬ ((52 + sh + 1023 + 4 * gExp g - 312 + 5) / 4 < 192) := by omega
  have c5 : ¬ (319 < (52 + sh + 1023 + 4 * gExp g - 312 + 5) / 4) := by omega
  simp only [c1, c2, c3, c4, c5, if_false]
  have e1 : (52 + sh + 1023 + 4 * gExp g - 312 + 5) % 4 = sh := by omega
  have e2 : (52 + sh + 1023 + 4 * gExp g - 312 + 5) / 4 - 192 = gExp g := by omega
  rw [e1, e2, show 2 ^ 52 + (a - 2 ^ 52) = a by omega, ← hm]
  exact congrArg some hgf.symm

/-- The all-zero real decodes to +0.0 and re-encodes to itself. -/
theorem c15_zero : decodeBits 0 = 0 ∧ encodeBits 0 = some 0 := by decide

/-! ### decode rounds correctly (round-to-nearest, ties-to-even) -/

/-- `rne m k` is a nearest integer to `m / 2^k`, and on a tie it is even: the IEEE-754
    roundTiesToEven rule, stated on integers. -/
theorem rne_nearest (m k : Nat) :
    (2 * (m - rne m k * 2 ^ k) ≤ 2 ^ k ∧ 2 * (rne m k * 2 ^ k - m) ≤ 2 ^ k) ∧
    ((2 * (m - rne m k * 2 ^ k) = 2 ^ k ∨ (0 < k ∧ 2 * (rne m k * 2 ^ k - m) = 2 ^ k)) → rne m k % 2 = 0) := by
  have hp : 0 < 2 ^ k := Nat.two_pow_pos k
  have hdm := Nat.div_add_mod m (2 ^ k)
  have hlt := Nat.mod_lt m hp
  unfold rne
  by_cases hk : k = 0
  · subst hk; simp
  · obtain ⟨j, rfl⟩ : ∃ j, k = j + 1 := ⟨k - 1, by omega⟩
    have hpow : 2 ^ (j + 1) = 2 * 2 ^ j := by rw [Nat.pow_succ]; omega
    have hhalf : 2 ^ (j + 1) / 2 = 2 ^ j := by omega
    have hj : 0 < 2 ^ j := Nat.two_pow_pos j
    simp only [hk, if_false, hhalf]
    generalize hq : m / 2 ^ (j + 1) = q at *
    generalize hr : m % 2 ^ (j + 1) = r at *
    generalize hP : 2 ^ j = P at *
    rw [hpow] at hdm hlt ⊢
    have hmul : ∀ t : Nat, t * (2 * P) = 2 * P * t := fun t => Nat.mul_comm _ _
    split
    · rw [hmul]; refine ⟨⟨by omega, by omega⟩, ?_⟩; intro h; omega
    · split
      · rw [hmul, Nat.mul_add]; refine ⟨⟨by omega, by omega⟩, ?_⟩; intro h; omega
      · split
        · rw [hmul]; refine ⟨⟨by omega, by omega⟩, ?_⟩; intro _; assumption
        · rw [hmul, Nat.mul_add]; refine ⟨⟨by omega, by omega⟩, ?_⟩; intro _; omega

/-- Decoding a normalised real: the result is the double whose 53-bit significand is
    `rne m (n-53)` (n = bit length of the 56-bit mantissa, 53..56), carried into the next
    binade when rounding reaches 2^53, with exponent `n - 1 + 4(e-64) - 56`, and the sign bit
    of the real.  Together with `rne_nearest` this is "the correctly rounded double". -/
theorem c15_decode_rounds (g k : Nat) (hg : g < 2 ^ 64) (hk : k ≤ 3)
    (h1 : 2 ^ (52 + k) ≤ gMant g) (h2 : gMant g < 2 ^ (53 + k)) :
    let q := rne (gMant g) k
    f64Sign (decodeBits g) = gSign g ∧
    ((q < 2 ^ 53 ∧ f64Mant (decodeBits g) = q ∧ f64Exp (decodeBits g) + 312 = 1075 + k + 4 * gExp g) ∨
     (q = 2 ^ 53 ∧ f64Mant (decodeBits g) = 2 ^ 52 ∧ f64Exp (decodeBits g) + 312 = 1076 + k + 4 * gExp g)) := by
  intro q
  have hne : gMant g ≠ 0 := by have := Nat.two_pow_pos (52 + k); omega
  have hge : gExp g < 128 := by unfold gExp; omega
  have hgs : gSign g < 2 := by unfold gSign; omega
  have hb : bitLen (gMant g) = 53 + k := by
    have := bitLen_eq h1 (by rw [show 52 + k + 1 = 53 + k by omega]; exact h2); omega
  have hq := rne_nearest (gMant g) k
  have hqlo : 2 ^ 52 ≤ q ∧ q ≤ 2 ^ 53 := by
    have : k = 0 ∨ k = 1 ∨ k = 2 ∨ k = 3 := by omega
    rcases this with e | e | e | e <;> subst e <;> omega
  unfold decodeBits
  simp only [hne, if_false]
  unfold u64ToF64Bits
  simp only [hne, if_false, hb]
  by_cases h0 : k = 0
  · subst h0
    have hq0 : q = gMant g := by simp [q, rne]
    simp only [Nat.add_zero, Nat.le_refl, if_true, Nat.sub_self, Nat.pow_zero, Nat.mul_one]
    have hfr : gMant g - 2 ^ 52 < 2 ^ 52 := by omega
    obtain ⟨fe, ff⟩ := f64_mk_fields0 (53 - 1 + 1023) (gMant g - 2 ^ 52) (by omega) hfr
    rw [fe, ff]
    have hb2 : 53 - 1 + 1023 + 4 * gExp g - 312 < 2048 := be_bound2 _ hge
    obtain ⟨xs, xe, xf⟩ := f64_mk_fields (gSign g) (53 - 1 + 1023 + 4 * gExp g - 312) (gMant g - 2 ^ 52)
      hgs hb2 hfr
    refine ⟨xs, Or.inl ⟨by omega, ?_, ?_⟩⟩
    · unfold f64Mant; rw [xf, hq0]; omega
    · rw [xe]; omega
  · have hgt : ¬ (53 + k ≤ 53) := by omega
    simp only [hgt, if_false, show 53 + k - 53 = k by omega]
    by_cases hc : q = 2 ^ 53
    · have hc' : rne (gMant g) k = 2 ^ 53 := hc
      simp only [hc', if_true]
      obtain ⟨fe, ff⟩ := f64_mk_fields0 (53 + k + 1023) 0 (by omega) (by omega)
      rw [Nat.add_zero] at fe ff
      rw [fe, ff]
      obtain ⟨xs, xe, xf⟩ := f64_mk_fields (gSign g) (53 + k + 1023 + 4 * gExp g - 312) 0
        hgs (by omega) (by omega)
      refine ⟨xs, Or.inr ⟨hc, ?_, ?_⟩⟩
      · unfold f64Mant; rw [xf]
      · rw [xe]; omega
    · have hc' : ¬ (rne (gMant g) k = 2 ^ 53) := hc
      simp only [hc', if_false]
      have hfr : rne (gMant g) k - 2 ^ 52 < 2 ^ 52 := by
        have : q = rne (gMant g) k := rfl
        omega
      obtain ⟨fe, ff⟩ := f64_mk_fields0 (53 + k - 1 + 1023) (rne (gMant g) k - 2 ^ 52) (by omega) hfr
      rw [fe, ff]
      have hb2 : 53 + k - 1 + 1023 + 4 * gExp g - 312 < 2048 := be_bound3 _ _ hk hge
      obtain ⟨xs, xe, xf⟩ := f64_mk_fields (gSign g) (53 + k - 1 + 1023 + 4 * gExp g - 312)
        (rne (gMant g) k - 2 ^ 52) hgs hb2 hfr
      refine ⟨xs, Or.inl ⟨by omega, ?_, ?_⟩⟩
      · unfold f64Mant; rw [xf]
        have : q = rne (gMant g) k := rfl
        omega
      · rw [xe]; omega

/-! ### non-vacuity: concrete witnesses for the hypotheses -/

-- 1.0 = 0x3ff0… is in range and encodes to 0x4110…; 16-ulp encodes exactly (the pre-repair failure)
example : InRange 0x3ff0000000000000 ∧ encodeBits 0x3ff0000000000000 = some 0x4110000000000000 := by
  refine ⟨Or.inr (by decide), by decide⟩
example : encodeBits 0x402fffffffffffff = some 0x41fffffffffffff8 ∧
    decodeBits 0x41fffffffffffff8 = 0x402fffffffffffff := by decide
example : ¬ InRange 0x7ff0000000000000 ∧ encodeBits 0x7ff0000000000000 = none := by
  refine ⟨by unfold InRange f64Exp f64Frac; decide, by decide⟩
-- 2^-312 is below 16^-65 but exact in denormalised form (mantissa 1, exponent field 0); 2^-313 is not
example : encodeBits 0x2c70000000000000 = some 1 ∧ decodeBits 1 = 0x2c70000000000000 ∧
    encodeBits 0x2c60000000000000 = none := by decide
-- a 56-bit mantissa that needs rounding (tie → even, with carry into the next binade)
example : decodeBits 0x40fffffffffffffc = 0x3ff0000000000000 := by decide

end L21.GdsFloat
