import L21.Model.RawGds
import L21.Props.C17
/-
C06 — Importing GDSII into the raw model preserves the flattened geometry (model-level theorems).
-/
namespace L21.RawGds
open L21.Geom L21.Gds

/-- an array reference expands to columns × rows placements -/
theorem c06_array_count (cname : Bytes) (p0 : Pt) (cols rows colx coly rowx rowy : Int) (refl : Bool) (angle : Option Nat) :
    (arrayInsts cname p0 cols rows colx coly rowx rowy refl angle).length = cols.toNat * rows.toNat := by
  unfold arrayInsts
  generalize cols.toNat = c
  induction c with
  | zero => simp
  | succ n ih =>
    rw [List.range_succ, List.flatMap_append, List.length_append, ih]
    simp [Nat.succ_mul]

/-- … one at every lattice point p0 + i·(column pitch) + j·(row pitch), each with the array's
    reflection and angle and the referenced cell -/
theorem c06_array_positions (cname : Bytes) (p0 : Pt) (cols rows colx coly rowx rowy : Int) (refl : Bool) (angle : Option Nat)
    (i j : Nat) (hi : i < cols.toNat) (hj : j < rows.toNat) :
    ∃ inst ∈ arrayInsts cname p0 cols rows colx coly rowx rowy refl angle,
      inst.loc = ⟨p0.x + (i : Int) * colx + (j : Int) * rowx, p0.y + (i : Int) * coly + (j : Int) * rowy⟩ ∧
      inst.cell = cname ∧ inst.refl = refl ∧ inst.angle = angle := by
  unfold arrayInsts
  refine ⟨⟨cname ++ [91] ++ (toString i).toUTF8.toList.map (·.toNat) ++ [93, 91] ++ (toString j).toUTF8.toList.map (·.toNat) ++ [93],
    cname, ⟨p0.x + (i : Int) * colx + (j : Int) * rowx, p0.y + (i : Int) * coly + (j : Int) * rowy⟩, refl, angle⟩, ?_, rfl, rfl, rfl, rfl⟩
  rw [List.mem_flatMap]
  refine ⟨i, List.mem_range.2 hi, ?_⟩
  rw [List.mem_map]
  exact ⟨j, List.mem_range.2 hj, rfl⟩

/-- and nothing else: every generated placement is one of those lattice points -/
theorem c06_array_only_lattice (cname : Bytes) (p0 : Pt) (cols rows colx coly rowx rowy : Int) (refl : Bool) (angle : Option Nat)
    (inst : Inst) (h : inst ∈ arrayInsts cname p0 cols rows colx coly rowx rowy refl angle) :
    ∃ i j : Nat, i < cols.toNat ∧ j < rows.toNat ∧
      inst.loc = ⟨p0.x + (i : Int) * colx + (j : Int) * rowx, p0.y + (i : Int) * coly + (j : Int) * rowy⟩ := by
  unfold arrayInsts at h
  rw [List.mem_flatMap] at h
  obtain ⟨i, hi, h2⟩ := h
  rw [List.mem_map] at h2
  obtain ⟨j, hj, rfl⟩ := h2
  exact ⟨i, j, List.mem_range.1 hi, List.mem_range.1 hj, rfl⟩

/-- rectangles given counter-clockwise or clockwise are recognised as rectangles -/
theorem c06_rect_ccw (x0 y0 x1 y1 : Int) :
    boundaryShape [⟨x0, y0⟩, ⟨x1, y0⟩, ⟨x1, y1⟩, ⟨x0, y1⟩] = .rect ⟨x0, y0⟩ ⟨x1, y1⟩ := by
  simp [boundaryShape]
theorem c06_rect_cw (x0 y0 x1 y1 : Int) :
    boundaryShape [⟨x0, y0⟩, ⟨x0, y1⟩, ⟨x1, y1⟩, ⟨x1, y0⟩] = .rect ⟨x0, y0⟩ ⟨x1, y1⟩ := by
  simp [boundaryShape]

/-- malformed elements are errors: empty coordinate list, zero / negative rows or columns,
    references to undefined structures, absolute magnification / angle flags -/
theorem c06_empty_xy (known : List Bytes) (acc : Pass1) (layer dt : Int) (c : Common) :
    importElem known acc (.boundary layer dt [] c) = .err := by
  simp [importElem, pairUp]

theorem c06_zero_array (known : List Bytes) (acc : Pass1) (name : Bytes) (xy : List Int) (cols rows : Int)
    (st : Option Strans) (c : Common) (h : cols ≤ 0 ∨ rows ≤ 0) :
    importElem known acc (.aref name xy cols rows st c) = .err := by
  simp only [importElem]
  split
  · rfl
  · split
    · simp [h]
    · rfl

theorem c06_dangling_sref (known : List Bytes) (acc : Pass1) (name : Bytes) (xy : List Int) (st : Option Strans) (c : Common)
    (h : known.contains name = false) : importElem known acc (.sref name xy st c) = .err := by
  have hn : ¬ name ∈ known := by
    intro hm; have := List.contains_iff_mem.2 hm; rw [h] at this; exact absurd this (by simp)
  simp [importElem, hn]

theorem c06_abs_flags (s : Strans) (array : Bool) (h : s.absMag = true ∨ s.absAngle = true) :
    importStrans (some s) array = .err := by
  rcases h with h | h <;> simp [importStrans, h]

/-- a path without width, or with a negative one, is an error -/
theorem c06_path_width (known : List Bytes) (acc : Pass1) (layer dt : Int) (xy : List Int) (pt be ee : Option Int) (c : Common)
    (w : Option Int) (h : w = none ∨ ∃ v, w = some v ∧ v < 0) :
    importElem known acc (.path layer dt xy w pt be ee c) = .err := by
  rcases h with rfl | ⟨v, rfl, hv⟩
  · simp [importElem]
  · simp [importElem, hv]

/-! non-vacuity -/
example : (arrayInsts [115] ⟨0, 0⟩ 2 3 10 0 0 5 false none).map (·.loc) =
    [⟨0,0⟩, ⟨0,5⟩, ⟨0,10⟩, ⟨10,0⟩, ⟨10,5⟩, ⟨10,10⟩] := by decide

end L21.RawGds
