import L21.Model.LefRaw
/-
C16 — Importing LEF into the raw model keeps every coordinate in place.
-/
namespace L21.LefRaw
open L21.Geom

theorem pow10_pos (s : Nat) : (0 : Int) < (10 : Int) ^ s := Int.pow_pos (by omega)

/-- A coordinate is imported iff it is a whole number of raw units, and then it is exactly
    value × 10 000:  n · 10^scale = mant · 10 000. -/
theorem c16_exact (d : Dec) (n : Int) :
    importDist d = .ok n ↔ n * (10 : Int) ^ d.scale = d.mant * unitsPerMicron := by
  unfold importDist
  have hp := pow10_pos d.scale
  constructor
  · intro h
    by_cases hd : d.mant * unitsPerMicron % (10 : Int) ^ d.scale = 0
    · simp [hd] at h; subst h
      exact Int.ediv_mul_cancel (Int.dvd_of_emod_eq_zero hd)
    · simp [hd] at h
  · intro h
    have hd : d.mant * unitsPerMicron % (10 : Int) ^ d.scale = 0 := by
      rw [← h]; exact Int.mul_emod_left _ _
    simp [hd]
    rw [← h]; exact Int.mul_ediv_cancel _ (by omega)

/-- … and a coordinate that is not a whole number of raw units is an error, never rounded. -/
theorem c16_not_rounded (d : Dec) :
    importDist d = .err ↔ ¬ ((10 : Int) ^ d.scale ∣ d.mant * unitsPerMicron) := by
  unfold importDist
  constructor
  · intro h hdvd
    have := Int.emod_eq_zero_of_dvd hdvd
    simp [this] at h
  · intro h
    have : ¬ (d.mant * unitsPerMicron % (10 : Int) ^ d.scale = 0) := fun e => h (Int.dvd_of_emod_eq_zero e)
    simp [this]

/-- The result does not depend on how many decimal digits the number was written with:
    two decimals with the same value (1.5 = 1.50 = 1.500…) import identically. -/
theorem c16_scale_invariant (d d' : Dec) (h : d.mant * (10 : Int) ^ d'.scale = d'.mant * (10 : Int) ^ d.scale) :
    importDist d = importDist d' := by
  have hp := pow10_pos d.scale
  have hp' := pow10_pos d'.scale
  cases hr : importDist d with
  | ok n =>
    have hn := (c16_exact d n).1 hr
    symm
    rw [c16_exact]
    -- n * 10^s' = m' * U  from  n*10^s = m*U and m*10^s' = m'*10^s
    have : (n * (10 : Int) ^ d'.scale) * (10 : Int) ^ d.scale = (d'.mant * unitsPerMicron) * (10 : Int) ^ d.scale := by
      calc (n * (10 : Int) ^ d'.scale) * (10 : Int) ^ d.scale
          = (n * (10 : Int) ^ d.scale) * (10 : Int) ^ d'.scale := by rw [Int.mul_assoc, Int.mul_comm ((10:Int) ^ d'.scale), ← Int.mul_assoc]
        _ = (d.mant * unitsPerMicron) * (10 : Int) ^ d'.scale := by rw [hn]
        _ = (d.mant * (10 : Int) ^ d'.scale) * unitsPerMicron := by rw [Int.mul_assoc, Int.mul_comm unitsPerMicron, ← Int.mul_assoc]
        _ = (d'.mant * (10 : Int) ^ d.scale) * unitsPerMicron := by rw [h]
        _ = (d'.mant * unitsPerMicron) * (10 : Int) ^ d.scale := by rw [Int.mul_assoc, Int.mul_comm ((10:Int) ^ d.scale), ← Int.mul_assoc]
    exact Int.eq_of_mul_eq_mul_right (by omega) this
  | err =>
    symm
    rw [c16_not_rounded] at hr ⊢
    intro hdvd
    apply hr
    obtain ⟨q, hq⟩ := hdvd
    refine ⟨q, ?_⟩
    have : (d.mant * unitsPerMicron) * (10 : Int) ^ d'.scale = ((10 : Int) ^ d.scale * q) * (10 : Int) ^ d'.scale := by
      calc (d.mant * unitsPerMicron) * (10 : Int) ^ d'.scale
          = (d.mant * (10 : Int) ^ d'.scale) * unitsPerMicron := by rw [Int.mul_assoc, Int.mul_comm unitsPerMicron, ← Int.mul_assoc]
        _ = (d'.mant * (10 : Int) ^ d.scale) * unitsPerMicron := by rw [h]
        _ = (d'.mant * unitsPerMicron) * (10 : Int) ^ d.scale := by rw [Int.mul_assoc, Int.mul_comm ((10:Int) ^ d.scale), ← Int.mul_assoc]
        _ = ((10 : Int) ^ d'.scale * q) * (10 : Int) ^ d.scale := by rw [hq]
        _ = ((10 : Int) ^ d.scale * q) * (10 : Int) ^ d'.scale := by
            rw [Int.mul_comm ((10:Int) ^ d'.scale) q, Int.mul_assoc, Int.mul_comm ((10:Int) ^ d'.scale), ← Int.mul_assoc, Int.mul_comm q]
    exact Int.eq_of_mul_eq_mul_right (by omega) this

/-- x and y are kept distinct: each coordinate of an imported point comes from its own LEF number -/
theorem c16_point_xy (p : LPt) (q : Pt) (h : importPoint p = .ok q) :
    importDist p.x = .ok q.x ∧ importDist p.y = .ok q.y := by
  unfold importPoint at h
  cases hx : importDist p.x <;> cases hy : importDist p.y <;> simp [hx, hy] at h
  subst h; exact ⟨rfl, rfl⟩

/-- the outline of an imported macro is its SIZE rectangle at the origin -/
theorem c16_outline (m : Macro) (a : Abstract) (h : importMacro m = .ok a) :
    ∃ sx sy X Y, m.size = some (sx, sy) ∧ importDist sx = .ok X ∧ importDist sy = .ok Y ∧
      a.name = m.name ∧ a.outline = [⟨0, 0⟩, ⟨X, 0⟩, ⟨X, Y⟩, ⟨0, Y⟩] := by
  unfold importMacro at h
  cases hs : m.size with
  | none => simp [hs] at h
  | some sz =>
    obtain ⟨sx, sy⟩ := sz
    simp only [hs] at h
    cases hp : importPoint ⟨sx, sy⟩ with
    | err => simp [hp] at h
    | ok q =>
      obtain ⟨hx, hy⟩ := c16_point_xy ⟨sx, sy⟩ q hp
      simp only [hp] at h
      cases h1 : importPins m.pins with
      | err => simp [h1] at h
      | ok ports =>
        cases h2 : importLayerList [] m.obs with
        | err => simp [h1, h2] at h
        | ok blk =>
          simp [h1, h2] at h; subst h
          exact ⟨sx, sy, q.x, q.y, rfl, hx, hy, rfl, rfl⟩

/-- one shape per LEF rectangle, polygon and path, in the same order, on the layer named in the LEF -/
theorem importGeoms_length (lg : LayerGeoms) : ∀ (gs : List LGeom) (ss : List Shape),
    importGeoms lg gs = .ok ss → ss.length = gs.length := by
  intro gs
  induction gs with
  | nil => intro ss h; simp [importGeoms] at h; subst h; rfl
  | cons g rest ih =>
    intro ss h
    simp only [importGeoms] at h
    cases h1 : importGeom lg g <;> cases h2 : importGeoms lg rest <;> simp [h1, h2] at h
    subst h; simp [ih _ h2]

theorem c16_one_shape_per_geometry (lg : LayerGeoms) (l : List Nat) (ss : List Shape)
    (h : importLayerGeoms lg = .ok (l, ss)) : l = lg.layer ∧ ss.length = lg.geoms.length := by
  unfold importLayerGeoms at h
  by_cases h1 : lg.exceptPgNet = true
  · simp [h1] at h
  · simp only [h1, Bool.false_eq_true, if_false] at h
    cases hsp : lg.spacing with
    | none =>
      simp only [hsp, Bool.not_true, Bool.false_eq_true, if_false] at h
      cases h2 : importGeoms lg lg.geoms with
      | err => simp [h2] at h
      | ok ss' =>
        simp [h2] at h
        obtain ⟨rfl, rfl⟩ := h
        exact ⟨rfl, importGeoms_length lg _ _ h2⟩
    | spacing d =>
      simp only [hsp] at h
      by_cases hz : (d.mant == 0) = true
      · simp only [hz, Bool.not_true, Bool.false_eq_true, if_false] at h
        cases h2 : importGeoms lg lg.geoms with
        | err => simp [h2] at h
        | ok ss' =>
          simp [h2] at h
          obtain ⟨rfl, rfl⟩ := h
          exact ⟨rfl, importGeoms_length lg _ _ h2⟩
      · simp [hz] at h
    | designRuleWidth d =>
      simp [hsp] at h

/-- every coordinate of a rectangle is the LEF value × 10 000 (same for polygon / path vertices) -/
theorem c16_rect_coords (lg : LayerGeoms) (p0 p1 : LPt) (s : Shape) (h : importGeom lg (.rect p0 p1) = .ok s) :
    ∃ a b, s = .rect a b ∧ importDist p0.x = .ok a.x ∧ importDist p0.y = .ok a.y ∧
      importDist p1.x = .ok b.x ∧ importDist p1.y = .ok b.y := by
  simp only [importGeom] at h
  cases h0 : importPoint p0 <;> cases h1 : importPoint p1 <;> simp [h0, h1] at h
  rename_i a b
  obtain ⟨ax, ay⟩ := c16_point_xy p0 a h0
  obtain ⟨bx, by'⟩ := c16_point_xy p1 b h1
  exact ⟨a, b, h.symm, ax, ay, bx, by'⟩

/-! non-vacuity -/
-- 1.5 µm = 15000 units whatever the spelling; 1.23456 µm is not a whole number of units
example : importDist ⟨15, 1⟩ = .ok 15000 ∧ importDist ⟨150, 2⟩ = .ok 15000 ∧ importDist ⟨1500000, 6⟩ = .ok 15000 := by decide
example : importDist ⟨123456, 5⟩ = .err ∧ importDist ⟨-25, 2⟩ = .ok (-2500) := by decide
example : importPoint ⟨⟨1, 0⟩, ⟨25, 1⟩⟩ = .ok ⟨10000, 25000⟩ := by decide

/-- the shapes recorded for a layer name -/
def shapesFor (m : List (List Nat × List Shape)) (L : List Nat) : List Shape :=
  match m.find? (fun e => e.1 == L) with
  | some e => e.2
  | none => []

theorem shapesFor_addShapes (m : List (List Nat × List Shape)) (layer L : List Nat) (ss : List Shape) :
    shapesFor (addShapes m layer ss) L = shapesFor m L ++ (if layer = L then ss else []) := by
  induction m with
  | nil =>
    by_cases h : layer = L
    · simp [addShapes, shapesFor, h]
    · have : (layer == L) = false := by simpa using h
      simp [addShapes, shapesFor, h, this]
  | cons e rest ih =>
    obtain ⟨l, old⟩ := e
    simp only [addShapes]
    by_cases hl : l = layer
    · subst hl
      simp only [if_true]
      by_cases h : l = L
      · subst h; simp [shapesFor]
      · have : (l == L) = false := by simpa using h
        simp [shapesFor, this, h]
    · simp only [hl, if_false]
      by_cases h : l = L
      · subst h
        have : ¬ layer = l := fun e => hl e.symm
        simp [shapesFor, this]
      · have hb : (l == L) = false := by simpa using h
        simp only [shapesFor, List.find?_cons, hb] at ih ⊢
        exact ih

/-- the shapes of the blocks named `L`, in block order -/
def blocksFor (L : List Nat) : List (List Nat × List Shape) → List Shape
  | [] => []
  | (l, ss) :: rest => (if l = L then ss else []) ++ blocksFor L rest

/-- **several LAYER blocks with the same name inside one pin / OBS**: the shapes recorded for a layer
    name are exactly the shapes of all its blocks, in block order — nothing dropped, nothing moved to
    another layer -/
theorem c16_layer_blocks : ∀ (lgs : List LayerGeoms) (m0 m : List (List Nat × List Shape)),
    importLayerList m0 lgs = .ok m →
    ∃ blocks : List (List Nat × List Shape), lgs.map importLayerGeoms = blocks.map .ok ∧
      ∀ L, shapesFor m L = shapesFor m0 L ++ blocksFor L blocks := by
  intro lgs
  induction lgs with
  | nil => intro m0 m h; simp only [importLayerList, Out.ok.injEq] at h; subst h; exact ⟨[], rfl, by intro L; simp [blocksFor]⟩
  | cons lg rest ih =>
    intro m0 m h
    simp only [importLayerList] at h
    cases hb : importLayerGeoms lg with
    | err => simp [hb] at h
    | ok b =>
      obtain ⟨l, ss⟩ := b
      simp only [hb] at h
      obtain ⟨blocks, h1, h2⟩ := ih _ _ h
      refine ⟨(l, ss) :: blocks, by simp [hb, h1], ?_⟩
      intro L
      rw [h2 L, shapesFor_addShapes]
      simp [blocksFor, List.append_assoc]


example : importLayerList [] [⟨[77, 49], none, false, .none, [.rect ⟨⟨0, 0⟩, ⟨0, 0⟩⟩ ⟨⟨1, 0⟩, ⟨1, 0⟩⟩]⟩, ⟨[77, 50], none, false, .none, []⟩,
      ⟨[77, 49], none, false, .none, [.rect ⟨⟨2, 0⟩, ⟨2, 0⟩⟩ ⟨⟨3, 0⟩, ⟨3, 0⟩⟩]⟩] =
    .ok [([77, 49], [.rect ⟨0, 0⟩ ⟨10000, 10000⟩, .rect ⟨20000, 20000⟩ ⟨30000, 30000⟩]), ([77, 50], [])] := by decide

end L21.LefRaw
