import L21.Gen.SerdeFields
/-
C18 — JSON and YAML copies of GDSII and LEF libraries are lossless (derive layer).

The field tables are REGENERATED from gds21/src/data.rs and lef21/src/data.rs on every run.
-/
namespace L21.Serde

/-- A field with a consistent (type, default, skip) triple round-trips for EVERY value:
    what is skipped comes back as the default and equals it, what is written is read back. -/
theorem c18_field_roundtrip (ty : Ty) (hasDefault : Bool) (skip : Skip) (v : Val)
    (hc : consistent ty hasDefault skip = true) (hv : wellTyped ty v = true) :
    de ty hasDefault (ser ty skip v) = some v := by
  cases ty <;> cases skip <;> cases hasDefault <;> simp [consistent] at hc <;>
    cases v <;> simp [wellTyped] at hv <;>
    simp [ser, skipped, de, toTree, fromTree, defaultOf] <;>
    (try (rename_i innerUnit _; cases innerUnit <;> simp_all [toTree, fromTree])) <;>
    (try (rename_i l; cases l <;> simp [skipped, toTree, fromTree])) <;>
    (try (rename_i b; cases b <;> simp [skipped, toTree, fromTree]))

/-- The two inconsistent shapes that occur in the LEF data model really lose a value:
    a `bool` that is never written comes back `false`, and `Some(unit-like)` comes back `None`
    whatever the attributes. -/
theorem c18_bool_skip_always_loses (hasDefault : Bool) :
    de .bool hasDefault (ser .bool .always (.bool true)) ≠ some (.bool true) := by
  cases hasDefault <;> simp [ser, skipped, de, defaultOf]

theorem c18_option_unit_loses (hasDefault : Bool) (skip : Skip) :
    de (.opt true) hasDefault (ser (.opt true) skip (.some 0)) ≠ some (.some 0) := by
  cases hasDefault <;> cases skip <;> simp [ser, skipped, de, toTree, fromTree, defaultOf]

def rowOk (r : String × String × Ty × Bool × Skip) : Bool := consistent r.2.2.1 r.2.2.2.1 r.2.2.2.2

/-- every field of the GDSII data model is consistent -/
theorem c18_gds_schema : Gen.gdsSerdeFields.all rowOk = true := by decide

/-- Fields of the LEF data model that are NOT consistent on the present source — the known
    findings of C18 (`fixed_mask: bool` written never and read as false; `Option<Unsupported>`,
    whose `Some(Unsupported)` is indistinguishable from `None`).  Pinned by name: any other
    inconsistent field breaks `c18_lef_schema_partial`. -/
def lefKnownLossy : List (String × String) := [
  ("LefLibrary", "fixed_mask"), ("LefLibrary", "layers"), ("LefLibrary", "max_via_stack"),
  ("LefLibrary", "via_rules"), ("LefLibrary", "via_rule_generators"), ("LefLibrary", "non_default_rules"),
  ("LefMacro", "fixed_mask"), ("LefViaDef", "properties"), ("LefGeneratedViaDef", "pattern"), ("LefSite", "row_pattern")]

theorem c18_lef_schema_partial :
    (Gen.lefSerdeFields.filter (fun r => !lefKnownLossy.contains (r.1, r.2.1))).all rowOk = true := by decide

/-- the pinned fields really are lossy (so the list above is not a blanket excuse) -/
theorem c18_lef_known_lossy :
    (Gen.lefSerdeFields.filter (fun r => lefKnownLossy.contains (r.1, r.2.1))).all (fun r => !rowOk r) = true ∧
    (Gen.lefSerdeFields.filter (fun r => lefKnownLossy.contains (r.1, r.2.1))).length = lefKnownLossy.length := by decide

/-! non-vacuity -/
example : de .bool true (ser .bool .always (.bool true)) = some (.bool false) := by decide   -- the fixed_mask loss
example : de (.opt false) true (ser (.opt false) .ifNone (.some 5)) = some (.some 5) := by decide

end L21.Serde
