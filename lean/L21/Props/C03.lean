import L21.Props.C10
/-
C03 — Every grammar-conformant GDSII stream is read to exactly the content it encodes
(model-level theorems; the reference encoder written from the grammar lives in the harness,
`harness/src/props/gds.rs::ref_encode`, and drives model and code with the same bytes).
-/
namespace L21.Gds
open L21

theorem readRecord_append (bs rest t : Bytes) (r : Rec) (h : readRecord bs = .ok (r, rest)) :
    readRecord (bs ++ t) = .ok (r, rest ++ t) := by
  unfold readRecord at h ⊢
  match bs, h with
  | l0 :: l1 :: rt :: dt :: rest3, h =>
    simp only [List.cons_append] at h ⊢
    split at h
    · simp at h
    · rename_i h1
      split at h
      · simp at h
      · rename_i h2
        split at h
        · simp at h
        · rename_i h3
          split at h
          · simp at h
          · rename_i h4
            split at h
            · simp at h
            · rename_i h5
              split at h
              · simp at h
              · rename_i row hrow
                split at h
                · simp at h
                · rename_i h6
                  simp only [h1, h2, h3, h4, h5, hrow, if_false]
                  have hlen : ¬ ((rest3 ++ t).length < l0 * 256 + l1 - 4) := by
                    simp only [List.length_append]; omega
                  simp only [hlen, if_false]
                  have hle : l0 * 256 + l1 - 4 ≤ rest3.length := by omega
                  rw [List.take_append_of_le_length hle, List.drop_append_of_le_length hle]
                  split at h
                  · rename_i pl hpl
                    simp at h
                    obtain ⟨rfl, rfl⟩ := h
                    simp [hpl]
                  · simp at h
  | [_, _, _], h => simp at h
  | [_, _], h => simp at h
  | [_], h => simp at h
  | [], h => simp at h

theorem tokenize_append : ∀ (fuel : Nat) (bs t : Bytes) (recs : List Rec), tokenize fuel bs = .ok recs →
    tokenize fuel (bs ++ t) = .ok recs := by
  intro fuel
  induction fuel with
  | zero => intro bs t recs h; simp [tokenize] at h
  | succ f ih =>
    intro bs t recs h
    rw [tokenize] at h ⊢
    cases hr : readRecord bs with
    | err => simp [hr] at h
    | ok p =>
      obtain ⟨r, rest⟩ := p
      rw [readRecord_append bs rest t r hr]
      simp only [hr] at h ⊢
      by_cases he : r.rt = rEndLib
      · simpa [he] using h
      · simp only [he, if_false] at h ⊢
        cases ht : tokenize f rest with
        | err => simp [ht] at h
        | ok rs =>
          simp [ht] at h; subst h
          rw [ih rest t rs ht]

theorem tokenize_fuel_ge (bs : Bytes) : ∀ (k : Nat), tokenize (bs.length / 4 + 1 + k) bs = tokenize (bs.length / 4 + 1) bs := by
  intro k
  induction k with
  | zero => rfl
  | succ k ih =>
    rw [← ih, ← Nat.add_assoc]
    exact tokenize_fuel_mono _ bs (by omega)

theorem tokenize_ok_fuel_mono : ∀ (fuel : Nat) (bs : Bytes) (recs : List Rec), tokenize fuel bs = .ok recs →
    ∀ k, tokenize (fuel + k) bs = .ok recs := by
  intro fuel
  induction fuel with
  | zero => intro bs recs h; simp [tokenize] at h
  | succ f ih =>
    intro bs recs h k
    rw [show f + 1 + k = (f + k) + 1 by omega, tokenize]
    rw [tokenize] at h
    cases hr : readRecord bs with
    | err => simp [hr] at h
    | ok p =>
      obtain ⟨r, rest⟩ := p
      simp only [hr] at h ⊢
      by_cases he : r.rt = rEndLib
      · simpa [he] using h
      · simp only [he, if_false] at h ⊢
        cases ht : tokenize f rest with
        | err => simp [ht] at h
        | ok rs =>
          simp [ht] at h; subst h
          rw [ih rest rs ht k]

/-- Arbitrary bytes after the end-of-library record (tape-block padding of any length and
    content) do not change what is read. -/
theorem c03_trailing (bs t : Bytes) (l : Library) (h : dec bs = .ok l) : dec (bs ++ t) = .ok l := by
  unfold dec at h ⊢
  cases ht : tokenize (bs.length / 4 + 1) bs with
  | err => simp [ht] at h
  | ok recs =>
    simp only [ht] at h
    have h1 := tokenize_append _ bs t recs ht
    have hk : (bs ++ t).length / 4 + 1 = bs.length / 4 + 1 + ((bs ++ t).length / 4 - bs.length / 4) := by
      have : bs.length / 4 ≤ (bs ++ t).length / 4 := Nat.div_le_div_right (by simp)
      omega
    rw [hk, tokenize_ok_fuel_mono _ _ recs h1]
    exact h

/-- Library-level features documented as unsupported (LIBDIRSIZE, SRFNAME, LIBSECUR, REFLIBS,
    FONTS, ATTRTABLE, GENERATIONS, FORMAT) are reported as errors, never misread. -/
theorem c03_unsupported (rt : Nat) (hrt : rt ∈ [57, 58, 59, 31, 32, 35, 34, 54]) (pl : Payload)
    (v : Int) (d : List Int) (fuel : Nat) (lb : LB) (rest : List Rec) :
    parseLibBody v d fuel lb (⟨rt, pl⟩ :: rest) = .err := by
  cases fuel with
  | zero => simp [parseLibBody]
  | succ f =>
    simp only [List.mem_cons, List.mem_nil_iff, or_false] at hrt
    rcases hrt with rfl | rfl | rfl | rfl | rfl | rfl | rfl | rfl <;> simp [parseLibBody]

end L21.Gds
