import L21.Proofs.Gds
import L21.Props.C15
import L21.Proofs.GdsTree
import L21.Proofs.GdsBytes
/-
C01 — GDSII write-then-read returns the library that was written.

Stage A: the table-level and record-level facts the round trip rests on; the tree-level statement
`c01_roundtrip_statement` is kept visible below and is NOT yet proved (the run checks it by
correspondence and by the oracle on every generated library).
-/
namespace L21.Gds
open L21

/-- The reader accepts every (record type, data type, payload length) the writer can emit, and
    decodes it with the same payload layout: for each row of the regenerated write table there is
    a row of the regenerated read table with the same record type, data type and layout whose
    length requirement is the writer's fixed length (or no requirement for strings / XY). -/
def writerRowAccepted (w : Nat × Nat × LenSpec × PK) : Bool :=
  Gen.gdsReadTable.any (fun r => r.1 == w.1 && r.2.1 == w.2.1 && r.2.2.2 == w.2.2.2 &&
    (match w.2.2.1, r.2.2.1 with
     | .fixed n, some k => n == k
     | .strlen, none => true
     | .xy, none => true
     | _, _ => false))

theorem c01_reader_accepts_writer_rows : Gen.gdsWriteTable.all writerRowAccepted = true := by decide

/-- the first matching read row for a written (rt, dt) is THE row for that record type: record types
    are not ambiguous in the read table -/
theorem c01_read_table_unambiguous :
    Gen.gdsReadTable.all (fun r => (Gen.gdsReadTable.filter (fun s => s.1 == r.1)).length == 1) = true := by decide

/-- which strings survive NUL padding: odd length, empty, or not ending in NUL -/
def RoundTrippable (s : Bytes) : Prop := s.length % 2 = 1 ∨ s = [] ∨ s.getLast? ≠ some 0

/-- the writer refuses exactly the strings that would not survive -/
theorem c01_string_written_iff (s : Bytes) :
    (∃ body, payloadBytes .str (.str s) = some body) ↔ RoundTrippable s := by
  unfold RoundTrippable
  simp only [payloadBytes]
  constructor
  · rintro ⟨body, h⟩
    by_cases hc : s.length % 2 = 0 ∧ s.getLast? = some 0
    · simp [hc] at h
    · by_cases h1 : s.length % 2 = 1
      · exact Or.inl h1
      · right; right; intro h2; exact hc ⟨by omega, h2⟩
  · intro h
    have hc : ¬ (s.length % 2 = 0 ∧ s.getLast? = some 0) := by
      rintro ⟨h1, h2⟩
      rcases h with h | h | h
      · omega
      · subst h; simp at h2
      · exact h h2
    simp [hc]

/-- string payload round trip: pad, then strip, gives the string back -/
theorem c01_string_roundtrip (s body : Bytes) (hu : validUtf8 s = true)
    (h : payloadBytes .str (.str s) = some body) : readStr body = .ok s := by
  simp only [payloadBytes] at h
  by_cases hc : s.length % 2 = 0 ∧ s.getLast? = some 0
  · simp [hc] at h
  · simp only [hc, if_false] at h
    cases h
    unfold readStr
    by_cases h1 : s.length % 2 = 1
    · simp [h1, hu]
    · have h0 : s.length % 2 = 0 := by omega
      have hl : s.getLast? ≠ some 0 := fun h2 => hc ⟨h0, h2⟩
      simp [h1, hl, hu]

/-- a record whose payload does not fit the 16-bit length field is an error, never a corrupt stream -/
theorem c01_record_too_long (r : Rec) (dt : Nat) (ls : LenSpec) (pk : PK) (h : lookupWrite r.rt = some (dt, ls, pk))
    (hlen : 65535 < payloadLen ls r.pl + 4) : encRecord r = .err := by
  unfold encRecord
  simp only [h]
  by_cases hf : payloadFits pk r.pl = true
  · simp [hf, hlen]
  · simp [hf]

/-- "either fails with an error or …": the writer has no third outcome -/
theorem c01_total (l : Library) : (∃ bs, enc l = .ok bs) ∨ enc l = .err := by
  cases h : enc l with
  | ok bs => exact Or.inl ⟨bs, rfl⟩
  | err => exact Or.inr rfl

/-- the reals of a library: units, magnifications, angles -/
def stransReals : Option Strans → List Nat
  | none => []
  | some s => s.mag.toList ++ s.angle.toList
def elemReals : Elem → List Nat
  | .sref _ _ st _ => stransReals st
  | .aref _ _ _ _ st _ => stransReals st
  | .text _ _ _ _ _ _ _ st _ => stransReals st
  | _ => []
def libReals (l : Library) : List Nat :=
  [l.units.1, l.units.2] ++ l.structs.flatMap (fun s => s.elems.flatMap elemReals)

/-- The full property at tree level (stated, not yet proved — see DESIGN §6 C01):
    a successful write reads back to an equal library, reals compared as doubles (−0.0 = +0.0). -/
def c01_roundtrip_statement : Prop :=
  ∀ (l : Library) (bs : Bytes), enc l = .ok bs → (∀ x ∈ libReals l, GdsFloat.InRange x) →
    ∃ l', dec bs = .ok l' ∧ libRecs l' = (libRecs l).map (fun r =>
      match r.pl with
      | .reals xs => ⟨r.rt, .reals (xs.map GdsFloat.canonZero)⟩
      | _ => r)

/-- TREE LEVEL, PROVED: the reader's record-level state machine (`GdsParser::parse_lib` …
    `parse_boundary`, `parse_strans`, properties, optional records in any combination) applied to the
    record sequence the writer emits (`encode_lib` … `encode_strans`) returns the library that was
    written — for every library whose coordinate lists have the shape their element kind demands
    (boundary/path/node: pairs; sref/text: one point; aref: three; box: five). -/
theorem c01_tree_roundtrip (l : Library) (h : libOk l = true) : parseLib (libRecs l) = .ok l :=
  parseLib_libRecs l h

def demoLib : Library :=
  ⟨[108], 3, [1, 2, 3, 4, 5, 6, 7, 8, 9, 10, 11, 12], (0x3F50624DD2F1A9FC, 0x3E112E0BE826D695),
    [⟨[97], [0, 0, 0, 0, 0, 0, 0, 0, 0, 0, 0, 0],
      [.boundary 1 2 [0, 0, 5, 0, 5, 5, 0, 0] ⟨some (0, 1), some 7, [⟨1, [120]⟩, ⟨2, []⟩]⟩,
       .path 3 4 [0, 0, 9, 0] (some 2) none (some (-1)) none ⟨none, none, []⟩,
       .sref [98] [1, 2] (some ⟨true, false, true, some 0x4000000000000000, none⟩) ⟨none, none, []⟩,
       .aref [98] [0, 0, 10, 0, 0, 20] 2 3 none ⟨none, some 1, []⟩,
       .text [104, 105] 5 6 [3, 4] (some (0, 5)) none (some 4) (some ⟨false, true, false, none, some 0x4056800000000000⟩) ⟨none, none, [⟨9, [1]⟩]⟩,
       .node 1 1 [0, 0] ⟨none, none, []⟩,
       .box 1 1 [0, 0, 1, 0, 1, 1, 0, 1, 0, 0] ⟨none, none, []⟩]⟩,
     ⟨[98], [0, 0, 0, 0, 0, 0, 0, 0, 0, 0, 0, 0], []⟩]⟩
example : libOk demoLib = true := by decide
example : parseLib (libRecs demoLib) = .ok demoLib := by decide +kernel

/-- THE PROPERTY, BYTE LEVEL, PROVED: for every library, if writing succeeds then reading the bytes
    returns the library that was written — every struct, element, optional record, property, string
    and number — with reals compared as doubles (−0.0 is read as +0.0; both are the all-zero real).
    Hypotheses: coordinate lists have the shape their element kind demands (`libOk`), and every
    field value is in the range of its Rust type: i16 / i32 integers, flag bytes, valid UTF-8 strings,
    doubles inside the GDSII range 16^-65 ≤ |x| < 16^63 or zero (`recOkB`, a decidable check).
    Whether writing succeeds at all is `c01_total`, `c01_string_written_iff`, `c01_record_too_long`
    and C15's range theorems. -/
theorem c01_roundtrip (l : Library) (bs : Bytes) (h : enc l = .ok bs) (hshape : libOk l = true)
    (hrange : (libRecs l).all recOkB = true) : dec bs = .ok (canonLib l) :=
  dec_enc l bs h hshape (fun r hr => recOk_of_B r (List.all_eq_true.1 hrange r hr))

example : (libRecs demoLib).all recOkB = true := by decide +kernel
example : ∃ bs, enc demoLib = .ok bs ∧ dec bs = .ok (canonLib demoLib) := by
  cases h : enc demoLib with
  | ok bs => exact ⟨bs, rfl, c01_roundtrip demoLib bs h (by decide) (by decide +kernel)⟩
  | err => exact absurd h (by decide +kernel)

end L21.Gds
