import L21.Proofs.RawProtoRT
import L21.Proofs.RawProtoBack
import L21.Props.C14Conv
/-
C14 — the message the exporter writes is in its own canonical form, hence a fixed point of
import-then-export (regroup idempotence at list level).
-/
namespace L21.RawProto
open L21.Geom

/-- the part of `groupCanon` that every group under construction has (non-emptiness aside) -/
def groupPre (g : LayerShapes) : Bool :=
  (match g.layer with | some (ln, pn) => inI16 ln && inI16 pn | none => false) &&
  g.rects.all rectCanon && g.paths.all pathOk

theorem addShape_canon (g : LayerShapes) (net : Bytes) (s : Shape) (h : groupPre g = true) :
    groupCanon (addShape g net s) = true := by
  simp only [groupPre, Bool.and_eq_true] at h
  obtain ⟨⟨h1, h2⟩, h3⟩ := h
  simp only [groupCanon, Bool.and_eq_true]
  cases s with
  | rect p0 p1 =>
    refine ⟨⟨⟨h1, ?_⟩, h3⟩, by simp [addShape]⟩
    simp only [addShape, exportRect, List.all_append, h2, List.all_cons, List.all_nil, rectCanon, Option.isSome_some,
      Bool.true_and, Bool.and_true, Bool.and_eq_true, decide_eq_true_eq]
    omega
  | polygon pts => exact ⟨⟨⟨h1, h2⟩, h3⟩, by simp [addShape]⟩
  | path pts w => exact ⟨⟨⟨h1, h2⟩, by simp [addShape, h3, pathOk]⟩, by simp [addShape]⟩

theorem groupCanon_pre (g : LayerShapes) (h : groupCanon g = true) : groupPre g = true := by
  simp only [groupCanon, Bool.and_eq_true] at h
  simp only [groupPre, Bool.and_eq_true]
  exact h.1

/-- **what the exporter's grouping builds is in the exporter's canonical form**: every group has an
    in-range key, is non-empty, holds canonical rectangles and paths, and no key occurs twice -/
theorem groupElems_canon : ∀ (es : List Elem) (acc : List LayerShapes),
    acc.all groupCanon = true → (acc.map (·.layer)).Nodup → es.all elemOkI = true →
    (groupElems es acc).all groupCanon = true ∧ ((groupElems es acc).map (·.layer)).Nodup := by
  intro es
  induction es with
  | nil => intro acc h1 h2 _; exact ⟨h1, h2⟩
  | cons e r ih =>
    intro acc h1 h2 he
    simp only [List.all_cons, Bool.and_eq_true] at he
    obtain ⟨he0, her⟩ := he
    simp only [groupElems]
    split
    · rename_i hany
      refine ih _ ?_ ?_ her
      · rw [List.all_eq_true] at h1 ⊢
        intro x hx
        simp only [List.mem_map] at hx
        obtain ⟨g, hg, rfl⟩ := hx
        split
        · exact addShape_canon g _ _ (groupCanon_pre g (h1 g hg))
        · exact h1 g hg
      · have : (acc.map (fun g => if g.layer == some (e.layer, e.purpose) then addShape g (netStr e.net) e.shape else g)).map (·.layer)
            = acc.map (·.layer) := by
          rw [List.map_map]; apply List.map_congr_left; intro g _
          simp only [Function.comp]; split
          · exact addShape_layer _ _ _
          · rfl
        rw [this]; exact h2
    · rename_i hany
      refine ih _ ?_ ?_ her
      · simp only [List.all_append, List.all_cons, List.all_nil, Bool.and_true, Bool.and_eq_true]
        refine ⟨h1, addShape_canon _ _ _ ?_⟩
        simp only [elemOkI, Bool.and_eq_true] at he0
        simp [groupPre, he0.1, he0.2]
      · simp only [List.map_append, List.map_cons, List.map_nil, addShape_layer]
        rw [List.nodup_append]
        refine ⟨h2, by simp, ?_⟩
        intro a ha b hb
        simp only [List.mem_singleton] at hb
        subst hb
        intro hab
        simp only [List.mem_map] at ha
        obtain ⟨g, hg, rfl⟩ := ha
        apply hany
        rw [List.any_eq_true]
        exact ⟨g, hg, by simp [hab]⟩

/-- **export ∘ import ∘ export = export** for the shapes of a layout: importing what the exporter
    grouped and grouping it again gives the very same groups, in the same order -/
theorem c14_regroup_idempotent (es : List Elem) (he : es.all elemOkI = true) :
    ∃ out, importElems (groupElems es []) = .ok out ∧ groupElems out [] = groupElems es [] := by
  obtain ⟨hc, hn⟩ := groupElems_canon es [] (by rfl) (by simp) he
  have hok : (groupElems es []).all groupOk = true := by
    rw [List.all_eq_true] at hc ⊢; intro g hg; exact groupCanon_ok g (hc g hg)
  refine ⟨F (groupElems es []), importElems_ok _ hok, ?_⟩
  have := regroup (groupElems es []) [] hc (by simpa using hn)
  simpa using this

/-- … and for a whole layout: the message the exporter writes is a fixed point of import-then-export -/
theorem c14_export_fixed_point (known : List Bytes) (l : Layout)
    (hi : ∀ i ∈ l.insts, known.contains i.cell = true) (he : l.elems.all elemOkI = true) :
    ∃ l', importLayout known (exportLayout l) = .ok l' ∧ exportLayout l' = exportLayout l := by
  obtain ⟨es, h1, h2⟩ := c14_regroup_idempotent l.elems he
  refine ⟨⟨l.name, l.insts.map normInst, es, l.annotations⟩, ?_, ?_⟩
  · simp only [importLayout, exportLayout, importInsts_export known l.insts hi, h1, importAnnots_export]
  · simp only [exportLayout, h2, List.map_map]
    congr 1
    apply List.map_congr_left
    intro i _
    simp only [Function.comp, exportInst, normInst]
    congr 1
    split <;> simp_all

/-- non-vacuity: a repeated key, three kinds, a flipped rectangle — regrouped to the same two groups -/
example : ∃ out, importElems (groupElems [⟨some [110], 1, 0, .rect ⟨5, 5⟩ ⟨0, 0⟩⟩, ⟨none, 2, 0, .path [⟨0, 0⟩, ⟨4, 0⟩] 2⟩,
      ⟨none, 1, 0, .polygon [⟨0, 0⟩, ⟨3, 0⟩, ⟨0, 3⟩]⟩, ⟨none, 1, 0, .rect ⟨1, 1⟩ ⟨2, 2⟩⟩] []) = .ok out ∧
    groupElems out [] = groupElems [⟨some [110], 1, 0, .rect ⟨5, 5⟩ ⟨0, 0⟩⟩, ⟨none, 2, 0, .path [⟨0, 0⟩, ⟨4, 0⟩] 2⟩,
      ⟨none, 1, 0, .polygon [⟨0, 0⟩, ⟨3, 0⟩, ⟨0, 3⟩]⟩, ⟨none, 1, 0, .rect ⟨1, 1⟩ ⟨2, 2⟩⟩] [] :=
  c14_regroup_idempotent _ (by decide)

/-- **every layout the exporter writes meets the converse theorem's hypothesis**: `layoutCanon` is not
    an assumption about foreign messages only — the exporter's own output satisfies it -/
theorem c14_exported_layout_canon (known : List Bytes) (l : Layout)
    (hi : ∀ i ∈ l.insts, known.contains i.cell = true) (he : l.elems.all elemOkI = true) :
    layoutCanon known (exportLayout l) := by
  obtain ⟨hc, hn⟩ := groupElems_canon l.elems [] (by rfl) (by simp) he
  refine ⟨?_, hc, hn, ?_⟩
  · simp only [exportLayout, List.all_map, List.all_eq_true]
    intro i him
    have := hi i him
    simp only [List.contains_iff_mem] at this
    simp [pinstOk, exportInst, this]
  · simp [exportLayout, List.all_map, List.all_eq_true]

/-- a raw cell list with layout views only, every cell after the cells it uses, i16 layer/purpose numbers -/
def LibOk : List Bytes → List Cell → Prop
  | _, [] => True
  | known, c :: rest => c.abs = none ∧
      (∀ lay, c.layout = some lay → (∀ i ∈ lay.insts, known.contains i.cell = true) ∧ lay.elems.all elemOkI = true) ∧
      LibOk (c.name :: known) rest

theorem exportCells_msgOk (tbl : LayerTbl) : ∀ (cs : List Cell) (known : List Bytes), LibOk known cs →
    ∃ pcs, exportCells tbl cs = .ok pcs ∧ MsgOk known pcs := by
  intro cs
  induction cs with
  | nil => intro known _; exact ⟨[], rfl, trivial⟩
  | cons c r ih =>
    intro known h
    obtain ⟨ha, hl, hr⟩ := h
    obtain ⟨pcs, he, hm⟩ := ih (c.name :: known) hr
    refine ⟨⟨c.name, c.layout.map exportLayout, none⟩ :: pcs, by simp [exportCells, exportCell, ha, he], ?_⟩
    refine ⟨rfl, ?_, hm⟩
    intro lay hlay
    cases hc : c.layout with
    | none => simp [hc] at hlay
    | some l0 =>
      simp only [hc, Option.map_some, Option.some.injEq] at hlay
      subst hlay
      exact c14_exported_layout_canon known l0 (hl l0 hc).1 (hl l0 hc).2

theorem libOk_instsKnown : ∀ (cs : List Cell) (known : List Bytes), LibOk known cs → InstsKnown known cs := by
  intro cs
  induction cs with
  | nil => intro _ _; trivial
  | cons c r ih =>
    intro known h
    exact ⟨fun lay hlay => (h.2.1 lay hlay).1, ih _ h.2.2⟩

/-- **whole library (layout views, listed dependencies-first): the exported message is a fixed point** —
    export succeeds, the message imports, and exporting what was imported gives exactly the same message -/
theorem c14_library_export_fixed_point (tbl : LayerTbl) (l : Lib) (hu : l.units ≤ 2) (h : LibOk [] l.cells) :
    ∃ p l', exportLib tbl l = .ok p ∧ importLib p = .ok l' ∧ exportLib tbl l' = .ok p := by
  obtain ⟨pcs, he, hm⟩ := exportCells_msgOk tbl l.cells [] h
  have hlisted : ListedBeforeUsers l.cells := by
    intro i hi d hd
    have := listed_of_instsKnown [] l.cells (by simpa using libOk_instsKnown _ _ h) i hi d (by simpa using hd)
    simpa using this
  have hexp : exportLib tbl l = .ok ⟨l.name, (l.units : Int), pcs⟩ := by
    rw [c14_reexport_keeps_cell_order tbl l hlisted (by omega)]; simp [he]
  obtain ⟨l', hi, he'⟩ := c14_message_roundtrip_layouts tbl ⟨l.name, (l.units : Int), pcs⟩ (by constructor <;> simp <;> omega) hm
  exact ⟨_, l', hexp, hi, he'⟩

/-- non-vacuity: two cells, the second instantiates the first; shapes on two layers with a repeated key -/
example : LibOk [] [⟨[65], some ⟨[65], [], [⟨some [110], 1, 0, .rect ⟨5, 5⟩ ⟨0, 0⟩⟩, ⟨none, 2, 0, .path [⟨0, 0⟩, ⟨4, 0⟩] 2⟩,
      ⟨none, 1, 0, .polygon [⟨0, 0⟩, ⟨3, 0⟩, ⟨0, 3⟩]⟩], [([116], ⟨1, 1⟩)]⟩, none⟩,
    ⟨[66], some ⟨[66], [⟨[105], [65], ⟨3, 4⟩, true, some 90⟩], [], []⟩, none⟩] := by
  refine ⟨rfl, ?_, rfl, ?_, trivial⟩
  · intro lay h; cases h; exact ⟨by simp, by decide⟩
  · intro lay h; cases h; exact ⟨by simp, by decide⟩
theorem addShape_pre (g : LayerShapes) (net : Bytes) (s : Shape) (h : groupPre g = true) : groupPre (addShape g net s) = true :=
  groupCanon_pre _ (addShape_canon g net s h)

theorem foldl_addShape_pre : ∀ (ss : List Shape) (g : LayerShapes), groupPre g = true →
    groupPre (ss.foldl (fun acc s => addShape acc [] s) g) = true := by
  intro ss
  induction ss with
  | nil => intro g h; exact h
  | cons s r ih => intro g h; exact ih _ (addShape_pre g [] s h)

/-- **abstract views**: every shape group the exporter writes for ports / blockages carries the layer's
    table numbers, rectangles with a corner and non-negative sizes, and paths with non-negative widths -/
theorem c14_abstract_groups_canon (tbl : LayerTbl) (pin : Bool)
    (ht : ∀ r ∈ tbl, inI16 r.1 = true ∧ (∀ n, r.2.1 = some n → inI16 n = true) ∧ (∀ n, r.2.2 = some n → inI16 n = true)) :
    ∀ (m : List (Int × List Shape)) (gs : List LayerShapes), exportLayerMap tbl pin m = .ok gs → gs.all groupPre = true := by
  intro m
  induction m with
  | nil => intro gs h; simp only [exportLayerMap, Out.ok.injEq] at h; subst h; rfl
  | cons x r ih =>
    intro gs h
    obtain ⟨ln, ss⟩ := x
    simp only [exportLayerMap] at h
    split at h
    · cases h
    · rename_i row hrow
      split at h
      · rename_i pn more hpn hmore
        simp only [Out.ok.injEq] at h; subst h
        simp only [List.all_cons, Bool.and_eq_true]
        refine ⟨?_, ih more hmore⟩
        have hmem := List.mem_of_find?_eq_some hrow
        have hkey : (row.1 == ln) = true := List.find?_some (p := fun (r : Int × Option Int × Option Int) => r.1 == ln) hrow
        have hln : row.1 = ln := by simpa using hkey
        obtain ⟨h1, h2, h3⟩ := ht row hmem
        have hpn' : inI16 pn = true := by
          cases pin with
          | true => exact h2 pn (by simpa using hpn)
          | false => exact h3 pn (by simpa using hpn)
        unfold shapesOf
        apply foldl_addShape_pre
        simp [groupPre, ← hln, h1, hpn']
      · cases h
/-- non-vacuity: one port layer with a flipped rectangle and a path -/
example : exportLayerMap [(5, some 7, some 8)] true [(5, [.rect ⟨4, 4⟩ ⟨0, 1⟩, .path [⟨0, 0⟩, ⟨3, 0⟩] 2])] =
    .ok [⟨some (5, 7), [⟨[], some ⟨0, 1⟩, 4, 3⟩], [], [⟨[], 2, [⟨0, 0⟩, ⟨3, 0⟩]⟩]⟩] := by decide

/-- **the round trip's normal form is stable**: what came back from one trip (net spelled `none` when empty,
    rectangle corners ordered lower-left / upper-right) is not changed by the normalisation of a further trip -/
theorem c14_norm_idempotent (e : Elem) : normElem (normElem e) = normElem e := by
  obtain ⟨n, l, p, s⟩ := e
  simp only [normElem, netStr_optNet]
  congr 1
  cases s with
  | rect p0 p1 =>
    simp only [normShape]
    congr 1 <;> congr 1 <;> omega
  | polygon pts => rfl
  | path pts w => rfl
/-- non-vacuity: a flipped rectangle with an empty net name is changed by the first trip only -/
example : normElem ⟨some [], 1, 0, .rect ⟨5, 0⟩ ⟨0, 5⟩⟩ = ⟨none, 1, 0, .rect ⟨0, 0⟩ ⟨5, 5⟩⟩ ∧
    normElem ⟨none, 1, 0, .rect ⟨0, 0⟩ ⟨5, 5⟩⟩ = ⟨none, 1, 0, .rect ⟨0, 0⟩ ⟨5, 5⟩⟩ := by decide

end L21.RawProto
