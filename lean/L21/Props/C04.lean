import L21.Model.LefEnum
/-
C04 — Reading a LEF file yields every statement in it, with exact values (keyword / enum layer).

Every keyword and every enumerated value the reader recognises comes from one `enumstr!` table in
lef21/src/data.rs; `L21.Gen.lefEnums` is regenerated from those tables on every run.  The reader
upper-cases the token (`to_ascii_uppercase`) and looks it up with a first-match `match`; the
writer prints `to_str`.  The theorems below hold for EVERY entry of EVERY regenerated table:

* `c04_enum_strings_canonical`: each table string is non-empty and consists of upper-case ASCII
  letters and digits only, so upper-casing a token can produce it and it lexes as one name;
* `c04_enum_no_shadowing`: within a table no string occurs twice, so the first-match lookup maps
  each string back to ITS variant (`from_str (to_str v) = v`) — an entry added with a duplicated
  string would silently attach statements to the wrong variant;
* `c04_case_insensitive`: looking up any case-variant of a table string yields the same variant
  (stated for an arbitrary per-character case choice);
* `c04_dbu`: the DATABASE MICRONS check accepts exactly the ten legal integral values, however
  the value is spelled (scale / trailing zeros), and returns that integer.
The statement-level parser is not modelled: it is exercised by the independent renderer (DESIGN).
-/
namespace L21.LefEnum
open L21.Gen

def tableOk (tbl : Table) : Bool :=
  tbl.all fun p => !p.2.toList.isEmpty && p.2.toList.all canonicalChar && fromStr tbl p.2 == some p.1 &&
    toStr tbl p.1 == some p.2

theorem all_tables_ok : lefEnums.all (fun t => tableOk t.2) = true := by decide +kernel

theorem c04_enum_strings_canonical : ∀ t ∈ lefEnums, ∀ p ∈ t.2,
    p.2.toList ≠ [] ∧ p.2.toList.all canonicalChar = true := by
  intro t ht p hp
  have h := List.all_eq_true.1 all_tables_ok t ht
  have h2 := List.all_eq_true.1 h p hp
  simp only [Bool.and_eq_true, Bool.not_eq_true', List.isEmpty_eq_false_iff] at h2
  exact ⟨h2.1.1.1, h2.1.1.2⟩

/-- `from_str (to_str v) = v` and `to_str` is defined, for every variant of every table -/
theorem c04_enum_no_shadowing : ∀ t ∈ lefEnums, ∀ p ∈ t.2,
    toStr t.2 p.1 = some p.2 ∧ fromStr t.2 p.2 = some p.1 := by
  intro t ht p hp
  have h := List.all_eq_true.1 all_tables_ok t ht
  have h2 := List.all_eq_true.1 h p hp
  simp only [Bool.and_eq_true, beq_iff_eq] at h2
  exact ⟨h2.2, h2.1.2⟩

theorem upperC_canonical (c : Char) (h : canonicalChar c = true) : upperC c = c := by
  unfold upperC
  split
  · rename_i hc
    simp only [canonicalChar, Bool.or_eq_true, Bool.and_eq_true, decide_eq_true_eq] at h
    have h1 : 'a'.toNat ≤ c.toNat := hc.1
    rcases h with ⟨_, h⟩ | ⟨_, h⟩
    · have : c.toNat ≤ 'Z'.toNat := h
      have e1 : 'a'.toNat = 97 := by decide
      have e2 : 'Z'.toNat = 90 := by decide
      omega
    · have : c.toNat ≤ '9'.toNat := h
      have e1 : 'a'.toNat = 97 := by decide
      have e2 : '9'.toNat = 57 := by decide
      omega
  · rfl

theorem upperC_lowerC_canonical (c : Char) (h : canonicalChar c = true) : upperC (lowerC c) = c := by
  simp only [canonicalChar, Bool.or_eq_true, Bool.and_eq_true, decide_eq_true_eq] at h
  rcases h with ⟨h1, h2⟩ | ⟨h1, h2⟩
  · -- 'A'..'Z': 26 characters, checked one by one
    have h1' : 65 ≤ c.toNat := h1
    have h2' : c.toNat ≤ 90 := h2
    have : ∀ n, n < 26 → upperC (lowerC (Char.ofNat (65 + n))) = Char.ofNat (65 + n) := by decide
    have e : Char.ofNat c.toNat = c := Char.ofNat_toNat c
    rw [← e, show c.toNat = 65 + (c.toNat - 65) by omega]; exact this _ (by omega)
  · have h1' : 48 ≤ c.toNat := h1
    have h2' : c.toNat ≤ 57 := h2
    have : ∀ n, n < 10 → upperC (lowerC (Char.ofNat (48 + n))) = Char.ofNat (48 + n) := by decide
    have e : Char.ofNat c.toNat = c := Char.ofNat_toNat c
    rw [← e, show c.toNat = 48 + (c.toNat - 48) by omega]; exact this _ (by omega)

/-- a spelling of `s` that differs from it only in the case of some letters -/
def caseVariant (choice : List Bool) (s : List Char) : List Char :=
  (s.zip (choice ++ List.replicate s.length false)).map fun (c, lo) => if lo then lowerC c else c

theorem upper_caseVariant : ∀ (s : List Char) (choice : List Bool), s.all canonicalChar = true →
    upper (caseVariant choice s) = s := by
  intro s
  induction s with
  | nil => intro _ _; simp [caseVariant, upper]
  | cons c rest ih =>
    intro choice h
    simp only [List.all_cons, Bool.and_eq_true] at h
    cases choice with
    | nil =>
      have := ih [] h.2
      simp only [caseVariant, upper, List.nil_append, List.length_cons, List.replicate_succ, List.zip_cons_cons,
        List.map_cons] at this ⊢
      simp only [Bool.false_eq_true, if_false]
      rw [upperC_canonical c h.1]
      congr 1
    | cons b bs =>
      have := ih bs h.2
      simp only [caseVariant, upper, List.cons_append, List.length_cons, List.zip_cons_cons, List.map_cons] at this ⊢
      have hb : upperC (if b = true then lowerC c else c) = c := by
        cases b
        · simpa using upperC_canonical c h.1
        · simpa using upperC_lowerC_canonical c h.1
      rw [hb]
      congr 1
      -- the padding is one longer than needed; zip ignores the excess
      have pad : ∀ (l : List Char) (bs : List Bool) (n : Nat), l.length ≤ n →
          l.zip (bs ++ List.replicate n false) = l.zip (bs ++ List.replicate l.length false) := by
        intro l
        induction l with
        | nil => intros; simp
        | cons x xs ihx =>
          intro bs n hn
          cases bs with
          | nil =>
            cases n with
            | zero => simp at hn
            | succ m =>
              simp only [List.nil_append, List.replicate_succ, List.length_cons, List.zip_cons_cons]
              congr 1
              have := ihx [] m (by simpa using hn)
              simpa using this
          | cons y ys =>
            simp only [List.cons_append, List.zip_cons_cons, List.length_cons]
            congr 1
            rw [ihx ys n (by simp at hn; omega), ihx ys (xs.length + 1) (by omega)]
      rw [pad rest bs (rest.length + 1) (by omega)]
      exact this

/-- Keywords and enumerated values are matched case-insensitively: ANY mixed-case spelling of a
    table string is read as the variant that string belongs to. -/
theorem c04_case_insensitive : ∀ t ∈ lefEnums, ∀ p ∈ t.2, ∀ (choice : List Bool),
    parse t.2 (caseVariant choice p.2.toList) = some p.1 := by
  intro t ht p hp choice
  have hc := (c04_enum_strings_canonical t ht p hp).2
  have hn := (c04_enum_no_shadowing t ht p hp).2
  unfold parse
  rw [upper_caseVariant _ _ hc]
  simpa using hn

/-! ### DATABASE MICRONS -/

/-- However a legal value is spelled — `2000`, `2000.0`, `2000.000` — it is accepted and read as
    exactly that integer; no other value is accepted. -/
theorem c04_dbu (v : Int) (k : Nat) (hv : v ∈ legalDbu) : dbuTryNew ⟨v * 10 ^ k, k⟩ = some v := by
  unfold dbuTryNew
  have hp : (10 : Int) ^ k ≠ 0 := by exact Int.pow_ne_zero (by decide)
  simp only [Int.mul_emod_left, ne_eq, not_true_eq_false, if_false, Int.mul_ediv_cancel _ hp]
  simp [hv]

theorem c04_dbu_only_legal (d : Dec) (v : Int) (h : dbuTryNew d = some v) :
    v ∈ legalDbu ∧ d.mant = v * 10 ^ d.scale := by
  unfold dbuTryNew at h
  split at h
  · simp at h
  · rename_i hm
    simp only [ne_eq, Decidable.not_not] at hm
    split at h
    · rename_i hc
      simp only [Option.some.injEq] at h
      subst h
      exact ⟨by simpa using hc, by rw [Int.ediv_mul_cancel (Int.dvd_of_emod_eq_zero hm)]⟩
    · simp at h

example : dbuTryNew ⟨20000, 1⟩ = some 2000 := by decide
example : dbuTryNew ⟨2000, 0⟩ = some 2000 := by decide
example : dbuTryNew ⟨20005, 1⟩ = none := by decide
example : dbuTryNew ⟨3000, 0⟩ = none := by decide
example : parse (lefEnums.lookup "LefOnOff" |>.getD []) "oN".toList = some "On" := by decide +kernel
example : lefEnums.length = 17 := by decide

end L21.LefEnum
