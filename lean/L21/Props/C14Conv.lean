import L21.Props.C14RT
import L21.Props.C17Sorted
/-
C14 — the CONVERSE trip for a whole message library (layout views): a protobuf library in the form the exporter
writes, whose cells are listed before their users, converts to raw and back to the SAME message — same cells in
the same order, same instances, shape groups and annotations.

Composition of `c14_proto_layout_roundtrip` (one layout) over the cell list with the name-resolution invariant of
the importer (`known` = names of the cells read so far), and of `c14_reexport_keeps_cell_order` (the exporter's
dependency order of the imported library is the message's own order, `c17_sorted_listing_is_kept`).
Abstract views are NOT covered here: for them the converse fails on messages that use two purpose numbers for
one role on one layer (pinned known findings, `c14_converse_fails_on_second_purpose_number`).
-/
namespace L21.RawProto
open L21.Geom

/-- a message layout in the exporter's form, all references resolved by `known` -/
def layoutCanon (known : List Bytes) (p : PLayout) : Prop :=
  p.insts.all (pinstOk known) = true ∧ p.shapes.all groupCanon = true ∧ (p.shapes.map (·.layer)).Nodup ∧
  p.annotations.all (fun a => a.2.isSome) = true

/-- a message cell list in the exporter's form: layout views only, every cell listed after the cells it uses -/
def MsgOk : List Bytes → List PCell → Prop
  | _, [] => True
  | known, c :: rest => c.abs = none ∧ (∀ lay, c.layout = some lay → layoutCanon known lay) ∧ MsgOk (c.name :: known) rest

/-- every instance of every cell names a cell that stands earlier (or is in `known`) -/
def InstsKnown : List Bytes → List Cell → Prop
  | _, [] => True
  | known, c :: rest => (∀ lay, c.layout = some lay → ∀ i ∈ lay.insts, known.contains i.cell = true) ∧ InstsKnown (c.name :: known) rest

theorem importInsts_known (known : List Bytes) : ∀ (is : List PInst) (out : List Inst), importInsts known is = .ok out →
    ∀ i ∈ out, known.contains i.cell = true := by
  intro is
  induction is with
  | nil => intro out h; simp only [importInsts, Out.ok.injEq] at h; subst h; simp
  | cons a r ih =>
    intro out h
    obtain ⟨name, ref, origin, refl, rot⟩ := a
    simp only [importInsts] at h
    cases ref with
    | none => simp at h
    | external => simp at h
    | localRef n =>
      cases origin with
      | none => simp at h
      | some loc =>
        cases hr : importInsts known r with
        | err => simp [hr] at h
        | ok more =>
          simp only [hr] at h
          by_cases hk : known.contains n = true
          · simp only [hk, if_true, Out.ok.injEq] at h
            subst h
            intro i hi
            rcases List.mem_cons.1 hi with rfl | hi'
            · exact hk
            · exact ih more hr i hi'
          · have hk' : n ∉ known := by simpa [List.contains_iff_mem] using hk
            simp [hk'] at h

theorem importCells_back (tbl : LayerTbl) : ∀ (pcs : List PCell) (known : List Bytes), MsgOk known pcs →
    ∃ cs, importCells known pcs = .ok cs ∧ exportCells tbl cs = .ok pcs ∧ InstsKnown known cs := by
  intro pcs
  induction pcs with
  | nil => intro known _; exact ⟨[], rfl, rfl, trivial⟩
  | cons c rest ih =>
    intro known h
    obtain ⟨habs, hlay, hrest⟩ := h
    obtain ⟨cs, hi, he, hk⟩ := ih (c.name :: known) hrest
    obtain ⟨name, layout, abs⟩ := c
    simp only at habs hlay hi hk
    subst habs
    cases layout with
    | none =>
      refine ⟨⟨name, none, none⟩ :: cs, by simp [importCells, hi], by simp [exportCells, exportCell, he], ?_, hk⟩
      intro lay hl; simp at hl
    | some lay =>
      obtain ⟨h1, h2, h3, h4⟩ := hlay lay rfl
      obtain ⟨l, hl, hle⟩ := c14_proto_layout_roundtrip known lay h1 h2 h3 h4
      refine ⟨⟨name, some l, none⟩ :: cs, by simp [importCells, hl, hi], by simp [exportCells, exportCell, he, hle], ?_, hk⟩
      intro lay' hl' i hi'
      simp only [Option.some.injEq] at hl'
      subst hl'
      -- the imported layout's instances come from importInsts
      simp only [importLayout] at hl
      cases hii : importInsts known lay.insts with
      | err => simp [hii] at hl
      | ok is =>
        cases hee : importElems lay.shapes with
        | err => simp [hii, hee] at hl
        | ok es =>
          cases haa : importAnnots lay.annotations with
          | err => simp [hii, hee, haa] at hl
          | ok as =>
            simp only [hii, hee, haa, Out.ok.injEq] at hl
            subst hl
            exact importInsts_known known lay.insts is hii i hi'

theorem cellIndex_lt (cells : List Cell) (n : Bytes) (j : Nat) (hj : j < cells.length) (hn : cells[j].name = n) :
    cellIndex cells n ≤ j := by
  unfold cellIndex
  induction cells generalizing j with
  | nil => simp at hj
  | cons c r ih =>
    rw [List.findIdx?_cons]
    by_cases hc : (c.name == n) = true
    · simp [hc]
    · simp only [hc, Bool.false_eq_true, if_false]
      cases j with
      | zero => simp at hn; simp [hn] at hc
      | succ k =>
        have := ih k (by simpa using hj) (by simpa using hn)
        cases hf : List.findIdx? (fun c => c.name == n) r with
        | none => simp [hf] at this ⊢; omega
        | some v => simp [hf] at this ⊢; omega

/-- instances that name earlier cells ⇒ the cell list has its dependencies first -/
theorem listed_of_instsKnown : ∀ (pre cs : List Cell), InstsKnown (pre.reverse.map (·.name)) cs →
    ∀ i, i < cs.length → ∀ d ∈ cellAdj (pre ++ cs) (pre.length + i), d < pre.length + i := by
  intro pre cs
  induction cs generalizing pre with
  | nil => intro _ i hi; simp at hi
  | cons c r ih =>
    intro h i hi d hd
    obtain ⟨hc, hr⟩ := h
    cases i with
    | zero =>
      simp only [Nat.add_zero] at hd ⊢
      unfold cellAdj at hd
      have hget : (pre ++ c :: r)[pre.length]? = some c := by simp
      rw [hget] at hd
      cases hl : c.layout with
      | none => simp [hl] at hd
      | some lay =>
        simp only [hl, List.mem_map] at hd
        obtain ⟨inst, hin, rfl⟩ := hd
        have hk := hc lay hl inst hin
        simp only [List.contains_iff_mem, List.mem_map, List.mem_reverse] at hk
        obtain ⟨c', hc', hname⟩ := hk
        obtain ⟨j, hjlt, hj⟩ := List.getElem_of_mem hc'
        have : cellIndex (pre ++ c :: r) inst.cell ≤ j :=
          cellIndex_lt _ _ j (by simp; omega) (by rw [List.getElem_append_left hjlt, hj]; exact hname)
        omega
    | succ k =>
      have := ih (pre ++ [c]) (by simpa [List.reverse_append] using hr) k (by simpa using hi) d
        (by simpa [List.append_assoc, Nat.add_assoc, Nat.add_comm 1 k] using hd)
      simp only [List.length_append, List.length_cons, List.length_nil] at this
      omega

/-- **The converse trip, whole library (layout views)**: a message library in the exporter's form, cells listed
    before their users, converts to raw and back to exactly the same message. -/
theorem c14_message_roundtrip_layouts (tbl : LayerTbl) (p : PLib) (hu : 0 ≤ p.units ∧ p.units ≤ 2) (h : MsgOk [] p.cells) :
    ∃ l, importLib p = .ok l ∧ exportLib tbl l = .ok p := by
  obtain ⟨cs, hi, he, hk⟩ := importCells_back tbl p.cells [] h
  refine ⟨⟨p.domain, p.units.toNat, cs⟩, ?_, ?_⟩
  · unfold importLib
    have : ¬ (p.units < 0 ∨ 2 < p.units) := by omega
    simp [this, hi]
  · have hlisted : ListedBeforeUsers cs := by
      intro i hi' d hd
      have := listed_of_instsKnown [] cs (by simpa using hk) i hi' d (by simpa using hd)
      simpa using this
    rw [c14_reexport_keeps_cell_order tbl _ hlisted (by simp only; omega)]
    simp only [he]
    obtain ⟨dom, units, cells⟩ := p
    simp only at hu ⊢
    congr 2
    omega

/-! non-vacuity: two cells, the second instantiates the first -/
example : ∃ l, importLib ⟨[76], 1, [⟨[65], some ⟨[65], [], [⟨some (1, 0), [⟨[110], some ⟨0, 0⟩, 5, 5⟩], [], []⟩], [([116], some ⟨1, 1⟩)]⟩, none⟩,
      ⟨[66], some ⟨[66], [⟨[105], .localRef [65], some ⟨3, 4⟩, true, 90⟩], [], []⟩, none⟩]⟩ = .ok l ∧
    exportLib [] l = .ok ⟨[76], 1, [⟨[65], some ⟨[65], [], [⟨some (1, 0), [⟨[110], some ⟨0, 0⟩, 5, 5⟩], [], []⟩], [([116], some ⟨1, 1⟩)]⟩, none⟩,
      ⟨[66], some ⟨[66], [⟨[105], .localRef [65], some ⟨3, 4⟩, true, 90⟩], [], []⟩, none⟩]⟩ :=
  c14_message_roundtrip_layouts [] _ (by decide) ⟨rfl, fun lay hl => by
      simp only [Option.some.injEq] at hl; subst hl; exact ⟨by decide, by decide, by decide, by decide⟩,
    rfl, fun lay hl => by
      simp only [Option.some.injEq] at hl; subst hl; exact ⟨by decide, by decide, by decide, by decide⟩, trivial⟩

end L21.RawProto
