import L21.Proofs.LefProgress
/-
C11 — the LEF reader never hangs: the parser part.

The reader model (`L21/Model/Lef.lean`, tied to `LefLibrary::from_str` by the `lef.parse`
correspondence on valid and faulted texts) writes every loop of lef21's recursive-descent parser as
a fuel-indexed function started with `remaining tokens + 1`, and puts an explicit progress guard
`r.length < ts.length` in front of the recursive call wherever a whole sub-construct was parsed.
Neither device exists in the Rust code, so each is a place where the model could answer `err` while
the code loops for ever.  The theorems below close that gap inside the model:

* every parse routine that succeeds has consumed at least one token, so no guard ever fires;
* once the budget exceeds the number of remaining tokens, a larger budget never changes the
  answer, so no loop ever stops because the budget ran out: the loops end because the input does.
-/
namespace L21.Lef
open L21.LefLex L21.LefEnum

/-- the reader model is a total function: it answers for every token sequence -/
theorem c11_parse_total (src : List Char) : parse src = none ∨ ∃ l, parse src = some l := by
  cases h : parse src with
  | none => exact Or.inl rfl
  | some l => exact Or.inr ⟨l, rfl⟩

/-- **the budget is never the reason for an answer**: with ANY budget above the one the reader
    starts with, the library-level loop gives the same result -/
theorem c11_fuel_never_exhausted (ts : List Tok) (ver : Dec) (lib : Lib) (n : Nat) :
    libBody (ts.length + 1 + n) ver lib ts = libBody (ts.length + 1) ver lib ts :=
  libBody_fuel_any ver lib ts n

/-- the same for every inner loop (each is started with `remaining + 1`) -/
theorem c11_inner_loops_fuel (f : Nat) (ts : List Tok) (h : ts.length < f) :
    (∀ ver m, macroBody ver f m ts = macroBody ver (f + 1) m ts) ∧
    (∀ p, pinBody f p ts = pinBody (f + 1) p ts) ∧
    (∀ p, portBody f p ts = portBody (f + 1) p ts) ∧
    (∀ lg, layerHeader f lg ts = layerHeader (f + 1) lg ts) ∧
    (∀ lg, layerBody f lg ts = layerBody (f + 1) lg ts) ∧
    (pointList f ts = pointList (f + 1) ts) ∧
    (∀ acc, propertyPairs f acc ts = propertyPairs (f + 1) acc ts) ∧
    (∀ acc, obsBody f acc ts = obsBody (f + 1) acc ts) ∧
    (∀ acc, densityRects f acc ts = densityRects (f + 1) acc ts) ∧
    (∀ acc, densityBody f acc ts = densityBody (f + 1) acc ts) ∧
    (∀ acc, symmetries f acc ts = symmetries (f + 1) acc ts) ∧
    (∀ u, unitsBody f u ts = unitsBody (f + 1) u ts) ∧
    (∀ name b, siteBody name f b ts = siteBody name (f + 1) b ts) ∧
    (∀ acc, viaShapes f acc ts = viaShapes (f + 1) acc ts) ∧
    (∀ acc, viaLayers f acc ts = viaLayers (f + 1) acc ts) ∧
    (∀ g, genViaBody f g ts = genViaBody (f + 1) g ts) ∧
    (∀ acc, propDefs f acc ts = propDefs (f + 1) acc ts) ∧
    (∀ acc, extBody f acc ts = extBody (f + 1) acc ts) :=
  ⟨fun ver m => macroBody_fuel ver f m ts h, fun p => pinBody_fuel f p ts h, fun p => portBody_fuel f p ts h,
   fun lg => layerHeader_fuel f lg ts h, fun lg => layerBody_fuel f lg ts h, pointList_fuel f ts h,
   fun acc => propertyPairs_fuel f acc ts h, fun acc => obsBody_fuel f acc ts h, fun acc => densityRects_fuel f acc ts h,
   fun acc => densityBody_fuel f acc ts h, fun acc => symmetries_fuel f acc ts h, fun u => unitsBody_fuel f u ts h,
   fun name b => siteBody_fuel name f b ts h, fun acc => viaShapes_fuel f acc ts h, fun acc => viaLayers_fuel f acc ts h,
   fun g => genViaBody_fuel f g ts h, fun acc => propDefs_fuel f acc ts h, fun acc => extBody_fuel f acc ts h⟩

/-- **every sub-construct consumes input**: whatever a definition- or statement-level routine
    returns, strictly fewer tokens remain — so the model's progress guards never fire and each
    iteration of every loop of `parse_lib`, `parse_macro`, `parse_pin`, `parse_port`, … advances -/
theorem c11_every_construct_consumes (ts r : List Tok) :
    (∀ ver m, macro_ ver ts = some (m, r) → r.length < ts.length) ∧
    (∀ s, site ts = some (s, r) → r.length < ts.length) ∧
    (∀ v, viaDef ts = some (v, r) → r.length < ts.length) ∧
    (∀ p, pin ts = some (p, r) → r.length < ts.length) ∧
    (∀ p, port ts = some (p, r) → r.length < ts.length) ∧
    (∀ lg, layerGeoms ts = some (lg, r) → r.length < ts.length) ∧
    (∀ g, geometry ts = some (g, r) → r.length < ts.length) ∧
    (∀ d, pinDirection ts = some (d, r) → r.length < ts.length) ∧
    (∀ acc ps, property acc ts = some (ps, r) → r.length < ts.length) ∧
    (∀ c, macroClass ts = some (c, r) → r.length < ts.length) ∧
    (∀ s, sizeStmt ts = some (s, r) → r.length < ts.length) ∧
    (∀ s, viaShape ts = some (s, r) → r.length < ts.length) ∧
    (∀ f acc ss, symmetries f acc ts = some (ss, r) → r.length < ts.length) ∧
    (∀ f acc ds, densityBody f acc ts = some (ds, r) → r.length < ts.length) ∧
    (∀ f u u', unitsBody f u ts = some (u', r) → r.length < ts.length) ∧
    (∀ f acc ds, propDefs f acc ts = some (ds, r) → r.length < ts.length) ∧
    (∀ f acc data, extBody f acc ts = some (data, r) → r.length < ts.length) :=
  ⟨fun _ _ h => macro__len h, fun _ h => site_len h, fun _ h => viaDef_len h, fun _ h => pin_len h, fun _ h => port_len h,
   fun _ h => layerGeoms_len h, fun _ h => geometry_len h, fun _ h => pinDirection_len h, fun _ _ h => property_len h,
   fun _ h => macroClass_len h, fun _ h => sizeStmt_len h, fun _ h => viaShape_len h,
   fun f acc ss h => symmetries_len f acc ts ss r h, fun f acc ds h => densityBody_len f acc ts ds r h,
   fun f u u' h => unitsBody_len f u u' ts r h, fun f acc ds h => propDefs_len f acc ds ts r h,
   fun f acc data h => extBody_len f acc data ts r h⟩

/-- non-vacuity: a budget below the input length does change answers (so the theorems are not true
    for the trivial reason that the budget is ignored) -/
example : pointList 1 [⟨.number, ['1']⟩, ⟨.number, ['2']⟩] = none ∧
    (pointList 3 [⟨.number, ['1']⟩, ⟨.number, ['2']⟩]).isSome = true := by decide

end L21.Lef
