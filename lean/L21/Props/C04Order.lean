import L21.Proofs.LefRT
/-
C04 — statement ORDER inside PIN and MACRO blocks (reader model, every library, every order).

`c05_write_read_tokens` reads the writer's canonical statement order.  LEF fixes no order for the statements
of a PIN or a MACRO, and an independent renderer may emit them in any order, repeat a scalar statement, and
interleave the list-valued ones (PORT, PROPERTY, ANTENNA*, PIN) with the others.  Here:

* `c04_pin_any_order`, `c04_macro_any_order`: for EVERY sequence of (well-formed) statements — any order, any
  repetition — the reader model returns the left fold of the per-statement updates over that sequence: every
  statement lands in the field it names, of the object it stands in, none is dropped or merged;
* `c04_pin_fold_fields`, `c04_macro_fold_fields`: that fold, field by field: a scalar field holds the LAST
  statement of its kind, a list field holds the statements of its kind in the order written;
* `c04_pin_order_free`, `c04_macro_order_free`: hence two sequences that are permutations of each other, keep the
  relative order of their list-valued statements and contain each scalar statement at most once are read to
  the SAME pin / macro.

Pins inside a macro are themselves given as statement sequences, so the two levels compose.
-/
namespace L21.Lef
open L21.LefLex L21.LefEnum L21.Gen

/-- last element of a list, or a default: how a repeated scalar statement resolves -/
def lastO {α : Type} (l : List α) (d : Option α) : Option α := l.foldl (fun _ x => some x) d

@[simp] theorem lastO_nil {α : Type} (d : Option α) : lastO [] d = d := rfl
@[simp] theorem lastO_cons {α : Type} (x : α) (l : List α) (d : Option α) : lastO (x :: l) d = lastO l (some x) := rfl

@[simp] theorem lastO_toList {α : Type} (o : Option α) : lastO o.toList none = o := by cases o <;> rfl

@[simp] theorem filterMap_const_none {α β : Type} (l : List α) : l.filterMap (fun _ => (none : Option β)) = [] := by
  induction l with
  | nil => rfl
  | cons a r ih => simp [List.filterMap_cons, ih]
@[simp] theorem filterMap_some' {α : Type} (l : List α) : l.filterMap (fun x => some x) = l := by
  induction l with
  | nil => rfl
  | cons a r ih => simp [List.filterMap_cons, ih]

theorem perm_short_eq {α : Type} {l l' : List α} (h : l.Perm l') (hl : l.length ≤ 1) : l = l' := by
  match l, l', h, hl with
  | [], l', h, _ => exact (List.Perm.nil_eq h)
  | [a], l', h, _ => exact (List.perm_singleton.1 h.symm).symm
  | _ :: _ :: _, _, _, hl => simp at hl

/-! ## PIN -/

inductive PStmt where
  | dir (d : String × Bool)
  | use (e : String)
  | shape (e : String)
  | amodel (e : String)
  | taper (v : Str)
  | supply (v : Str)
  | ground (v : Str)
  | mustjoin (v : Str)
  | netexpr (v : Str)
  | port (p : Port)
  | prop (p : Prop')
  | antenna (a : Antenna)

def wPStmt : PStmt → List Tok
  | .dir d => wDir d
  | .use e => [kw "Use", en "LefPinUse" e, semiTok]
  | .shape e => [kw "Shape", en "LefPinShape" e, semiTok]
  | .amodel e => [kw "AntennaModel", en "LefAntennaModel" e, semiTok]
  | .taper v => [kw "TaperRule", ident v, semiTok]
  | .supply v => [kw "SupplySensitivity", ident v, semiTok]
  | .ground v => [kw "GroundSensitivity", ident v, semiTok]
  | .mustjoin v => [kw "MustJoin", ident v, semiTok]
  | .netexpr v => [kw "NetExpr", strTok v, semiTok]
  | .port p => wPort p
  | .prop p => wProp p
  | .antenna a => wAntenna a

def pstmtOk : PStmt → Bool
  | .dir d => dirOk d
  | .use e => isVariant "LefPinUse" e
  | .shape e => isVariant "LefPinShape" e
  | .amodel e => isVariant "LefAntennaModel" e
  | .port p => portOk p
  | .antenna a => antennaOk a
  | _ => true

/-- what one statement does to the pin under construction -/
def applyP (p : Pin) : PStmt → Pin
  | .dir d => { p with direction := some d }
  | .use e => { p with use_ := some e }
  | .shape e => { p with shape := some e }
  | .amodel e => { p with antennaModel := some e }
  | .taper v => { p with taperRule := some v }
  | .supply v => { p with supplySensitivity := some v }
  | .ground v => { p with groundSensitivity := some v }
  | .mustjoin v => { p with mustJoin := some v }
  | .netexpr v => { p with netExpr := some v }
  | .port x => { p with ports := p.ports ++ [x] }
  | .prop x => { p with properties := p.properties ++ [x] }
  | .antenna a => { p with antennaAttrs := p.antennaAttrs ++ [a] }

theorem wPStmt_length (s : PStmt) : 1 ≤ (wPStmt s).length := by
  cases s with
  | port p => have := wPort_length p; simp only [wPStmt]; omega
  | dir d => simp [wPStmt, wDir]
  | antenna a => simp [wPStmt, wAntenna]
  | _ => simp [wPStmt, wProp]

theorem flatMap_wPStmt_length (ss : List PStmt) : ss.length ≤ (ss.flatMap wPStmt).length := by
  induction ss with
  | nil => simp
  | cons a r ih =>
    have := wPStmt_length a
    simp only [List.flatMap_cons, List.length_append, List.length_cons]; omega

/-- one statement, any pin state, any continuation -/
theorem pinBody_stmt (f : Nat) (p : Pin) (s : PStmt) (T : List Tok) (h : pstmtOk s = true) :
    pinBody (f + 1) p (wPStmt s ++ T) = pinBody f (applyP p s) T := by
  cases s with
  | dir d => exact pin_dir f p d T h
  | use e => exact pin_use f p e T h
  | shape e => exact pin_shape f p e T h
  | amodel e => exact pin_amodel f p e T h
  | taper v => exact pin_taper f p v T
  | supply v => exact pin_supply f p v T
  | ground v => exact pin_ground f p v T
  | mustjoin v => exact pin_mustjoin f p v T
  | netexpr v => exact pin_netexpr f p v T
  | port x =>
    have := pin_ports T [x] p (f + 1) (by simp) (by simpa [pstmtOk] using h)
    simpa [wPStmt, applyP] using this
  | prop x =>
    have := pin_props T [x] p (f + 1) (by simp)
    simpa [wPStmt, applyP] using this
  | antenna a =>
    have := pin_antennas T [a] p (f + 1) (by simp) (by simpa [pstmtOk] using h)
    simpa [wPStmt, applyP] using this

theorem pinBody_stmts (T : List Tok) : ∀ (ss : List PStmt) (p : Pin) (f : Nat), ss.length ≤ f → ss.all pstmtOk = true →
    pinBody f p (ss.flatMap wPStmt ++ T) = pinBody (f - ss.length) (ss.foldl applyP p) T := by
  intro ss
  induction ss with
  | nil => intro p f _ _; simp
  | cons s r ih =>
    intro p f hf hok
    obtain ⟨n, rfl⟩ : ∃ n, f = n + 1 := ⟨f - 1, by simp at hf; omega⟩
    simp only [List.all_cons, Bool.and_eq_true] at hok
    simp only [List.flatMap_cons, List.append_assoc, List.foldl_cons]
    rw [pinBody_stmt n p s _ hok.1, ih _ n (by simp at hf; omega) hok.2]
    simp [Nat.add_sub_add_right]

def emptyPin (n : Str) : Pin := ⟨n, [], none, none, none, none, [], none, none, none, none, none, []⟩

/-- the tokens of `PIN n <statements in the given order> END n` -/
def wPinStmts (n : Str) (ss : List PStmt) : List Tok :=
  kw "Pin" :: ident n :: (ss.flatMap wPStmt ++ [kw "End", ident n])

/-- **Every order, every repetition**: the reader model reads a PIN block whose statements come in ANY
    sequence to the fold of the per-statement updates over that sequence. -/
theorem c04_pin_any_order (n : Str) (ss : List PStmt) (T : List Tok) (h : ss.all pstmtOk = true) :
    pin (wPinStmts n ss ++ T) = some (ss.foldl applyP (emptyPin n), T) := by
  have hl := flatMap_wPStmt_length ss
  have hb := pinBody_stmts (kw "End" :: ident n :: T) ss (emptyPin n)
    ((ss.flatMap wPStmt ++ kw "End" :: ident n :: T).length + 1) (by simp only [List.length_append, List.length_cons]; omega) h
  obtain ⟨g, hg⟩ : ∃ g, (ss.flatMap wPStmt ++ kw "End" :: ident n :: T).length + 1 - ss.length = g + 1 :=
    ⟨(ss.flatMap wPStmt ++ kw "End" :: ident n :: T).length - ss.length, by simp only [List.length_append, List.length_cons]; omega⟩
  rw [hg, pin_end] at hb
  have hsplit : wPinStmts n ss ++ T = kw "Pin" :: ident n :: (ss.flatMap wPStmt ++ kw "End" :: ident n :: T) := by
    simp [wPinStmts]
  rw [hsplit]
  unfold pin
  simp only [expectKey_kw "Pin" _ k_Pin, getName_ident, Option.bind_eq_bind, Option.bind_some]
  rw [show (⟨n, [], none, none, none, none, [], none, none, none, none, none, []⟩ : Pin) = emptyPin n from rfl, hb]
  simp [expectIdent, getName_ident]

def PStmt.dir? : PStmt → Option (String × Bool) | .dir d => some d | _ => none
def PStmt.use? : PStmt → Option String | .use d => some d | _ => none
def PStmt.shape? : PStmt → Option String | .shape d => some d | _ => none
def PStmt.amodel? : PStmt → Option String | .amodel d => some d | _ => none
def PStmt.taper? : PStmt → Option Str | .taper d => some d | _ => none
def PStmt.supply? : PStmt → Option Str | .supply d => some d | _ => none
def PStmt.ground? : PStmt → Option Str | .ground d => some d | _ => none
def PStmt.mustjoin? : PStmt → Option Str | .mustjoin d => some d | _ => none
def PStmt.netexpr? : PStmt → Option Str | .netexpr d => some d | _ => none
def PStmt.port? : PStmt → Option Port | .port d => some d | _ => none
def PStmt.prop? : PStmt → Option Prop' | .prop d => some d | _ => none
def PStmt.antenna? : PStmt → Option Antenna | .antenna d => some d | _ => none

/-- the fold, field by field: scalars hold the LAST statement of their kind, lists hold theirs in order -/
def collectP (p : Pin) (ss : List PStmt) : Pin :=
  { name := p.name
    ports := p.ports ++ ss.filterMap PStmt.port?
    direction := lastO (ss.filterMap PStmt.dir?) p.direction
    use_ := lastO (ss.filterMap PStmt.use?) p.use_
    shape := lastO (ss.filterMap PStmt.shape?) p.shape
    antennaModel := lastO (ss.filterMap PStmt.amodel?) p.antennaModel
    antennaAttrs := p.antennaAttrs ++ ss.filterMap PStmt.antenna?
    taperRule := lastO (ss.filterMap PStmt.taper?) p.taperRule
    supplySensitivity := lastO (ss.filterMap PStmt.supply?) p.supplySensitivity
    groundSensitivity := lastO (ss.filterMap PStmt.ground?) p.groundSensitivity
    mustJoin := lastO (ss.filterMap PStmt.mustjoin?) p.mustJoin
    netExpr := lastO (ss.filterMap PStmt.netexpr?) p.netExpr
    properties := p.properties ++ ss.filterMap PStmt.prop? }

theorem c04_pin_fold_fields : ∀ (ss : List PStmt) (p : Pin), ss.foldl applyP p = collectP p ss := by
  intro ss
  induction ss with
  | nil => intro p; simp [collectP]
  | cons s r ih =>
    intro p
    rw [List.foldl_cons, ih]
    cases s <;> simp [collectP, applyP, List.filterMap_cons, PStmt.dir?, PStmt.use?, PStmt.shape?, PStmt.amodel?, PStmt.taper?,
      PStmt.supply?, PStmt.ground?, PStmt.mustjoin?, PStmt.netexpr?, PStmt.port?, PStmt.prop?, PStmt.antenna?]

/-- each scalar statement occurs at most once -/
def OnceP (ss : List PStmt) : Prop :=
  (ss.filterMap PStmt.dir?).length ≤ 1 ∧ (ss.filterMap PStmt.use?).length ≤ 1 ∧ (ss.filterMap PStmt.shape?).length ≤ 1 ∧
  (ss.filterMap PStmt.amodel?).length ≤ 1 ∧ (ss.filterMap PStmt.taper?).length ≤ 1 ∧ (ss.filterMap PStmt.supply?).length ≤ 1 ∧
  (ss.filterMap PStmt.ground?).length ≤ 1 ∧ (ss.filterMap PStmt.mustjoin?).length ≤ 1 ∧ (ss.filterMap PStmt.netexpr?).length ≤ 1

/-- same statements, list-valued ones in the same relative order -/
def SameListsP (ss ss' : List PStmt) : Prop :=
  ss.filterMap PStmt.port? = ss'.filterMap PStmt.port? ∧ ss.filterMap PStmt.prop? = ss'.filterMap PStmt.prop? ∧
  ss.filterMap PStmt.antenna? = ss'.filterMap PStmt.antenna?

theorem c04_pin_fold_order_free (ss ss' : List PStmt) (p : Pin) (hp : ss.Perm ss') (hl : SameListsP ss ss') (ho : OnceP ss) :
    ss.foldl applyP p = ss'.foldl applyP p := by
  rw [c04_pin_fold_fields, c04_pin_fold_fields]
  obtain ⟨l1, l2, l3⟩ := hl
  obtain ⟨o1, o2, o3, o4, o5, o6, o7, o8, o9⟩ := ho
  unfold collectP
  rw [l1, l2, l3, perm_short_eq (hp.filterMap PStmt.dir?) o1, perm_short_eq (hp.filterMap PStmt.use?) o2,
    perm_short_eq (hp.filterMap PStmt.shape?) o3, perm_short_eq (hp.filterMap PStmt.amodel?) o4,
    perm_short_eq (hp.filterMap PStmt.taper?) o5, perm_short_eq (hp.filterMap PStmt.supply?) o6,
    perm_short_eq (hp.filterMap PStmt.ground?) o7, perm_short_eq (hp.filterMap PStmt.mustjoin?) o8,
    perm_short_eq (hp.filterMap PStmt.netexpr?) o9]

/-- **Order freedom for PIN blocks**: two renderings of the same statements — any permutation that keeps
    PORTs, PROPERTYs and ANTENNA* statements in their relative order, scalars occurring once — are read to the same pin. -/
theorem c04_pin_order_free (n : Str) (ss ss' : List PStmt) (T : List Tok) (h : ss.all pstmtOk = true)
    (hp : ss.Perm ss') (hl : SameListsP ss ss') (ho : OnceP ss) :
    pin (wPinStmts n ss ++ T) = pin (wPinStmts n ss' ++ T) := by
  have h' : ss'.all pstmtOk = true := by
    rw [List.all_eq_true] at h ⊢
    intro x hx; exact h x (hp.mem_iff.2 hx)
  rw [c04_pin_any_order n ss T h, c04_pin_any_order n ss' T h', c04_pin_fold_order_free ss ss' _ hp hl ho]

/-! ## MACRO -/

inductive MStmt where
  | cls (c : String × Option String × Bool)
  | fixedMask
  | foreign (f : Foreign)
  | origin (p : Pt)
  | source (e : String)
  | eeq (v : Str)
  | size (s : Dec × Dec)
  | symmetry (ss : List String)
  | site (v : Str)
  | obs (ls : List LayerGeoms)
  | density (ls : List DensityGeoms)
  | pin (n : Str) (ss : List PStmt)
  | prop (p : Prop')

def wMStmt : MStmt → List Tok
  | .cls c => wMacroClass c
  | .fixedMask => [kw "FixedMask", semiTok]
  | .foreign f => wForeign f
  | .origin p => kw "Origin" :: (wPt p ++ [semiTok])
  | .source e => [kw "Source", en "LefDefSource" e, semiTok]
  | .eeq v => [kw "Eeq", ident v, semiTok]
  | .size s => [kw "Size", num s.1, kw "By", num s.2, semiTok]
  | .symmetry ss => wSymmetry ss
  | .site v => [kw "Site", ident v, semiTok]
  | .obs ls => kw "Obs" :: (ls.flatMap wLayerGeoms ++ [kw "End"])
  | .density ls => kw "Density" :: (ls.flatMap wDensityLayer ++ [kw "End"])
  | .pin n ss => wPinStmts n ss
  | .prop p => wProp p

def mstmtOk (ver : Dec) : MStmt → Bool
  | .cls c => classOk c
  | .foreign f => foreignOk f
  | .origin p => ptOk p
  | .source e => isVariant "LefDefSource" e && !(v5p4.lt ver)
  | .size s => sizeOk s
  | .symmetry ss => symOk ss
  | .obs ls => ls.all lgOk
  | .density ls => ls.all dlOk
  | .pin _ ss => ss.all pstmtOk
  | _ => true

def applyM (m : Macro) : MStmt → Macro
  | .cls c => { m with cls := some c }
  | .fixedMask => { m with fixedMask := true }
  | .foreign f => { m with foreign := some f }
  | .origin p => { m with origin := some p }
  | .source e => { m with source := some e }
  | .eeq v => { m with eeq := some v }
  | .size s => { m with size := some s }
  | .symmetry ss => { m with symmetry := some ss }
  | .site v => { m with site := some v }
  | .obs ls => { m with obs := ls }
  | .density ls => { m with density := some ls }
  | .pin n ss => { m with pins := m.pins ++ [ss.foldl applyP (emptyPin n)] }
  | .prop p => { m with properties := m.properties ++ [p] }

theorem wMStmt_length (s : MStmt) : 1 ≤ (wMStmt s).length := by
  cases s <;> simp [wMStmt, wMacroClass, wForeign, wSymmetry, wPinStmts, wProp]

theorem flatMap_wMStmt_length (ss : List MStmt) : ss.length ≤ (ss.flatMap wMStmt).length := by
  induction ss with
  | nil => simp
  | cons a r ih =>
    have := wMStmt_length a
    simp only [List.flatMap_cons, List.length_append, List.length_cons]; omega

/-- one macro statement, any macro state, any continuation -/
theorem macroBody_stmt (ver : Dec) (f : Nat) (m : Macro) (s : MStmt) (T : List Tok) (h : mstmtOk ver s = true) :
    macroBody ver (f + 1) m (wMStmt s ++ T) = macroBody ver f (applyM m s) T := by
  cases s with
  | cls c => exact mac_class ver f m c T h
  | fixedMask => exact mac_fixedmask ver f m T
  | foreign fr => exact mac_foreign ver f m fr T h
  | origin p => simpa [wMStmt, applyM] using mac_origin ver f m p T h
  | source e =>
    simp only [mstmtOk, Bool.and_eq_true, Bool.not_eq_true'] at h
    exact mac_source ver f m e T h.1 h.2
  | eeq v => exact mac_eeq ver f m v T
  | size s =>
    simp only [mstmtOk, sizeOk, Bool.and_eq_true] at h
    exact mac_size ver f m s T h.1 h.2
  | symmetry ss => exact mac_symmetry ver f m ss T h
  | site v => exact mac_site ver f m v T
  | obs ls => simpa [wMStmt, applyM] using mac_obs ver f m ls T h
  | density ls => simpa [wMStmt, applyM] using mac_density ver f m ls T h
  | pin n ss =>
    have hp := c04_pin_any_order n ss T h
    have hpk : peekKey (wPinStmts n ss ++ T) = some "Pin" := by
      simp only [wPinStmts, List.cons_append]; exact peekKey_kw _ _ k_Pin
    have hl : T.length < (wPinStmts n ss ++ T).length := by
      simp only [wPinStmts, List.length_append, List.length_cons, List.cons_append]; omega
    simp only [wMStmt, applyM]
    generalize wPinStmts n ss ++ T = ts at hp hpk hl
    rw [macroBody]; simp [hpk, hp, hl]
  | prop p =>
    have := mac_props ver T [p] m (f + 1) (by simp)
    simpa [wMStmt, applyM] using this

theorem macroBody_stmts (ver : Dec) (T : List Tok) : ∀ (ss : List MStmt) (m : Macro) (f : Nat), ss.length ≤ f →
    ss.all (mstmtOk ver) = true →
    macroBody ver f m (ss.flatMap wMStmt ++ T) = macroBody ver (f - ss.length) (ss.foldl applyM m) T := by
  intro ss
  induction ss with
  | nil => intro m f _ _; simp
  | cons s r ih =>
    intro m f hf hok
    obtain ⟨n, rfl⟩ : ∃ n, f = n + 1 := ⟨f - 1, by simp at hf; omega⟩
    simp only [List.all_cons, Bool.and_eq_true] at hok
    simp only [List.flatMap_cons, List.append_assoc, List.foldl_cons]
    rw [macroBody_stmt ver n m s _ hok.1, ih _ n (by simp at hf; omega) hok.2]
    simp [Nat.add_sub_add_right]

def emptyMacro (n : Str) : Macro := ⟨n, [], [], none, none, none, none, none, none, none, none, false, [], none⟩

def wMacroStmts (n : Str) (ss : List MStmt) : List Tok :=
  kw "Macro" :: ident n :: (ss.flatMap wMStmt ++ [kw "End", ident n])

/-- **Every order, every repetition**: the reader model reads a MACRO block whose statements (pins given as
    statement sequences of their own) come in ANY sequence to the fold of the per-statement updates. -/
theorem c04_macro_any_order (ver : Dec) (n : Str) (ss : List MStmt) (T : List Tok) (h : ss.all (mstmtOk ver) = true) :
    macro_ ver (wMacroStmts n ss ++ T) = some (ss.foldl applyM (emptyMacro n), T) := by
  have hl := flatMap_wMStmt_length ss
  have hb := macroBody_stmts ver (kw "End" :: ident n :: T) ss (emptyMacro n)
    ((ss.flatMap wMStmt ++ kw "End" :: ident n :: T).length + 1) (by simp only [List.length_append, List.length_cons]; omega) h
  obtain ⟨g, hg⟩ : ∃ g, (ss.flatMap wMStmt ++ kw "End" :: ident n :: T).length + 1 - ss.length = g + 1 :=
    ⟨(ss.flatMap wMStmt ++ kw "End" :: ident n :: T).length - ss.length, by simp only [List.length_append, List.length_cons]; omega⟩
  rw [hg, mac_end] at hb
  have hsplit : wMacroStmts n ss ++ T = kw "Macro" :: ident n :: (ss.flatMap wMStmt ++ kw "End" :: ident n :: T) := by
    simp [wMacroStmts]
  rw [hsplit]
  unfold macro_
  simp only [expectKey_kw "Macro" _ k_Macro, getName_ident, Option.bind_eq_bind, Option.bind_some]
  rw [show (⟨n, [], [], none, none, none, none, none, none, none, none, false, [], none⟩ : Macro) = emptyMacro n from rfl, hb]
  simp [expectIdent, getName_ident]

def MStmt.cls? : MStmt → Option (String × Option String × Bool) | .cls d => some d | _ => none
def MStmt.fixedMask? : MStmt → Option Unit | .fixedMask => some () | _ => none
def MStmt.foreign? : MStmt → Option Foreign | .foreign d => some d | _ => none
def MStmt.origin? : MStmt → Option Pt | .origin d => some d | _ => none
def MStmt.source? : MStmt → Option String | .source d => some d | _ => none
def MStmt.eeq? : MStmt → Option Str | .eeq d => some d | _ => none
def MStmt.size? : MStmt → Option (Dec × Dec) | .size d => some d | _ => none
def MStmt.symmetry? : MStmt → Option (List String) | .symmetry d => some d | _ => none
def MStmt.site? : MStmt → Option Str | .site d => some d | _ => none
def MStmt.obs? : MStmt → Option (List LayerGeoms) | .obs d => some d | _ => none
def MStmt.density? : MStmt → Option (List DensityGeoms) | .density d => some d | _ => none
def MStmt.pin? : MStmt → Option Pin | .pin n ss => some (ss.foldl applyP (emptyPin n)) | _ => none
def MStmt.prop? : MStmt → Option Prop' | .prop d => some d | _ => none

def collectM (m : Macro) (ss : List MStmt) : Macro :=
  { name := m.name
    pins := m.pins ++ ss.filterMap MStmt.pin?
    obs := (lastO (ss.filterMap MStmt.obs?) (some m.obs)).getD []
    cls := lastO (ss.filterMap MStmt.cls?) m.cls
    foreign := lastO (ss.filterMap MStmt.foreign?) m.foreign
    origin := lastO (ss.filterMap MStmt.origin?) m.origin
    size := lastO (ss.filterMap MStmt.size?) m.size
    symmetry := lastO (ss.filterMap MStmt.symmetry?) m.symmetry
    site := lastO (ss.filterMap MStmt.site?) m.site
    source := lastO (ss.filterMap MStmt.source?) m.source
    eeq := lastO (ss.filterMap MStmt.eeq?) m.eeq
    fixedMask := m.fixedMask || (ss.filterMap MStmt.fixedMask?).length != 0
    properties := m.properties ++ ss.filterMap MStmt.prop?
    density := lastO (ss.filterMap MStmt.density?) m.density }

theorem c04_macro_fold_fields : ∀ (ss : List MStmt) (m : Macro), ss.foldl applyM m = collectM m ss := by
  intro ss
  induction ss with
  | nil => intro m; simp [collectM]
  | cons s r ih =>
    intro m
    rw [List.foldl_cons, ih]
    cases s <;> simp [collectM, applyM, List.filterMap_cons, MStmt.cls?, MStmt.fixedMask?, MStmt.foreign?, MStmt.origin?, MStmt.source?, MStmt.eeq?,
      MStmt.size?, MStmt.symmetry?, MStmt.site?, MStmt.obs?, MStmt.density?, MStmt.pin?, MStmt.prop?]

def OnceM (ss : List MStmt) : Prop :=
  (ss.filterMap MStmt.cls?).length ≤ 1 ∧ (ss.filterMap MStmt.foreign?).length ≤ 1 ∧ (ss.filterMap MStmt.origin?).length ≤ 1 ∧
  (ss.filterMap MStmt.source?).length ≤ 1 ∧ (ss.filterMap MStmt.eeq?).length ≤ 1 ∧ (ss.filterMap MStmt.size?).length ≤ 1 ∧
  (ss.filterMap MStmt.symmetry?).length ≤ 1 ∧ (ss.filterMap MStmt.site?).length ≤ 1 ∧ (ss.filterMap MStmt.obs?).length ≤ 1 ∧
  (ss.filterMap MStmt.density?).length ≤ 1

def SameListsM (ss ss' : List MStmt) : Prop :=
  ss.filterMap MStmt.pin? = ss'.filterMap MStmt.pin? ∧ ss.filterMap MStmt.prop? = ss'.filterMap MStmt.prop?

theorem c04_macro_fold_order_free (ss ss' : List MStmt) (m : Macro) (hp : ss.Perm ss') (hl : SameListsM ss ss') (ho : OnceM ss) :
    ss.foldl applyM m = ss'.foldl applyM m := by
  rw [c04_macro_fold_fields, c04_macro_fold_fields]
  obtain ⟨l1, l2⟩ := hl
  obtain ⟨o1, o2, o3, o4, o5, o6, o7, o8, o9, o10⟩ := ho
  unfold collectM
  rw [l1, l2, perm_short_eq (hp.filterMap MStmt.cls?) o1, perm_short_eq (hp.filterMap MStmt.foreign?) o2,
    perm_short_eq (hp.filterMap MStmt.origin?) o3, perm_short_eq (hp.filterMap MStmt.source?) o4,
    perm_short_eq (hp.filterMap MStmt.eeq?) o5, perm_short_eq (hp.filterMap MStmt.size?) o6,
    perm_short_eq (hp.filterMap MStmt.symmetry?) o7, perm_short_eq (hp.filterMap MStmt.site?) o8,
    perm_short_eq (hp.filterMap MStmt.obs?) o9, perm_short_eq (hp.filterMap MStmt.density?) o10,
    (hp.filterMap MStmt.fixedMask?).length_eq]

/-- **Order freedom for MACRO blocks**: any permutation of the statements that keeps PINs and PROPERTYs in
    their relative order (scalar statements occurring once; FIXEDMASK may repeat) is read to the same macro.
    Because a pin statement is compared through the pin it is read to (`MStmt.pin?`), the statements INSIDE
    each pin may be permuted as well (`c04_pin_fold_order_free`). -/
theorem c04_macro_order_free (ver : Dec) (n : Str) (ss ss' : List MStmt) (T : List Tok) (h : ss.all (mstmtOk ver) = true)
    (h' : ss'.all (mstmtOk ver) = true) (hp : ss.Perm ss') (hl : SameListsM ss ss') (ho : OnceM ss) :
    macro_ ver (wMacroStmts n ss ++ T) = macro_ ver (wMacroStmts n ss' ++ T) := by
  rw [c04_macro_any_order ver n ss T h, c04_macro_any_order ver n ss' T h', c04_macro_fold_order_free ss ss' _ hp hl ho]

/-! ## Renderings: which statement sequences SAY a given pin / macro

`RendersP ss p`: the sequence `ss` contains exactly the statements of `p` — every list-valued field's entries in
their order, every present scalar exactly once, nothing else — in ANY interleaving.  This is what an independent
LEF renderer may emit for `p`.  `c04_pin_reads_back` / `c04_macro_reads_back`: the reader model returns exactly
`p` / `m` for every such sequence (C04's "reading that text yields exactly that library" for the statement-order
freedom).  `rendersP_canon` / `rendersM_canon`: every pin / macro has a rendering (the writer's order), so the
hypotheses are satisfiable for every object. -/

def RendersP (ss : List PStmt) (p : Pin) : Prop :=
  ss.filterMap PStmt.port? = p.ports ∧ ss.filterMap PStmt.prop? = p.properties ∧ ss.filterMap PStmt.antenna? = p.antennaAttrs ∧
  ss.filterMap PStmt.dir? = p.direction.toList ∧ ss.filterMap PStmt.use? = p.use_.toList ∧ ss.filterMap PStmt.shape? = p.shape.toList ∧
  ss.filterMap PStmt.amodel? = p.antennaModel.toList ∧ ss.filterMap PStmt.taper? = p.taperRule.toList ∧
  ss.filterMap PStmt.supply? = p.supplySensitivity.toList ∧ ss.filterMap PStmt.ground? = p.groundSensitivity.toList ∧
  ss.filterMap PStmt.mustjoin? = p.mustJoin.toList ∧ ss.filterMap PStmt.netexpr? = p.netExpr.toList

theorem c04_pin_renders (p : Pin) (ss : List PStmt) (h : RendersP ss p) : ss.foldl applyP (emptyPin p.name) = p := by
  rw [c04_pin_fold_fields]
  obtain ⟨h1, h2, h3, h4, h5, h6, h7, h8, h9, h10, h11, h12⟩ := h
  unfold collectP
  rw [h1, h2, h3, h4, h5, h6, h7, h8, h9, h10, h11, h12]
  cases p; simp [emptyPin]

/-- **A pin block is read back exactly, whatever order its statements are rendered in.** -/
theorem c04_pin_reads_back (p : Pin) (ss : List PStmt) (T : List Tok) (hok : ss.all pstmtOk = true) (h : RendersP ss p) :
    pin (wPinStmts p.name ss ++ T) = some (p, T) := by
  rw [c04_pin_any_order p.name ss T hok, c04_pin_renders p ss h]

/-- the writer's order -/
def canonPStmts (p : Pin) : List PStmt :=
  (p.direction.toList.map .dir) ++ (p.use_.toList.map .use) ++ (p.shape.toList.map .shape) ++ (p.antennaModel.toList.map .amodel) ++
  (p.antennaAttrs.map .antenna) ++ (p.taperRule.toList.map .taper) ++ (p.supplySensitivity.toList.map .supply) ++
  (p.groundSensitivity.toList.map .ground) ++ (p.mustJoin.toList.map .mustjoin) ++ (p.netExpr.toList.map .netexpr) ++
  (p.properties.map .prop) ++ (p.ports.map .port)

theorem rendersP_canon (p : Pin) : RendersP (canonPStmts p) p := by
  simp [RendersP, canonPStmts, List.filterMap_append, List.filterMap_map, Function.comp_def, PStmt.dir?, PStmt.use?,
      PStmt.shape?, PStmt.amodel?, PStmt.taper?, PStmt.supply?, PStmt.ground?, PStmt.mustjoin?, PStmt.netexpr?, PStmt.port?,
      PStmt.prop?, PStmt.antenna?]

def obsList (ls : List LayerGeoms) : List (List LayerGeoms) := if ls.isEmpty then [] else [ls]

def RendersM (ss : List MStmt) (m : Macro) : Prop :=
  ss.filterMap MStmt.pin? = m.pins ∧ ss.filterMap MStmt.prop? = m.properties ∧
  ss.filterMap MStmt.cls? = m.cls.toList ∧ ss.filterMap MStmt.foreign? = m.foreign.toList ∧ ss.filterMap MStmt.origin? = m.origin.toList ∧
  ss.filterMap MStmt.source? = m.source.toList ∧ ss.filterMap MStmt.eeq? = m.eeq.toList ∧ ss.filterMap MStmt.size? = m.size.toList ∧
  ss.filterMap MStmt.symmetry? = m.symmetry.toList ∧ ss.filterMap MStmt.site? = m.site.toList ∧
  ss.filterMap MStmt.density? = m.density.toList ∧ ss.filterMap MStmt.obs? = obsList m.obs ∧
  ((ss.filterMap MStmt.fixedMask?).length != 0) = m.fixedMask

theorem c04_macro_renders (m : Macro) (ss : List MStmt) (h : RendersM ss m) : ss.foldl applyM (emptyMacro m.name) = m := by
  rw [c04_macro_fold_fields]
  obtain ⟨h1, h2, h3, h4, h5, h6, h7, h8, h9, h10, h11, h12, h13⟩ := h
  unfold collectM
  rw [h1, h2, h3, h4, h5, h6, h7, h8, h9, h10, h11, h12, h13]
  obtain ⟨name, pins, obs, cls, foreign, origin, size, symmetry, site, source, eeq, fixedMask, props, density⟩ := m
  cases obs <;> simp [emptyMacro, obsList]

/-- **A macro block is read back exactly, whatever order its statements — and the statements of each of its
    pins — are rendered in**: no statement is dropped, merged or attached to the wrong object. -/
theorem c04_macro_reads_back (ver : Dec) (m : Macro) (ss : List MStmt) (T : List Tok) (hok : ss.all (mstmtOk ver) = true)
    (h : RendersM ss m) : macro_ ver (wMacroStmts m.name ss ++ T) = some (m, T) := by
  rw [c04_macro_any_order ver m.name ss T hok, c04_macro_renders m ss h]

/-- the writer's order; each pin in the writer's order too -/
def canonMStmts (m : Macro) : List MStmt :=
  (m.cls.toList.map .cls) ++ (if m.fixedMask then [.fixedMask] else []) ++ (m.foreign.toList.map .foreign) ++
  (m.origin.toList.map .origin) ++ (m.source.toList.map .source) ++ (m.eeq.toList.map .eeq) ++ (m.size.toList.map .size) ++
  (m.symmetry.toList.map .symmetry) ++ (m.site.toList.map .site) ++ (m.pins.map fun p => .pin p.name (canonPStmts p)) ++
  ((obsList m.obs).map .obs) ++ (m.properties.map .prop) ++ (m.density.toList.map .density)

theorem rendersM_canon (m : Macro) : RendersM (canonMStmts m) m := by
  have hpins : ∀ ps : List Pin, List.filterMap (fun p : Pin => some ((canonPStmts p).foldl applyP (emptyPin p.name))) ps = ps := by
    intro ps
    induction ps with
    | nil => rfl
    | cons a r ih => simp [List.filterMap_cons, ih, c04_pin_renders a _ (rendersP_canon a)]
  obtain ⟨name, pins, obs, cls, foreign, origin, size, symmetry, site, source, eeq, fixedMask, props, density⟩ := m
  cases fixedMask <;> cases obs <;>
    simp [RendersM, canonMStmts, obsList, List.filterMap_append, List.filterMap_map, Function.comp_def, List.filterMap_cons,
      MStmt.cls?, MStmt.fixedMask?, MStmt.foreign?, MStmt.origin?, MStmt.source?, MStmt.eeq?,
      MStmt.size?, MStmt.symmetry?, MStmt.site?, MStmt.obs?, MStmt.density?, MStmt.pin?, MStmt.prop?, hpins]

/-! ### the writer's order is one of the renderings -/

theorem flatMap_toList {α : Type} (o : Option α) (w : α → List Tok) : o.toList.flatMap w = opt o w := by
  cases o <;> simp [opt]

/-- **the writer's own token sequence for a pin IS one of the renderings** the order theorems speak about: the
    canonical statement list in the writer's order -/
theorem wPin_is_rendering (p : Pin) : wPin p = wPinStmts p.name (canonPStmts p) := by
  rw [wPin_eq]
  simp only [wPinStmts, canonPStmts, List.flatMap_append, List.flatMap_map, wPStmt, flatMap_toList, List.append_assoc,
    List.cons_append, List.nil_append]

theorem flatMap_pins (ps : List Pin) :
    (ps.map fun p => MStmt.pin p.name (canonPStmts p)).flatMap wMStmt = ps.flatMap wPin := by
  induction ps with
  | nil => rfl
  | cons a r ih => simp only [List.map_cons, List.flatMap_cons, ih, wMStmt, wPin_is_rendering]

/-- … and the writer's token sequence for a MACRO is the rendering `canonMStmts`: the canonical round trip of C05
    (`macro_w`) is the instance "writer's order" of `c04_macro_reads_back` -/
theorem wMacroToks_is_rendering (m : Macro) : wMacroToks m = wMacroStmts m.name (canonMStmts m) := by
  have hp : (fun a : Pin => wPinStmts a.name (canonPStmts a)) = wPin := funext fun a => (wPin_is_rendering a).symm
  have ho : wOrigin = fun a => kw "Origin" :: (wPt a ++ [semiTok]) := by funext a; simp [wOrigin]
  have hd : wDensity' = fun a => kw "Density" :: (List.flatMap wDensityLayer a ++ [kw "End"]) := by funext a; simp [wDensity']
  obtain ⟨name, pins, obs, cls, foreign, origin, size, symmetry, site, source, eeq, fixedMask, props, density⟩ := m
  cases fixedMask <;> cases obs <;>
    simp [wMacroToks, wMacroStmts, canonMStmts, List.flatMap_append, List.flatMap_map, flatMap_toList, wMStmt,
      obsList, wObs, Function.comp_def, hp, ho, hd]

/-! non-vacuity: a pin with USE before DIRECTION and a port between them, against the writer's order -/
example : pin (wPinStmts ['a'] [.use "Signal", .port ⟨none, []⟩, .dir ("Input", false)] ++ []) =
    pin (wPinStmts ['a'] [.dir ("Input", false), .use "Signal", .port ⟨none, []⟩] ++ []) :=
  c04_pin_order_free _ _ _ _ (by decide +kernel)
    ((List.Perm.cons _ (List.Perm.swap _ _ _)).trans (List.Perm.swap _ _ _))
    ⟨rfl, rfl, rfl⟩ (by unfold OnceP; decide)

end L21.Lef
