import L21.Proofs.Gds
import L21.Proofs.GdsFuel
import L21.Proofs.GdsImage
/-
C10 — The GDSII reader never crashes or hangs on any input bytes.

In the model every indexing / `unwrap` site of the reader is an explicit table-guarded step:
`bytes[0], bytes[1]` (bit arrays), `read_i16(len)?[0]`, `d[0], d[1]`, `v[0], v[1]`,
`try_into().unwrap()` on 12 / 6 element vectors.  They cannot fail iff every row of the
(regenerated) read table fixes the payload length its layout needs — `c10_read_rows_safe`.
-/
namespace L21.Gds
open L21

/-- a read-table row never lets an index or fixed-size conversion run past the payload -/
def readRowSafe (r : Nat × Nat × Option Nat × PK) : Bool :=
  match r.2.2.2, r.2.2.1 with
  | .none, some 0 => true
  | .bits, some 2 => true
  | .i16 n, some k => k == 2 * n && 0 < n
  | .i32 n, some k => k == 4 * n && 0 < n
  | .f64 n, some k => k == 8 * n && 0 < n
  | .str, none => true
  | .i32vec, none => true
  | _, _ => false

theorem c10_read_rows_safe : Gen.gdsReadTable.all readRowSafe = true := by decide

/-- Progress: every successfully decoded record consumes at least its four header bytes, so a
    stream of n bytes holds at most n/4 records — the reader's work is linear in the input. -/
theorem c10_progress (bs rest : Bytes) (r : Rec) (h : readRecord bs = .ok (r, rest)) :
    rest.length + 4 ≤ bs.length := by
  unfold readRecord at h
  match bs, h with
  | l0 :: l1 :: rt :: dt :: rest3, h =>
    simp only at h
    split at h
    · simp at h
    · split at h
      · simp at h
      · split at h
        · simp at h
        · split at h
          · simp at h
          · split at h
            · simp at h
            · split at h
              · simp at h
              · rename_i row _
                split at h
                · simp at h
                · split at h
                  · rename_i pl hpl
                    simp at h
                    obtain ⟨_, rfl⟩ := h
                    simp <;> omega
                  · simp at h
  | [_, _, _], h => simp at h
  | [_, _], h => simp at h
  | [_], h => simp at h
  | [], h => simp at h

/-- The tokenizer's fuel is never the reason for an error: with any budget of at least
    ⌊len/4⌋+1 steps the result is the same as with more (no hang, no bound on input size). -/
theorem tokenize_fuel_mono : ∀ (fuel : Nat) (bs : Bytes), bs.length / 4 + 1 ≤ fuel →
    tokenize (fuel + 1) bs = tokenize fuel bs := by
  intro fuel
  induction fuel with
  | zero => intro bs h; omega
  | succ f ih =>
    intro bs h
    rw [tokenize, tokenize]
    cases hr : readRecord bs with
    | err => rfl
    | ok p =>
      obtain ⟨r, rest⟩ := p
      simp only
      by_cases he : r.rt = rEndLib
      · simp [he]
      · simp only [he, if_false]
        have hp := c10_progress bs rest r hr
        rw [ih rest (by omega)]

/-- A stream that ends before its end-of-library record is never accepted: whatever `dec`
    accepts has been tokenised into records the last of which is ENDLIB. -/
theorem tokenize_ends_endlib : ∀ (fuel : Nat) (bs : Bytes) (recs : List Rec), tokenize fuel bs = .ok recs →
    ∃ pre, recs = pre ++ [⟨rEndLib, (recs.getLast?.map (·.pl)).getD .none⟩] ∧ ∀ r ∈ pre, r.rt ≠ rEndLib := by
  intro fuel
  induction fuel with
  | zero => intro bs recs h; simp [tokenize] at h
  | succ f ih =>
    intro bs recs h
    rw [tokenize] at h
    cases hr : readRecord bs with
    | err => simp [hr] at h
    | ok p =>
      obtain ⟨r, rest⟩ := p
      simp only [hr] at h
      by_cases he : r.rt = rEndLib
      · simp [he] at h; subst h
        refine ⟨[], ?_, by simp⟩
        cases r; simp_all
      · simp only [he, if_false] at h
        cases ht : tokenize f rest with
        | err => simp [ht] at h
        | ok rs =>
          simp [ht] at h; subst h
          obtain ⟨pre, e, hn⟩ := ih rest rs ht
          have hne : rs ≠ [] := by rw [e]; simp
          refine ⟨r :: pre, ?_, ?_⟩
          · rw [List.getLast?_cons_of_ne_nil hne]
            conv => lhs; rw [e]
            simp
          · intro x hx
            rcases List.mem_cons.1 hx with rfl | hx
            · exact he
            · exact hn x hx

theorem c10_needs_endlib (bs : Bytes) (l : Library) (h : dec bs = .ok l) :
    ∃ recs pre pl, tokenize (bs.length / 4 + 1) bs = .ok recs ∧ recs = pre ++ [⟨rEndLib, pl⟩] := by
  unfold dec at h
  cases ht : tokenize (bs.length / 4 + 1) bs with
  | err => simp [ht] at h
  | ok recs =>
    obtain ⟨pre, e, _⟩ := tokenize_ends_endlib _ bs recs ht
    exact ⟨recs, pre, _, rfl, e⟩

/-- No outcome other than a library or an error exists in the model of the reader (`Out` has two
    constructors); together with `c10_read_rows_safe` (index sites) and `tokenize_fuel_mono`
    (termination) this is the model-level "never panics, never hangs". -/
theorem c10_total (bs : Bytes) : (∃ l, dec bs = .ok l) ∨ dec bs = .err := by
  cases h : dec bs with
  | ok l => exact Or.inl ⟨l, rfl⟩
  | err => exact Or.inr rfl

/-- **parser-level budgets are never exhausted.**  The three record-level loops (`parse_lib`,
    `parse_struct`, the per-element loops) are started with `remaining records + 1`; with any larger
    budget each gives the same answer, so no error of the model is caused by the budget and every
    iteration consumes at least one record (linear work in the number of records). -/
theorem c10_parser_fuel (n : Nat) (rs : List Rec) :
    (∀ v d lb, parseLibBody v d (rs.length + 1 + n) lb rs = parseLibBody v d (rs.length + 1) lb rs) ∧
    (∀ acc, parseElems (rs.length + 1 + n) acc rs = parseElems (rs.length + 1) acc rs) ∧
    (∀ k b, parseElem k (rs.length + 1 + n) b rs = parseElem k (rs.length + 1) b rs) :=
  ⟨fun v d lb => parseLibBody_fuel_any v d lb rs n, fun acc => parseElems_fuel_any acc rs n,
   fun k b => parseElem_fuel_any k b rs n⟩

theorem c01_roundtrip_aux (l : Library) (bs : Bytes) (h : enc l = .ok bs) (hshape : libOk l = true)
    (hrange : ∀ r ∈ libRecs l, recOk r) : dec bs = .ok (canonLib l) := dec_enc l bs h hshape hrange

/-- **every library the reader returns can be written again** — for ANY byte string (bytes are
    numbers below 256).  Each record of the returned tree was copied from a record of the input —
    whose integers, flags and strings are therefore in range, whose reals passed the reader's
    representability check (fix 353fd70), whose length fitted a 16-bit length field — or is one of
    the payload-free records / STRANS flag records the writer synthesises. -/
theorem c10_rewritable (bs : Bytes) (l : Library) (hb : BytesOk bs) (h : dec bs = .ok l) : ∃ bs', enc l = .ok bs' := by
  obtain ⟨_, hg⟩ := dec_image bs l hb h
  exact encRecords_ok _ (fun r hr => (hg r hr).2)

/-- **… and read back to the same value** (−0.0 is read as +0.0, both are the all-zero real).
    `_partial`: the hypothesis `hreal` excludes exactly the reals that C01/C15 exclude — finite
    doubles below 16^-65 that happen to be exact denormalised GDSII reals; the reader does return
    such values (correspondence and the C10 oracle cover them), the theorem does not. -/
theorem c10_reencodable_partial (bs : Bytes) (l : Library) (hb : BytesOk bs) (h : dec bs = .ok l)
    (hreal : (libRecs l).all realsOkB = true) :
    ∃ bs', enc l = .ok bs' ∧ dec bs' = .ok (canonLib l) := by
  obtain ⟨hshape, hg⟩ := dec_image bs l hb h
  obtain ⟨bs', he⟩ := encRecords_ok _ (fun r hr => (hg r hr).2)
  refine ⟨bs', he, c01_roundtrip_aux l bs' he hshape ?_⟩
  intro r hr
  exact recOk_of_B r (recOkB_of_parts r (hg r hr).1 (List.all_eq_true.1 hreal r hr))

/-! non-vacuity -/
example : dec [0,6,0,2,0,3,0,28,1,2,0,0,0,0,0,0,0,0,0,0,0,0,0,0,0,0,0,0,0,0,0,0,0,0,0,6,2,6,97,0,0,20,3,5,62,65,137,55,75,198,167,240,57,68,184,47,160,155,90,84,0,4,4,0]
    = .ok ⟨[0x61], 3, [0,0,0,0,0,0,0,0,0,0,0,0], (0x3f50624dd2f1a9fc, 0x3e112e0be826d695), []⟩ := by decide
/-- the theorems' hypotheses are met by the stream above: it is re-encodable by `c10_reencodable_partial` -/
example : ∃ bs', enc ⟨[0x61], 3, [0,0,0,0,0,0,0,0,0,0,0,0], (0x3f50624dd2f1a9fc, 0x3e112e0be826d695), []⟩ = .ok bs' ∧
    dec bs' = .ok (canonLib ⟨[0x61], 3, [0,0,0,0,0,0,0,0,0,0,0,0], (0x3f50624dd2f1a9fc, 0x3e112e0be826d695), []⟩) :=
  c10_reencodable_partial [0,6,0,2,0,3,0,28,1,2,0,0,0,0,0,0,0,0,0,0,0,0,0,0,0,0,0,0,0,0,0,0,0,0,0,6,2,6,97,0,0,20,3,5,62,65,137,55,75,198,167,240,57,68,184,47,160,155,90,84,0,4,4,0] _
    (by intro b hb; revert b; decide) (by decide) (by decide)
-- truncated before ENDLIB: error
example : dec [0,6,0,2,0,3, 0,28,1,2] = .err := by decide

end L21.Gds
