import L21.Proofs.Dep
import L21.Proofs.DepComplete
import L21.Proofs.DepReach
/-
C17 — Dependency orderings are complete, duplicate-free and dependencies-first.

`order adj fuel items` models `DepOrder::order` (and the three hand-rolled copies) over an
arbitrary finite digraph given by its adjacency function; see `L21/Model/Dep.lean`.
-/
namespace L21.Dep

variable (adj : Nat → List Nat)

/-- Every ordering produced: no duplicates; contains exactly the items reachable from the
    listed ones; every direct dependency of an element occurs strictly before it.
    Holds for every graph, every listing order and every sharing structure. -/
theorem c17_sound (fuel : Nat) (items out : List Nat) (h : order adj fuel items = .ok out) :
    out.Nodup ∧
    (∀ x, x ∈ out ↔ ∃ i ∈ items, Reach adj i x) ∧
    (∀ l1 x l2, out = l1 ++ x :: l2 → ∀ d ∈ adj x, d ∈ l1) := by
  obtain ⟨ht, ⟨t, e, _, r⟩, m⟩ := (specs adj fuel).2 items [] [] out h Topo.nil
  simp at e; subst e
  refine ⟨ht.nodup, ?_, ht.deps_before⟩
  intro x
  constructor
  · intro hx; exact r x hx
  · rintro ⟨i, hi, ri⟩; exact ht.reach_closed (m i hi) ri

/-- If a cycle (self-loops included) is reachable from the listed items, no ordering is produced. -/
theorem c17_cycle_error (fuel : Nat) (items : List Nat)
    (hc : ∃ i ∈ items, ∃ x, Reach adj i x ∧ ∃ d ∈ adj x, Reach adj d x) :
    ∀ out, order adj fuel items ≠ .ok out := by
  intro out h
  obtain ⟨ht, _, m⟩ := (specs adj fuel).2 items [] [] out h Topo.nil
  obtain ⟨i, hi, x, rx, d, hd, rd⟩ := hc
  exact ht.acyclic x (ht.reach_closed (m i hi) rx) d hd rd

/-- The recursion never goes deeper than the number of nodes: with a budget of `n + 1`
    frames on a graph with nodes `< n` the budget is never exhausted
    ("does not recurse without bound"). -/
theorem c17_depth (n : Nat) (items : List Nat) (hb : Bounded adj n) (hi : ∀ i ∈ items, i < n) :
    order adj (n + 1) items ≠ .fuel :=
  (noFuel adj n hb (n + 1)).2 items [] [] hi List.nodup_nil (by simp) (by simp)

/-- An error is reported only when the graph really contains a cycle. -/
theorem c17_error_means_cycle (fuel : Nat) (items : List Nat) (h : order adj fuel items = .cycle) :
    HasCycle adj :=
  (cyc adj fuel).2 items [] [] h Chain.nil trivial

/-- … and that cycle is one the listed items reach: exactly the hypothesis of `c17_cycle_error`.
    Together: with a sufficient budget, an error is reported if and only if a cycle (self-loops
    included) is reachable from the listed items. -/
theorem c17_error_cycle_reachable (fuel : Nat) (items : List Nat) (h : order adj fuel items = .cycle) :
    ∃ i ∈ items, ∃ x, Reach adj i x ∧ ∃ d ∈ adj x, Reach adj d x :=
  order_cycle_reachable adj fuel items h

theorem c17_error_iff (n : Nat) (items : List Nat) (hb : Bounded adj n) (hi : ∀ i ∈ items, i < n) :
    order adj (n + 1) items = .cycle ↔ ∃ i ∈ items, ∃ x, Reach adj i x ∧ ∃ d ∈ adj x, Reach adj d x := by
  constructor
  · exact c17_error_cycle_reachable adj _ items
  · intro hc
    cases h : order adj (n + 1) items with
    | ok out => exact absurd h (c17_cycle_error adj _ items hc out)
    | cycle => rfl
    | fuel => exact absurd h (c17_depth adj n items hb hi)

/-- Totality on finite graphs: an ordering (with all the guarantees of `c17_sound`), or an
    error together with an actual cycle; nothing else. -/
theorem c17_total (n : Nat) (items : List Nat) (hb : Bounded adj n) (hi : ∀ i ∈ items, i < n) :
    (∃ out, order adj (n + 1) items = .ok out) ∨ (order adj (n + 1) items = .cycle ∧ HasCycle adj) := by
  cases h : order adj (n + 1) items with
  | ok out => exact Or.inl ⟨out, rfl⟩
  | cycle => exact Or.inr ⟨rfl, c17_error_means_cycle adj _ _ h⟩
  | fuel => exact absurd h (c17_depth adj n items hb hi)

/-- On an acyclic graph the call always succeeds. -/
theorem c17_acyclic_ok (n : Nat) (items : List Nat) (hb : Bounded adj n) (hi : ∀ i ∈ items, i < n)
    (hac : ¬ HasCycle adj) : ∃ out, order adj (n + 1) items = .ok out := by
  rcases c17_total adj n items hb hi with h | ⟨_, h⟩
  · exact h
  · exact absurd h hac

/-- Listing order does not matter for the content: two listings of the same items give
    orderings with the same elements (each satisfying `c17_sound`). -/
theorem c17_listing (fuel : Nat) (items items' out out' : List Nat)
    (hperm : ∀ x, x ∈ items ↔ x ∈ items')
    (h : order adj fuel items = .ok out) (h' : order adj fuel items' = .ok out') :
    ∀ x, x ∈ out ↔ x ∈ out' := by
  intro x
  rw [(c17_sound adj fuel items out h).2.1 x, (c17_sound adj fuel items' out' h').2.1 x]
  constructor
  · rintro ⟨i, hi, r⟩; exact ⟨i, (hperm i).1 hi, r⟩
  · rintro ⟨i, hi, r⟩; exact ⟨i, (hperm i).2 hi, r⟩

/-! ### non-vacuity -/

-- a diamond with sharing, listed "users first": dependencies still come out first
example : order (adjOf [[1, 2], [3], [3], []]) 5 [0, 1, 2, 3] = .ok [3, 1, 2, 0] := by
  simp [order, pushAll, push, adjOf]
-- a self-loop and a two-cycle are errors, not orderings
example : order (adjOf [[0]]) 2 [0] = .cycle := by simp [order, pushAll, push, adjOf]
example : order (adjOf [[1], [0]]) 3 [0, 1] = .cycle := by simp [order, pushAll, push, adjOf]
example : Bounded (adjOf [[1, 2], [3], [3], []]) 4 := by
  intro x d hd
  unfold adjOf at hd
  match x, hd with
  | 0, hd => simp at hd; omega
  | 1, hd => simp at hd; omega
  | 2, hd => simp at hd; omega
  | 3, hd => simp at hd
  | n + 4, hd => simp at hd

end L21.Dep
