import L21.Gen.LefEnums
/-
Model of the keyword / enumerated-value layer of the LEF reader and writer
(`layout21utils::enumstr!`, `LefKey::parse`, `LefParser::parse_enum`) and of
`LefDbuPerMicron::try_new`.  The tables themselves are `L21.Gen.lefEnums`, regenerated from
lef21/src/data.rs on every run.
-/
namespace L21.LefEnum
open L21.Gen

abbrev Table := List (String × String)

/-- `EnumStr::to_str` -/
def toStr (tbl : Table) (variant : String) : Option String := (tbl.find? (·.1 == variant)).map (·.2)
/-- `EnumStr::from_str`: a Rust `match` — the first arm whose string equals the text wins -/
def fromStr (tbl : Table) (txt : String) : Option String := (tbl.find? (·.2 == txt)).map (·.1)

def upperC (c : Char) : Char := if 'a' ≤ c ∧ c ≤ 'z' then Char.ofNat (c.toNat - 32) else c
def lowerC (c : Char) : Char := if 'A' ≤ c ∧ c ≤ 'Z' then Char.ofNat (c.toNat + 32) else c
/-- `str::to_ascii_uppercase` -/
def upper (cs : List Char) : List Char := cs.map upperC

/-- `LefKey::parse` / `parse_enum`: upper-case, then `from_str` -/
def parse (tbl : Table) (txt : List Char) : Option String := fromStr tbl (String.ofList (upper txt))

def canonicalChar (c : Char) : Bool := ('A' ≤ c && c ≤ 'Z') || ('0' ≤ c && c ≤ '9')

/-- a decimal `mant × 10^-scale` as rust_decimal holds it -/
structure Dec where
  mant : Int
  scale : Nat
  deriving DecidableEq, Repr

def legalDbu : List Int := [100, 200, 400, 800, 1000, 2000, 4000, 8000, 10000, 20000]

/-- `LefDbuPerMicron::try_new` after fix 7f0c779: the fraction must be zero, then the integral
    VALUE (not the raw mantissa) must be one of the ten legal numbers -/
def dbuTryNew (d : Dec) : Option Int :=
  if d.mant % (10 ^ d.scale) ≠ 0 then none
  else if legalDbu.contains (d.mant / (10 ^ d.scale)) then some (d.mant / (10 ^ d.scale)) else none

end L21.LefEnum
