/-
Model of `layout21raw::geom` containment queries and `layout21raw::bbox`:
`Rect::contains`, `Polygon::contains` (bounding-box pre-check, on-edge test, winding number
with half-open y-ranges and exact cross products), `Path::contains` (one rectangle per
Manhattan segment; `unimplemented!` on a diagonal segment, index panic on an empty path).
Coordinates are unbounded `Int`; the code computes in `isize`/`i128`, which is exact for the
GDSII coordinate range (|c| < 2^31), see `Props/C13.lean`.
-/
namespace L21.Geom

structure Pt where
  x : Int
  y : Int
  deriving Repr, DecidableEq

/-- `Rect::contains` / `BoundBox::from_points(..).contains` -/
def rectContains (p0 p1 p : Pt) : Bool :=
  decide (min p0.x p1.x ≤ p.x) && decide (p.x ≤ max p0.x p1.x) &&
  decide (min p0.y p1.y ≤ p.y) && decide (p.y ≤ max p0.y p1.y)

/-- bounding box of a point vector: `Vec<Point>::bbox` then `BoundBox::contains`;
    the empty vector has the empty box, which contains nothing. -/
def minX : List Pt → Int
  | [] => 0
  | [a] => a.x
  | a :: rest => min a.x (minX rest)
def maxX : List Pt → Int
  | [] => 0
  | [a] => a.x
  | a :: rest => max a.x (maxX rest)
def minY : List Pt → Int
  | [] => 0
  | [a] => a.y
  | a :: rest => min a.y (minY rest)
def maxY : List Pt → Int
  | [] => 0
  | [a] => a.y
  | a :: rest => max a.y (maxY rest)

def inBBox (P : List Pt) (p : Pt) : Bool :=
  match P with
  | [] => false
  | _ => decide (minX P ≤ p.x) && decide (p.x ≤ maxX P) && decide (minY P ≤ p.y) && decide (p.y ≤ maxY P)

/-- exact cross product (b - a) × (p - a): > 0 iff p is left of a→b -/
def cross (a b p : Pt) : Int := (b.x - a.x) * (p.y - a.y) - (b.y - a.y) * (p.x - a.x)

/-- p lies on the closed segment ab -/
def onSeg (a b p : Pt) : Bool :=
  decide (cross a b p = 0) && decide (min a.x b.x ≤ p.x) && decide (p.x ≤ max a.x b.x) &&
  decide (min a.y b.y ≤ p.y) && decide (p.y ≤ max a.y b.y)

/-- contribution of edge a→b to the winding number of p (ray to the right, half-open y-range) -/
def edgeW (a b p : Pt) : Int :=
  if a.y ≤ p.y ∧ p.y < b.y then (if 0 < cross a b p then 1 else 0)
  else if b.y ≤ p.y ∧ p.y < a.y then (if cross a b p < 0 then -1 else 0)
  else 0

/-- consecutive pairs of a closed chain whose first vertex is `first` -/
def edgesFrom (first : Pt) : List Pt → List (Pt × Pt)
  | [] => []
  | [a] => [(a, first)]
  | a :: b :: rest => (a, b) :: edgesFrom first (b :: rest)

def edges (P : List Pt) : List (Pt × Pt) :=
  match P with
  | [] => []
  | a :: _ => edgesFrom a P

def wn (P : List Pt) (p : Pt) : Int := ((edges P).map (fun e => edgeW e.1 e.2 p)).sum

def onBoundary (P : List Pt) (p : Pt) : Bool := (edges P).any (fun e => onSeg e.1 e.2 p)

/-- `Polygon::contains` -/
def polyContains (P : List Pt) (p : Pt) : Bool :=
  inBBox P p && (onBoundary P p || decide (wn P p ≠ 0))

inductive Out (α : Type) where
  | ok (a : α)
  | panic
  deriving Repr, DecidableEq

/-- the general (non-Manhattan) segment test: projection of p on a→b falls between the end
    points and the squared distance from the line is at most (w/2)² — all in exact integers -/
def diagHit (w : Nat) (a b p : Pt) : Bool :=
  let dx := b.x - a.x
  let dy := b.y - a.y
  let vx := p.x - a.x
  let vy := p.y - a.y
  let len2 := dx * dx + dy * dy
  let along := vx * dx + vy * dy
  let cr := vx * dy - vy * dx
  decide (0 ≤ along) && decide (along ≤ len2) && decide (4 * cr * cr ≤ (w : Int) * (w : Int) * len2)

/-- `Path::contains`: one rectangle per Manhattan segment (±⌊w/2⌋ laterally, flush ends), the
    exact distance test for a diagonal segment; first hit wins; an empty path contains nothing. -/
def pathSegs (w : Nat) (p : Pt) : List Pt → Out Bool
  | [] => .ok false
  | [_] => .ok false
  | a :: b :: rest =>
    let h : Int := (w : Int) / 2
    if a.x = b.x then
      if rectContains ⟨a.x - h, a.y⟩ ⟨a.x + h, b.y⟩ p then .ok true else pathSegs w p (b :: rest)
    else if a.y = b.y then
      if rectContains ⟨a.x, a.y - h⟩ ⟨b.x, a.y + h⟩ p then .ok true else pathSegs w p (b :: rest)
    else
      if diagHit w a b p then .ok true else pathSegs w p (b :: rest)

def pathContains (pts : List Pt) (w : Nat) (p : Pt) : Out Bool := pathSegs w p pts

end L21.Geom
