import L21.Model.Geom
import L21.Model.Dep
/-
Model of `layout21raw::proto`: `ProtoExporter::export` (raw library → vlsir layout message) and
`ProtoImporter::import` (message → raw library).

Raw side: instances refer to their cell by NAME (the code holds `Ptr<Cell>`; export writes the
name, import resolves names through its `cell_map`).  Elements carry their (layer number, purpose
number) pair, i.e. the pair `export_layerspec` computes from the `Layers` table; abstract port /
blockage maps are keyed by layer number and kept as association lists sorted by layer number (the
canonical form both sides are compared in; hash-map iteration order is C20's concern).
-/
namespace L21.RawProto
open L21.Geom

abbrev Bytes := List Nat

inductive Out (α : Type) where
  | ok (a : α)
  | err
  deriving Repr, DecidableEq

inductive Shape where
  | rect (p0 p1 : Pt)
  | polygon (pts : List Pt)
  | path (pts : List Pt) (width : Nat)
  deriving Repr, DecidableEq

structure Elem where
  net : Option Bytes
  layer : Int
  purpose : Int
  shape : Shape
  deriving Repr, DecidableEq

structure Inst where
  name : Bytes
  cell : Bytes
  loc : Pt
  refl : Bool
  angle : Option Int          -- whole degrees; fractional angles are an export error (harness never sends them here)
  deriving Repr, DecidableEq

structure Layout where
  name : Bytes
  insts : List Inst
  elems : List Elem
  annotations : List (Bytes × Pt)
  deriving Repr, DecidableEq

structure Port where
  net : Bytes
  shapes : List (Int × List Shape)
  deriving Repr, DecidableEq

structure Abstract where
  name : Bytes
  outline : List Pt
  ports : List Port
  blockages : List (Int × List Shape)
  deriving Repr, DecidableEq

structure Cell where
  name : Bytes
  layout : Option Layout
  abs : Option Abstract
  deriving Repr, DecidableEq

structure Lib where
  name : Bytes
  units : Nat                  -- 0 micro, 1 nano, 2 angstrom, 3 pico
  cells : List Cell
  deriving Repr, DecidableEq

/-! ### message side -/

structure PRect where
  net : Bytes
  ll : Option Pt
  w : Int
  h : Int
  deriving Repr, DecidableEq
structure PPoly where
  net : Bytes
  verts : List Pt
  deriving Repr, DecidableEq
structure PPath where
  net : Bytes
  width : Int
  pts : List Pt
  deriving Repr, DecidableEq
structure LayerShapes where
  layer : Option (Int × Int)
  rects : List PRect
  polys : List PPoly
  paths : List PPath
  deriving Repr, DecidableEq
inductive PRef where
  | none | localRef (name : Bytes) | external
  deriving Repr, DecidableEq
structure PInst where
  name : Bytes
  ref : PRef
  origin : Option Pt
  refl : Bool
  rot : Int
  deriving Repr, DecidableEq
structure PLayout where
  name : Bytes
  insts : List PInst
  shapes : List LayerShapes
  annotations : List (Bytes × Option Pt)
  deriving Repr, DecidableEq
structure PPort where
  net : Bytes
  shapes : List LayerShapes
  deriving Repr, DecidableEq
structure PAbs where
  name : Bytes
  outline : Option PPoly
  ports : List PPort
  blockages : List LayerShapes
  deriving Repr, DecidableEq
structure PCell where
  name : Bytes
  layout : Option PLayout
  abs : Option PAbs
  deriving Repr, DecidableEq
structure PLib where
  domain : Bytes
  units : Int
  cells : List PCell
  deriving Repr, DecidableEq

/-! ### export -/

/-- `export_rect`: lower-left corner plus size -/
def exportRect (net : Bytes) (p0 p1 : Pt) : PRect :=
  let minx := min p0.x p1.x
  let miny := min p0.y p1.y
  ⟨net, some ⟨minx, miny⟩, max p0.x p1.x - minx, max p0.y p1.y - miny⟩

def netStr : Option Bytes → Bytes
  | none => []
  | some n => n

def addShape (ls : LayerShapes) (net : Bytes) : Shape → LayerShapes
  | .rect p0 p1 => { ls with rects := ls.rects ++ [exportRect net p0 p1] }
  | .polygon pts => { ls with polys := ls.polys ++ [⟨net, pts⟩] }
  | .path pts w => { ls with paths := ls.paths ++ [⟨net, (w : Int), pts⟩] }

/-- group elements by (layer, purpose) in first-seen order; inside a group by kind -/
def groupElems : List Elem → List LayerShapes → List LayerShapes
  | [], acc => acc
  | e :: rest, acc =>
    let key := (e.layer, e.purpose)
    let acc' := if acc.any (fun g => g.layer == some key)
      then acc.map (fun g => if g.layer == some key then addShape g (netStr e.net) e.shape else g)
      else acc ++ [addShape ⟨some key, [], [], []⟩ (netStr e.net) e.shape]
    groupElems rest acc'

def exportInst (i : Inst) : PInst :=
  ⟨i.name, .localRef i.cell, some i.loc, i.refl, (i.angle.getD 0)⟩

def exportLayout (l : Layout) : PLayout :=
  ⟨l.name, l.insts.map exportInst, groupElems l.elems [], l.annotations.map (fun a => (a.1, some a.2))⟩

/-- layer table rows: (layer number, Pin purpose number?, Obstruction purpose number?) -/
abbrev LayerTbl := List (Int × Option Int × Option Int)

def shapesOf (layer : Int × Int) (ss : List Shape) : LayerShapes :=
  ss.foldl (fun acc s => addShape acc [] s) ⟨some layer, [], [], []⟩

def exportLayerMap (tbl : LayerTbl) (pin : Bool) : List (Int × List Shape) → Out (List LayerShapes)
  | [] => .ok []
  | (ln, ss) :: rest =>
    match tbl.find? (fun r => r.1 == ln) with
    | none => .err
    | some row =>
      match (if pin then row.2.1 else row.2.2), exportLayerMap tbl pin rest with
      | some pn, .ok more => .ok (shapesOf (ln, pn) ss :: more)
      | _, _ => .err

def exportPorts (tbl : LayerTbl) : List Port → Out (List PPort)
  | [] => .ok []
  | p :: rest => match exportLayerMap tbl true p.shapes, exportPorts tbl rest with
    | .ok s, .ok more => .ok (⟨p.net, s⟩ :: more)
    | _, _ => .err

def exportAbs (tbl : LayerTbl) (a : Abstract) : Out PAbs :=
  match exportPorts tbl a.ports, exportLayerMap tbl false a.blockages with
  | .ok ps, .ok bs => .ok ⟨a.name, some ⟨[], a.outline⟩, ps, bs⟩
  | _, _ => .err

def exportCell (tbl : LayerTbl) (c : Cell) : Out PCell :=
  match c.abs with
  | none => .ok ⟨c.name, c.layout.map exportLayout, none⟩
  | some a => match exportAbs tbl a with
    | .ok pa => .ok ⟨c.name, c.layout.map exportLayout, some pa⟩
    | .err => .err

def exportCells (tbl : LayerTbl) : List Cell → Out (List PCell)
  | [] => .ok []
  | c :: rest => match exportCell tbl c, exportCells tbl rest with
    | .ok a, .ok b => .ok (a :: b)
    | _, _ => .err

/-- index of the first cell with the given name -/
def cellIndex (cells : List Cell) (n : Bytes) : Nat := (cells.findIdx? (fun c => c.name == n)).getD cells.length

/-- instance adjacency of the cell list, for the dependency orderer (C17 model) -/
def cellAdj (cells : List Cell) (i : Nat) : List Nat :=
  match cells[i]? with
  | some c => match c.layout with
    | some l => l.insts.map (fun inst => cellIndex cells inst.cell)
    | none => []
  | none => []

/-- `ProtoExporter::export` -/
def exportLib (tbl : LayerTbl) (l : Lib) : Out PLib :=
  if l.units = 3 then .err else
  match Dep.order (cellAdj l.cells) (l.cells.length + 1) (List.range l.cells.length) with
  | .ok order =>
    match exportCells tbl (order.filterMap (fun i => l.cells[i]?)) with
    | .ok cs => .ok ⟨l.name, (l.units : Int), cs⟩
    | .err => .err
  | _ => .err

/-! ### import -/

def inI16 (v : Int) : Bool := decide (-32768 ≤ v) && decide (v ≤ 32767)

def optNet (n : Bytes) : Option Bytes := if n = [] then none else some n

def importRects : List PRect → Out (List (Bytes × Shape))
  | [] => .ok []
  | r :: rest => match r.ll, importRects rest with
    | some p, .ok more => .ok ((r.net, .rect p ⟨p.x + r.w, p.y + r.h⟩) :: more)
    | _, _ => .err

def importPaths : List PPath → Out (List (Bytes × Shape))
  | [] => .ok []
  | p :: rest => if p.width < 0 then .err else
    match importPaths rest with
    | .ok more => .ok ((p.net, .path p.pts p.width.toNat) :: more)
    | .err => .err

/-- `import_layer_shapes` / `import_abstract_layer_shapes`: rectangles, then polygons, then paths -/
def importLayerShapes (ls : LayerShapes) : Out ((Int × Int) × List (Bytes × Shape)) :=
  match ls.layer with
  | none => .err
  | some (ln, pn) =>
    if !(inI16 ln && inI16 pn) then .err else
    match importRects ls.rects, importPaths ls.paths with
    | .ok rs, .ok ps => .ok ((ln, pn), rs ++ ls.polys.map (fun p => (p.net, Shape.polygon p.verts)) ++ ps)
    | _, _ => .err

def importElems : List LayerShapes → Out (List Elem)
  | [] => .ok []
  | ls :: rest => match importLayerShapes ls, importElems rest with
    | .ok (k, ss), .ok more => .ok (ss.map (fun s => ⟨optNet s.1, k.1, k.2, s.2⟩) ++ more)
    | _, _ => .err

def importInsts (known : List Bytes) : List PInst → Out (List Inst)
  | [] => .ok []
  | i :: rest =>
    match i.ref, i.origin, importInsts known rest with
    | .localRef n, some loc, .ok more =>
      if known.contains n then .ok (⟨i.name, n, loc, i.refl, if i.rot = 0 then none else some i.rot⟩ :: more) else .err
    | _, _, _ => .err

def importAnnots : List (Bytes × Option Pt) → Out (List (Bytes × Pt))
  | [] => .ok []
  | (s, some p) :: rest => (match importAnnots rest with | .ok more => .ok ((s, p) :: more) | .err => .err)
  | (_, none) :: _ => .err

def importLayout (known : List Bytes) (l : PLayout) : Out Layout :=
  match importInsts known l.insts, importElems l.shapes, importAnnots l.annotations with
  | .ok is, .ok es, .ok as => .ok ⟨l.name, is, es, as⟩
  | _, _, _ => .err

/-- insert-or-replace into a map keyed by layer number, kept sorted by key -/
def mapInsert (m : List (Int × List Shape)) (k : Int) (v : List Shape) : List (Int × List Shape) :=
  match m with
  | [] => [(k, v)]
  | (k', v') :: rest =>
    if k = k' then (k, v) :: rest
    else if k < k' then (k, v) :: (k', v') :: rest
    else (k', v') :: mapInsert rest k v

def importLayerMap (m : List (Int × List Shape)) : List LayerShapes → Out (List (Int × List Shape))
  | [] => .ok m
  | ls :: rest => match importLayerShapes ls with
    | .ok (k, ss) => importLayerMap (mapInsert m k.1 (ss.map (·.2))) rest
    | .err => .err

def importPorts : List PPort → Out (List Port)
  | [] => .ok []
  | p :: rest => match importLayerMap [] p.shapes, importPorts rest with
    | .ok m, .ok more => .ok (⟨p.net, m⟩ :: more)
    | _, _ => .err

def importAbs (a : PAbs) : Out Abstract :=
  match importPorts a.ports, importLayerMap [] a.blockages, a.outline with
  | .ok ps, .ok bs, some o => .ok ⟨a.name, o.verts, ps, bs⟩
  | _, _, _ => .err

def importCells (known : List Bytes) : List PCell → Out (List Cell)
  | [] => .ok []
  | c :: rest =>
    let lay : Out (Option Layout) := match c.layout with
      | none => .ok none
      | some l => (match importLayout known l with | .ok x => .ok (some x) | .err => .err)
    let ab : Out (Option Abstract) := match c.abs with
      | none => .ok none
      | some a => (match importAbs a with | .ok x => .ok (some x) | .err => .err)
    match lay, ab with
    | .ok l, .ok a =>
      (match importCells (c.name :: known) rest with
       | .ok more => .ok (⟨c.name, l, a⟩ :: more)
       | .err => .err)
    | _, _ => .err

/-- `ProtoImporter::import` -/
def importLib (p : PLib) : Out Lib :=
  if p.units < 0 ∨ 2 < p.units then .err else
  match importCells [] p.cells with
  | .ok cs => .ok ⟨p.domain, p.units.toNat, cs⟩
  | .err => .err

end L21.RawProto
