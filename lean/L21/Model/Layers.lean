/-
Model of `layout21raw::data::{Layer, Layers}`: the per-layer purpose table (number ↔ purpose, two hash maps that
`add_purpose` writes together) and the layer set (slot map + number index + name index).

Hash maps are association lists with replace-on-insert; a `LayerKey` is the slot index (slots are never removed).
-/
namespace L21.Layers

abbrev Bytes := List Nat

inductive Purpose where
  | drawing | pin | label | obstruction | outline
  | named (s : Bytes) (k : Int)
  | other (k : Int)
  deriving Repr, DecidableEq

/-- `HashMap::insert`: replace the value of an existing key, else add -/
def amInsert {κ ν : Type} [DecidableEq κ] : List (κ × ν) → κ → ν → List (κ × ν)
  | [], k, v => [(k, v)]
  | (k', v') :: rest, k, v => if k' = k then (k, v) :: rest else (k', v') :: amInsert rest k v

/-- `HashMap::get` -/
def amGet {κ ν : Type} [DecidableEq κ] : List (κ × ν) → κ → Option ν
  | [], _ => none
  | (k', v') :: rest, k => if k' = k then some v' else amGet rest k

structure Layer where
  layernum : Int
  name : Option Bytes
  purps : List (Int × Purpose) := []      -- number → purpose
  nums : List (Purpose × Int) := []       -- purpose → number
  deriving Repr, DecidableEq

/-- a numbered purpose must carry its own number -/
def purposeOk (p : Purpose) (num : Int) : Bool :=
  match p with
  | .named _ k => k == num
  | .other k => k == num
  | _ => true

/-- `Layer::add_purpose`: both maps are written -/
def Layer.addPurpose (l : Layer) (num : Int) (p : Purpose) : Option Layer :=
  if purposeOk p num then some { l with purps := amInsert l.purps num p, nums := amInsert l.nums p num } else none

def Layer.purpose (l : Layer) (num : Int) : Option Purpose := amGet l.purps num
def Layer.num (l : Layer) (p : Purpose) : Option Int := amGet l.nums p

structure Layers where
  slots : List Layer := []
  nums : List (Int × Nat) := []
  names : List (Bytes × Nat) := []
  deriving Repr, DecidableEq

/-- `Layers::add` -/
def Layers.add (ls : Layers) (l : Layer) : Layers × Nat :=
  let key := ls.slots.length
  ({ slots := ls.slots ++ [l], nums := amInsert ls.nums l.layernum key,
     names := match l.name with | some s => amInsert ls.names s key | none => ls.names }, key)

def Layers.keynum (ls : Layers) (num : Int) : Option Nat := amGet ls.nums num
def Layers.keyname (ls : Layers) (name : Bytes) : Option Nat := amGet ls.names name
def Layers.get (ls : Layers) (key : Nat) : Option Layer := ls.slots[key]?
def Layers.getName (ls : Layers) (key : Nat) : Option Bytes := (ls.get key).bind (·.name)

/-- `Layers::nextnum` (searched below a bound; the code searches `0..i16::MAX`) -/
def Layers.nextnumGo (ls : Layers) : Nat → Int → Option Int
  | 0, _ => none
  | f + 1, k => if (amGet ls.nums k).isNone then some k else nextnumGo ls f (k + 1)
def Layers.nextnum (ls : Layers) : Option Int := ls.nextnumGo 32767 0

def setSlot (slots : List Layer) (key : Nat) (l : Layer) : List Layer := slots.set key l

/-- first half of `get_or_insert`: the key of layer number `layernum`, creating the layer if the number is unknown -/
def Layers.ensure (ls : Layers) (layernum : Int) : Layers × Nat :=
  match ls.keynum layernum with
  | some k => (ls, k)
  | none => ls.add ⟨layernum, none, [], []⟩

/-- second half: the purpose standing under `purposenum` on that layer, registering `Other(purposenum)` if there is none -/
def Layers.purposeAt (ls1 : Layers) (key : Nat) (purposenum : Int) : Option (Layers × Nat × Purpose) :=
  match ls1.slots[key]? with
  | none => none
  | some layer =>
    match layer.purpose purposenum with
    | some p => some (ls1, key, p)
    | none =>
      match layer.addPurpose purposenum (.other purposenum) with
      | none => none
      | some layer' => some ({ ls1 with slots := setSlot ls1.slots key layer' }, key, .other purposenum)

/-- `Layers::get_or_insert` -/
def Layers.getOrInsert (ls : Layers) (layernum purposenum : Int) : Option (Layers × Nat × Purpose) :=
  (ls.ensure layernum).1.purposeAt (ls.ensure layernum).2 purposenum

/-- `LefImporter::import_layer`: the key of the layer NAMED `name`, creating it under the next free number -/
def Layers.importByName (ls : Layers) (name : Bytes) : Option (Layers × Nat) :=
  match ls.keyname name with
  | some k => some (ls, k)
  | none => match ls.nextnum with
    | some n => some (ls.add ⟨n, some name, [], []⟩)
    | none => none

/-- what an exporter computes for an element: (layer number, purpose number) — `export_layerspec` -/
def Layers.layerspec (ls : Layers) (key : Nat) (p : Purpose) : Option (Int × Int) :=
  match ls.slots[key]? with
  | some l => (l.num p).map fun n => (l.layernum, n)
  | none => none

end L21.Layers
