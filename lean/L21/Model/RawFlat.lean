import L21.Model.RawGds
import L21.Model.Aff
/-
Model of `layout21raw::Layout::flatten` on a library of NAMED cells as `GdsImporter` builds it:
an instance refers to the cell that was imported under its structure name (the importer resolves
the name to a pointer at import time; names in the imported library are unique, so looking the name
up at flatten time finds the same cell).  Exact layer: right-angle orientations only (the float
layer is C12's); an instance at another angle makes the result `none`.
-/
namespace L21.RawGds
open L21.Geom L21.Aff L21.Gds

/-- instance angle (a double, degrees) as quarter turns -/
def angleQ? : Option Nat → Option Nat
  | none => some 0
  | some a =>
    if a = 0 then some 0 else if a = 0x4056800000000000 then some 1
    else if a = 0x4066800000000000 then some 2 else if a = 0x4070e00000000000 then some 3 else none

/-- `Shape::transform`: a rectangle keeps its two corners, transformed -/
def Shape.transform (t : AffZ) : Shape → Shape
  | .rect p0 p1 => .rect (t.apply p0) (t.apply p1)
  | .polygon pts => .polygon (pts.map t.apply)
  | .path pts w => .path (pts.map t.apply) w

def allSomeL {α : Type} : List (Option α) → Option (List α)
  | [] => some []
  | none :: _ => none
  | some a :: rest => (allSomeL rest).map (a :: ·)

/-- `flatten_helper`: own elements through `t`, then every instance's cell through the cascaded
    transform; (layer, purpose, shape) triples — net names are not geometry -/
def flattenCell (cells : List Cell) : Nat → AffZ → Bytes → Option (List (Int × Int × Shape))
  | 0, _, _ => none
  | fuel + 1, t, name =>
    match cells.find? (fun c => c.name == name) with
    | none => none
    | some c =>
      (allSomeL (c.insts.map (fun i =>
          (angleQ? i.angle).bind (fun q => flattenCell cells fuel (t.cascade (AffZ.ofInstance i.loc i.refl q)) i.cell)))).map
        (fun subs => c.elems.map (fun e => (e.layer, e.purpose, e.shape.transform t)) ++ subs.flatten)

end L21.RawGds
