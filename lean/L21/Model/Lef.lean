import L21.Model.LefLex
import L21.Model.LefEnum
/-
Model of lef21's statement-level reader (`lef21/src/read.rs`: `LefParser::parse_lib` … `parse_via`)
and of the library data (`lef21/src/data.rs`).  The parser works on the token list of the lexer model
(`L21/Model/LefLex.lean`); the real lexer is lazy but total, so lexing eagerly changes nothing.
`none` = the reader reports an error.  Keywords and enumerated values are looked up in the tables
regenerated from the source (`L21.Gen.lefEnums`); enum values are represented by their variant names.
Decimals are (mantissa, scale) as in rust_decimal; equality of libraries compares them by value
(the driver prints them normalised).
-/
namespace L21.Lef
open L21.LefLex L21.LefEnum

abbrev Str := List Char

structure Dec where
  mant : Int
  scale : Nat
  deriving DecidableEq, Repr

/-- value comparison `a ≤ b` by cross-multiplication -/
def Dec.le (a b : Dec) : Bool := a.mant * 10 ^ b.scale ≤ b.mant * 10 ^ a.scale
def Dec.lt (a b : Dec) : Bool := a.mant * 10 ^ b.scale < b.mant * 10 ^ a.scale

/-- strip trailing zeros of the fraction (`Decimal::normalize`) -/
def normGo : Nat → Int → Dec
  | 0, m => ⟨m, 0⟩
  | s + 1, m => if m % 10 = 0 then normGo s (m / 10) else ⟨m, s + 1⟩
def Dec.norm (d : Dec) : Dec := normGo d.scale d.mant

structure Tok where
  tt : TT
  txt : Str
  deriving DecidableEq, Repr

/-! ### library data -/
structure Pt where
  x : Dec
  y : Dec
  deriving DecidableEq, Repr

inductive Shape where
  | rect (mask : Option Dec) (a b : Pt)
  | polygon (mask : Option Dec) (pts : List Pt)
  | path (mask : Option Dec) (pts : List Pt)
  deriving DecidableEq, Repr

structure Step where
  numx : Dec
  numy : Dec
  spacex : Dec
  spacey : Dec
  deriving DecidableEq, Repr

inductive Geometry where
  | shape (s : Shape)
  | iterate (s : Shape) (p : Step)
  deriving DecidableEq, Repr

structure Via where
  name : Str
  pt : Pt
  deriving DecidableEq, Repr

inductive Spacing where
  | spacing (d : Dec)
  | drw (d : Dec)
  deriving DecidableEq, Repr

structure LayerGeoms where
  layerName : Str
  geometries : List Geometry
  vias : List Via
  exceptPgNet : Option Bool
  spacing : Option Spacing
  width : Option Dec
  deriving DecidableEq, Repr

structure Port where
  cls : Option String
  layers : List LayerGeoms
  deriving DecidableEq, Repr

structure Antenna where
  key : Str
  val : Dec
  layer : Option Str
  deriving DecidableEq, Repr

structure Prop' where
  name : Str
  value : Str
  deriving DecidableEq, Repr

structure Pin where
  name : Str
  ports : List Port
  direction : Option (String × Bool)       -- (Input | Output | Inout | FeedThru, tristate)
  use_ : Option String
  shape : Option String
  antennaModel : Option String
  antennaAttrs : List Antenna
  taperRule : Option Str
  supplySensitivity : Option Str
  groundSensitivity : Option Str
  mustJoin : Option Str
  netExpr : Option Str
  properties : List Prop'
  deriving DecidableEq, Repr

structure DensityRect where
  p1 : Pt
  p2 : Pt
  value : Dec
  deriving DecidableEq, Repr

structure DensityGeoms where
  layerName : Str
  rects : List DensityRect
  deriving DecidableEq, Repr

structure Foreign where
  cell : Str
  pt : Option Pt
  orient : Option String
  deriving DecidableEq, Repr

structure Macro where
  name : Str
  pins : List Pin
  obs : List LayerGeoms
  cls : Option (String × Option String × Bool)   -- (class name, sub-type, bump)
  foreign : Option Foreign
  origin : Option Pt
  size : Option (Dec × Dec)
  symmetry : Option (List String)
  site : Option Str
  source : Option String
  eeq : Option Str
  fixedMask : Bool
  properties : List Prop'
  density : Option (List DensityGeoms)
  deriving DecidableEq, Repr

inductive ViaShape where
  | rect (mask : Option Dec) (a b : Pt)
  | polygon (mask : Option Dec) (pts : List Pt)
  deriving DecidableEq, Repr

structure ViaLayer where
  layerName : Str
  shapes : List ViaShape
  deriving DecidableEq, Repr

structure GenVia where
  rule : Str
  cutSize : Dec × Dec
  layers : Str × Str × Str
  cutSpacing : Dec × Dec
  enclosure : Dec × Dec × Dec × Dec
  rowcol : Option (Dec × Dec)
  origin : Option Pt
  offset : Option (Dec × Dec × Dec × Dec)
  deriving DecidableEq, Repr

inductive ViaData where
  | fixed (resistance : Option Dec) (layers : List ViaLayer)
  | generated (g : GenVia)
  deriving DecidableEq, Repr

structure ViaDef where
  name : Str
  isDefault : Bool
  data : ViaData
  deriving DecidableEq, Repr

structure Site where
  name : Str
  cls : String
  size : Dec × Dec
  symmetry : Option (List String)
  deriving DecidableEq, Repr

structure Units where
  dbu : Option Int := none
  time : Option Dec := none
  cap : Option Dec := none
  res : Option Dec := none
  power : Option Dec := none
  current : Option Dec := none
  voltage : Option Dec := none
  freq : Option Dec := none
  deriving DecidableEq, Repr

inductive PropDef where
  | str (obj : String) (name : Str) (value : Option Str)
  | real (obj : String) (name : Str) (value : Option Dec) (range : Option (Dec × Dec))
  | int (obj : String) (name : Str) (value : Option Dec) (range : Option (Dec × Dec))
  deriving DecidableEq, Repr

structure Lib where
  macros : List Macro := []
  sites : List Site := []
  vias : List ViaDef := []
  version : Option Dec := none
  namesCaseSensitive : Option String := none
  noWireExt : Option String := none
  busBitChars : Option (Char × Char) := none
  dividerChar : Option Char := none
  units : Option Units := none
  fixedMask : Bool := false
  clearance : Option String := none
  extensions : List (Str × Str) := []
  mfgGrid : Option Dec := none
  useMinSpacing : Option String := none
  propDefs : List PropDef := []
  deriving DecidableEq, Repr

/-! ### tokens -/
def sliceBytes (src : List Char) (s e : Nat) : List Char :=
  let rec go (pos : Nat) : List Char → List Char
    | [] => []
    | c :: r => if pos ≥ e then [] else if pos ≥ s then c :: go (pos + c.utf8Size) r else go (pos + c.utf8Size) r
  go 0 src

def tokens (src : List Char) : Option (List Tok) :=
  match lex isWsUnicode src with
  | .ok ts => some (ts.map fun t => ⟨t.ttype, sliceBytes src t.start t.stop⟩)
  | .err => none

/-! ### small parsers -/
abbrev P (α : Type) := List Tok → Option (α × List Tok)

def keyTable : Table := (L21.Gen.lefEnums.lookup "LefKey").getD []
def enumTable (n : String) : Table := (L21.Gen.lefEnums.lookup n).getD []

/-- `peek_key` -/
def peekKey : List Tok → Option String
  | ⟨.name, t⟩ :: _ => LefEnum.parse keyTable t
  | _ => none

def matchesTT (tt : TT) : List Tok → Bool
  | t :: _ => t.tt == tt
  | [] => false

/-- `expect(ttype)` -/
def expectTT (tt : TT) : P Str
  | t :: r => if t.tt == tt then some (t.txt, r) else none
  | [] => none

def getName : P Str := expectTT .name
def semi : P Unit := fun ts => (expectTT .semi ts).map fun (_, r) => ((), r)

/-- `get_key` -/
def getKey : P String := fun ts =>
  match getName ts with
  | some (t, r) => (LefEnum.parse keyTable t).map fun k => (k, r)
  | none => none

def expectKey (k : String) : P Unit := fun ts =>
  match getKey ts with
  | some (k', r) => if k' == k then some ((), r) else none
  | none => none

def expectIdent (s : Str) : P Unit := fun ts =>
  match getName ts with
  | some (t, r) => if t == s then some ((), r) else none
  | none => none

/-- `parse_enum::<T>` -/
def parseEnum (table : String) : P String := fun ts =>
  match getName ts with
  | some (t, r) => (LefEnum.parse (enumTable table) t).map fun v => (v, r)
  | none => none

/-- `Decimal::from_str` on a token the lexer classified as a number: optional sign, digits with at
    most one point, at least one digit, no exponent; at most 28 fractional digits -/
def signSplit : Str → Bool × Str
  | '-' :: r => (true, r)
  | '+' :: r => (false, r)
  | r => (false, r)

def dig (c : Char) : Nat := c.toNat - '0'.toNat
def dval (cs : List Char) : Nat := cs.foldl (fun acc c => acc * 10 + dig c) 0

def fracSpan : Str → Str × Str
  | '.' :: r => spanP isDigit r
  | r => ([], r)

def parseCore (neg : Bool) (ip fp rest : Str) : Option Dec :=
  if !rest.isEmpty then none
  else if ip.isEmpty && fp.isEmpty then none
  else if fp.length > 28 then none
  else if dval (ip ++ fp) ≥ 2 ^ 96 then none
  else some ⟨if neg then -(dval (ip ++ fp) : Int) else dval (ip ++ fp), fp.length⟩

def parseUnsigned (neg : Bool) (body : Str) : Option Dec :=
  parseCore neg (spanP isDigit body).1 (fracSpan (spanP isDigit body).2).1 (fracSpan (spanP isDigit body).2).2

def parseDecText (t : Str) : Option Dec := parseUnsigned (signSplit t).1 (signSplit t).2

/-- `parse_number` -/
def number : P Dec := fun ts =>
  match expectTT .number ts with
  | some (t, r) => (parseDecText t).map fun d => (d, r)
  | none => none

def point : P Pt := fun ts =>
  match number ts with
  | some (x, r) => match number r with
    | some (y, r') => some (⟨x, y⟩, r')
    | none => none
  | none => none

/-- `parse_point_list`: points while the next token is a number -/
def pointList : Nat → List Tok → Option (List Pt × List Tok)
  | 0, _ => none
  | f + 1, ts =>
    if matchesTT .number ts then
      match point ts with
      | some (p, r) => (pointList f r).map fun (ps, r') => (p :: ps, r')
      | none => none
    else some ([], ts)

/-- `parse_geometry_mask` / the MASK clause of via shapes -/
def geomMask : P (Option Dec) := fun ts =>
  if matchesTT .name ts then
    match peekKey ts with
    | none => none
    | some k =>
      if k == "Mask" then (number ts.tail).map fun (d, r) => (some d, r)
      else some (none, ts)
  else some (none, ts)

def geomIterate : P Bool := fun ts =>
  if matchesTT .name ts then
    match peekKey ts with
    | none => none
    | some k => if k == "Iterate" then some (true, ts.tail) else some (false, ts)
  else some (false, ts)

def stepPattern : P Step := fun ts => do
  let (_, r) ← expectKey "Do" ts
  let (nx, r) ← number r
  let (_, r) ← expectKey "By" r
  let (ny, r) ← number r
  let (_, r) ← expectKey "Step" r
  let (sx, r) ← number r
  let (sy, r) ← number r
  pure (⟨nx, ny, sx, sy⟩, r)

def geomTail (iter : Bool) (s : Shape) : P Geometry := fun ts =>
  if iter then do
    let (p, r) ← stepPattern ts
    let (_, r) ← semi r
    pure (.iterate s p, r)
  else do
    let (_, r) ← semi ts
    pure (.shape s, r)

/-- `parse_geometry` -/
def geometry : P Geometry := fun ts => do
  let (k, r) ← getKey ts
  if k == "Rect" then
    let (m, r) ← geomMask r
    let (it, r) ← geomIterate r
    let (a, r) ← point r
    let (b, r) ← point r
    geomTail it (.rect m a b) r
  else if k == "Polygon" then
    let (m, r) ← geomMask r
    let (it, r) ← geomIterate r
    let (ps, r) ← pointList (r.length + 1) r
    if ps.length < 3 then none else geomTail it (.polygon m ps) r
  else if k == "Path" then
    let (m, r) ← geomMask r
    let (it, r) ← geomIterate r
    let (ps, r) ← pointList (r.length + 1) r
    if ps.length < 2 then none else geomTail it (.path m ps) r
  else none

/-- the header of `parse_layer_geometries` after LAYER name: EXCEPTPGNET / SPACING / DESIGNRULEWIDTH until `;` -/
def layerHeader : Nat → LayerGeoms → List Tok → Option (LayerGeoms × List Tok)
  | 0, _, _ => none
  | f + 1, lg, ts =>
    if matchesTT .semi ts then some (lg, ts.tail)
    else match getKey ts with
      | none => none
      | some (k, r) =>
        if k == "ExceptPgNet" then layerHeader f { lg with exceptPgNet := some true } r
        else if k == "Spacing" then (number r).bind fun (d, r') => layerHeader f { lg with spacing := some (.spacing d) } r'
        else if k == "DesignRuleWidth" then (number r).bind fun (d, r') => layerHeader f { lg with spacing := some (.drw d) } r'
        else none

/-- the body of `parse_layer_geometries` -/
def layerBody : Nat → LayerGeoms → List Tok → Option (LayerGeoms × List Tok)
  | 0, _, _ => none
  | f + 1, lg, ts =>
    if ts.isEmpty then some (lg, ts)
    else match peekKey ts with
      | none => none
      | some k =>
        if k == "Layer" || k == "End" then some (lg, ts)
        else if k == "Path" || k == "Polygon" || k == "Rect" then
          (geometry ts).bind fun (g, r) => layerBody f { lg with geometries := lg.geometries ++ [g] } r
        else if k == "Via" then
          let r := ts.tail
          if matchesTT .name r then none
          else (point r).bind fun (p, r) => (getName r).bind fun (n, r) => (semi r).bind fun (_, r) =>
            layerBody f { lg with vias := lg.vias ++ [⟨n, p⟩] } r
        else if k == "Width" then
          (number ts.tail).bind fun (d, r) => (semi r).bind fun (_, r) => layerBody f { lg with width := some d } r
        else none

def layerGeoms : P LayerGeoms := fun ts => do
  let (_, r) ← expectKey "Layer" ts
  let (n, r) ← getName r
  let (lg, r) ← layerHeader (r.length + 1) ⟨n, [], [], none, none, none⟩ r
  layerBody (r.length + 1) lg r

/-- `parse_port` -/
def portBody : Nat → Port → List Tok → Option (Port × List Tok)
  | 0, _, _ => none
  | f + 1, p, ts =>
    match peekKey ts with
    | none => none
    | some k =>
      if k == "Class" then
        (parseEnum "LefPortClass" ts.tail).bind fun (c, r) => (semi r).bind fun (_, r) => portBody f { p with cls := some c } r
      else if k == "Layer" then
        (layerGeoms ts).bind fun (lg, r) =>
          if r.length < ts.length then portBody f { p with layers := p.layers ++ [lg] } r else none
      else if k == "End" then some (p, ts.tail)
      else none

def port : P Port := fun ts => do
  let (_, r) ← expectKey "Port" ts
  portBody (r.length + 1) ⟨none, []⟩ r

/-- `parse_property`: name/value pairs until `;` -/
def propertyPairs : Nat → List Prop' → List Tok → Option (List Prop' × List Tok)
  | 0, _, _ => none
  | f + 1, acc, ts =>
    if matchesTT .semi ts then some (acc, ts.tail)
    else match getName ts with
      | none => none
      | some (n, r) =>
        match r with
        | t :: r' =>
          if t.tt == .name || t.tt == .number || t.tt == .string then propertyPairs f (acc ++ [⟨n, t.txt⟩]) r' else none
        | [] => none

def property (acc : List Prop') : P (List Prop') := fun ts => do
  let (_, r) ← expectKey "Property" ts
  propertyPairs (r.length + 1) acc r

def pinDirection : P (String × Bool) := fun ts => do
  let (_, r) ← expectKey "Direction" ts
  let (k, r) ← getKey r
  if k == "Input" then (semi r).map fun (_, r) => (("Input", false), r)
  else if k == "FeedThru" then (semi r).map fun (_, r) => (("FeedThru", false), r)
  else if k == "Inout" then (semi r).map fun (_, r) => (("Inout", false), r)
  else if k == "Output" then
    if matchesTT .semi r then some (("Output", false), r.tail)
    else do
      let (_, r) ← expectKey "Tristate" r
      let (_, r) ← semi r
      pure (("Output", true), r)
  else none

def antennaKeys : List String :=
  ["AntennaDiffArea", "AntennaGateArea", "AntennaPartialMetalArea", "AntennaPartialMetalSideArea", "AntennaPartialCutArea",
   "AntennaPartialDiffArea", "AntennaMaxAreaCar", "AntennaMaxSideAreaCar", "AntennaMaxCutCar"]

def upperStr (s : Str) : Str := upper s

/-- `parse_pin` body -/
def pinBody : Nat → Pin → List Tok → Option (Pin × List Tok)
  | 0, _, _ => none
  | f + 1, p, ts =>
    match peekKey ts with
    | none => none
    | some k =>
      let identStmt (set : Str → Pin) : Option (Pin × List Tok) :=
        (getName ts.tail).bind fun (v, r) => (semi r).bind fun (_, r) => pinBody f (set v) r
      if k == "End" then some (p, ts.tail)
      else if k == "Port" then
        (port ts).bind fun (pt, r) => if r.length < ts.length then pinBody f { p with ports := p.ports ++ [pt] } r else none
      else if k == "Direction" then
        (pinDirection ts).bind fun (d, r) => if r.length < ts.length then pinBody f { p with direction := some d } r else none
      else if k == "Use" then
        (parseEnum "LefPinUse" ts.tail).bind fun (e, r) => (semi r).bind fun (_, r) => pinBody f { p with use_ := some e } r
      else if k == "Shape" then
        (parseEnum "LefPinShape" ts.tail).bind fun (e, r) => (semi r).bind fun (_, r) => pinBody f { p with shape := some e } r
      else if k == "AntennaModel" then
        (parseEnum "LefAntennaModel" ts.tail).bind fun (e, r) => (semi r).bind fun (_, r) => pinBody f { p with antennaModel := some e } r
      else if antennaKeys.contains k then
        (getName ts).bind fun (key, r) => (number r).bind fun (v, r) =>
          if matchesTT .semi r then pinBody f { p with antennaAttrs := p.antennaAttrs ++ [⟨upperStr key, v, none⟩] } r.tail
          else (expectKey "Layer" r).bind fun (_, r) => (getName r).bind fun (l, r) => (semi r).bind fun (_, r) =>
            pinBody f { p with antennaAttrs := p.antennaAttrs ++ [⟨upperStr key, v, some l⟩] } r
      else if k == "TaperRule" then identStmt fun v => { p with taperRule := some v }
      else if k == "MustJoin" then identStmt fun v => { p with mustJoin := some v }
      else if k == "SupplySensitivity" then identStmt fun v => { p with supplySensitivity := some v }
      else if k == "GroundSensitivity" then identStmt fun v => { p with groundSensitivity := some v }
      else if k == "NetExpr" then
        (expectTT .string ts.tail).bind fun (v, r) => (semi r).bind fun (_, r) => pinBody f { p with netExpr := some v } r
      else if k == "Property" then
        (property p.properties ts).bind fun (ps, r) => if r.length < ts.length then pinBody f { p with properties := ps } r else none
      else none

def pin : P Pin := fun ts => do
  let (_, r) ← expectKey "Pin" ts
  let (n, r) ← getName r
  let (p, r) ← pinBody (r.length + 1) ⟨n, [], none, none, none, none, [], none, none, none, none, none, []⟩ r
  let (_, r) ← expectIdent n r
  pure (p, r)

/-- `parse_obstructions` -/
def obsBody : Nat → List LayerGeoms → List Tok → Option (List LayerGeoms × List Tok)
  | 0, _, _ => none
  | f + 1, acc, ts =>
    if ts.isEmpty then some (acc, ts)
    else match peekKey ts with
      | none => none
      | some k =>
        if k == "Layer" then
          (layerGeoms ts).bind fun (lg, r) => if r.length < ts.length then obsBody f (acc ++ [lg]) r else none
        else if k == "End" then some (acc, ts.tail)
        else none

/-- `parse_density` -/
def densityRects : Nat → List DensityRect → List Tok → Option (List DensityRect × List Tok)
  | 0, _, _ => none
  | f + 1, acc, ts =>
    match peekKey ts with
    | none => none
    | some k =>
      if k == "Layer" || k == "End" then some (acc, ts)
      else if k == "Rect" then
        (point ts.tail).bind fun (a, r) => (point r).bind fun (b, r) => (number r).bind fun (v, r) => (semi r).bind fun (_, r) =>
          densityRects f (acc ++ [⟨a, b, v⟩]) r
      else none

def densityBody : Nat → List DensityGeoms → List Tok → Option (List DensityGeoms × List Tok)
  | 0, _, _ => none
  | f + 1, acc, ts =>
    match peekKey ts with
    | none => none
    | some k =>
      if k == "Layer" then
        (getName ts.tail).bind fun (n, r) => (semi r).bind fun (_, r) =>
          (densityRects (r.length + 1) [] r).bind fun (rs, r') =>
            if r'.length < ts.length then densityBody f (acc ++ [⟨n, rs⟩]) r' else none
      else if k == "End" then some (acc, ts.tail)
      else none

/-- `parse_symmetries` -/
def symmetries : Nat → List String → List Tok → Option (List String × List Tok)
  | 0, _, _ => none
  | f + 1, acc, ts =>
    if matchesTT .semi ts then some (acc, ts.tail)
    else (parseEnum "LefSymmetry" ts).bind fun (e, r) => symmetries f (acc ++ [e]) r

def sizeStmt : P (Dec × Dec) := fun ts => do
  let (_, r) ← expectKey "Size" ts
  let (x, r) ← number r
  let (_, r) ← expectKey "By" r
  let (y, r) ← number r
  let (_, r) ← semi r
  pure ((x, y), r)

/-- `parse_macro_class` -/
def macroClass : P (String × Option String × Bool) := fun ts => do
  let (_, r) ← expectKey "Class" ts
  let (c, r) ← parseEnum "LefMacroClassName" r
  let optSub (table : String) (r : List Tok) : Option ((String × Option String × Bool) × List Tok) :=
    if matchesTT .semi r then some ((c, none, false), r.tail)
    else (parseEnum table r).bind fun (t, r) => (semi r).map fun (_, r) => ((c, some t, false), r)
  if c == "Block" then optSub "LefBlockClassType" r
  else if c == "Pad" then optSub "LefPadClassType" r
  else if c == "Core" then optSub "LefCoreClassType" r
  else if c == "EndCap" then (parseEnum "LefEndCapClassType" r).bind fun (t, r) => (semi r).map fun (_, r) => ((c, some t, false), r)
  else if c == "Cover" then
    if matchesTT .semi r then some ((c, none, false), r.tail)
    else (expectKey "Bump" r).bind fun (_, r) => (semi r).map fun (_, r) => ((c, none, true), r)
  else if c == "Ring" then (semi r).map fun (_, r) => ((c, none, false), r)
  else none

def v5p4 : Dec := ⟨54, 1⟩
def v5p6 : Dec := ⟨56, 1⟩

/-- `parse_macro` body; `ver` is the session's LEF version -/
def macroBody (ver : Dec) : Nat → Macro → List Tok → Option (Macro × List Tok)
  | 0, _, _ => none
  | f + 1, m, ts =>
    match peekKey ts with
    | none => none
    | some k =>
      let cont (m' : Macro) (r : List Tok) := if r.length < ts.length then macroBody ver f m' r else none
      if k == "Class" then (macroClass ts).bind fun (c, r) => cont { m with cls := some c } r
      else if k == "Site" then (getName ts.tail).bind fun (v, r) => (semi r).bind fun (_, r) => cont { m with site := some v } r
      else if k == "Eeq" then (getName ts.tail).bind fun (v, r) => (semi r).bind fun (_, r) => cont { m with eeq := some v } r
      else if k == "FixedMask" then (semi ts.tail).bind fun (_, r) => cont { m with fixedMask := true } r
      else if k == "Foreign" then
        (getName ts.tail).bind fun (c, r) =>
          if matchesTT .semi r then cont { m with foreign := some ⟨c, none, none⟩ } r.tail
          else (point r).bind fun (p, r) =>
            if matchesTT .semi r then cont { m with foreign := some ⟨c, some p, none⟩ } r.tail
            else (parseEnum "LefOrient" r).bind fun (o, r) => (semi r).bind fun (_, r) => cont { m with foreign := some ⟨c, some p, some o⟩ } r
      else if k == "Origin" then (point ts.tail).bind fun (p, r) => (semi r).bind fun (_, r) => cont { m with origin := some p } r
      else if k == "Size" then (sizeStmt ts).bind fun (s, r) => cont { m with size := some s } r
      else if k == "Pin" then (pin ts).bind fun (p, r) => cont { m with pins := m.pins ++ [p] } r
      else if k == "Obs" then (obsBody (ts.length + 1) [] ts.tail).bind fun (o, r) => cont { m with obs := o } r
      else if k == "Property" then (property m.properties ts).bind fun (ps, r) => cont { m with properties := ps } r
      else if k == "Symmetry" then (symmetries (ts.length + 1) [] ts.tail).bind fun (s, r) => cont { m with symmetry := some s } r
      else if k == "Source" then
        if v5p4.lt ver then none
        else (parseEnum "LefDefSource" ts.tail).bind fun (e, r) => (semi r).bind fun (_, r) => cont { m with source := some e } r
      else if k == "Density" then (densityBody (ts.length + 1) [] ts.tail).bind fun (d, r) => cont { m with density := some d } r
      else if k == "End" then some (m, ts.tail)
      else none

def macro_ (ver : Dec) : P Macro := fun ts => do
  let (_, r) ← expectKey "Macro" ts
  let (n, r) ← getName r
  let (m, r) ← macroBody ver (r.length + 1) ⟨n, [], [], none, none, none, none, none, none, none, none, false, [], none⟩ r
  let (_, r) ← expectIdent n r
  pure (m, r)

/-- `parse_units` -/
def unitsBody : Nat → Units → List Tok → Option (Units × List Tok)
  | 0, _, _ => none
  | f + 1, u, ts =>
    match getKey ts with
    | none => none
    | some (k, r) =>
      let stmt (unit : String) (set : Dec → Option Units) : Option (Units × List Tok) :=
        (expectKey unit r).bind fun (_, r) => (number r).bind fun (d, r) => (semi r).bind fun (_, r) =>
          (set d).bind fun u' => unitsBody f u' r
      if k == "Database" then stmt "Microns" fun d =>
        (dbuTryNew ⟨d.mant, d.scale⟩).map fun v => { u with dbu := some v }
      else if k == "Time" then stmt "Nanoseconds" fun d => some { u with time := some d }
      else if k == "Capacitance" then stmt "Picofarads" fun d => some { u with cap := some d }
      else if k == "Resistance" then stmt "Ohms" fun d => some { u with res := some d }
      else if k == "Power" then stmt "Milliwatts" fun d => some { u with power := some d }
      else if k == "Current" then stmt "Milliamps" fun d => some { u with current := some d }
      else if k == "Voltage" then stmt "Volts" fun d => some { u with voltage := some d }
      else if k == "Frequency" then stmt "Megahertz" fun d => some { u with freq := some d }
      else if k == "End" then (expectKey "Units" r).map fun (_, r) => (u, r)
      else none

/-- `parse_site_def` -/
structure SiteB where
  cls : Option String := none
  size : Option (Dec × Dec) := none
  symmetry : Option (List String) := none

def siteBody (name : Str) : Nat → SiteB → List Tok → Option (Site × List Tok)
  | 0, _, _ => none
  | f + 1, b, ts =>
    match peekKey ts with
    | none => none
    | some k =>
      let cont (b' : SiteB) (r : List Tok) := if r.length < ts.length then siteBody name f b' r else none
      if k == "End" then
        (expectIdent name ts.tail).bind fun (_, r) =>
          match b.cls, b.size with
          | some c, some s => some (⟨name, c, s, b.symmetry⟩, r)
          | _, _ => none
      else if k == "Class" then (parseEnum "LefSiteClass" ts.tail).bind fun (e, r) => (semi r).bind fun (_, r) => cont { b with cls := some e } r
      else if k == "Symmetry" then (symmetries (ts.length + 1) [] ts.tail).bind fun (s, r) => cont { b with symmetry := some s } r
      else if k == "Size" then (sizeStmt ts).bind fun (s, r) => cont { b with size := some s } r
      else none

def site : P Site := fun ts => do
  let (_, r) ← expectKey "Site" ts
  let (n, r) ← getName r
  siteBody n (r.length + 1) {} r

/-- `parse_via_shape` -/
def viaMask : P (Option Dec) := fun ts =>
  if matchesTT .name ts then
    match getKey ts with
    | some (k, r) => if k == "Mask" then (number r).map fun (d, r) => (some d, r) else none
    | none => none
  else some (none, ts)

def viaShape : P ViaShape := fun ts =>
  match peekKey ts with
  | none => none
  | some k =>
    if k == "Rect" then do
      let (m, r) ← viaMask ts.tail
      let (a, r) ← point r
      let (b, r) ← point r
      let (_, r) ← semi r
      pure (.rect m a b, r)
    else if k == "Polygon" then do
      let (m, r) ← viaMask ts.tail
      let (ps, r) ← pointList (r.length + 1) r
      if ps.length < 3 then none else do
        let (_, r) ← semi r
        pure (.polygon m ps, r)
    else none

def viaShapes : Nat → List ViaShape → List Tok → Option (List ViaShape × List Tok)
  | 0, _, _ => none
  | f + 1, acc, ts =>
    if ts.isEmpty then some (acc, ts)
    else match peekKey ts with
      | none => none
      | some k =>
        if k == "Layer" || k == "Property" || k == "End" then some (acc, ts)
        else if k == "Polygon" || k == "Rect" then
          (viaShape ts).bind fun (s, r) => if r.length < ts.length then viaShapes f (acc ++ [s]) r else none
        else none

def viaLayers : Nat → List ViaLayer → List Tok → Option (List ViaLayer × List Tok)
  | 0, _, _ => none
  | f + 1, acc, ts =>
    match peekKey ts with
    | none => none
    | some k =>
      if k == "Layer" then
        (getName ts.tail).bind fun (n, r) => (semi r).bind fun (_, r) => (viaShapes (r.length + 1) [] r).bind fun (ss, r') =>
          if r'.length < ts.length then viaLayers f (acc ++ [⟨n, ss⟩]) r' else none
      else some (acc, ts)

structure GenB where
  rule : Str
  cutSize : Option (Dec × Dec) := none
  layers : Option (Str × Str × Str) := none
  cutSpacing : Option (Dec × Dec) := none
  enclosure : Option (Dec × Dec × Dec × Dec) := none
  rowcol : Option (Dec × Dec) := none
  origin : Option Pt := none
  offset : Option (Dec × Dec × Dec × Dec) := none

def num2 : P (Dec × Dec) := fun ts => (number ts).bind fun (a, r) => (number r).map fun (b, r) => ((a, b), r)
def num4 : P (Dec × Dec × Dec × Dec) := fun ts =>
  (num2 ts).bind fun ((a, b), r) => (num2 r).map fun ((c, d), r) => ((a, b, c, d), r)

def genViaBody : Nat → GenB → List Tok → Option (GenB × List Tok)
  | 0, _, _ => none
  | f + 1, g, ts =>
    match peekKey ts with
    | none => none
    | some k =>
      let r := ts.tail
      if k == "CutSize" then (num2 r).bind fun (v, r) => (semi r).bind fun (_, r) => genViaBody f { g with cutSize := some v } r
      else if k == "Layers" then
        (getName r).bind fun (a, r) => (getName r).bind fun (b, r) => (getName r).bind fun (c, r) => (semi r).bind fun (_, r) =>
          genViaBody f { g with layers := some (a, b, c) } r
      else if k == "CutSpacing" then (num2 r).bind fun (v, r) => (semi r).bind fun (_, r) => genViaBody f { g with cutSpacing := some v } r
      else if k == "Enclosure" then (num4 r).bind fun (v, r) => (semi r).bind fun (_, r) => genViaBody f { g with enclosure := some v } r
      else if k == "RowCol" then (num2 r).bind fun (v, r) => (semi r).bind fun (_, r) => genViaBody f { g with rowcol := some v } r
      else if k == "Origin" then (point r).bind fun (v, r) => (semi r).bind fun (_, r) => genViaBody f { g with origin := some v } r
      else if k == "Offset" then (num4 r).bind fun (v, r) => (semi r).bind fun (_, r) => genViaBody f { g with offset := some v } r
      else if k == "End" then some (g, ts)
      else none

/-- the body of `parse_via` between the name / DEFAULT and END -/
def viaDataP : P ViaData := fun r => do
  let k2 ← peekKey r
  if k2 == "ViaRule" then do
    let (rule, r) ← getName r.tail
    let (_, r) ← semi r
    let (g, r) ← genViaBody (r.length + 1) { rule := rule } r
    match g.cutSize, g.layers, g.cutSpacing, g.enclosure with
    | some cs, some ls, some sp, some en => pure (ViaData.generated ⟨g.rule, cs, ls, sp, en, g.rowcol, g.origin, g.offset⟩, r)
    | _, _, _, _ => none
  else do
    let (res, r) ← if k2 == "Resistance" then (number r.tail).bind fun (d, r) => (semi r).map fun (_, r) => (some d, r) else some (none, r)
    let (ls, r) ← viaLayers (r.length + 1) [] r
    pure (ViaData.fixed res ls, r)

/-- `parse_via` -/
def viaDef : P ViaDef := fun ts => do
  let (_, r) ← expectKey "Via" ts
  let (n, r) ← getName r
  let k1 ← peekKey r
  let (isDef, r) := if k1 == "Default" then (true, r.tail) else (false, r)
  let (data, r) ← viaDataP r
  let k3 ← peekKey r
  if k3 == "End" then do
    let (_, r) ← expectIdent n r.tail
    pure (⟨n, isDef, data⟩, r)
  else none

/-- `parse_property_definitions` -/
def propDefTail : P (Option Dec × Option (Dec × Dec)) := fun ts => do
  let (range, r) ← if matchesTT .name ts then
      (expectKey "Range" ts).bind fun (_, r) => (num2 r).map fun (v, r) => (some v, r)
    else some (none, ts)
  let (value, r) ← if matchesTT .number r then (number r).map fun (d, r) => (some d, r) else some (none, r)
  let (_, r) ← semi r
  pure ((value, range), r)

def propDefObjects : List String := ["Layer", "Library", "Macro", "NonDefaultRule", "Pin", "Via", "ViaRule"]

def propDefs : Nat → List PropDef → List Tok → Option (List PropDef × List Tok)
  | 0, _, _ => none
  | f + 1, acc, ts =>
    match peekKey ts with
    | none => none
    | some k =>
      if propDefObjects.contains k then
        (parseEnum "LefPropertyDefinitionObjectType" ts).bind fun (obj, r) => (getName r).bind fun (name, r) => (getKey r).bind fun (tk, r) =>
          if tk == "String" then
            if matchesTT .semi r then propDefs f (acc ++ [.str obj name none]) r.tail
            else (expectTT .string r).bind fun (v, r) => (semi r).bind fun (_, r) => propDefs f (acc ++ [.str obj name (some v)]) r
          else if tk == "Real" then (propDefTail r).bind fun ((v, rg), r) => propDefs f (acc ++ [.real obj name v rg]) r
          else if tk == "Integer" then (propDefTail r).bind fun ((v, rg), r) => propDefs f (acc ++ [.int obj name v rg]) r
          else none
      else if k == "End" then (expectKey "PropertyDefinitions" ts.tail).map fun (_, r) => (acc, r)
      else none

/-- the BEGINEXT loop: token texts joined with one blank each, up to ENDEXT -/
def extBody : Nat → Str → List Tok → Option (Str × List Tok)
  | 0, _, _ => none
  | _, _, [] => none
  | f + 1, acc, t :: r =>
    if t.tt == .name && LefEnum.parse keyTable t.txt == some "EndExtension" then some (acc, r)
    else extBody f (acc ++ t.txt ++ [' ']) r

/-- `parse_version` -/
def versionOk (d : Dec) : Bool :=
  -- floor = 5, one fractional digit at most, that digit ≤ 8
  let n := d.norm
  n.mant ≥ 0 && ((n.scale == 0 && n.mant == 5) || (n.scale == 1 && n.mant / 10 == 5 && n.mant % 10 ≤ 8))

/-- `parse_lib` -/
def libBody : Nat → Dec → Lib → List Tok → Option Lib
  | 0, _, _, _ => none
  | f + 1, ver, lib, ts =>
    if ts.isEmpty && v5p6.le ver then some lib
    else match peekKey ts with
      | none => none
      | some k =>
        let r0 := ts.tail
        if k == "Macro" then (macro_ ver ts).bind fun (m, r) => if r.length < ts.length then libBody f ver { lib with macros := lib.macros ++ [m] } r else none
        else if k == "Version" then
          (number r0).bind fun (d, r) => (semi r).bind fun (_, r) =>
            -- a VERSION > 5.4 after statements valid only up to 5.4 is refused (session flag `has_pre_5p5_content`)
            if versionOk d && !(v5p4.lt d && (lib.namesCaseSensitive.isSome || lib.macros.any (·.source.isSome)))
            then libBody f d { lib with version := some d } r else none
        else if k == "BusBitChars" then
          (expectTT .string r0).bind fun (s, r) =>
            match s with
            | [_, a, b, _] => (semi r).bind fun (_, r) => libBody f ver { lib with busBitChars := some (a, b) } r
            | _ => none
        else if k == "DividerChar" then
          (expectTT .string r0).bind fun (s, r) =>
            match s with
            | [_, a, _] => (semi r).bind fun (_, r) => libBody f ver { lib with dividerChar := some a } r
            | _ => none
        else if k == "NamesCaseSensitive" then
          if v5p4.lt ver then none
          else (parseEnum "LefOnOff" r0).bind fun (e, r) => (semi r).bind fun (_, r) => libBody f ver { lib with namesCaseSensitive := some e } r
        else if k == "NoWireExtensionAtPin" then
          (parseEnum "LefOnOff" r0).bind fun (e, r) => (semi r).bind fun (_, r) => libBody f ver { lib with noWireExt := some e } r
        else if k == "Units" then
          (unitsBody (ts.length + 1) {} r0).bind fun (u, r) => if r.length < ts.length then libBody f ver { lib with units := some u } r else none
        else if k == "Site" then (site ts).bind fun (s, r) => if r.length < ts.length then libBody f ver { lib with sites := lib.sites ++ [s] } r else none
        else if k == "End" then (expectKey "Library" r0).map fun _ => lib
        else if k == "FixedMask" then (semi r0).bind fun (_, r) => libBody f ver { lib with fixedMask := true } r
        else if k == "UseMinSpacing" then
          (expectKey "Obs" r0).bind fun (_, r) => (parseEnum "LefOnOff" r).bind fun (e, r) => (semi r).bind fun (_, r) =>
            libBody f ver { lib with useMinSpacing := some e } r
        else if k == "Via" then (viaDef ts).bind fun (v, r) => if r.length < ts.length then libBody f ver { lib with vias := lib.vias ++ [v] } r else none
        else if k == "ClearanceMeasure" then
          (parseEnum "LefClearanceStyle" r0).bind fun (e, r) => (semi r).bind fun (_, r) => libBody f ver { lib with clearance := some e } r
        else if k == "ManufacturingGrid" then
          (number r0).bind fun (d, r) => (semi r).bind fun (_, r) => libBody f ver { lib with mfgGrid := some d } r
        else if k == "BeginExtension" then
          (expectTT .string r0).bind fun (n, r) => (extBody (r.length + 1) [] r).bind fun (data, r') =>
            if r'.length < ts.length then libBody f ver { lib with extensions := lib.extensions ++ [(n, data)] } r' else none
        else if k == "PropertyDefinitions" then
          (propDefs (ts.length + 1) [] r0).bind fun (ds, r) =>
            if r.length < ts.length then libBody f ver { lib with propDefs := lib.propDefs ++ ds } r else none
        else none

/-- `parse_str` -/
def parse (src : List Char) : Option Lib :=
  match tokens src with
  | none => none
  | some ts => libBody (ts.length + 1) ⟨58, 1⟩ {} ts

end L21.Lef
