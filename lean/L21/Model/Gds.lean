import L21.Model.GdsFloat
import L21.Gen.GdsTables
/-
Model of gds21: the library tree, the record layer, the byte codec (table-driven over the
tables regenerated from the source, `L21/Gen/GdsTables.lean`), the writer
(`encode_lib … encode_strans`) and the reader (`GdsParser::parse_*`).

Reader modelling note.  The real parser pulls records lazily with one record of look-ahead and
never reads past the first ENDLIB.  `dec` instead tokenises eagerly up to and including the
first ENDLIB and then parses the record list.  Both give the same library or the same outcome
class (error): the parser can only succeed after consuming ENDLIB, so every record before it has
been decoded in both readings, and nothing after it is ever touched in either.
-/
namespace L21.Gds

abbrev Bytes := List Nat

inductive Out (α : Type) where
  | ok (a : α)
  | err
  deriving Repr, DecidableEq

/-! ### integers and byte strings -/

def beBytes (width : Nat) (v : Int) : Bytes :=
  -- two's complement, big-endian, `width` bytes
  let m : Int := 256 ^ width
  let u : Nat := (v % m).toNat
  (List.range width).reverse.map (fun i => u / 256 ^ i % 256)

def beNat (bs : Bytes) : Nat := bs.foldl (fun acc b => acc * 256 + b) 0

def beInt (width : Nat) (bs : Bytes) : Int :=
  let u := beNat bs
  if u < 256 ^ width / 2 then (u : Int) else (u : Int) - (256 ^ width : Nat)

def natBytes8 (v : Nat) : Bytes := (List.range 8).reverse.map (fun i => v / 256 ^ i % 256)

/-- Rust `std::str::from_utf8` validity (Unicode Table 3-7: well-formed UTF-8 byte sequences). -/
def validUtf8 : Bytes → Bool
  | [] => true
  | b0 :: rest =>
    let cont (b : Nat) : Bool := 0x80 ≤ b && b ≤ 0xBF
    if b0 ≤ 0x7F then validUtf8 rest
    else if 0xC2 ≤ b0 && b0 ≤ 0xDF then
      match rest with
      | b1 :: r => cont b1 && validUtf8 r
      | _ => false
    else if 0xE0 ≤ b0 && b0 ≤ 0xEF then
      match rest with
      | b1 :: b2 :: r =>
        let lo := if b0 = 0xE0 then 0xA0 else 0x80
        let hi := if b0 = 0xED then 0x9F else 0xBF
        (lo ≤ b1 && b1 ≤ hi) && cont b2 && validUtf8 r
      | _ => false
    else if 0xF0 ≤ b0 && b0 ≤ 0xF4 then
      match rest with
      | b1 :: b2 :: b3 :: r =>
        let lo := if b0 = 0xF0 then 0x90 else 0x80
        let hi := if b0 = 0xF4 then 0x8F else 0xBF
        (lo ≤ b1 && b1 ≤ hi) && cont b2 && cont b3 && validUtf8 r
      | _ => false
    else false

/-! ### records -/

inductive Payload where
  | none
  | bits (a b : Nat)
  | ints (l : List Int)
  | reals (l : List Nat)        -- IEEE bit patterns
  | str (s : Bytes)
  deriving Repr, DecidableEq

structure Rec where
  rt : Nat
  pl : Payload
  deriving Repr, DecidableEq

-- record numbers used by the tree layer (names as in `enum GdsRecordType`)
def rHeader := 0
def rBgnLib := 1
def rLibName := 2
def rUnits := 3
def rEndLib := 4
def rBgnStruct := 5
def rStructName := 6
def rEndStruct := 7
def rBoundary := 8
def rPath := 9
def rStructRef := 10
def rArrayRef := 11
def rText := 12
def rLayer := 13
def rDataType := 14
def rWidth := 15
def rXy := 16
def rEndElement := 17
def rStructRefName := 18
def rColRow := 19
def rNode := 21
def rTextType := 22
def rPresentation := 23
def rString := 25
def rStrans := 26
def rMag := 27
def rAngle := 28
def rRefLibs := 31
def rFonts := 32
def rPathType := 33
def rGenerations := 34
def rAttrTable := 35
def rElemFlags := 38
def rNodetype := 42
def rPropAttr := 43
def rPropValue := 44
def rBox := 45
def rBoxType := 46
def rPlex := 47
def rBeginExtn := 48
def rEndExtn := 49
def rFormat := 54
def rLibDirSize := 57
def rSrfName := 58
def rLibSecur := 59

/-! ### byte codec of one record (table-driven) -/

def lookupWrite (rt : Nat) : Option (Nat × LenSpec × PK) :=
  (Gen.gdsWriteTable.find? (fun r => r.1 == rt)).map (fun r => r.2)

/-- does the payload have the layout the table prescribes? -/
def payloadFits : PK → Payload → Bool
  | .none, .none => true
  | .bits, .bits _ _ => true
  | .i16 n, .ints l => l.length == n
  | .i32 n, .ints l => l.length == n
  | .f64 n, .reals l => l.length == n
  | .str, .str _ => true
  | .i32vec, .ints _ => true
  | _, _ => false

def payloadLen : LenSpec → Payload → Nat
  | .fixed n, _ => n
  | .strlen, .str s => s.length + s.length % 2
  | .xy, .ints l => 4 * l.length
  | _, _ => 0

/-- encode the reals of a record; `none` if some value is not representable -/
def encReals : List Nat → Option Bytes
  | [] => some []
  | x :: rest =>
    match GdsFloat.encodeBits x, encReals rest with
    | some g, some bs => some (natBytes8 g ++ bs)
    | _, _ => none

def payloadBytes : PK → Payload → Option Bytes
  | .none, .none => some []
  | .bits, .bits a b => some [a, b]
  | .i16 _, .ints l => some (l.flatMap (beBytes 2))
  | .i32 _, .ints l => some (l.flatMap (beBytes 4))
  | .i32vec, .ints l => some (l.flatMap (beBytes 4))
  | .f64 _, .reals l => encReals l
  | .str, .str s =>
    if s.length % 2 = 0 ∧ s.getLast? = some 0 then none     -- lossy: writer refuses
    else some (s ++ (if s.length % 2 = 1 then [0] else []))
  | _, _ => none

/-- `write_record`: header then content; `err` for over-long records, non-representable reals
    and even-length strings ending in NUL. -/
def encRecord (r : Rec) : Out Bytes :=
  match lookupWrite r.rt with
  | none => .err
  | some (dt, ls, pk) =>
    if !payloadFits pk r.pl then .err else
    let len := payloadLen ls r.pl
    if 65535 < len + 4 then .err else
    match payloadBytes pk r.pl with
    | none => .err
    | some body => .ok ([(len + 4) / 256, (len + 4) % 256, r.rt, dt] ++ body)

def splitInts (width : Nat) : Nat → Bytes → List Int
  | 0, _ => []
  | n + 1, bs => beInt width (bs.take width) :: splitInts width n (bs.drop width)

def splitReals : Nat → Bytes → List Nat
  | 0, _ => []
  | n + 1, bs => GdsFloat.decodeBits (beNat (bs.take 8)) :: splitReals n (bs.drop 8)

/-- `read_str`: strip one trailing NUL, then require UTF-8 -/
def readStr (body : Bytes) : Out Bytes :=
  let s := if body.getLast? = some 0 then body.dropLast else body
  if validUtf8 s then .ok s else .err

def decodePayload (pk : PK) (body : Bytes) : Out Payload :=
  match pk with
  | .none => .ok .none
  | .bits => .ok (.bits (body.getD 0 0) (body.getD 1 0))
  | .i16 n => .ok (.ints (splitInts 2 n body))
  | .i32 n => .ok (.ints (splitInts 4 n body))
  | .i32vec => .ok (.ints (splitInts 4 (body.length / 4) body))
  | .f64 n =>
    -- `read_f64`: a real whose nearest double is not itself a GDSII real (it rounds to ≥ 16^63) is an error
    let xs := splitReals n body
    if xs.all (fun x => (GdsFloat.encodeBits x).isSome) then .ok (.reals xs) else .err
  | .str => match readStr body with
    | .ok s => .ok (.str s)
    | .err => .err

/-- a row of the read table applies to (record type, data type, payload length) -/
def readRowMatches (rt dt plen : Nat) (r : Nat × Nat × Option Nat × PK) : Bool :=
  r.1 == rt && (r.2.1 == dt && (match r.2.2.1 with | none => true | some k => k == plen))

/-- `read_record`: one record from the front of the byte string. -/
def readRecord (bs : Bytes) : Out (Rec × Bytes) :=
  match bs with
  | l0 :: l1 :: rest =>
    let len := l0 * 256 + l1
    if len < 4 then .err
    else if len % 2 ≠ 0 then .err
    else
      let plen := len - 4
      match rest with
      | rt :: rest2 =>
        if (Gen.gdsRecTypes.find? (fun r => r.2 == rt)).isNone then .err       -- FromPrimitive fails
        else if Gen.gdsInvalid.contains rt then .err                             -- !valid()
        else match rest2 with
          | dt :: rest3 =>
            if (Gen.gdsDataTypes.find? (fun r => r.2 == dt)).isNone then .err
            else
              match Gen.gdsReadTable.find? (readRowMatches rt dt plen) with
              | none => .err                                                     -- RecordDecode
              | some row =>
                if rest3.length < plen then .err                                 -- read_exact: EOF
                else match decodePayload row.2.2.2 (rest3.take plen) with
                  | .ok pl => .ok (⟨rt, pl⟩, rest3.drop plen)
                  | .err => .err
          | [] => .err
      | [] => .err
  | _ => .err

/-- all records up to and including the first ENDLIB (fuel: each record takes ≥ 4 bytes) -/
def tokenize : Nat → Bytes → Out (List Rec)
  | 0, _ => .err
  | fuel + 1, bs =>
    match readRecord bs with
    | .err => .err
    | .ok (r, rest) =>
      if r.rt = rEndLib then .ok [r]
      else match tokenize fuel rest with
        | .ok rs => .ok (r :: rs)
        | .err => .err

/-! ### the library tree -/

structure Strans where
  reflected : Bool
  absMag : Bool
  absAngle : Bool
  mag : Option Nat
  angle : Option Nat
  deriving Repr, DecidableEq

structure Property where
  attr : Int
  value : Bytes
  deriving Repr, DecidableEq

structure Common where
  elflags : Option (Nat × Nat)
  plex : Option Int
  props : List Property
  deriving Repr, DecidableEq

inductive Elem where
  | boundary (layer datatype : Int) (xy : List Int) (c : Common)
  | path (layer datatype : Int) (xy : List Int) (width pathType beginExtn endExtn : Option Int) (c : Common)
  | sref (name : Bytes) (xy : List Int) (strans : Option Strans) (c : Common)
  | aref (name : Bytes) (xy : List Int) (cols rows : Int) (strans : Option Strans) (c : Common)
  | text (string : Bytes) (layer texttype : Int) (xy : List Int) (presentation : Option (Nat × Nat))
      (pathType width : Option Int) (strans : Option Strans) (c : Common)
  | node (layer nodetype : Int) (xy : List Int) (c : Common)
  | box (layer boxtype : Int) (xy : List Int) (c : Common)
  deriving Repr, DecidableEq

structure Struct where
  name : Bytes
  dates : List Int
  elems : List Elem
  deriving Repr, DecidableEq

structure Library where
  name : Bytes
  version : Int
  dates : List Int
  units : Nat × Nat
  structs : List Struct
  deriving Repr, DecidableEq

/-! ### writer: tree → records  (`Encode` trait) -/

def optRec (rt : Nat) (mk : α → Payload) : Option α → List Rec
  | none => []
  | some a => [⟨rt, mk a⟩]

def int1 (v : Int) : Payload := .ints [v]

def commonHead (c : Common) : List Rec :=
  optRec rElemFlags (fun (e : Nat × Nat) => .bits e.1 e.2) c.elflags ++ optRec rPlex int1 c.plex

def propRecs (ps : List Property) : List Rec :=
  ps.flatMap (fun p => [⟨rPropAttr, int1 p.attr⟩, ⟨rPropValue, .str p.value⟩])

/-- `encode_strans` -/
def stransRecs (s : Strans) : List Rec :=
  [⟨rStrans, .bits (if s.reflected then 128 else 0) ((if s.absMag then 4 else 0) + (if s.absAngle then 2 else 0))⟩]
    ++ optRec rMag (fun m => .reals [m]) s.mag ++ optRec rAngle (fun a => .reals [a]) s.angle

def optStrans : Option Strans → List Rec
  | none => []
  | some s => stransRecs s

def elemRecs : Elem → List Rec
  | .boundary layer dt xy c =>
    [⟨rBoundary, .none⟩] ++ commonHead c ++ [⟨rLayer, int1 layer⟩, ⟨rDataType, int1 dt⟩, ⟨rXy, .ints xy⟩]
      ++ propRecs c.props ++ [⟨rEndElement, .none⟩]
  | .path layer dt xy width pt be ee c =>
    [⟨rPath, .none⟩] ++ commonHead c ++ [⟨rLayer, int1 layer⟩, ⟨rDataType, int1 dt⟩]
      ++ optRec rPathType int1 pt ++ optRec rWidth int1 width ++ optRec rBeginExtn int1 be ++ optRec rEndExtn int1 ee
      ++ [⟨rXy, .ints xy⟩] ++ propRecs c.props ++ [⟨rEndElement, .none⟩]
  | .sref name xy st c =>
    [⟨rStructRef, .none⟩] ++ commonHead c ++ [⟨rStructRefName, .str name⟩] ++ optStrans st
      ++ [⟨rXy, .ints xy⟩] ++ propRecs c.props ++ [⟨rEndElement, .none⟩]
  | .aref name xy cols rows st c =>
    [⟨rArrayRef, .none⟩] ++ commonHead c ++ [⟨rStructRefName, .str name⟩] ++ optStrans st
      ++ [⟨rColRow, .ints [cols, rows]⟩, ⟨rXy, .ints xy⟩] ++ propRecs c.props ++ [⟨rEndElement, .none⟩]
  | .text s layer tt xy pres pt width st c =>
    [⟨rText, .none⟩] ++ commonHead c ++ [⟨rLayer, int1 layer⟩, ⟨rTextType, int1 tt⟩]
      ++ optRec rPresentation (fun (e : Nat × Nat) => .bits e.1 e.2) pres ++ optRec rPathType int1 pt ++ optRec rWidth int1 width
      ++ optStrans st ++ [⟨rXy, .ints xy⟩, ⟨rString, .str s⟩] ++ propRecs c.props ++ [⟨rEndElement, .none⟩]
  | .node layer nt xy c =>
    [⟨rNode, .none⟩] ++ commonHead c ++ [⟨rLayer, int1 layer⟩, ⟨rNodetype, int1 nt⟩, ⟨rXy, .ints xy⟩]
      ++ propRecs c.props ++ [⟨rEndElement, .none⟩]
  | .box layer bt xy c =>
    [⟨rBox, .none⟩] ++ commonHead c ++ [⟨rLayer, int1 layer⟩, ⟨rBoxType, int1 bt⟩, ⟨rXy, .ints xy⟩]
      ++ propRecs c.props ++ [⟨rEndElement, .none⟩]

def structRecs (s : Struct) : List Rec :=
  [⟨rBgnStruct, .ints s.dates⟩, ⟨rStructName, .str s.name⟩] ++ s.elems.flatMap elemRecs ++ [⟨rEndStruct, .none⟩]

/-- `encode_lib` -/
def libRecs (l : Library) : List Rec :=
  [⟨rHeader, int1 l.version⟩, ⟨rBgnLib, .ints l.dates⟩, ⟨rLibName, .str l.name⟩, ⟨rUnits, .reals [l.units.1, l.units.2]⟩]
    ++ l.structs.flatMap structRecs ++ [⟨rEndLib, .none⟩]

def encRecords : List Rec → Out Bytes
  | [] => .ok []
  | r :: rest =>
    match encRecord r, encRecords rest with
    | .ok a, .ok b => .ok (a ++ b)
    | _, _ => .err

/-- `GdsLibrary::write` -/
def enc (l : Library) : Out Bytes := encRecords (libRecs l)

/-! ### reader: records → tree  (`GdsParser`) -/

/-- builder state shared by the seven element parsers -/
structure B where
  layer : Option Int := none
  xtype : Option Int := none       -- datatype / texttype / nodetype / boxtype
  xy : Option (List Int) := none
  width : Option Int := none
  pathType : Option Int := none
  beginExtn : Option Int := none
  endExtn : Option Int := none
  name : Option Bytes := none
  string : Option Bytes := none
  presentation : Option (Nat × Nat) := none
  strans : Option Strans := none
  cols : Option Int := none
  rows : Option Int := none
  elflags : Option (Nat × Nat) := none
  plex : Option Int := none
  props : List Property := []

inductive EK where
  | boundary | path | sref | aref | text | node | box
  deriving DecidableEq, Repr

/-- `parse_strans`: flag bytes, then any run of MAG / ANGLE records (last one wins) -/
def parseStransTail (s : Strans) : List Rec → Strans × List Rec
  | ⟨27, .reals [m]⟩ :: rest => parseStransTail { s with mag := some m } rest
  | ⟨28, .reals [a]⟩ :: rest => parseStransTail { s with angle := some a } rest
  | recs => (s, recs)

def mkStrans (d0 d1 : Nat) : Strans :=
  { reflected := d0 / 128 % 2 = 1, absMag := d1 / 4 % 2 = 1, absAngle := d1 / 2 % 2 = 1, mag := none, angle := none }

/-- the xy shape each element kind demands -/
def xyOk (k : EK) (l : List Int) : Bool :=
  match k with
  | .boundary | .path | .node => l.length % 2 == 0
  | .sref | .text => l.length == 2
  | .aref => l.length == 6
  | .box => l.length == 10

def build (k : EK) (b : B) : Out Elem :=
  let c : Common := ⟨b.elflags, b.plex, b.props⟩
  match k with
  | .boundary => match b.layer, b.xtype, b.xy with
    | some l, some d, some xy => .ok (.boundary l d xy c)
    | _, _, _ => .err
  | .path => match b.layer, b.xtype, b.xy with
    | some l, some d, some xy => .ok (.path l d xy b.width b.pathType b.beginExtn b.endExtn c)
    | _, _, _ => .err
  | .sref => match b.name, b.xy with
    | some n, some xy => .ok (.sref n xy b.strans c)
    | _, _ => .err
  | .aref => match b.name, b.xy, b.cols, b.rows with
    | some n, some xy, some cs, some rs => .ok (.aref n xy cs rs b.strans c)
    | _, _, _, _ => .err
  | .text => match b.string, b.layer, b.xtype, b.xy with
    | some s, some l, some t, some xy => .ok (.text s l t xy b.presentation b.pathType b.width b.strans c)
    | _, _, _, _ => .err
  | .node => match b.layer, b.xtype, b.xy with
    | some l, some d, some xy => .ok (.node l d xy c)
    | _, _, _ => .err
  | .box => match b.layer, b.xtype, b.xy with
    | some l, some d, some xy => .ok (.box l d xy c)
    | _, _, _ => .err

/-- the record number carrying the element kind's second layer number -/
def xtypeRec : EK → Nat
  | .boundary | .path => 14 | .text => 22 | .node => 42 | .box => 46 | _ => 1000

/-- one element: records until ENDEL, any order, last occurrence wins (`parse_boundary` …) -/
def parseElem (k : EK) : Nat → B → List Rec → Out (Elem × List Rec)
  | 0, _, _ => .err
  | _, _, [] => .err                                     -- (cannot happen after tokenize: ENDLIB comes first)
  | fuel + 1, b, r :: rest =>
    let hasStrans := k == .sref || k == .aref || k == .text
    let hasLayer := !(k == .sref || k == .aref)
    match r with
    | ⟨17, .none⟩ => (match build k b with | .ok e => .ok (e, rest) | .err => .err)
    | ⟨13, .ints [v]⟩ => if hasLayer then parseElem k fuel { b with layer := some v } rest else .err
    | ⟨16, .ints l⟩ => if xyOk k l then parseElem k fuel { b with xy := some l } rest else .err
    | ⟨47, .ints [v]⟩ => parseElem k fuel { b with plex := some v } rest
    | ⟨38, .bits a c⟩ => parseElem k fuel { b with elflags := some (a, c) } rest
    | ⟨43, .ints [attr]⟩ =>
      (match rest with
       | ⟨44, .str v⟩ :: rest' => parseElem k fuel { b with props := b.props ++ [⟨attr, v⟩] } rest'
       | _ => .err)
    | ⟨26, .bits d0 d1⟩ =>
      if hasStrans then
        let (s, rest') := parseStransTail (mkStrans d0 d1) rest
        if rest'.length ≤ rest.length then parseElem k fuel { b with strans := some s } rest' else .err
      else .err
    | ⟨18, .str n⟩ => if k == .sref || k == .aref then parseElem k fuel { b with name := some n } rest else .err
    | ⟨19, .ints [cs, rs]⟩ => if k == .aref then parseElem k fuel { b with cols := some cs, rows := some rs } rest else .err
    | ⟨15, .ints [v]⟩ => if k == .path || k == .text then parseElem k fuel { b with width := some v } rest else .err
    | ⟨33, .ints [v]⟩ => if k == .path || k == .text then parseElem k fuel { b with pathType := some v } rest else .err
    | ⟨48, .ints [v]⟩ => if k == .path then parseElem k fuel { b with beginExtn := some v } rest else .err
    | ⟨49, .ints [v]⟩ => if k == .path then parseElem k fuel { b with endExtn := some v } rest else .err
    | ⟨25, .str s⟩ => if k == .text then parseElem k fuel { b with string := some s } rest else .err
    | ⟨23, .bits a c⟩ => if k == .text then parseElem k fuel { b with presentation := some (a, c) } rest else .err
    | ⟨rt, .ints [v]⟩ => if rt = xtypeRec k then parseElem k fuel { b with xtype := some v } rest else .err
    | _ => .err

def elemKind (rt : Nat) : Option EK :=
  if rt = 8 then some .boundary else if rt = 9 then some .path else if rt = 10 then some .sref
  else if rt = 11 then some .aref else if rt = 12 then some .text else if rt = 21 then some .node
  else if rt = 45 then some .box else none

/-- `parse_struct` after BGNSTR: STRNAME, elements, ENDSTR -/
def parseElems : Nat → List Elem → List Rec → Out (List Elem × List Rec)
  | 0, _, _ => .err
  | _, _, [] => .err
  | fuel + 1, acc, r :: rest =>
    if r.rt = rEndStruct ∧ r.pl = .none then .ok (acc, rest)
    else match elemKind r.rt with
      | none => .err
      | some k =>
        match parseElem k (rest.length + 1) {} rest with
        | .err => .err
        | .ok (e, rest') => if rest'.length < rest.length + 1 then parseElems fuel (acc ++ [e]) rest' else .err

/-- builder state of `parse_lib` -/
structure LB where
  name : Option Bytes := none
  units : Option (Nat × Nat) := none
  structs : List Struct := []

def parseLibBody (version : Int) (dates : List Int) : Nat → LB → List Rec → Out Library
  | 0, _, _ => .err
  | _, _, [] => .err
  | fuel + 1, lb, r :: rest =>
    match r with
    | ⟨4, .none⟩ =>
      (match lb.name, lb.units with
       | some n, some u => .ok ⟨n, version, dates, u, lb.structs⟩
       | _, _ => .err)                                  -- builder: required field never set
    | ⟨2, .str n⟩ => parseLibBody version dates fuel { lb with name := some n } rest
    | ⟨3, .reals [a, b]⟩ => parseLibBody version dates fuel { lb with units := some (a, b) } rest
    | ⟨5, .ints sdates⟩ =>
      (match rest with
       | ⟨6, .str sname⟩ :: rest1 =>
         (match parseElems (rest1.length + 1) [] rest1 with
          | .err => .err
          | .ok (elems, rest2) =>
            if rest2.length < rest.length then
              parseLibBody version dates fuel { lb with structs := lb.structs ++ [⟨sname, sdates, elems⟩] } rest2
            else .err)
       | _ => .err)
    | _ => .err      -- unsupported library-level records and everything else

/-- `parse_lib` -/
def parseLib (recs : List Rec) : Out Library :=
  match recs with
  | ⟨0, .ints [v]⟩ :: ⟨1, .ints dates⟩ :: rest => parseLibBody v dates (rest.length + 1) {} rest
  | _ => .err

/-- `GdsLibrary::from_bytes` -/
def dec (bs : Bytes) : Out Library :=
  match tokenize (bs.length / 4 + 1) bs with
  | .err => .err
  | .ok recs => parseLib recs

end L21.Gds
