import L21.Model.Gds
/-
The reader of gds21 as the code runs it: `GdsParser` pulls records from the byte stream ONE AT A
TIME with one record of look-ahead (`nxt`), never reads past the first ENDLIB ("once we reach
EndLib, keep returning it forever"), and an undecodable record surfaces as an error of the
`next()` call that loads it — i.e. while the parser is consuming the record BEFORE it.

`Model/Gds.lean` instead tokenises eagerly up to the first ENDLIB and parses the record list
(`dec`).  `Proofs/GdsLazy.lean` proves `decLazy bs = dec bs` for every byte string, so every
theorem about `dec` (C01, C03, C10) is a theorem about this reading of the code too.

The per-record decisions of the element loops are shared with the list parser through
`elemAct` (`Proofs/GdsLazy.lean: parseElem_step` shows the list parser takes exactly these steps).
-/
namespace L21.Gds

/-- `GdsParser`: the peeked record and the bytes not yet read -/
structure LS where
  nxt : Rec
  rest : Bytes
  deriving Repr

/-- `GdsParser::new`: decode the first record into the peek slot -/
def LS.init (bs : Bytes) : Out LS :=
  match readRecord bs with
  | .ok (r, rest) => .ok ⟨r, rest⟩
  | .err => .err

/-- `GdsParser::next`: hand out the peeked record and load the following one — unless the peeked
    record is ENDLIB, which is handed out forever without reading further -/
def LS.next (s : LS) : Out (Rec × LS) :=
  if s.nxt.rt = rEndLib then .ok (s.nxt, s)
  else match readRecord s.rest with
    | .ok (r, rest) => .ok (s.nxt, ⟨r, rest⟩)
    | .err => .err

/-- what one record does to an element under construction -/
inductive Act where
  | done                      -- ENDEL: build the element
  | upd (b : B)               -- a field record
  | prop (attr : Int)         -- PROPATTR: a PROPVALUE must follow immediately
  | strans (d0 d1 : Nat)      -- STRANS: MAG / ANGLE records may follow
  | bad

/-- the arms of `parse_boundary` … `parse_array_ref` -/
def elemAct (k : EK) (b : B) (r : Rec) : Act :=
  let hasStrans := k == .sref || k == .aref || k == .text
  let hasLayer := !(k == .sref || k == .aref)
  match r with
  | ⟨17, .none⟩ => .done
  | ⟨13, .ints [v]⟩ => if hasLayer then .upd { b with layer := some v } else .bad
  | ⟨16, .ints l⟩ => if xyOk k l then .upd { b with xy := some l } else .bad
  | ⟨47, .ints [v]⟩ => .upd { b with plex := some v }
  | ⟨38, .bits a c⟩ => .upd { b with elflags := some (a, c) }
  | ⟨43, .ints [attr]⟩ => .prop attr
  | ⟨26, .bits d0 d1⟩ => if hasStrans then .strans d0 d1 else .bad
  | ⟨18, .str n⟩ => if k == .sref || k == .aref then .upd { b with name := some n } else .bad
  | ⟨19, .ints [cs, rs]⟩ => if k == .aref then .upd { b with cols := some cs, rows := some rs } else .bad
  | ⟨15, .ints [v]⟩ => if k == .path || k == .text then .upd { b with width := some v } else .bad
  | ⟨33, .ints [v]⟩ => if k == .path || k == .text then .upd { b with pathType := some v } else .bad
  | ⟨48, .ints [v]⟩ => if k == .path then .upd { b with beginExtn := some v } else .bad
  | ⟨49, .ints [v]⟩ => if k == .path then .upd { b with endExtn := some v } else .bad
  | ⟨25, .str s⟩ => if k == .text then .upd { b with string := some s } else .bad
  | ⟨23, .bits a c⟩ => if k == .text then .upd { b with presentation := some (a, c) } else .bad
  | ⟨rt, .ints [v]⟩ => if rt = xtypeRec k then .upd { b with xtype := some v } else .bad
  | _ => .bad

/-- `parse_strans`: peek; while MAG / ANGLE, take it -/
def parseStransTailL : Nat → Strans → LS → Out (Strans × LS)
  | 0, _, _ => .err
  | f + 1, st, s =>
    match s.nxt with
    | ⟨27, .reals [m]⟩ =>
      (match s.next with
       | .ok (_, s') => parseStransTailL f { st with mag := some m } s'
       | .err => .err)
    | ⟨28, .reals [a]⟩ =>
      (match s.next with
       | .ok (_, s') => parseStransTailL f { st with angle := some a } s'
       | .err => .err)
    | _ => .ok (st, s)

/-- one element: `loop { let r = self.next()?; match r { … } }` -/
def parseElemL (k : EK) : Nat → B → LS → Out (Elem × LS)
  | 0, _, _ => .err
  | fuel + 1, b, s =>
    match s.next with
    | .err => .err
    | .ok (r, s1) =>
      match elemAct k b r with
      | .done => (match build k b with | .ok e => .ok (e, s1) | .err => .err)
      | .upd b' => parseElemL k fuel b' s1
      | .prop attr =>
        (match s1.next with
         | .ok (⟨44, .str v⟩, s2) => parseElemL k fuel { b with props := b.props ++ [⟨attr, v⟩] } s2
         | _ => .err)
      | .strans d0 d1 =>
        (match parseStransTailL (s1.rest.length + 2) (mkStrans d0 d1) s1 with
         | .ok (st, s2) => parseElemL k fuel { b with strans := some st } s2
         | .err => .err)
      | .bad => .err

/-- `parse_struct` after STRNAME: elements until ENDSTR -/
def parseElemsL : Nat → List Elem → LS → Out (List Elem × LS)
  | 0, _, _ => .err
  | fuel + 1, acc, s =>
    match s.next with
    | .err => .err
    | .ok (r, s1) =>
      if r.rt = rEndStruct ∧ r.pl = .none then .ok (acc, s1)
      else match elemKind r.rt with
        | none => .err
        | some k =>
          match parseElemL k (s1.rest.length + 2) {} s1 with
          | .err => .err
          | .ok (e, s2) => parseElemsL fuel (acc ++ [e]) s2

/-- the loop of `parse_lib` -/
def parseLibBodyL (version : Int) (dates : List Int) : Nat → LB → LS → Out Library
  | 0, _, _ => .err
  | fuel + 1, lb, s =>
    match s.next with
    | .err => .err
    | .ok (r, s1) =>
      match r with
      | ⟨4, .none⟩ =>
        (match lb.name, lb.units with
         | some n, some u => .ok ⟨n, version, dates, u, lb.structs⟩
         | _, _ => .err)
      | ⟨2, .str n⟩ => parseLibBodyL version dates fuel { lb with name := some n } s1
      | ⟨3, .reals [a, b]⟩ => parseLibBodyL version dates fuel { lb with units := some (a, b) } s1
      | ⟨5, .ints sdates⟩ =>
        (match s1.next with
         | .ok (⟨6, .str sname⟩, s2) =>
           (match parseElemsL (s2.rest.length + 2) [] s2 with
            | .err => .err
            | .ok (elems, s3) =>
              parseLibBodyL version dates fuel { lb with structs := lb.structs ++ [⟨sname, sdates, elems⟩] } s3)
         | _ => .err)
      | _ => .err

/-- `parse_lib`: HEADER, BGNLIB, then the loop -/
def parseLibL (s : LS) : Out Library :=
  match s.next with
  | .ok (⟨0, .ints [v]⟩, s1) =>
    (match s1.next with
     | .ok (⟨1, .ints dates⟩, s2) => parseLibBodyL v dates (s2.rest.length + 2) {} s2
     | _ => .err)
  | _ => .err

/-- `GdsLibrary::from_bytes` as the code runs it -/
def decLazy (bs : Bytes) : Out Library :=
  match LS.init bs with
  | .err => .err
  | .ok s => parseLibL s

end L21.Gds
