/-
Model of the only place where hash-map iteration order could reach a conversion's output:
per-layer maps (`HashMap<LayerKey, Vec<Shape>>`) are turned into a list by `Layers::sorted`,
i.e. the map's entries — presented in an arbitrary iteration order — sorted by layer number.
A hash map has one entry per key, so `entries` has distinct keys; two iterations of the same map
are permutations of each other.
-/
namespace L21.Determ

/-- `Layers::sorted`: entries ordered by their key -/
def sortEntries {α : Type} (entries : List (Int × α)) : List (Int × α) :=
  entries.mergeSort (fun a b => decide (a.1 ≤ b.1))

/-- the sort key of `Layers::sorted`: (layer number, slot-map key) -/
abbrev LKey := Int × Nat

def lkLe (a b : LKey) : Bool := decide (a.1 < b.1) || (decide (a.1 = b.1) && decide (a.2 ≤ b.2))

/-- `Layers::sorted` with the code's tie-break -/
def sortedK {α : Type} (entries : List (LKey × α)) : List (LKey × α) :=
  entries.mergeSort (fun a b => lkLe a.1 b.1)

end L21.Determ
