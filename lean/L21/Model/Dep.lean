/-
Model of the dependency orderers:
  * `layout21utils::dep_order::DepOrderer::{order,push}`  (generic; used by the tetris
    placer's `PlaceOrder` and by tetris `conv::proto::CellOrder`)
  * `layout21raw::data::DepOrder`, `layout21tetris::library::DepOrder`,
    `layout21raw::gds::GdsDepOrder` (hand-rolled copies of the same DFS).

Nodes are natural numbers, `adj x` is the list of direct dependencies of `x` in the order
the code visits them (instances of a cell, references of a struct, the `to` of a relative
placement).  `stack` is the completed, ordered output (the code's `seen` set is exactly
the set of its elements), `pending` the open recursion frames.  Rust recursion becomes a
fuel argument; `Res.fuel` is the model-level meaning of "recursed without bound" and is
proved unreachable for fuel > number of nodes (Proofs/Dep.lean).
-/
namespace L21.Dep

inductive Res where
  | ok (stack : List Nat)
  | cycle            -- `P::fail()`: item already pending
  | fuel             -- recursion budget exhausted
  deriving Repr, DecidableEq

mutual
/-- `DepOrderer::push` -/
def push (adj : Nat → List Nat) : Nat → Nat → List Nat → List Nat → Res
  | 0, _, _, _ => .fuel
  | f + 1, x, stack, pending =>
    if x ∈ stack then .ok stack
    else if x ∈ pending then .cycle
    else match pushAll adj f (adj x) stack (x :: pending) with
      | .ok st => .ok (st ++ [x])
      | .cycle => .cycle
      | .fuel => .fuel
/-- the loop inside `process` (and the loop of `order`): push every item of a list -/
def pushAll (adj : Nat → List Nat) : Nat → List Nat → List Nat → List Nat → Res
  | _, [], stack, _ => .ok stack
  | f, y :: ys, stack, pending =>
    match push adj f y stack pending with
    | .ok st => pushAll adj f ys st pending
    | .cycle => .cycle
    | .fuel => .fuel
end

/-- `DepOrder::order(items)` with recursion budget `fuel`. -/
def order (adj : Nat → List Nat) (fuel : Nat) (items : List Nat) : Res :=
  pushAll adj fuel items [] []

/-- adjacency from a table (what the driver receives) -/
def adjOf (tbl : List (List Nat)) (x : Nat) : List Nat := tbl.getD x []

end L21.Dep
