/-
Shapes of the table rows that the translator extracts from gds21 (see tools/translate.py).
-/
namespace L21.Gds

/-- payload layout of a record -/
inductive PK where
  | none
  | bits                -- two raw bytes
  | i16 (n : Nat)       -- exactly n big-endian 16-bit integers
  | i32 (n : Nat)       -- exactly n big-endian 32-bit integers
  | f64 (n : Nat)       -- exactly n eight-byte GDSII reals
  | str                 -- bytes, NUL-padded to even length
  | i32vec              -- any number of 32-bit integers
  deriving DecidableEq, Repr

/-- how the writer computes the payload length -/
inductive LenSpec where
  | fixed (n : Nat)
  | strlen              -- s.len() + s.len() % 2
  | xy                  -- 4 * d.len()
  deriving DecidableEq, Repr

end L21.Gds
