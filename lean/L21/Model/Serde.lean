/-
Field-level model of what `#[derive(Serialize, Deserialize)]` does with the attributes used in
gds21 / lef21 (`default`, `skip_serializing`, `skip_serializing_if = Option::is_none |
Vec::is_empty | is_false`), and of serde's treatment of `Option` (None ↦ null; `Some(unit-like)`
↦ null as well, so it reads back as None).  A struct serialises to a map with one entry per
non-skipped field; fields are independent, so the struct round-trips iff every field does.
The text layer (serde_json / serde_yaml printing and parsing) is third-party and not modelled.
-/
namespace L21.Serde

/-- type class of a field, as far as the attributes care -/
inductive Ty where
  | unit                     -- exactly one value (`Unsupported`)
  | bool
  | opt (innerUnit : Bool)   -- Option<T>; `innerUnit` = T is unit-like
  | vec
  | other
  deriving DecidableEq, Repr

inductive Skip where
  | never | always | ifNone | ifEmpty | ifFalse
  deriving DecidableEq, Repr

/-- abstract field values (payloads of data-carrying values are natural numbers) -/
inductive Val where
  | unit
  | bool (b : Bool)
  | none
  | some (payload : Nat)      -- payload 0 for Some(unit-like)
  | vec (elems : List Nat)
  | other (payload : Nat)
  deriving DecidableEq, Repr

def wellTyped : Ty → Val → Bool
  | .unit, .unit => true
  | .bool, .bool _ => true
  | .opt _, .none => true
  | .opt true, .some p => p == 0
  | .opt false, .some _ => true
  | .vec, .vec _ => true
  | .other, .other _ => true
  | _, _ => false

/-- the data-model tree a value serialises to -/
inductive Tree where
  | null | bool (b : Bool) | data (p : Nat) | seq (l : List Nat)
  deriving DecidableEq, Repr

def toTree : Ty → Val → Tree
  | _, .unit => .null
  | _, .bool b => .bool b
  | _, .none => .null
  | .opt true, .some _ => .null          -- Some(()) / Some(UnitStruct) serialise exactly like None
  | _, .some p => .data p
  | _, .vec l => .seq l
  | _, .other p => .data p

def skipped : Skip → Val → Bool
  | .never, _ => false
  | .always, _ => true
  | .ifNone, .none => true
  | .ifEmpty, .vec [] => true
  | .ifFalse, .bool false => true
  | _, _ => false

/-- serialise one field: absent (`none`) or present with a tree -/
def ser (ty : Ty) (skip : Skip) (v : Val) : Option Tree := if skipped skip v then none else some (toTree ty v)

def defaultOf : Ty → Val
  | .unit => .unit | .bool => .bool false | .opt _ => .none | .vec => .vec [] | .other => .other 0

def fromTree : Ty → Tree → Option Val
  | .unit, .null => some .unit
  | .bool, .bool b => some (.bool b)
  | .opt _, .null => some .none
  | .opt false, .data p => some (.some p)
  | .vec, .seq l => some (.vec l)
  | .other, .data p => some (.other p)
  | _, _ => none

/-- deserialise one field: a missing entry is the default when the field has `default`
    (or is an Option, which serde defaults to None), otherwise an error -/
def de (ty : Ty) (hasDefault : Bool) : Option Tree → Option Val
  | some t => fromTree ty t
  | none => if hasDefault then some (defaultOf ty) else (match ty with | .opt _ => some .none | _ => none)

/-- the decidable consistency condition on a field's (type, default, skip) triple -/
def consistent (ty : Ty) (hasDefault : Bool) (skip : Skip) : Bool :=
  (match ty with | .opt true => false | _ => true) &&
  (match skip with
   | .never => true
   | .always => ty == .unit && hasDefault
   | .ifNone => (match ty with | .opt _ => true | _ => false)
   | .ifEmpty => ty == .vec && hasDefault
   | .ifFalse => ty == .bool && hasDefault)

end L21.Serde
