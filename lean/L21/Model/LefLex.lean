/-
Model of `lef21::read::LefLexer`: a character-level lexer with one character of look-ahead.
The source is a list of characters; positions are BYTE offsets (sums of `Char.utf8Size`), because
the code slices the source string with them (`Token::substr`, `lex_number`, error reports).
Unicode classification (`char::is_whitespace`) enters through the parameter `isWs`; the position theorems hold for every such classification.
-/
namespace L21.LefLex

inductive TT where
  | name | number | semi | string
  deriving DecidableEq, Repr

structure Tok where
  ttype : TT
  start : Nat
  stop : Nat
  deriving DecidableEq, Repr

inductive Out (α : Type) where
  | ok (a : α)
  | err
  deriving Repr, DecidableEq

def bytes (cs : List Char) : Nat := (cs.map (·.utf8Size)).sum

/-- Rust's `char::is_whitespace` (Unicode White_Space) -/
def isWsUnicode (c : Char) : Bool :=
  let n := c.toNat
  (9 ≤ n && n ≤ 13) || n == 32 || n == 0x85 || n == 0xA0 || n == 0x1680 || (0x2000 ≤ n && n ≤ 0x200A) ||
  n == 0x2028 || n == 0x2029 || n == 0x202F || n == 0x205F || n == 0x3000

/-- `char::is_ascii_whitespace`: space, \t, \n, \x0C, \r -/
def isAsciiWs (c : Char) : Bool := c == ' ' || c == '\t' || c == '\n' || c == '\x0c' || c == '\r'

def isDigit (c : Char) : Bool := '0' ≤ c && c ≤ '9'

/-- split off the longest prefix satisfying `p` -/
def spanP (p : Char → Bool) : List Char → List Char × List Char
  | [] => ([], [])
  | c :: rest => if p c then let (a, b) := spanP p rest; (c :: a, b) else ([], c :: rest)

/-- Rust `f64::from_str` / `i32::from_str` acceptance for a token that starts with a digit, '.' or '-' -/
def isNumberText (cs : List Char) : Bool :=
  let lower := cs.map Char.toLower
  let body := match lower with | '-' :: r => r | '+' :: r => r | r => r
  if body == "inf".toList || body == "infinity".toList || body == "nan".toList then true else
  let (ip, r1) := spanP isDigit body
  let (fp, r2) := match r1 with
    | '.' :: r => let (f, r') := spanP isDigit r; (f, r')
    | r => ([], r)
  let hasDot := match r1 with | '.' :: _ => true | _ => false
  let mantOk := !(ip.isEmpty && fp.isEmpty) && (hasDot || !ip.isEmpty)
  let expOk := match r2 with
    | [] => true
    | 'e' :: r =>
      let r' := match r with | '-' :: x => x | '+' :: x => x | x => x
      let (ed, rest) := spanP isDigit r'
      !ed.isEmpty && rest.isEmpty
    | _ => false
  mantOk && expOk

/-- the lexer: `pos` = byte offset of the first character of `src`; fuel = remaining characters + 1 -/
def lexFrom (isWs : Char → Bool) : Nat → Nat → List Char → Out (List Tok)
  | 0, _, _ => .err
  | _, _, [] => .ok []
  | fuel + 1, pos, c :: rest =>
    if c == '\n' || isWs c then
      -- newline, or a run of ASCII non-newline whitespace after the first whitespace character
      let run := if c == '\n' then ([], rest) else spanP (fun d => isAsciiWs d && d != '\n') rest
      lexFrom isWs fuel (pos + c.utf8Size + bytes run.1) run.2
    else if c == ';' then
      match lexFrom isWs fuel (pos + 1) rest with
      | .ok ts => .ok (⟨.semi, pos, pos + 1⟩ :: ts)
      | .err => .err
    else if c == '"' then
      let (body, after) := spanP (fun d => d != '"') rest
      let (closing, rest') := match after with | q :: r => ([q], r) | [] => ([], [])
      let stop := pos + 1 + bytes body + bytes closing
      match lexFrom isWs fuel stop rest' with
      | .ok ts => .ok (⟨.string, pos, stop⟩ :: ts)
      | .err => .err
    else if c == '#' then
      let (body, after) := spanP (fun d => d != '\n') rest
      lexFrom isWs fuel (pos + 1 + bytes body) after
    else if isDigit c || c == '.' || c == '-' || c == '+' then
      let (body, after) := spanP (fun d => !isWs d) rest
      let stop := pos + c.utf8Size + bytes body
      match lexFrom isWs fuel stop after with
      | .ok ts => .ok (⟨if isNumberText (c :: body) then .number else .name, pos, stop⟩ :: ts)
      | .err => .err
    else
      -- every other character starts a name (since fix 1ed083c; it was `is_alphabetic` only)
      let (body, after) := spanP (fun d => !isWs d) rest
      let stop := pos + c.utf8Size + bytes body
      match lexFrom isWs fuel stop after with
      | .ok ts => .ok (⟨.name, pos, stop⟩ :: ts)
      | .err => .err

def lex (isWs : Char → Bool) (src : List Char) : Out (List Tok) := lexFrom isWs (src.length + 1) 0 src

end L21.LefLex
