import L21.Model.Lef
/-
Model of lef21's writer (`lef21/src/write.rs`: `LefWriter::write_lib` … `write_geom`) at token
level: the sequence of tokens (type, text) that the lexer finds in the text the writer prints.
White space and line breaks carry no meaning and are not modelled; `none` = the writer reports an
error (version-gated statements).  Keywords and enumerated values are printed from the regenerated
tables (`to_str` / `Display`).
-/
namespace L21.Lef
open L21.LefLex L21.LefEnum

/-! ### decimals as text (`Display for Decimal`) -/
def digitChar (d : Nat) : Char := Char.ofNat (48 + d % 10)

/-- decimal digits of `n`, least significant first -/
def digitsRev : Nat → Nat → List Char
  | 0, _ => []
  | f + 1, n => if n < 10 then [digitChar n] else digitChar (n % 10) :: digitsRev f (n / 10)

def natText (n : Nat) : List Char := (digitsRev (n + 1) n).reverse

/-- `format!("{}", d)`: sign, integer digits (at least one), and exactly `scale` fractional digits -/
def decText (d : Dec) : Str :=
  let a := d.mant.natAbs
  let ds := natText a
  let ds := List.replicate (d.scale + 1 - ds.length) '0' ++ ds
  let ip := ds.take (ds.length - d.scale)
  let fp := ds.drop (ds.length - d.scale)
  (if d.mant < 0 then ['-'] else []) ++ ip ++ (if d.scale = 0 then [] else '.' :: fp)

/-! ### token constructors -/
def kwText (table : String) (variant : String) : Str := ((toStr (enumTable table) variant).getD "").toList
def kw (variant : String) : Tok := ⟨.name, kwText "LefKey" variant⟩
def en (table variant : String) : Tok := ⟨.name, kwText table variant⟩
def ident (s : Str) : Tok := ⟨.name, s⟩
def num (d : Dec) : Tok := ⟨.number, decText d⟩
def strTok (s : Str) : Tok := ⟨.string, s⟩
def semiTok : Tok := ⟨.semi, [';']⟩

/-- the type the lexer gives to a blank-delimited word -/
def wordType (w : Str) : TT :=
  match w with
  | '"' :: _ => .string
  | c :: _ => if (isDigit c || c == '.' || c == '-' || c == '+') && isNumberText w then .number else .name
  | [] => .name
def word (w : Str) : Tok := ⟨wordType w, w⟩

def opt {α : Type} (o : Option α) (f : α → List Tok) : List Tok := match o with | some a => f a | none => []

def wPt (p : Pt) : List Tok := [num p.x, num p.y]
def wMask (m : Option Dec) : List Tok := opt m fun d => [kw "Mask", num d]

def wShape (s : Shape) (iter : Bool) : List Tok :=
  let it := if iter then [kw "Iterate"] else []
  match s with
  | .rect m a b => [kw "Rect"] ++ wMask m ++ it ++ wPt a ++ wPt b
  | .polygon m ps => [kw "Polygon"] ++ wMask m ++ it ++ ps.flatMap wPt
  | .path m ps => [kw "Path"] ++ wMask m ++ it ++ ps.flatMap wPt

def wGeom : Geometry → List Tok
  | .shape s => wShape s false ++ [semiTok]
  | .iterate s p => wShape s true ++ [kw "Do", num p.numx, kw "By", num p.numy, kw "Step", num p.spacex, num p.spacey, semiTok]

def wLayerGeoms (l : LayerGeoms) : List Tok :=
  [kw "Layer", ident l.layerName]
    ++ (if l.exceptPgNet = some true then [kw "ExceptPgNet"] else [])
    ++ (match l.spacing with
        | some (.drw d) => [kw "DesignRuleWidth", num d]
        | some (.spacing d) => [kw "Spacing", num d]
        | none => [])
    ++ [semiTok]
    ++ opt l.width (fun d => [kw "Width", num d, semiTok])
    ++ l.geometries.flatMap wGeom
    ++ l.vias.flatMap fun v => [kw "Via"] ++ wPt v.pt ++ [ident v.name, semiTok]

def wProp (p : Prop') : List Tok := [kw "Property", ident p.name, word p.value, semiTok]

def wPort (p : Port) : List Tok :=
  [kw "Port"] ++ opt p.cls (fun c => [kw "Class", en "LefPortClass" c, semiTok]) ++ p.layers.flatMap wLayerGeoms ++ [kw "End"]

def wPin (p : Pin) : List Tok :=
  [kw "Pin", ident p.name]
    ++ opt p.direction (fun d =>
        [kw "Direction"] ++ (if d.1 == "Output" then [kw "Output"] ++ (if d.2 then [kw "Tristate"] else []) else [kw d.1]) ++ [semiTok])
    ++ opt p.use_ (fun e => [kw "Use", en "LefPinUse" e, semiTok])
    ++ opt p.shape (fun e => [kw "Shape", en "LefPinShape" e, semiTok])
    ++ opt p.antennaModel (fun e => [kw "AntennaModel", en "LefAntennaModel" e, semiTok])
    ++ p.antennaAttrs.flatMap (fun a => [ident a.key, num a.val] ++ opt a.layer (fun l => [kw "Layer", ident l]) ++ [semiTok])
    ++ opt p.taperRule (fun v => [kw "TaperRule", ident v, semiTok])
    ++ opt p.supplySensitivity (fun v => [kw "SupplySensitivity", ident v, semiTok])
    ++ opt p.groundSensitivity (fun v => [kw "GroundSensitivity", ident v, semiTok])
    ++ opt p.mustJoin (fun v => [kw "MustJoin", ident v, semiTok])
    ++ opt p.netExpr (fun v => [kw "NetExpr", strTok v, semiTok])
    ++ p.properties.flatMap wProp
    ++ p.ports.flatMap wPort
    ++ [kw "End", ident p.name]

def wSymmetry (s : List String) : List Tok := [kw "Symmetry"] ++ s.map (en "LefSymmetry") ++ [semiTok]

def wMacroClass (c : String × Option String × Bool) : List Tok :=
  let sub (table : String) := opt c.2.1 fun t => [en table t]
  [kw "Class", en "LefMacroClassName" c.1]
    ++ (if c.1 == "Cover" then (if c.2.2 then [kw "Bump"] else [])
        else if c.1 == "Block" then sub "LefBlockClassType"
        else if c.1 == "Pad" then sub "LefPadClassType"
        else if c.1 == "Core" then sub "LefCoreClassType"
        else if c.1 == "EndCap" then sub "LefEndCapClassType"
        else [])
    ++ [semiTok]

def wDensity (d : List DensityGeoms) : List Tok :=
  [kw "Density"] ++ d.flatMap (fun l => [kw "Layer", ident l.layerName, semiTok]
    ++ l.rects.flatMap fun r => [kw "Rect"] ++ wPt r.p1 ++ wPt r.p2 ++ [num r.value, semiTok]) ++ [kw "End"]

/-- `write_macro`; `ver` is the writer session's version -/
def wMacro (ver : Dec) (m : Macro) : Option (List Tok) :=
  if m.source.isSome && v5p4.lt ver then none else
  some ([kw "Macro", ident m.name]
    ++ opt m.cls wMacroClass
    ++ (if m.fixedMask then [kw "FixedMask", semiTok] else [])
    ++ opt m.foreign (fun f => [kw "Foreign", ident f.cell] ++ opt f.pt wPt ++ opt f.orient (fun o => [en "LefOrient" o]) ++ [semiTok])
    ++ opt m.origin (fun p => [kw "Origin"] ++ wPt p ++ [semiTok])
    ++ opt m.source (fun s => [kw "Source", en "LefDefSource" s, semiTok])
    ++ opt m.eeq (fun c => [kw "Eeq", ident c, semiTok])
    ++ opt m.size (fun s => [kw "Size", num s.1, kw "By", num s.2, semiTok])
    ++ opt m.symmetry wSymmetry
    ++ opt m.site (fun s => [kw "Site", ident s, semiTok])
    ++ m.pins.flatMap wPin
    ++ (if m.obs.isEmpty then [] else [kw "Obs"] ++ m.obs.flatMap wLayerGeoms ++ [kw "End"])
    ++ m.properties.flatMap wProp
    ++ opt m.density wDensity
    ++ [kw "End", ident m.name])

def wViaShape : ViaShape → List Tok
  | .rect m a b => [kw "Rect"] ++ wMask m ++ wPt a ++ wPt b ++ [semiTok]
  | .polygon m ps => [kw "Polygon"] ++ wMask m ++ ps.flatMap wPt ++ [semiTok]

def wVia (v : ViaDef) : List Tok :=
  [kw "Via", ident v.name] ++ (if v.isDefault then [kw "Default"] else [])
    ++ (match v.data with
        | .fixed r ls =>
          opt r (fun d => [kw "Resistance", num d, semiTok])
            ++ ls.flatMap fun l => [kw "Layer", ident l.layerName, semiTok] ++ l.shapes.flatMap wViaShape
        | .generated g =>
          [kw "ViaRule", ident g.rule, semiTok, kw "CutSize", num g.cutSize.1, num g.cutSize.2, semiTok,
           kw "Layers", ident g.layers.1, ident g.layers.2.1, ident g.layers.2.2, semiTok,
           kw "CutSpacing", num g.cutSpacing.1, num g.cutSpacing.2, semiTok,
           kw "Enclosure", num g.enclosure.1, num g.enclosure.2.1, num g.enclosure.2.2.1, num g.enclosure.2.2.2, semiTok]
            ++ opt g.rowcol (fun r => [kw "RowCol", num r.1, num r.2, semiTok])
            ++ opt g.origin (fun p => [kw "Origin"] ++ wPt p ++ [semiTok])
            ++ opt g.offset (fun o => [kw "Offset", num o.1, num o.2.1, num o.2.2.1, num o.2.2.2, semiTok]))
    ++ [kw "End", ident v.name]

def wSite (s : Site) : List Tok :=
  [kw "Site", ident s.name, kw "Class", en "LefSiteClass" s.cls, semiTok] ++ opt s.symmetry wSymmetry
    ++ [kw "Size", num s.size.1, kw "By", num s.size.2, semiTok, kw "End", ident s.name]

def wUnits (u : Units) : List Tok :=
  let st (k unit : String) (o : Option Dec) := opt o fun d => [kw k, kw unit, num d, semiTok]
  [kw "Units"] ++ st "Time" "Nanoseconds" u.time ++ st "Capacitance" "Picofarads" u.cap ++ st "Resistance" "Ohms" u.res
    ++ st "Power" "Milliwatts" u.power ++ st "Current" "Milliamps" u.current ++ st "Voltage" "Volts" u.voltage
    ++ opt u.dbu (fun v => [kw "Database", kw "Microns", num ⟨v, 0⟩, semiTok])
    ++ st "Frequency" "Megahertz" u.freq ++ [kw "End", kw "Units"]

def wPropDef : PropDef → List Tok
  | .str o n v => [en "LefPropertyDefinitionObjectType" o, ident n, kw "String"] ++ opt v (fun s => [strTok s]) ++ [semiTok]
  | .real o n v r => [en "LefPropertyDefinitionObjectType" o, ident n, kw "Real"]
      ++ opt r (fun r => [kw "Range", num r.1, num r.2]) ++ opt v (fun d => [num d]) ++ [semiTok]
  | .int o n v r => [en "LefPropertyDefinitionObjectType" o, ident n, kw "Integer"]
      ++ opt r (fun r => [kw "Range", num r.1, num r.2]) ++ opt v (fun d => [num d]) ++ [semiTok]

/-- tokens of an extension's stored data (token texts separated by blanks) -/
def extTokens (data : Str) : List Tok := (tokens data).getD []

def mapMOpt {α β : Type} (f : α → Option β) : List α → Option (List β)
  | [] => some []
  | a :: r => match f a, mapMOpt f r with
    | some b, some bs => some (b :: bs)
    | _, _ => none

/-- `write_lib` -/
def wLib (l : Lib) : Option (List Tok) :=
  let ver := l.version.getD ⟨58, 1⟩
  if l.namesCaseSensitive.isSome && v5p4.lt ver then none else
  match mapMOpt (wMacro ver) l.macros with
  | none => none
  | some ms =>
    some (opt l.version (fun v => [kw "Version", num v, semiTok])
      ++ opt l.namesCaseSensitive (fun e => [kw "NamesCaseSensitive", en "LefOnOff" e, semiTok])
      ++ opt l.noWireExt (fun e => [kw "NoWireExtensionAtPin", en "LefOnOff" e, semiTok])
      ++ opt l.busBitChars (fun p => [kw "BusBitChars", strTok ['"', p.1, p.2, '"'], semiTok])
      ++ opt l.dividerChar (fun c => [kw "DividerChar", strTok ['"', c, '"'], semiTok])
      ++ opt l.units wUnits
      ++ opt l.mfgGrid (fun d => [kw "ManufacturingGrid", num d, semiTok])
      ++ opt l.useMinSpacing (fun e => [kw "UseMinSpacing", kw "Obs", en "LefOnOff" e, semiTok])
      ++ opt l.clearance (fun e => [kw "ClearanceMeasure", en "LefClearanceStyle" e, semiTok])
      ++ (if l.propDefs.isEmpty then [] else [kw "PropertyDefinitions"] ++ l.propDefs.flatMap wPropDef ++ [kw "End", kw "PropertyDefinitions"])
      ++ (if l.fixedMask then [kw "FixedMask", semiTok] else [])
      ++ l.vias.flatMap wVia
      ++ l.sites.flatMap wSite
      ++ ms.flatten
      ++ l.extensions.flatMap (fun e => [kw "BeginExtension", strTok e.1] ++ extTokens e.2 ++ [kw "EndExtension"])
      ++ [kw "End", kw "Library"])

end L21.Lef
