import L21.Model.LefLex
/-
Model of the error report of `lef21::read::LefParser` (`LefParser::state`, built by every
`fail`/`fail_msg`), and of the lexer bookkeeping it reads: `line`, `linestart`, `pos`.

The parser keeps one token of look-ahead, so at parser position k (token k is `next_tok`;
position n = end of input) the lexer stands right behind token k: `pos = stop_k`, and `line`,
`linestart` are what `lex_newline` last set them to (a line feed inside a string literal or a
comment does not count).  `state()` then slices the source three times:

    self.txt(&t)                     = &src[t.start .. t.stop]
    &self.src[self.lex.linestart ..]   .chars().take_while(!= '\n').take(200)

A Rust string slice panics when an index is past the end or inside a multi-byte character;
`dropBytes` / `sliceBytes` return `none` exactly then.  `Props/C11S.lean` proves that `reports`
never contains `none`.
-/
namespace L21.LefLex

/-- a token with the lexer's `line` and `linestart` at the moment it was emitted -/
structure STok where
  tok : Tok
  line : Nat
  linestart : Nat
  deriving DecidableEq, Repr

/-- lexer state at end of input: (line, linestart, pos) -/
structure EndSt where
  line : Nat
  linestart : Nat
  pos : Nat
  deriving DecidableEq, Repr

/-- `lexFrom` with the line bookkeeping of `lex_newline` -/
def lexStFrom (isWs : Char → Bool) : Nat → Nat → Nat → Nat → List Char → Out (List STok × EndSt)
  | 0, _, _, _, _ => .err
  | _, pos, line, ls, [] => .ok ([], ⟨line, ls, pos⟩)
  | fuel + 1, pos, line, ls, c :: rest =>
    if c == '\n' || isWs c then
      let run := if c == '\n' then ([], rest) else spanP (fun d => isAsciiWs d && d != '\n') rest
      let pos' := pos + c.utf8Size + bytes run.1
      if c == '\n' then lexStFrom isWs fuel pos' (line + 1) pos' run.2
      else lexStFrom isWs fuel pos' line ls run.2
    else if c == ';' then
      match lexStFrom isWs fuel (pos + 1) line ls rest with
      | .ok (ts, e) => .ok (⟨⟨.semi, pos, pos + 1⟩, line, ls⟩ :: ts, e)
      | .err => .err
    else if c == '"' then
      let (body, after) := spanP (fun d => d != '"') rest
      let (closing, rest') := match after with | q :: r => ([q], r) | [] => ([], [])
      let stop := pos + 1 + bytes body + bytes closing
      match lexStFrom isWs fuel stop line ls rest' with
      | .ok (ts, e) => .ok (⟨⟨.string, pos, stop⟩, line, ls⟩ :: ts, e)
      | .err => .err
    else if c == '#' then
      let (body, after) := spanP (fun d => d != '\n') rest
      lexStFrom isWs fuel (pos + 1 + bytes body) line ls after
    else if isDigit c || c == '.' || c == '-' || c == '+' then
      let (body, after) := spanP (fun d => !isWs d) rest
      let stop := pos + c.utf8Size + bytes body
      match lexStFrom isWs fuel stop line ls after with
      | .ok (ts, e) => .ok (⟨⟨if isNumberText (c :: body) then .number else .name, pos, stop⟩, line, ls⟩ :: ts, e)
      | .err => .err
    else
      let (body, after) := spanP (fun d => !isWs d) rest
      let stop := pos + c.utf8Size + bytes body
      match lexStFrom isWs fuel stop line ls after with
      | .ok (ts, e) => .ok (⟨⟨.name, pos, stop⟩, line, ls⟩ :: ts, e)
      | .err => .err

/-- `LefLexer::new` starts at line 1, linestart 0 -/
def lexSt (isWs : Char → Bool) (src : List Char) : Out (List STok × EndSt) :=
  lexStFrom isWs (src.length + 1) 0 1 0 src

/-- `&src[n..]`: `none` when `n` is past the end or inside a character (Rust panics) -/
def dropBytes : Nat → List Char → Option (List Char)
  | 0, l => some l
  | _ + 1, [] => none
  | n + 1, c :: l => if c.utf8Size ≤ n + 1 then dropBytes (n + 1 - c.utf8Size) l else none

/-- the first `n` bytes of a text, as whole characters; `none` when `n` is not a boundary -/
def takeBytes : Nat → List Char → Option (List Char)
  | 0, _ => some []
  | _ + 1, [] => none
  | n + 1, c :: l =>
    if c.utf8Size ≤ n + 1 then (takeBytes (n + 1 - c.utf8Size) l).map (c :: ·) else none

/-- `&src[a..b]` -/
def sliceBytes (a b : Nat) (src : List Char) : Option (List Char) :=
  if a ≤ b then (dropBytes a src).bind (takeBytes (b - a)) else none

def maxCharsInLine : Nat := 200

/-- `ParserState` without the context stack -/
structure Report where
  lineContent : List Char
  lineNum : Nat
  token : List Char
  pos : Nat
  deriving DecidableEq, Repr

def lineContentAt (src : List Char) (linestart : Nat) : Option (List Char) :=
  (dropBytes linestart src).map (fun rest => (rest.takeWhile (· != '\n')).take maxCharsInLine)

/-- `LefParser::state` at a token position -/
def reportAt (src : List Char) (t : STok) : Option Report :=
  match sliceBytes t.tok.start t.tok.stop src, lineContentAt src t.linestart with
  | some txt, some lc => some ⟨lc, t.line, txt, t.tok.stop⟩
  | _, _ => none

/-- `LefParser::state` at end of input (`next_tok = None`) -/
def reportEnd (src : List Char) (e : EndSt) : Option Report :=
  (lineContentAt src e.linestart).map (fun lc => ⟨lc, e.line, "EOF".toList, e.pos⟩)

/-- the report at every parser position 0..=n; `none` = the real code would panic there -/
def reports (isWs : Char → Bool) (src : List Char) : Out (List (Option Report)) :=
  match lexSt isWs src with
  | .err => .err
  | .ok (ts, e) => .ok (ts.map (reportAt src) ++ [reportEnd src e])

end L21.LefLex
