/-
Model of the gridded-layout ("tetris") → raw geometry compiler:
  layout21tetris/src/stack.rs     MetalLayer::{entries, pitch, to_layer_period_data, to_layer_period}
  layout21tetris/src/validate.rs  validate_stack / validate_metal, ValidMetalLayer::{center, span},
                                  LibValidator::{validate_track_cross, validate_assign}
  layout21tetris/src/tracks.rs    Track::{cut_or_block, set_net}
  layout21tetris/src/conv/raw.rs  RawExporter::{export_layout_impl, temp_cell, temp_cell_layer,
                                  temp_cell_layer_period, instance_intersects, export_cell_layer_period,
                                  assign_track, track_cross_xy, export_track}

One cell with a rectangular outline is compiled against one stack.  Instances are described by
their location, reflections and the outline size / metal count of their target (that is all the
compiler reads of them).  Distances are database units (`Int`); Rust's `/` and `%` on `isize`
are `Int.tdiv` / `Int.tmod`.  `none` = the conversion reports an error.
-/
namespace L21.Tetris

abbrev Bytes := List Nat

inductive TT where
  | gap | sig | pwr | gnd
  deriving DecidableEq, Repr

structure Entry where
  tt : TT
  w : Int
  deriving DecidableEq, Repr

inductive Spec where
  | one (e : Entry)
  | rep (es : List Entry) (n : Nat)
  deriving Repr

structure Metal where
  horiz : Bool
  cutsize : Int
  offset : Int
  overlap : Int
  flip : Bool          -- FlipMode::EveryOther
  shared : Bool        -- PrimitiveMode::{Prim, Split}: pitch must be a multiple of the primitive pitch
  specs : List Spec
  deriving Repr

structure Via where
  bot : Option Nat     -- ViaTarget::Metal k | Primitive
  sx : Int
  sy : Int
  deriving Repr

structure Stack where
  px : Int
  py : Int
  metals : List Metal
  vias : List Via
  deriving Repr

structure TRef where
  layer : Nat
  track : Nat
  deriving DecidableEq, Repr
structure Cross where
  track : TRef
  cross : TRef
  deriving DecidableEq, Repr

structure Inst where
  x : Int              -- location, primitive pitches
  y : Int
  rh : Bool
  rv : Bool
  w : Int              -- outline of the target cell, primitive pitches
  h : Int
  metals : Nat         -- metal layers the target cell uses
  deriving Repr

structure Cell where
  ox : Int
  oy : Int
  metals : Nat
  insts : List Inst
  cuts : List Cross
  assigns : List (Bytes × Cross)
  deriving Repr

inductive SegT where
  | wire (net : Option Bytes)
  | rail (pwr : Bool)
  | cut
  | block
  deriving DecidableEq, Repr

structure Seg where
  tp : SegT
  start : Int
  stop : Int
  deriving DecidableEq, Repr

structure Track where
  start : Int
  width : Int
  segs : List Seg
  deriving DecidableEq, Repr

structure Elem where
  via : Bool           -- via layer (index = position in Stack.vias) or metal layer
  layer : Nat
  net : Option Bytes
  x0 : Int
  y0 : Int
  x1 : Int
  y1 : Int
  deriving DecidableEq, Repr

/-! ### layer stack -/
def Spec.entries : Spec → List Entry
  | .one e => [e]
  | .rep es n => (List.replicate n es).flatten

def Metal.entries (m : Metal) : List Entry := m.specs.flatMap Spec.entries
def widthSum (es : List Entry) : Int := (es.map (·.w)).sum
def Metal.total (m : Metal) : Int := widthSum m.entries
def Metal.pitch (m : Metal) : Int := m.total - m.overlap

/-- lay the entries out from `cursor`: (type, start, width) of every track (gaps skipped) -/
def tracksFrom (cursor : Int) : List Entry → List (TT × Int × Int)
  | [] => []
  | e :: es => (if e.tt = .gap then [] else [(e.tt, cursor, e.w)]) ++ tracksFrom (cursor + e.w) es

def isSig (t : TT × Int × Int) : Bool := t.1 = .sig
def isRail (t : TT × Int × Int) : Bool := t.1 = .pwr || t.1 = .gnd

/-- `to_layer_period_data`: signal tracks of the (unflipped) period at the origin -/
def Metal.periodSignals (m : Metal) : List (TT × Int × Int) := (tracksFrom m.offset m.entries).filter isSig

/-- entries of period `p` in the order they are laid out -/
def Metal.periodEntries (m : Metal) (p : Nat) : List Entry :=
  if m.flip && p % 2 == 1 then m.entries.reverse else m.entries

/-- `to_layer_period`: all tracks of period `p`, each one segment from 0 to `stop` -/
def Metal.periodTracks (m : Metal) (p : Nat) : List (TT × Int × Int) :=
  tracksFrom (m.offset + m.pitch * p) (m.periodEntries p)

def mkTrack (stop : Int) (t : TT × Int × Int) : Track :=
  ⟨t.2.1, t.2.2, [⟨match t.1 with | .pwr => .rail true | .gnd => .rail false | _ => .wire none, 0, stop⟩]⟩

/-- position (start, width) of signal track `idx` of the layer, counted over all periods;
    `ValidMetalLayer::span` / `center` (flip-aware) -/
def Metal.trackPos (m : Metal) (idx : Nat) : Option (Int × Int) :=
  let sigs := m.periodSignals
  let n := sigs.length
  if n = 0 then none else
  let p := idx / n
  let k := idx % n
  if m.flip && p % 2 == 1 then
    match sigs[n - 1 - k]? with
    | some (_, s, w) => some (m.pitch * p + (2 * m.offset + m.total - s - w), w)
    | none => none
  else
    match sigs[k]? with
    | some (_, s, w) => some (m.pitch * p + s, w)
    | none => none

def Metal.center (m : Metal) (idx : Nat) : Option Int :=
  (m.trackPos idx).map fun (s, w) => s + w.tdiv 2

def metalOk (st : Stack) (m : Metal) : Bool :=
  m.entries.all (fun e => e.w > 0) && m.pitch > 0 &&
  (!m.shared || m.pitch.tmod (if m.horiz then st.py else st.px) == 0)

def stackOk (st : Stack) : Bool := st.px > 0 && st.py > 0 && st.metals.all (metalOk st)

/-! ### track segments -/
/-- `Track::cut_or_block` on the segment list -/
def cutOrBlockGo (start stop : Int) (tp : SegT) : List Seg → Option (List Seg)
  | [] => none
  | s :: rest =>
    if s.stop > start then
      match s.tp with
      | .cut => none
      | .block => none
      | _ =>
        if s.stop < stop then none
        else some ({ s with stop := start } :: ⟨tp, start, stop⟩ ::
          ((if s.stop ≠ stop then [⟨s.tp, stop, s.stop⟩] else []) ++ rest))
    else (cutOrBlockGo start stop tp rest).map (s :: ·)

def cutOrBlock (segs : List Seg) (start stop : Int) (tp : SegT) : Option (List Seg) :=
  match segs.getLast?, segs.head? with
  | some last, some first =>
    if stop > last.stop then none
    else if start < first.start then none
    else cutOrBlockGo start stop tp segs
  | _, _ => none

/-- `Track::set_net` (signal tracks only) -/
def setNet (pos : Int) (net : Bytes) : List Seg → Option (List Seg)
  | [] => none
  | s :: rest =>
    if s.start > pos then none
    else if s.start ≤ pos ∧ s.stop ≥ pos then
      match s.tp with
      | .wire _ => some ({ s with tp := .wire (some net) } :: rest)
      | .block => some (s :: rest)
      | .cut => none
      | .rail _ => none
    else (setNet pos net rest).map (s :: ·)

def Track.withSegs (t : Track) (f : List Seg → Option (List Seg)) : Option Track :=
  (f t.segs).map fun s => { t with segs := s }

def modifyNth (l : List Track) (i : Nat) (f : Track → Option Track) : Option (List Track) :=
  match l, i with
  | [], _ => none
  | t :: rest, 0 => (f t).map (· :: rest)
  | t :: rest, i + 1 => (modifyNth rest i f).map (t :: ·)

/-! ### the compiler -/
def crossOk (st : Stack) (c : Cross) : Bool :=
  match st.metals[c.track.layer]?, st.metals[c.cross.layer]? with
  | some a, some b => a.horiz != b.horiz
  | _, _ => false

/-- `validate_assign`: (top, bot) when the two layers are adjacent -/
def assignTopBot (c : Cross) : Option (TRef × TRef) :=
  if c.track.layer = c.cross.layer + 1 then some (c.track, c.cross)
  else if c.track.layer + 1 = c.cross.layer then some (c.cross, c.track)
  else none

/-- `track_cross_xy` -/
def crossXY (st : Stack) (c : Cross) : Option (Int × Int) := do
  let mt ← st.metals[c.track.layer]?
  let mc ← st.metals[c.cross.layer]?
  let a ← mt.center c.track.track
  let b ← mc.center c.cross.track
  pure (if mt.horiz then (b, a) else (a, b))

def along (horiz : Bool) (p : Int × Int) : Int := if horiz then p.1 else p.2

/-- `instance_intersects`: does the instance touch period `p` of layer `m` (perpendicular extent)? -/
def instIntersects (st : Stack) (m : Metal) (p : Nat) (i : Inst) : Bool :=
  -- perpendicular direction: vertical for a horizontal layer
  let start := if m.horiz then i.y * st.py else i.x * st.px
  let span := if m.horiz then i.h * st.py else i.w * st.px
  let refl := if m.horiz then i.rv else i.rh
  let lo := if refl then start - span else start
  let hi := if refl then start else start + span
  hi > m.pitch * p && lo < m.pitch * (p + 1)

/-- extent of the instance along the running direction of layer `m`, in database units -/
def instSpan (st : Stack) (m : Metal) (i : Inst) : Int × Int :=
  let pitch := if m.horiz then st.px else st.py
  let loc := if m.horiz then i.x else i.y
  let size := if m.horiz then i.w else i.h
  let refl := if m.horiz then i.rh else i.rv
  if refl then ((loc - size) * pitch, loc * pitch) else (loc * pitch, (loc + size) * pitch)

def blockAll (tracks : List Track) (s e : Int) : Option (List Track) :=
  tracks.mapM fun t => t.withSegs fun sg => cutOrBlock sg s e .block

def trackElems (layer : Nat) (horiz : Bool) (t : Track) : List Elem :=
  t.segs.filterMap fun s =>
    let mk (net : Option Bytes) : Elem :=
      if horiz then ⟨false, layer, net, s.start, t.start, s.stop, t.start + t.width⟩
      else ⟨false, layer, net, t.start, s.start, t.start + t.width, s.stop⟩
    match s.tp with
    | .wire net => some (mk net)
    | .rail true => some (mk (some [86, 68, 68]))   -- "VDD"
    | .rail false => some (mk (some [86, 83, 83]))  -- "VSS"
    | .cut => none
    | .block => none

structure Period where
  rails : List Track
  signals : List Track
  deriving Repr

/-- one blockage: an instance that touches period `p` blocks its extent on every track of the period -/
def applyBlockStep (st : Stack) (m : Metal) (p : Nat) (pd : Period) (i : Inst) : Option Period :=
  if instIntersects st m p i then
    match blockAll pd.rails (instSpan st m i).1 (instSpan st m i).2 with
    | none => none
    | some r =>
      match blockAll pd.signals (instSpan st m i).1 (instSpan st m i).2 with
      | none => none
      | some g => some ⟨r, g⟩
  else some pd

/-- apply the blockages of period `p` -/
def applyBlocks (st : Stack) (m : Metal) (p : Nat) (insts : List Inst) (pd : Period) : Option Period :=
  insts.foldlM (applyBlockStep st m p) pd

def cutTrack (m : Metal) (dist : Int) (t : Track) : Option Track :=
  t.withSegs fun sg => cutOrBlock sg (dist - m.cutsize.tdiv 2) (dist + m.cutsize.tdiv 2) .cut

def cutStep (st : Stack) (m : Metal) (pd : Period) (c : Cross) : Option Period :=
  if pd.signals.length = 0 then none else
  match crossXY st c with
  | none => none
  | some loc =>
    match modifyNth pd.signals (c.track.track % pd.signals.length) (cutTrack m (along m.horiz loc)) with
    | none => none
    | some g => some { pd with signals := g }

def applyCuts (st : Stack) (m : Metal) (cuts : List Cross) (pd : Period) : Option Period :=
  cuts.foldlM (cutStep st m) pd

/-- `assign_track` -/
def assignTrack (st : Stack) (m : Metal) (net : Bytes) (at_ : Cross) (track : Nat) (pd : Period) : Option Period :=
  if pd.signals.length = 0 then none else
  match crossXY st at_ with
  | none => none
  | some loc =>
    match modifyNth pd.signals (track % pd.signals.length) (fun t => t.withSegs (setNet (along m.horiz loc) net)) with
    | none => none
    | some g => some { pd with signals := g }

def viaFrom (st : Stack) (layer : Nat) : Option (Nat × Via) :=
  match st.vias.findIdx? fun v => v.bot == some layer with
  | some i => (st.vias[i]?).map fun v => (i, v)
  | none => none

def viaElem (vi : Nat) (v : Via) (net : Bytes) (loc : Int × Int) : Elem :=
  ⟨true, vi, some net, loc.1 - v.sx.tdiv 2, loc.2 - v.sy.tdiv 2, loc.1 + v.sx.tdiv 2, loc.2 + v.sy.tdiv 2⟩

/-- one assignment whose bottom track is in this period: a via, and the net on the track -/
def viaStep (st : Stack) (layer : Nat) (m : Metal) (acc : Period × List Elem) (ab : (Bytes × Cross) × Nat) :
    Option (Period × List Elem) :=
  match viaFrom st layer with
  | none => none
  | some (vi, v) =>
    match assignTrack st m ab.1.1 ab.1.2 ab.2 acc.1 with
    | none => none
    | some pd =>
      match crossXY st ab.1.2 with
      | none => none
      | some loc => some (pd, acc.2 ++ [viaElem vi v ab.1.1 loc])

def topStep (st : Stack) (m : Metal) (pd : Period) (ab : (Bytes × Cross) × Nat) : Option Period :=
  assignTrack st m ab.1.1 ab.1.2 ab.2 pd

def inPeriod (m : Metal) (p : Nat) (layer : Nat) (r : TRef) : Bool :=
  r.layer = layer && p * m.periodSignals.length ≤ r.track && r.track < (p + 1) * m.periodSignals.length

def layerInsts (c : Cell) (layer : Nat) : List Inst := c.insts.filter fun i => i.metals > layer
def periodCuts (c : Cell) (layer : Nat) (m : Metal) (p : Nat) : List Cross := c.cuts.filter fun x => inPeriod m p layer x.track
/-- assignments whose bottom track is on this layer and period, with that track's index -/
def periodBots (c : Cell) (layer : Nat) (m : Metal) (p : Nat) : List ((Bytes × Cross) × Nat) :=
  c.assigns.filterMap fun a =>
    match assignTopBot a.2 with
    | some (_, bot) => if inPeriod m p layer bot then some (a, bot.track) else none
    | none => none
def periodTops (c : Cell) (layer : Nat) (m : Metal) (p : Nat) : List ((Bytes × Cross) × Nat) :=
  c.assigns.filterMap fun a =>
    match assignTopBot a.2 with
    | some (top, _) => if inPeriod m p layer top then some (a, top.track) else none
    | none => none

def period0 (m : Metal) (span : Int) (p : Nat) : Period :=
  ⟨((m.periodTracks p).filter isRail).map (mkTrack span), ((m.periodTracks p).filter isSig).map (mkTrack span)⟩

/-- one period of one layer: final tracks and the via elements -/
def compilePeriod (st : Stack) (c : Cell) (layer : Nat) (m : Metal) (span : Int) (p : Nat) :
    Option (Period × List Elem) :=
  match applyBlocks st m p (layerInsts c layer) (period0 m span p) with
  | none => none
  | some pd1 =>
    match applyCuts st m (periodCuts c layer m p) pd1 with
    | none => none
    | some pd2 =>
      match (periodBots c layer m p).foldlM (viaStep st layer m) (pd2, []) with
      | none => none
      | some acc3 =>
        match (periodTops c layer m p).foldlM (topStep st m) acc3.1 with
        | none => none
        | some pd4 => some (pd4, acc3.2)

def periodElems (layer : Nat) (m : Metal) (r : Period × List Elem) : List Elem :=
  r.2 ++ r.1.rails.flatMap (trackElems layer m.horiz) ++ r.1.signals.flatMap (trackElems layer m.horiz)

def layerSpan (st : Stack) (c : Cell) (m : Metal) : Int := if m.horiz then c.ox * st.px else c.oy * st.py
def layerBreadth (st : Stack) (c : Cell) (m : Metal) : Int := if m.horiz then c.oy * st.py else c.ox * st.px

def compileLayer (st : Stack) (c : Cell) (layer : Nat) : Option (List Elem) :=
  match st.metals[layer]? with
  | none => none
  | some m =>
    if (layerBreadth st c m).tmod m.pitch ≠ 0 then none
    else
      match (List.range ((layerBreadth st c m).tdiv m.pitch).toNat).mapM
          (fun p => (compilePeriod st c layer m (layerSpan st c m) p).map (periodElems layer m)) with
      | none => none
      | some ps => some ps.flatten

/-- validation that precedes the conversion (`validate_lib`, `temp_cell`) -/
def cellOk (st : Stack) (c : Cell) : Bool :=
  c.cuts.all (crossOk st) &&
  c.assigns.all (fun a => !a.1.isEmpty && crossOk st a.2 && (assignTopBot a.2).isSome) &&
  -- every cut / assignment refers to layers the cell itself uses
  c.cuts.all (fun x => x.track.layer < c.metals) &&
  c.assigns.all (fun a => a.2.track.layer < c.metals && a.2.cross.layer < c.metals) &&
  c.insts.all (fun i => i.metals ≤ st.metals.length)

def compile (st : Stack) (c : Cell) : Option (List Elem) :=
  if !stackOk st then none
  else if !cellOk st c then none
  else ((List.range c.metals).mapM (compileLayer st c)).map List.flatten

end L21.Tetris
