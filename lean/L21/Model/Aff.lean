import L21.Model.Geom
/-
Exact model of `layout21raw::geom::Transform` for the eight right-angle orientations, and of
`layout21raw::data::Layout::flatten`.

`Transform` is a 2×2 `f64` matrix plus a translation; for angle ∈ {none, 0, 90, 180, 270}
its entries are within 2^-52 of the integers below, and `Point::transform` rounds to the
nearest integer, so on the GDSII coordinate range the float computation equals this integer
one (checked by the correspondence run on every chain of depth ≤ 3(4) over all orientations;
the float error analysis itself is not formalised — see DESIGN §6 C12).
-/
namespace L21.Aff
open L21.Geom

/-- affine map  (x,y) ↦ (a x + b y + tx, c x + d y + ty) -/
structure AffZ where
  a : Int
  b : Int
  c : Int
  d : Int
  tx : Int
  ty : Int
  deriving Repr, DecidableEq

def AffZ.id : AffZ := ⟨1, 0, 0, 1, 0, 0⟩
/-- `Transform::translate` -/
def AffZ.translate (x y : Int) : AffZ := ⟨1, 0, 0, 1, x, y⟩
/-- `Transform::reflect_vert`: reflection about the x-axis -/
def AffZ.reflX : AffZ := ⟨1, 0, 0, -1, 0, 0⟩
/-- cos and sin of q quarter turns (counter-clockwise) -/
def cosQ (q : Nat) : Int := match q % 4 with | 0 => 1 | 1 => 0 | 2 => -1 | _ => 0
def sinQ (q : Nat) : Int := match q % 4 with | 0 => 0 | 1 => 1 | 2 => 0 | _ => -1
/-- `Transform::rotate(90·q)` -/
def AffZ.rot (q : Nat) : AffZ := ⟨cosQ q, -sinQ q, sinQ q, cosQ q, 0, 0⟩

/-- `Point::transform` -/
def AffZ.apply (t : AffZ) (p : Pt) : Pt := ⟨t.a * p.x + t.b * p.y + t.tx, t.c * p.x + t.d * p.y + t.ty⟩

/-- `Transform::cascade(parent, child)` -/
def AffZ.cascade (p c : AffZ) : AffZ :=
  ⟨p.a * c.a + p.b * c.c, p.a * c.b + p.b * c.d,
   p.c * c.a + p.d * c.c, p.c * c.b + p.d * c.d,
   p.a * c.tx + p.b * c.ty + p.tx, p.c * c.tx + p.d * c.ty + p.ty⟩

/-- `Transform::from_instance(loc, reflect_vert, Some(90·q))` -/
def AffZ.ofInstance (loc : Pt) (refl : Bool) (q : Nat) : AffZ :=
  if refl then ⟨cosQ q, sinQ q, sinQ q, -cosQ q, loc.x, loc.y⟩
  else ⟨cosQ q, -sinQ q, sinQ q, cosQ q, loc.x, loc.y⟩

def AffZ.det (t : AffZ) : Int := t.a * t.d - t.b * t.c

/-! ### hierarchy flattening -/

structure Inst where
  cell : Nat
  loc : Pt
  refl : Bool
  q : Nat
  deriving Repr

structure Cell where
  elems : List (List Pt)       -- shapes as point lists (rect = its two corners, polygon/path = vertices)
  insts : List Inst
  deriving Repr

/-- the loop over a layout's instances, given the recursive call `rec` -/
def flattenInsts (rec : AffZ → Nat → Option (List (List Pt))) (t : AffZ) : List Inst → Option (List (List Pt))
  | [] => some []
  | i :: rest =>
    match rec (t.cascade (AffZ.ofInstance i.loc i.refl i.q)) i.cell, flattenInsts rec t rest with
    | some a, some b => some (a ++ b)
    | _, _ => none

/-- `flatten_helper`: own elements transformed, then each instance's cell recursively with the
    cascaded transform; `none` when the recursion budget is exhausted (cyclic hierarchy) or a
    cell index is undefined. -/
def flatten (cells : List Cell) : Nat → AffZ → Nat → Option (List (List Pt))
  | 0, _, _ => none
  | fuel + 1, t, ci =>
    match cells[ci]? with
    | none => none
    | some c =>
      match flattenInsts (flatten cells fuel) t c.insts with
      | some sub => some (c.elems.map (fun e => e.map t.apply) ++ sub)
      | none => none

end L21.Aff
