import L21.Model.Dep
/-
Model of the tetris placer (`layout21tetris::placer`): bounding boxes of (possibly reflected)
instances, `resolve_instance_place`, the dependency-ordered placement loop of `place_layout`
(instances only; groups, ports, LayerPitches separations and relative placement of / relative to
arrays are `todo!()` / `unimplemented!()` in the code and outside the model), and array flattening.
Coordinates are primitive pitches (integers).
-/
namespace L21.Place

inductive Side where
  | top | bottom | left | right
  deriving DecidableEq, Repr

structure Box where
  x0 : Int
  y0 : Int
  x1 : Int
  y1 : Int
  deriving DecidableEq, Repr

/-- `HasBoundBox for Instance`: `[loc, loc+size]`, or `[loc-size, loc]` on a reflected axis -/
def bboxOf (x y sx sy : Int) (rh rv : Bool) : Box :=
  ⟨if rh then x - sx else x, if rv then y - sy else y, if rh then x else x + sx, if rv then y else y + sy⟩

/-- `BoundBox::side` -/
def Box.side (b : Box) : Side → Int
  | .left => b.x0 | .right => b.x1 | .bottom => b.y0 | .top => b.y1

def Side.horiz : Side → Bool
  | .left | .right => true
  | _ => false

/-- `resolve_instance_place` for an alignment side orthogonal to the placement side.
    `sep` is the already-evaluated separation along the side axis (0, primitive pitches, or the
    size of another cell along that axis). Returns the absolute (x, y). -/
def resolve (ref : Box) (sx sy : Int) (rh rv : Bool) (side align : Side) (sep : Int) : Int × Int :=
  let sideH := side.horiz
  let reflSide := if sideH then rh else rv
  let reflAlign := if sideH then rv else rh
  let sizeSide := if sideH then sx else sy
  let sizeAlign := if sideH then sy else sx
  let offsetSide := match side with
    | .left | .bottom => !reflSide
    | .top | .right => reflSide
  let offsetAlign := match align with
    | .left | .bottom => reflAlign
    | .top | .right => !reflAlign
  let sc0 := ref.side side
  let ac0 := ref.side align
  let sc1 := if offsetSide then (if reflSide then sc0 + sizeSide else sc0 - sizeSide) else sc0
  let ac := if offsetAlign then (if reflAlign then ac0 + sizeAlign else ac0 - sizeAlign) else ac0
  let sepSigned := match side with
    | .top | .right => sep
    | .left | .bottom => -sep
  let sc := sc1 + sepSigned
  if sideH then (sc, ac) else (ac, sc)

/-! ### placement programs -/

inductive Sep where
  | none
  | prim (horiz : Bool) (n : Int)     -- PrimPitches{dir, num}
  | sizeOf (cell : Nat)
  deriving DecidableEq, Repr

inductive Loc where
  | abs (x y : Int)
  | rel (to : Nat) (side align : Side) (sep : Sep)
  deriving DecidableEq, Repr

structure Inst where
  cell : Nat
  loc : Loc
  rh : Bool
  rv : Bool
  deriving DecidableEq, Repr

inductive Out (α : Type) where
  | ok (a : α)
  | err
  deriving Repr, DecidableEq

/-- evaluated separation along the side axis; `err` for a separation given in the other axis -/
def sepValue (cells : List (Int × Int)) (sideH : Bool) : Sep → Out Int
  | .none => .ok 0
  | .prim h n => if h = sideH then .ok n else .err
  | .sizeOf c => match cells[c]? with
    | some (sx, sy) => .ok (if sideH then sx else sy)
    | none => .err

def adj (insts : List Inst) (i : Nat) : List Nat :=
  match insts[i]? with
  | some ⟨_, .rel to _ _ _, _, _⟩ => [to]
  | _ => []

/-- place one instance given the absolute locations found so far -/
def placeOne (cells : List (Int × Int)) (insts : List Inst) (done : List (Nat × Int × Int)) (i : Nat) : Out (Int × Int) :=
  match insts[i]? with
  | none => .err
  | some inst =>
    match inst.loc with
    | .abs x y => .ok (x, y)
    | .rel to side align sep =>
      match insts[to]?, done.find? (fun d => d.1 == to), cells[inst.cell]? with
      | some r, some (_, rx, ry), some (sx, sy) =>
        (match cells[r.cell]?, sepValue cells side.horiz sep with
         | some (rsx, rsy), .ok sv =>
           if align.horiz = side.horiz then .err      -- (non-orthogonal alignment: outside the supported subset)
           else .ok (resolve (bboxOf rx ry rsx rsy r.rh r.rv) sx sy inst.rh inst.rv side align sv)
         | _, _ => .err)
      | _, _, _ => .err

def placeAll (cells : List (Int × Int)) (insts : List Inst) : List Nat → List (Nat × Int × Int) → Out (List (Nat × Int × Int))
  | [], done => .ok done
  | i :: rest, done => match placeOne cells insts done i with
    | .ok (x, y) => placeAll cells insts rest (done ++ [(i, x, y)])
    | .err => .err

/-- `place_layout`: dependency order (C17), then resolve in that order; result in placement order -/
def run (cells : List (Int × Int)) (insts : List Inst) : Out (List (Nat × Int × Int)) :=
  match Dep.order (adj insts) (insts.length + 1) (List.range insts.length) with
  | .ok order => placeAll cells insts order []
  | _ => .err

/-! ### arrays -/

inductive ArrDef where
  | leaf (cell : Nat) (count : Nat) (sepx sepy : Int)
  | nested (inner : ArrDef) (count : Nat) (sepx sepy : Int)
  deriving Repr

structure Child where
  cell : Nat
  x : Int
  y : Int
  rh : Bool
  rv : Bool
  deriving DecidableEq, Repr

/-- `flatten_array_inst`'s per-child step: mirror about the array origin, then translate -/
def placeChild (x y : Int) (rh rv : Bool) (c : Child) : Child :=
  ⟨c.cell, (if rh then -c.x else c.x) + x, (if rv then -c.y else c.y) + y, if rh then !c.rh else c.rh, if rv then !c.rv else c.rv⟩

/-- `flatten_array`: `count` copies at successive multiples of the pitch -/
def flattenArr : ArrDef → List Child
  | .leaf cell count sx sy => (List.range count).map (fun (k : Nat) => ⟨cell, (k : Int) * sx, (k : Int) * sy, false, false⟩)
  | .nested inner count sx sy =>
    (List.range count).flatMap (fun (k : Nat) => (flattenArr inner).map (placeChild ((k : Int) * sx) ((k : Int) * sy) false false))

/-- `flatten_array_inst` -/
def flattenArrInst (a : ArrDef) (x y : Int) (rh rv : Bool) : List Child := (flattenArr a).map (placeChild x y rh rv)

end L21.Place
