/-
Model of `gds21::data::GdsFloat64` (`/repo/gds21/src/data.rs`).

An `f64` is represented by its 64-bit IEEE-754 pattern (`Nat < 2^64`), a GDSII
eight-byte real by its 64-bit pattern too.  Everything is integer arithmetic, so the
kernel can evaluate it and `omega`-style reasoning applies.

* `encodeBits` mirrors `GdsFloat64::try_encode`: sign / exponent / mantissa are taken
  from `f64::to_bits`, the 53-bit significand is shifted left by 0..3 bits so that the
  binary exponent becomes a multiple of four, failure (`none`) for NaN, infinities,
  IEEE subnormals, values ≥ 16^63, and non-zero values below 16^-65 unless they fit the
  denormalised form (exponent field 0, mantissa shifted right) without losing a bit.
* `decodeBits` mirrors `GdsFloat64::decode`:
  `(mantissa as f64) / 2^56 * 16^(exp-64)`, i.e. one correctly rounded u64→f64
  conversion (round to nearest, ties to even) followed by exact power-of-two scalings.
  The identification of that Rust expression with this integer function is the stated
  hardware/compiler assumption of C15, exercised by the correspondence run.
-/
namespace L21.GdsFloat

/-- Number of significant bits of `m` (0 for 0). -/
def bitLen (m : Nat) : Nat := if m = 0 then 0 else m.log2 + 1

/-- Round-to-nearest, ties-to-even, of `m / 2^k` to an integer. -/
def rne (m k : Nat) : Nat :=
  let q := m / 2 ^ k
  let r := m % 2 ^ k
  let half := 2 ^ k / 2
  if k = 0 then m
  else if r < half then q
  else if half < r then q + 1
  else if q % 2 = 0 then q else q + 1

/-- `u64 as f64`, as an IEEE bit pattern (sign 0). `m < 2^64`. -/
def u64ToF64Bits (m : Nat) : Nat :=
  if m = 0 then 0 else
  let n := bitLen m
  if n ≤ 53 then
    -- exact: significand m * 2^(53-n), unbiased exponent n-1
    (n - 1 + 1023) * 2 ^ 52 + (m * 2 ^ (53 - n) - 2 ^ 52)
  else
    let q := rne m (n - 53)
    if q = 2 ^ 53 then (n + 1023) * 2 ^ 52
    else (n - 1 + 1023) * 2 ^ 52 + (q - 2 ^ 52)

/-- IEEE fields -/
def f64Sign (b : Nat) : Nat := b / 2 ^ 63 % 2
def f64Exp  (b : Nat) : Nat := b / 2 ^ 52 % 2 ^ 11
def f64Frac (b : Nat) : Nat := b % 2 ^ 52

/-- GDS fields -/
def gSign (g : Nat) : Nat := g / 2 ^ 63 % 2
def gExp  (g : Nat) : Nat := g / 2 ^ 56 % 2 ^ 7
def gMant (g : Nat) : Nat := g % 2 ^ 56

/-- `GdsFloat64::decode` on bit patterns. -/
def decodeBits (g : Nat) : Nat :=
  let s := gSign g
  let e := gExp g
  let m := gMant g
  if m = 0 then s * 2 ^ 63 else
  -- (m as f64): significand and exponent, then scale by 2^(4*(e-64) - 56): only the
  -- exponent field moves (never reaches subnormal or overflow: see Proofs).
  let f := u64ToF64Bits m
  let be := f64Exp f                 -- biased exponent of (m as f64), 1023 ≤ be ≤ 1079
  let be' := be + 4 * e - 312         -- + 4*(e-64) - 56
  s * 2 ^ 63 + be' * 2 ^ 52 + f64Frac f

/-- `GdsFloat64::try_encode` on bit patterns; `none` = error. -/
def encodeBits (x : Nat) : Option Nat :=
  let s := f64Sign x
  let be := f64Exp x
  let fr := f64Frac x
  if be = 0 ∧ fr = 0 then some 0            -- ±0.0 → all-zero real
  else if be = 0 then none                  -- subnormal: below the GDSII range
  else if be = 2047 then none               -- NaN / ±inf
  else
    -- value = m53 * 2^(be - 1075);   want  m56 * 2^(4*(e16-64) - 56)
    let m53 := 2 ^ 52 + fr
    let t := be + 5                          -- be - 1075 + 56 + 1024 = be + 5  (offset keeps Nat)
    let sh := t % 4
    let q := t / 4                           -- e16 - 64 + 256
    let m56 := m53 * 2 ^ sh
    if q < 192 then                          -- e16 < 0: below the normalised range
      let r := 4 * (192 - q)                 -- exact only in denormalised form, if no bit is lost
      if r < 56 ∧ m56 % 2 ^ r = 0 then some (s * 2 ^ 63 + m56 / 2 ^ r) else none
    else if 319 < q then none                -- e16 > 127: too large
    else some (s * 2 ^ 63 + (q - 192) * 2 ^ 56 + m56)

end L21.GdsFloat
