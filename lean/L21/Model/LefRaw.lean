import L21.Model.Geom
/-
Model of `layout21raw::lef::LefImporter` (LEF library → raw abstracts).

A LEF number is a `rust_decimal::Decimal`: an integer mantissa and a decimal scale,
value = mant / 10^scale.  The importer fixes 10 000 raw units per micron.
-/
namespace L21.LefRaw
open L21.Geom

structure Dec where
  mant : Int
  scale : Nat
  deriving Repr, DecidableEq

inductive Out (α : Type) where
  | ok (a : α)
  | err
  deriving Repr, DecidableEq

def unitsPerMicron : Int := 10000

/-- `import_dist`: scale to raw units; a non-integral result is an error -/
def importDist (d : Dec) : Out Int :=
  let num := d.mant * unitsPerMicron
  let den : Int := (10 : Int) ^ d.scale
  if num % den = 0 then .ok (num / den) else .err

structure LPt where
  x : Dec
  y : Dec
  deriving Repr, DecidableEq

/-- `import_point` -/
def importPoint (p : LPt) : Out Pt :=
  match importDist p.x, importDist p.y with
  | .ok x, .ok y => .ok ⟨x, y⟩
  | _, _ => .err

def importPoints : List LPt → Out (List Pt)
  | [] => .ok []
  | p :: rest => match importPoint p, importPoints rest with
    | .ok a, .ok b => .ok (a :: b)
    | _, _ => .err

inductive LGeom where
  | rect (p0 p1 : LPt)
  | polygon (pts : List LPt)
  | path (pts : List LPt)
  | iterate
  deriving Repr, DecidableEq

inductive Shape where
  | rect (p0 p1 : Pt)
  | polygon (pts : List Pt)
  | path (pts : List Pt) (width : Nat)
  deriving Repr, DecidableEq

inductive Spacing where
  | none
  | spacing (d : Dec)
  | designRuleWidth (d : Dec)
  deriving Repr, DecidableEq

structure LayerGeoms where
  layer : List Nat            -- layer name (UTF-8 bytes)
  width : Option Dec
  exceptPgNet : Bool          -- `except_pg_net.is_some()`
  spacing : Spacing
  geoms : List LGeom
  deriving Repr, DecidableEq

/-- `import_shape` -/
def importGeom (lg : LayerGeoms) : LGeom → Out Shape
  | .rect p0 p1 => match importPoint p0, importPoint p1 with
    | .ok a, .ok b => .ok (.rect a b)
    | _, _ => .err
  | .polygon pts => match importPoints pts with
    | .ok ps => .ok (.polygon ps)
    | .err => .err
  | .path pts =>
    match lg.width with
    | none => .err
    | some w => match importDist w with
      | .err => .err
      | .ok wi => if wi < 0 then .err else
        match importPoints pts with
        | .ok ps => .ok (.path ps wi.toNat)
        | .err => .err
  | .iterate => .err

def importGeoms (lg : LayerGeoms) : List LGeom → Out (List Shape)
  | [] => .ok []
  | g :: rest => match importGeom lg g, importGeoms lg rest with
    | .ok a, .ok b => .ok (a :: b)
    | _, _ => .err

/-- `import_layer_geometries` -/
def importLayerGeoms (lg : LayerGeoms) : Out (List Nat × List Shape) :=
  if lg.exceptPgNet then .err else
  let spOk := match lg.spacing with
    | .none => true
    | .spacing d => d.mant == 0
    | .designRuleWidth _ => false
  if !spOk then .err else
  match importGeoms lg lg.geoms with
  | .ok ss => .ok (lg.layer, ss)
  | .err => .err

/-- per-layer shape map as an association list in first-seen order; same layer extends -/
def addShapes (m : List (List Nat × List Shape)) (layer : List Nat) (ss : List Shape) : List (List Nat × List Shape) :=
  match m with
  | [] => [(layer, ss)]
  | (l, old) :: rest => if l = layer then (l, old ++ ss) :: rest else (l, old) :: addShapes rest layer ss

def importLayerList (m : List (List Nat × List Shape)) : List LayerGeoms → Out (List (List Nat × List Shape))
  | [] => .ok m
  | lg :: rest => match importLayerGeoms lg with
    | .err => .err
    | .ok (l, ss) => importLayerList (addShapes m l ss) rest

structure Pin where
  name : List Nat
  ports : List (List LayerGeoms)      -- each port: its layer geometries
  deriving Repr, DecidableEq

structure Macro where
  name : List Nat
  size : Option (Dec × Dec)
  pins : List Pin
  obs : List LayerGeoms
  deriving Repr, DecidableEq

structure Port where
  net : List Nat
  shapes : List (List Nat × List Shape)
  deriving Repr, DecidableEq

structure Abstract where
  name : List Nat
  outline : List Pt
  ports : List Port
  blockages : List (List Nat × List Shape)
  deriving Repr, DecidableEq

def importPins : List Pin → Out (List Port)
  | [] => .ok []
  | p :: rest =>
    match importLayerList [] p.ports.flatten, importPins rest with
    | .ok sh, .ok ps => .ok (⟨p.name, sh⟩ :: ps)
    | _, _ => .err

/-- `import_abstract` -/
def importMacro (m : Macro) : Out Abstract :=
  match m.size with
  | none => .err
  | some (sx, sy) =>
    match importPoint ⟨sx, sy⟩ with
    | .err => .err
    | .ok sz =>
      match importPins m.pins with
      | .err => .err
      | .ok ports =>
        match importLayerList [] m.obs with
        | .err => .err
        | .ok blk => .ok ⟨m.name, [⟨0, 0⟩, ⟨sz.x, 0⟩, ⟨sz.x, sz.y⟩, ⟨0, sz.y⟩], ports, blk⟩

def importMacros : List Macro → Out (List Abstract)
  | [] => .ok []
  | m :: rest => match importMacro m, importMacros rest with
    | .ok a, .ok b => .ok (a :: b)
    | _, _ => .err

/-- `LefImporter::import`: `caseOff` = NAMESCASESENSITIVE OFF (unsupported) -/
def importLib (caseOff : Bool) (ms : List Macro) : Out (List Abstract) :=
  if caseOff then .err else importMacros ms

end L21.LefRaw
