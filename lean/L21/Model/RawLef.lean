import L21.Model.RawProto
import L21.Model.Determ
/-
Model of `layout21raw::lef::LefExporter` (raw abstracts → LEF macros).

Per-layer maps are hash maps keyed by `LayerKey`; the exporter walks them through `Layers::sorted`
(layer number, then slot-map key).  The LEF layer NAME comes from the key (two layers may share a number and
have different names).  `Shape::Path` hits `unimplemented!()` — modelled as the outcome `panic`.
Coordinates are written as raw integers (`LefDecimal::from(point.x)`): the exporter does not divide by the
database units.  Units: only Nano (1000) and Angstrom (10000) are values `LefDbuPerMicron::try_new` accepts;
Micro (1) and Pico (1 000 000) are export errors.
-/
namespace L21.RawLef
open L21.Geom L21.RawProto L21.Determ

inductive Res (α : Type) where
  | ok (a : α)
  | err
  | panic
  deriving Repr, DecidableEq

def Res.bind {α β : Type} (r : Res α) (f : α → Res β) : Res β :=
  match r with
  | .ok a => f a
  | .err => .err
  | .panic => .panic

inductive LShape where
  | rect (p0 p1 : Pt)
  | polygon (pts : List Pt)
  deriving Repr, DecidableEq

structure LLayer where
  name : Bytes
  geoms : List LShape
  deriving Repr, DecidableEq

/-- a generated pin: one port holding the layers -/
structure LPin where
  name : Bytes
  layers : List LLayer
  deriving Repr, DecidableEq

structure LMacro where
  name : Bytes
  pins : List LPin
  obs : List LLayer
  deriving Repr, DecidableEq

structure LLib where
  dbu : Int
  macros : List LMacro
  deriving Repr, DecidableEq

/-- `export_shape` -/
def exportShape : Shape → Res LShape
  | .rect a b => .ok (.rect a b)
  | .polygon ps => .ok (.polygon ps)
  | .path _ _ => .panic

def exportShapes : List Shape → Res (List LShape)
  | [] => .ok []
  | s :: rest => (exportShape s).bind fun g => (exportShapes rest).bind fun gs => .ok (g :: gs)

/-- `export_layer_shapes`: the layer's name first (an un-named layer is an error), then its shapes in order -/
def exportLayerShapes (names : LKey → Option Bytes) (e : LKey × List Shape) : Res LLayer :=
  match names e.1 with
  | none => .err
  | some n => (exportShapes e.2).bind fun gs => .ok ⟨n, gs⟩

/-- the entries of one map, in the order given -/
def exportLayers (names : LKey → Option Bytes) : List (LKey × List Shape) → Res (List LLayer)
  | [] => .ok []
  | e :: rest => (exportLayerShapes names e).bind fun l => (exportLayers names rest).bind fun ls => .ok (l :: ls)

/-- a hash map as the code sees it: iterated in some order, then `Layers::sorted` -/
def exportMap (names : LKey → Option Bytes) (m : List (LKey × List Shape)) : Res (List LLayer) :=
  exportLayers names (sortedK m)

structure HPort where
  net : Bytes
  shapes : List (LKey × List Shape)       -- hash map, in iteration order

structure HAbs where
  name : Bytes
  ports : List HPort
  blockages : List (LKey × List Shape)    -- hash map, in iteration order

/-- `export_port` -/
def exportPort (names : LKey → Option Bytes) (p : HPort) : Res LPin :=
  (exportMap names p.shapes).bind fun ls => .ok ⟨p.net, ls⟩

def exportPorts (names : LKey → Option Bytes) : List HPort → Res (List LPin)
  | [] => .ok []
  | p :: rest => (exportPort names p).bind fun a => (exportPorts names rest).bind fun b => .ok (a :: b)

/-- `export_abstract`: ports first, then blockages -/
def exportAbstract (names : LKey → Option Bytes) (a : HAbs) : Res LMacro :=
  (exportPorts names a.ports).bind fun ps => (exportMap names a.blockages).bind fun bs => .ok ⟨a.name, ps, bs⟩

def exportAbstracts (names : LKey → Option Bytes) : List HAbs → Res (List LMacro)
  | [] => .ok []
  | a :: rest => (exportAbstract names a).bind fun m => (exportAbstracts names rest).bind fun ms => .ok (m :: ms)

/-- `export_units` (0 micro, 1 nano, 2 angstrom, 3 pico) -/
def exportUnits : Nat → Res Int
  | 1 => .ok 1000
  | 2 => .ok 10000
  | _ => .err

/-- `export_lib`: units first, then every cell that has an abstract, in library order -/
def exportLib (names : LKey → Option Bytes) (units : Nat) (abstracts : List HAbs) : Res LLib :=
  (exportUnits units).bind fun dbu => (exportAbstracts names abstracts).bind fun ms => .ok ⟨dbu, ms⟩

/-- the abstracts of a raw library given with list-valued maps keyed by (unique) layer numbers -/
def keyed (m : List (Int × List Shape)) : List (LKey × List Shape) := m.map fun e => ((e.1, 0), e.2)
def habsOf (a : Abstract) : HAbs := ⟨a.name, a.ports.map (fun p => ⟨p.net, keyed p.shapes⟩), keyed a.blockages⟩
def exportRawLib (names : LKey → Option Bytes) (l : Lib) : Res LLib :=
  exportLib names l.units ((l.cells.filterMap (·.abs)).map habsOf)

end L21.RawLef
