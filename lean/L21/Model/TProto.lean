import L21.Model.Dep
/-
Model of `layout21tetris::conv::proto`: `ProtoExporter::export` and `ProtoLibImporter::import`.

Cells live in a table and are referred to by index (the code's `Ptr<Cell>`); a library lists some
of them (`items`).  Export orders the listed cells and everything they instantiate with the generic
dependency orderer (`CellOrder`, model `L21.Dep.order`) and writes one message per cell, instances
referring to their target BY NAME.  Import reads the messages in order, keeps a name → cell map
(`HashMap::insert`: a later cell of the same name replaces the earlier one for later look-ups) and
resolves every instance through it.  Every optional sub-message of the schema is an `Option`.
Strings are byte lists.  Abstract ports are outside the model (`import_abstract_port` is `todo!()`).
-/
namespace L21.TProto

abbrev Bytes := List Nat

structure TRef where
  layer : Nat
  track : Nat
  deriving DecidableEq, Repr
structure Cross where
  track : TRef
  cross : TRef
  deriving DecidableEq, Repr
structure Assign where
  net : Bytes
  at_ : Cross
  deriving DecidableEq, Repr
structure Inst where
  name : Bytes
  cell : Nat
  x : Int
  y : Int
  rh : Bool
  rv : Bool
  deriving DecidableEq, Repr
structure Layout where
  name : Bytes
  ox : List Int
  oy : List Int
  metals : Nat
  insts : List Inst
  assigns : List Assign
  cuts : List Cross
  deriving DecidableEq, Repr
structure Abs where
  name : Bytes
  ox : List Int
  oy : List Int
  metals : Nat
  deriving DecidableEq, Repr
structure Cell where
  name : Bytes
  layout : Option Layout
  abs : Option Abs
  deriving DecidableEq, Repr
structure Lib where
  name : Bytes
  table : List Cell
  items : List Nat
  deriving DecidableEq, Repr

/-! protobuf messages -/
structure PRef where
  layer : Int
  track : Int
  deriving DecidableEq, Repr
structure PCross where
  track : Option PRef
  cross : Option PRef
  deriving DecidableEq, Repr
structure PAssign where
  net : Bytes
  at_ : Option PCross
  deriving DecidableEq, Repr
inductive PTo where
  | loc (name : Bytes)
  | ext
  deriving DecidableEq, Repr
inductive PPlace where
  | abs (x y : Int)
  | rel
  deriving DecidableEq, Repr
structure PInst where
  name : Bytes
  cell : Option (Option PTo)      -- Reference message absent / present without `to` / present
  rh : Bool
  rv : Bool
  loc : Option (Option PPlace)    -- Place message absent / present without oneof / present
  deriving DecidableEq, Repr
structure POutline where
  x : List Int
  y : List Int
  metals : Int
  deriving DecidableEq, Repr
structure PLayout where
  name : Bytes
  outline : Option POutline
  insts : List PInst
  assigns : List PAssign
  cuts : List PCross
  deriving DecidableEq, Repr
structure PAbs where
  name : Bytes
  outline : Option POutline
  deriving DecidableEq, Repr
structure PCell where
  name : Bytes
  layout : Option PLayout
  abs : Option PAbs
  deriving DecidableEq, Repr
structure PLib where
  domain : Bytes
  cells : List PCell
  deriving DecidableEq, Repr

/-! ### export -/
def exRef (r : TRef) : PRef := ⟨r.layer, r.track⟩
def exCross (c : Cross) : PCross := ⟨some (exRef c.track), some (exRef c.cross)⟩
def exAssign (a : Assign) : PAssign := ⟨a.net, some (exCross a.at_)⟩
/-- the cell behind a `Ptr<Cell>`; indices outside the table do not occur (a `Ptr` always points to a cell) -/
def getC (tbl : List Cell) (i : Nat) : Cell := tbl[i]?.getD ⟨[], none, none⟩
def cellName (tbl : List Cell) (i : Nat) : Bytes := (getC tbl i).name
def exInst (tbl : List Cell) (i : Inst) : PInst :=
  ⟨i.name, some (some (.loc (cellName tbl i.cell))), i.rh, i.rv, some (some (.abs i.x i.y))⟩
def exLayout (tbl : List Cell) (l : Layout) : PLayout :=
  ⟨l.name, some ⟨l.ox, l.oy, l.metals⟩, l.insts.map (exInst tbl), l.assigns.map exAssign, l.cuts.map exCross⟩
def exAbs (a : Abs) : PAbs := ⟨a.name, some ⟨a.ox, a.oy, a.metals⟩⟩
def exCell (tbl : List Cell) (c : Cell) : PCell := ⟨c.name, c.layout.map (exLayout tbl), c.abs.map exAbs⟩

/-- direct dependencies of a cell: the targets of its layout's instances, in order -/
def deps (tbl : List Cell) (i : Nat) : List Nat :=
  match (getC tbl i).layout with
  | some l => l.insts.map (·.cell)
  | none => []

def exportOrdered (lib : Lib) (ord : List Nat) : PLib :=
  ⟨lib.name, ord.map fun i => exCell lib.table (getC lib.table i)⟩

def exportLib' (lib : Lib) (fuel : Nat) : Option PLib :=
  match Dep.order (deps lib.table) fuel lib.items with
  | .ok ord => some (exportOrdered lib ord)
  | _ => none

def exportLib (lib : Lib) : Option PLib := exportLib' lib (lib.table.length + 1)

/-! ### import -/
/-- `Outline::from_prim_pitches` -/
def outlineOk (x y : List Int) : Bool :=
  x.length ≥ 1 && x.length == y.length && x.all (· ≥ 0) && y.all (· ≥ 0) &&
  (x.zip x.tail).all (fun p => p.2 ≤ p.1) && (y.zip y.tail).all (fun p => p.2 ≥ p.1)

def imNat (i : Int) : Option Nat := if i ≥ 0 then some i.toNat else none
def imRef (r : PRef) : Option TRef := do pure ⟨← imNat r.layer, ← imNat r.track⟩
def imCross (c : PCross) : Option Cross := do
  let t ← c.track
  let x ← c.cross
  pure ⟨← imRef t, ← imRef x⟩
def imAssign (a : PAssign) : Option Assign := do
  let c ← a.at_
  pure ⟨a.net, ← imCross c⟩
def imOutline (o : POutline) : Option (List Int × List Int × Nat) := do
  let m ← imNat o.metals
  if outlineOk o.x o.y then pure (o.x, o.y, m) else none

/-- name → index of the LAST cell imported so far with that name -/
def lookupFrom (n : Bytes) : List Bytes → Nat → Option Nat → Option Nat
  | [], _, best => best
  | m :: ms, i, best => lookupFrom n ms (i + 1) (if m == n then some i else best)
def lookup (names : List Bytes) (n : Bytes) : Option Nat := lookupFrom n names 0 none

def imInst (names : List Bytes) (p : PInst) : Option Inst := do
  let r ← p.cell
  let to ← r
  let target ← match to with
    | .loc n => lookup names n
    | .ext => none
  let l ← p.loc
  let pl ← l
  match pl with
  | .abs x y => pure ⟨p.name, target, x, y, p.rh, p.rv⟩
  | .rel => none

def imLayout (names : List Bytes) (p : PLayout) : Option Layout := do
  let o ← p.outline
  let (x, y, m) ← imOutline o
  let insts ← p.insts.mapM (imInst names)
  let assigns ← p.assigns.mapM imAssign
  let cuts ← p.cuts.mapM imCross
  pure ⟨p.name, x, y, m, insts, assigns, cuts⟩

def imAbs (p : PAbs) : Option Abs := do
  let o ← p.outline
  let (x, y, m) ← imOutline o
  pure ⟨p.name, x, y, m⟩

def imLayoutOpt (names : List Bytes) : Option PLayout → Option (Option Layout)
  | some l => (imLayout names l).map some
  | none => some none
def imAbsOpt : Option PAbs → Option (Option Abs)
  | some a => (imAbs a).map some
  | none => some none

def imCell (names : List Bytes) (p : PCell) : Option Cell :=
  match imLayoutOpt names p.layout with
  | some lay => match imAbsOpt p.abs with
    | some ab => some ⟨p.name, lay, ab⟩
    | none => none
  | none => none

/-- cells are imported in message order; `acc` are the cells imported so far -/
def imCells : List PCell → List Cell → Option (List Cell)
  | [], acc => some acc
  | p :: ps, acc =>
    match imCell (acc.map (·.name)) p with
    | some c => imCells ps (acc ++ [c])
    | none => none

def importLib (p : PLib) : Option Lib :=
  match imCells p.cells [] with
  | some cs => some ⟨p.domain, cs, List.range cs.length⟩
  | none => none

end L21.TProto
