import L21.Model.Gds
import L21.Model.Geom
import L21.Model.Dep
/-
Model of `layout21raw::gds`: `GdsExporter::export` (raw library → GdsLibrary, layout views) and
`GdsImporter::import` (GdsLibrary → raw library).

Raw elements carry their (layer number, purpose number) pair — what `export_layerspec` computes
from the `Layers` table and what `get_or_insert` creates on import.  Instance angles are doubles
(bit patterns), copied through unchanged.  Library / struct timestamps come from the wall clock in
the code (`GdsLibrary::new`, `GdsStruct::new`); the model leaves them all-zero and the harness
zeroes them before comparing (they are the documented exception of C20).
-/
namespace L21.RawGds
open L21.Geom L21.Gds

abbrev Out := Gds.Out

inductive Shape where
  | rect (p0 p1 : Pt)
  | polygon (pts : List Pt)
  | path (pts : List Pt) (width : Nat)
  deriving Repr, DecidableEq

structure Elem where
  net : Option Bytes
  layer : Int
  purpose : Int
  shape : Shape
  deriving Repr, DecidableEq

structure Inst where
  name : Bytes
  cell : Bytes
  loc : Pt
  refl : Bool
  angle : Option Nat
  deriving Repr, DecidableEq

structure Cell where
  name : Bytes
  insts : List Inst
  elems : List Elem
  annotations : List (Bytes × Pt)
  deriving Repr, DecidableEq

structure Lib where
  name : Bytes
  units : Nat                  -- 0 micro, 1 nano, 2 angstrom, 3 pico
  cells : List Cell
  deriving Repr, DecidableEq

def inI32 (v : Int) : Bool := decide (-2147483648 ≤ v) && decide (v ≤ 2147483647)

/-- Rust `/` on signed integers truncates toward zero -/
def half (v : Int) : Int := Int.tdiv v 2

def ptXY (p : Pt) : List Int := [p.x, p.y]

/-- `PlaceLabels::label_location` -/
def labelLocation : Shape → Out Pt
  | .rect p0 p1 => .ok ⟨half (p0.x + p1.x), half (p0.y + p1.y)⟩
  | .path (a :: b :: _) _ => .ok ⟨half (a.x + b.x), half (a.y + b.y)⟩
  | .path _ _ => .err                                   -- (indexing points[1]: outside the supported shapes)
  | .polygon pts =>
    match pts with
    | [] => .err
    | p0 :: _ =>
      let c : Pt := ⟨half (minX pts + maxX pts), half (minY pts + maxY pts)⟩
      if polyContains pts c then .ok c
      else
        let cands : List Pt := [⟨p0.x, p0.y - 1⟩, ⟨p0.x - 1, p0.y⟩, ⟨p0.x, p0.y + 1⟩, ⟨p0.x + 1, p0.y⟩]
        match cands.find? (fun q => polyContains pts q) with
        | some q => .ok q
        | none => .err

/-- label text is rotated by 90° on shapes taller than wide (rectangles only) -/
def labelVertical : Shape → Bool
  | .rect p0 p1 => decide ((p1.x - p0.x).natAbs < (p1.y - p0.y).natAbs)
  | _ => false

def noCommon : Common := ⟨none, none, []⟩

def pointsOk (ps : List Pt) : Bool := ps.all (fun p => inI32 p.x && inI32 p.y)

/-- `export_shape` -/
def exportShape (layer dt : Int) : Shape → Out Gds.Elem
  | .rect p0 p1 =>
    if pointsOk [p0, p1] then
      .ok (.boundary layer dt [p0.x, p0.y, p1.x, p0.y, p1.x, p1.y, p0.x, p1.y, p0.x, p0.y] noCommon)
    else .err
  | .polygon pts =>
    match pts with
    | [] => .err                                         -- (indexing points[0])
    | p0 :: _ => if pointsOk pts then .ok (.boundary layer dt ((pts ++ [p0]).flatMap ptXY) noCommon) else .err
  | .path pts w =>
    if pointsOk pts && decide ((w : Int) ≤ 2147483647) then
      .ok (.path layer dt (pts.flatMap ptXY) (some (w : Int)) none none none noCommon)
    else .err

/-- 90.0 as a double -/
def f64_90 : Nat := 0x4056800000000000

/-- label purpose number of each layer: rows (layer number, Label purpose number?) -/
abbrev LabelTbl := List (Int × Option Int)

/-- `export_element`: the shape, plus a text label inside it when the element carries a net -/
def exportElem (tbl : LabelTbl) (e : Elem) : Out (List Gds.Elem) :=
  match exportShape e.layer e.purpose e.shape with
  | .err => .err
  | .ok g =>
    match e.net with
    | none => .ok [g]
    | some n =>
      match (tbl.find? (fun r => r.1 == e.layer)).bind (·.2), labelLocation e.shape with
      | some lp, .ok loc =>
        if inI32 loc.x && inI32 loc.y then
          let st : Option Strans := if labelVertical e.shape then some ⟨false, false, false, none, some f64_90⟩ else none
          .ok [g, .text n e.layer lp [loc.x, loc.y] none none none st noCommon]
        else .err
      | _, _ => .err

def exportElems (tbl : LabelTbl) : List Elem → Out (List Gds.Elem)
  | [] => .ok []
  | e :: rest => match exportElem tbl e, exportElems tbl rest with
    | .ok a, .ok b => .ok (a ++ b)
    | _, _ => .err

/-- `export_instance` -/
def exportInst (i : Inst) : Out Gds.Elem :=
  if inI32 i.loc.x && inI32 i.loc.y then
    let st : Option Strans := if i.refl || i.angle.isSome then some ⟨i.refl, false, false, none, i.angle⟩ else none
    .ok (.sref i.cell [i.loc.x, i.loc.y] st noCommon)
  else .err

def exportInsts : List Inst → Out (List Gds.Elem)
  | [] => .ok []
  | i :: rest => match exportInst i, exportInsts rest with
    | .ok a, .ok b => .ok (a :: b)
    | _, _ => .err

def zeroDates : List Int := List.replicate 12 0

def exportCell (tbl : LabelTbl) (c : Cell) : Out Gds.Struct :=
  match exportInsts c.insts, exportElems tbl c.elems with
  | .ok is, .ok es => .ok ⟨c.name, zeroDates, is ++ es⟩
  | _, _ => .err

def exportCells (tbl : LabelTbl) : List Cell → Out (List Gds.Struct)
  | [] => .ok []
  | c :: rest => match exportCell tbl c, exportCells tbl rest with
    | .ok a, .ok b => .ok (a :: b)
    | _, _ => .err

/-- (user unit, database unit) doubles written for each raw unit -/
def unitBits : Nat → Nat × Nat
  | 0 => (0x3ff0000000000000, 0x3eb0c6f7a0b5ed8d)      -- 1.0,  1e-6
  | 1 => (0x3f50624dd2f1a9fc, 0x3e112e0be826d695)      -- 1e-3, 1e-9
  | 2 => (0x3f1a36e2eb1c432d, 0x3ddb7cdfd9d7bdbb)      -- 1e-4, 1e-10
  | _ => (0x3eb0c6f7a0b5ed8d, 0x3d719799812dea11)      -- 1e-6, 1e-12

/-- `GdsExporter::export` (cells in listing order; version 3) -/
def exportLib (tbl : LabelTbl) (l : Lib) : Out Gds.Library :=
  match exportCells tbl l.cells with
  | .ok ss => .ok ⟨l.name, 3, zeroDates, unitBits l.units, ss⟩
  | .err => .err

/-! ### import -/

def pairUp : List Int → List Pt
  | x :: y :: rest => ⟨x, y⟩ :: pairUp rest
  | _ => []

/-- rectangle detection on a closed boundary's four distinct corners -/
def boundaryShape (pts : List Pt) : Shape :=
  match pts with
  | [a, b, c, d] =>
    if (a.x = b.x ∧ b.y = c.y ∧ c.x = d.x ∧ d.y = a.y) ∨ (a.y = b.y ∧ b.x = c.x ∧ c.y = d.y ∧ d.x = a.x)
    then .rect a c else .polygon pts
  | _ => .polygon pts

def inI16 (v : Int) : Bool := decide (-32768 ≤ v) && decide (v ≤ 32767)

/-- `import_instance` / `import_instance_array`; `known` = struct names already imported -/
def importStrans (st : Option Strans) (array : Bool) : Out (Bool × Option Nat) :=
  match st with
  | none => .ok (false, none)
  | some s =>
    if s.absMag || s.absAngle then .err
    else if array && s.mag.isSome then .err
    -- instances have no scale: a magnified reference is refused (fix ab87cd1); MAG 1.0 is the identity
    else if s.mag.isSome && s.mag != some 0x3ff0000000000000 then .err
    else .ok (s.reflected, s.angle)

def arrayInsts (cname : Bytes) (p0 : Pt) (cols rows colx coly rowx rowy : Int) (refl : Bool) (angle : Option Nat) : List Inst :=
  (List.range cols.toNat).flatMap (fun (ix : Nat) =>
    (List.range rows.toNat).map (fun (iy : Nat) =>
      let name : Bytes := cname ++ [91] ++ (toString ix).toUTF8.toList.map (·.toNat) ++ [93, 91] ++ (toString iy).toUTF8.toList.map (·.toNat) ++ [93]
      ⟨name, cname, ⟨p0.x + (ix : Int) * colx + (iy : Int) * rowx, p0.y + (ix : Int) * coly + (iy : Int) * rowy⟩, refl, angle⟩))

/-- first pass over a struct's elements: instances, shapes, texts (in element order) -/
structure Pass1 where
  insts : List Inst := []
  elems : List Elem := []
  texts : List (Bytes × Int × Pt) := []      -- string, layer, location

def importElem (known : List Bytes) (acc : Pass1) : Gds.Elem → Out Pass1
  | .boundary layer dt xy _ =>
    let pts := pairUp xy
    match pts, pts.getLast? with
    | p0 :: _, some pl =>
      if p0 ≠ pl then .err else
      .ok { acc with elems := acc.elems ++ [⟨none, layer, dt, boundaryShape pts.dropLast⟩] }
    | _, _ => .err
  | .path layer dt xy width _ _ _ _ =>
    match width with
    | none => .err
    | some w => if w < 0 then .err else
      .ok { acc with elems := acc.elems ++ [⟨none, layer, dt, .path (pairUp xy) w.toNat⟩] }
  | .box layer bt xy _ =>
    match pairUp xy with
    | [a, _, c, _, _] => .ok { acc with elems := acc.elems ++ [⟨none, layer, bt, .rect a c⟩] }
    | _ => .err
  | .sref name xy st _ =>
    if !known.contains name then .err else
    match pairUp xy, importStrans st false with
    | [loc], .ok (refl, ang) => .ok { acc with insts := acc.insts ++ [⟨[], name, loc, refl, ang⟩] }
    | _, _ => .err
  | .aref name xy cols rows st _ =>
    if !known.contains name then .err else
    match pairUp xy with
    | [p0, p1, p2] =>
      if cols ≤ 0 ∨ rows ≤ 0 then .err else
      let (colx, coly, rowx, rowy) := (p1.x - p0.x, p1.y - p0.y, p2.x - p0.x, p2.y - p0.y)
      if Int.tmod colx cols ≠ 0 ∨ Int.tmod coly cols ≠ 0 ∨ Int.tmod rowx rows ≠ 0 ∨ Int.tmod rowy rows ≠ 0 then .err else
      match importStrans st true with
      | .ok (refl, ang) =>
        .ok { acc with insts := acc.insts ++ arrayInsts name p0 cols rows (Int.tdiv colx cols) (Int.tdiv coly cols) (Int.tdiv rowx rows) (Int.tdiv rowy rows) refl ang }
      | .err => .err
    | _ => .err
  | .text s layer _ xy _ _ _ _ _ =>
    match pairUp xy with
    | [loc] => .ok { acc with texts := acc.texts ++ [(s, layer, loc)] }
    | _ => .err
  | .node _ _ _ _ => .ok acc                              -- unsupported, ignored

def importElemsP1 (known : List Bytes) : Pass1 → List Gds.Elem → Out Pass1
  | acc, [] => .ok acc
  | acc, e :: rest => match importElem known acc e with
    | .ok a => importElemsP1 known a rest
    | .err => .err

def shapeContains (s : Shape) (p : Pt) : Bool :=
  match s with
  | .rect a b => rectContains a b p
  | .polygon pts => polyContains pts p
  | .path pts w => match pathContains pts w p with
    | Geom.Out.ok b => b
    | Geom.Out.panic => false

/-- ASCII lower-casing (the harness only sends ASCII net names; `to_lowercase` is Unicode-aware) -/
def lowerAscii (s : Bytes) : Bytes := s.map (fun b => if 65 ≤ b ∧ b ≤ 90 then b + 32 else b)

/-- second pass: a label inside shapes of its layer names them (first name wins), else it is an annotation -/
def applyText (elems : List Elem) (annots : List (Bytes × Pt)) (t : Bytes × Int × Pt) : List Elem × List (Bytes × Pt) :=
  let (s, layer, loc) := t
  let hit := elems.any (fun e => e.layer == layer && shapeContains e.shape loc)
  if hit then
    (elems.map (fun e => if e.layer == layer && shapeContains e.shape loc && e.net.isNone then { e with net := some (lowerAscii s) } else e), annots)
  else (elems, annots ++ [(s, loc)])

def importStruct (known : List Bytes) (s : Gds.Struct) : Out Cell :=
  match importElemsP1 known {} s.elems with
  | .err => .err
  | .ok p1 =>
    let (elems, annots) := p1.texts.foldl (fun acc t => applyText acc.1 acc.2 t) (p1.elems, [])
    .ok ⟨s.name, p1.insts, elems, annots⟩

def importStructs (known : List Bytes) : List Gds.Struct → Out (List Cell)
  | [] => .ok []
  | s :: rest =>
    if known.contains s.name then importStructs known rest          -- `import_and_add`: already defined
    else match importStruct known s with
      | .err => .err
      | .ok c => match importStructs (s.name :: known) rest with
        | .ok more => .ok (c :: more)
        | .err => .err

/-- the unit doubles the importer recognises exactly (the harness sends only these or clearly different values) -/
def importUnits (db : Nat) : Option Nat :=
  if db = 0x3eb0c6f7a0b5ed8d then some 0 else if db = 0x3e112e0be826d695 then some 1
  else if db = 0x3ddb7cdfd9d7bdbb then some 2 else if db = 0x3d719799812dea11 then some 3 else none

def structIndex (ss : List Gds.Struct) (n : Bytes) : Nat := (ss.findIdx? (fun s => s.name == n)).getD ss.length

def refsOf (e : Gds.Elem) : List Bytes :=
  match e with
  | .sref n _ _ _ => [n]
  | .aref n _ _ _ _ _ => [n]
  | _ => []

/-- `GdsImporter::import`: dependency order (C17 model; dangling names are errors), then struct by struct -/
def importLib (g : Gds.Library) : Out Lib :=
  match importUnits g.units.2 with
  | none => .err
  | some u =>
    let names := g.structs.map (·.name)
    -- the name → struct map keeps the LAST struct of a name; references resolve to it
    let lastIdx (n : Bytes) : Nat := g.structs.length - 1 - structIndex g.structs.reverse n
    if g.structs.any (fun s => s.elems.any (fun e => (refsOf e).any (fun n => !names.contains n))) then .err else
    let adj (i : Nat) : List Nat := match g.structs[i]? with
      | some s => s.elems.flatMap (fun e => (refsOf e).map lastIdx)
      | none => []
    -- `seen` is keyed by NAME: a struct whose name was already ordered is skipped
    match Dep.order adj (g.structs.length + 1) (List.range g.structs.length) with
    | .ok order =>
      (match importStructs [] (order.filterMap (fun i => g.structs[i]?)) with
       | .ok cs => .ok ⟨g.name, u, cs⟩
       | .err => .err)
    | _ => .err

end L21.RawGds
