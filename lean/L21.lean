-- Root of the `L21` library: models, specs, proofs and property theorems.
import L21.Model.GdsFloat
