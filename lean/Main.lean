import L21.Driver.Ops
open L21.Driver

partial def loop (h : IO.FS.Stream) (out : IO.FS.Stream) : IO Unit := do
  let line ← h.getLine
  if line.isEmpty then return ()
  let t := line.trimAscii.toString
  if t.isEmpty || t.startsWith "#" then
    out.putStrLn "skip"
  else
    out.putStrLn (stepLine t)
  loop h out

def main : IO Unit := do
  let stdin ← IO.getStdin
  let stdout ← IO.getStdout
  loop stdin stdout
  stdout.flush
