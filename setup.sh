#!/bin/bash
# Offline build of the framework from files on disk: Rust harness (against /repo) and all Lean targets.
set -e
cd "$(dirname "$0")"
mkdir -p .work evidence
cp /repo/Cargo.lock harness/Cargo.lock 2>/dev/null || true
(cd harness && CARGO_NET_OFFLINE=true cargo build --offline --quiet)
(cd lean && lake build L21 driver)
echo setup-ok
